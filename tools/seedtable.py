#!/usr/bin/env python3
"""Renders the table of DESIGN.md 9.7 from seeded/*/meta.json (stdout, markdown)."""
import glob, json, os, re
rows = []
for p in sorted(glob.glob("/verif/seeded/C*/meta.json")):
    m = json.load(open(p))
    c = m.get("confirmed", {})
    ok = all(c.get(k) for k in ("applies", "compiles", "baseline_passes", "demo_fails_with_change", "demo_passes_without_change"))
    chk = m.get("check", {})
    sub = ""
    for l in chk.get("lines") or []:
        mm = re.match(r"\s+sub-run ([\w-]+?)-\d+:", l)
        if mm:
            sub = mm.group(1)
            break
    summ = (m.get("summary") or "").replace("|", "/").replace("\n", " ")
    if len(summ) > 150:
        summ = summ[:147] + "..."
    det = "**yes**" if chk.get("detected") else "**no**"
    alt = m.get("also_checked_with")
    if alt and not chk.get("detected"):
        det = "no; **yes** by %s" % alt["property"] if alt.get("detected") else "**no** (nor by %s)" % alt["property"]
    note = m.get("note", "")
    if note:
        note = note.split(";")[0].split(". ")[0]
        if len(note) > 160:
            note = note[:157] + "..."
    rows.append("| %s | %s | %s | %s | %s%s | %s |" % (m["id"], ", ".join(m.get("files_changed") or [])[:60], summ, "yes" if ok else "NO: %s" % {k: v for k, v in c.items() if not v},
                det, (" (`%s`, %ss)" % (sub, chk.get("wall_s")) if sub else ""), note))
print("| id | file(s) | change | confirmed (applies, builds, baseline green, demo fails with / passes without) | caught by the quick tier | note |")
print("|---|---|---|---|---|---|")
print("\n".join(rows))
n = len(rows)
d = sum(1 for r in rows if "| **yes**" in r)
d2 = sum(1 for r in rows if "**yes** by" in r)
print("\n%d of %d caught by the quick tier of the property's own check on the current tree, %d more by the quick tier of another property's check." % (d, n, d2))
