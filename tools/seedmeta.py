#!/usr/bin/env python3
"""tools/seedmeta.py [ids...] [-j N] [--tier quick]
Re-confirms every independently seeded change under /verif/seeded/<id>/ against the CURRENT /repo HEAD and
the CURRENT checks (tools/seedeval.py: scratch worktree, git apply, build, baseline leaf packages, the
agent's demonstration with and without the change, ./check <property> with VERIF_REPO) and writes
<id>/meta.json = what the change is (agent_meta.json), what it needs to manifest, what was run and what
came out. A change whose patch no longer applies to HEAD is applied with `git apply -3` first; if that
fails too it is reported as such. Nothing here touches /repo's working tree or history."""
import argparse, concurrent.futures, glob, json, os, re, subprocess, sys

ROOT = "/verif/seeded"
# how a miss was closed (written by hand while strengthening the checks; the evaluation below is mechanical)
NOTES = {
    "C07b": "first evaluation missed it; caught after the expiry scenario macro (create, expire, read-modify-write within the expiry window) was added to the C07 generator",
    "C09b": "first evaluation missed it (C09 ran the versioned wait_compact layout only); caught after the policy became a drawn parameter (local_deletion is the production default)",
    "C11a": "caught; the first evaluation was cut short by a terminated check process, not by the check",
    "C11b": "the first evaluation's 'detected' was a timing artefact (flaky failure), a real miss: the change bites only for an argument that contains one exact phrase. Caught since the mutation generator draws from a dictionary harvested from the tree under test (string literals its non-test code compares text against, plus message tails), placed preferably where a number is expected",
    "C14c": "first evaluation missed it (the receiving store never had a checkpoint of its own under the same term-index name); caught after that was added to the restore-on-another-store step",
    "C14d": "first evaluation missed it (the check waited for the end of a backup before writing on); caught after writes between the frozen signal (WaitReady) and the end of the backup were added, as the node's apply loop produces them",
    "C19c": "first evaluation missed it (snapshot object and its serialisation were back to back); caught after a delivery may come between the two, as the apply loop allows",
    "C12d": "not a cross-key defect: a range bounded by the empty member covers the whole set (within one key). C12's frame check works at key granularity and does not see it; C08's model check does (quick tier)",
    "C04d": "not reachable by process-level histories (a sub-millisecond window plus a second fault) and invisible to lib/raftsim, which re-implements processReady's step order. Caught since C03 has the sub-run ready_order: generated Ready values through the REAL raftNode.processReady with a recording WAL and transport",
    "C04c": "first evaluation missed it (no DEL in the histories); caught after DEL and HSET (commands that join the engine write batch of an apply batch) were added to the pending-table state machine (sub-run waiters)",
    "C12c": "first evaluation missed it twice: collections above 5000 elements were never built (added: big_collection mode), and the check ran the versioned data layout only (added: the expiry policy is drawn; the change bites under local_deletion, the production default)",
    "C08c": "first evaluation missed it; caught after whole-range by-score queries with LIMIT offset / negative count were added to the grammar",
    "C15d": "first evaluation missed it (the server always hosted all or all but one partition); caught after any non-empty subset of partitions can be hosted, down to exactly one of many",
    "C07c": "first evaluation missed it; caught after a plan may restart the replica from a checkpoint in the middle of the log (which also exposed the known finding C07-kv-commands-on-hll-key-depend-on-cache-flush)",
    "C05c": "first evaluation missed it; caught after the generator got the macro 'snapshot marker, then a Save that carries only a hard state' (and saves sized to end near the segment boundary)",
    "C11e": "a reply defect of the apply batch (responses of an aborted batch leak into the next one); C11's check works without apply batches. Caught by C04's pending-table state machine once it modelled the batch semantics (batchable writes, abort on an apply-time refusal)",
    "C11f": "an apply-path panic that needs two proposals to pass the leader's pre-check before either is applied; C11 runs one command at a time. Caught by C07 and C09, which apply multi-entry logs / batches",
    "C07e": "engine dependence of a range delete with more than 5000 elements; C07's logs never build that many. Caught by the engine differential C20 (quick tier)",
    "C07f": "first evaluation missed it everywhere; caught by C04's pending-table state machine after an HMSET whose second value is over the size limit was added (the first pair must not survive the refusal)",
    "C12f": "a reverse sub-key scan that leaves its collection; C12's frame check does not scan. Caught by C13 (the scan does not terminate / pages differ)",
    "C12e": "first evaluation missed it: C12's codec sub-run skipped the order comparison for pairs that differ in the sign of a zero (a tolerance the unchanged code never needed: -0 and 0 are the same number and encode to the same bytes). Caught after the tolerance was removed and -0 put in the float pool; at command level -0 is generated by C08 since (known finding C08-negative-zero-score-sign: ZSCORE answers -0, ZRANGE WITHSCORES answers 0)",
    "C06e": "a torn tail makes ValidSnapshotEntries fail although ReadAll + Repair can read the log; process kills rarely tear a record (the page cache survives). Caught by C05 after it required that ValidSnapshotEntries does not fail on an image the rest of the restart sequence reads back",
    "C08f": "needs a list above 5000 elements, LCLEAR, and a rebuild at least as long; C08's sequences are short. Caught by C12's big-collection mode after 'clear, then build again a little longer' was added",
    "C05e": "NOT caught, and not reachable by a history production can produce: the lost hard state is only missed when the log is opened at a marker in the new segment, i.e. at an index the saved hard states have not committed yet; production opens at markers ValidSnapshotEntries returns, which are at or below the committed index, and a commit beyond the cut writes a hard state into the new segment. The generator is kept sound rather than widened",
    "C19e": "first evaluation missed it (the remote-snapshot hand-over was not driven at all). Caught after the replay sub-run got the step 'the sender announces a snapshot of X, the transfer is a no-op (ignore_remote_file_sync), the restore finds no files and fails': the synced position must not move and the status must not read applied. The successful restore (rsync between clusters) is still not driven",
    "C15e": "first evaluation missed it (partition counts 1,2,3,4,8 only, and the server's formula was copied, not called); caught after the routing sub-run draws counts up to 1024 and asks the real NamespaceMgr",
    "C19f": "first evaluation missed it; caught after deliveries addressed to a raft group that is not loaded on the node were added (they must not be acknowledged)",
    "C04f": "first evaluation missed it; caught by the pending-table state machine after it modelled the batch semantics",
    "C16e": "first evaluation missed it: C16 drove the stream codecs only, not the stream writer in front of them (stream.go is among the property's anchors). Caught after the sub-run stream was added: the real streamWriter over an in-memory connection with a backlog around its flush-batch limit queued before the connection is attached (hook rafthttp.VerifStreamWriterRun)",
    "C15a": "first evaluation missed it; caught after the routing sub-run got a namespace life cycle step (an earlier creation of the same name with another partition count that fails while opening its store)",
    "C16b": "first evaluation missed it; caught after truncation cuts at every field boundary of large messages were added",
    "C19b": "first evaluation missed it (only the receiver was driven); caught by the new sender sub-run: the real logSyncerSM + RemoteLogSender over loopback gRPC in front of the real receiver",
    "C20a": "first evaluation missed it; caught after the differential renders keys and values after the iteration and Close (use-after-free of iterator buffers)",
    "C06a": "first evaluation missed it (no HyperLogLog writes in the histories); caught after PFADD on dedicated keys with an exact-count model was added",
    "C06b": "first evaluation missed it (optimized_fsync was off); caught after the namespace option became a drawn parameter",
    "C04a": "missed by both tiers of the process-level histories: the change leaves the request id of a failed proposal registered and bites only when the pooled wait object of that proposal has been handed to another request that is in flight at the instant the old entry is applied. The histories were extended towards it (all followers descheduled beyond the 4 s proposal deadline, apply-loop stalls through the crash-point hook, clients that keep their connection after an error reply) and now produce failed proposals that commit later in every other history, but sync.Pool hands the released object to the request after next, so no victim was in flight in 330+16 histories. Caught since the pending request table is checked as a state machine of its own (sub-run waiters: propose / cancel / drop / commit on the real KVNode proposal path behind a schedule-owning fake raft), in the first case",
}


# a change filed under one property by its author but caught by another property's check: that check is run as well
ALT = {"C12d": "C08", "C04d": "C03", "C11e": "C04", "C11f": "C07", "C07e": "C20", "C07f": "C04", "C12f": "C13", "C06e": "C05", "C08f": "C12"}


def demo_cmd(d):
    fs = [f for f in glob.glob(os.path.join(d, "demo_files", "**", "*.go"), recursive=True)]
    if not fs:
        return None
    pkgs = sorted({os.path.relpath(os.path.dirname(f), os.path.join(d, "demo_files")) for f in fs})
    tests = []
    for f in fs:
        tests += re.findall(r"^func (Test\w+)\(", open(f, errors="replace").read(), re.M)
    if not tests or len(pkgs) != 1:
        return None
    return "/verif/tools/repotest.sh -C . test -count=1 -timeout 20m -run '^(%s)$' ./%s/" % ("|".join(sorted(set(tests))), pkgs[0])


def one(sid, tier):
    d = os.path.join(ROOT, sid)
    prop = sid[:3]
    am = {}
    if os.path.exists(os.path.join(d, "agent_meta.json")):
        try:
            am = json.load(open(os.path.join(d, "agent_meta.json")))
        except Exception:
            pass
    cmd = ["/verif/tools/seedeval.py", d, prop, "--tier", tier]
    dc = demo_cmd(d)
    if dc:
        cmd += ["--demo", dc]
    r = subprocess.run(cmd, stdout=subprocess.PIPE, stderr=subprocess.PIPE)
    try:
        ev = json.loads(r.stdout.decode())
    except Exception:
        ev = {"error": (r.stdout.decode() + r.stderr.decode())[-1500:]}
    json.dump(ev, open(os.path.join(d, "eval.json"), "w"), indent=1)
    meta = {
        "id": sid,
        "property": prop,
        "origin": "fresh sub-agent that was given only the text of the property and its own scratch git worktree of /repo (nothing from /verif)",
        "summary": am.get("summary"),
        "mechanism": am.get("mechanism"),
        "needs_to_manifest": am.get("needs_to_manifest"),
        "files_changed": am.get("files_changed"),
        "demonstration": {"files": sorted(os.path.relpath(f, d) for f in glob.glob(os.path.join(d, "demo_files", "**", "*.go"), recursive=True)),
                          "command_inside_the_tree": dc, "agent_notes": "RUN.txt"},
        "what_was_run": [
            "git -C /repo worktree add --detach <scratch under /dev/shm> HEAD ; git apply patch.diff",
            "tools/repotest.sh -C <scratch> build ./...   (whole repository with the patched rocksdb binding)",
            "go test -mod=mod -vet=off -count=1 ./common/... ./internal/... ./metric/... ./pkg/... ./settings/... ./slow/...   (the baseline's packages)",
            "the demonstration with the change, then with the change reverted (git apply -R)",
            "VERIF_REPO=<scratch> ./check %s --tier %s ; git worktree remove --force <scratch>" % (prop, tier),
        ],
        "confirmed": {k: ev.get(k) for k in ("applies", "compiles", "baseline_passes", "demo_fails_with_change", "demo_passes_without_change")},
        "repo_head": subprocess.check_output(["git", "-C", "/repo", "rev-parse", "--short", "HEAD"]).decode().strip(),
        "check": {"command": ev.get("check_cmd"), "exit": ev.get("check_exit"), "wall_s": ev.get("check_wall_s"),
                  "detected": ev.get("detected"), "lines": ev.get("check_lines")},
    }
    if sid in ALT and not ev.get("detected"):
        r2 = subprocess.run(["/verif/tools/seedeval.py", d, ALT[sid], "--tier", tier, "--skip-baseline"], stdout=subprocess.PIPE, stderr=subprocess.PIPE)
        try:
            e2 = json.loads(r2.stdout.decode())
        except Exception:
            e2 = {"error": (r2.stdout.decode() + r2.stderr.decode())[-800:]}
        meta["also_checked_with"] = {"property": ALT[sid], "command": e2.get("check_cmd"), "exit": e2.get("check_exit"), "detected": e2.get("detected"), "lines": e2.get("check_lines")}
    if sid in NOTES:
        meta["note"] = NOTES[sid]
    json.dump(meta, open(os.path.join(d, "meta.json"), "w"), indent=1, ensure_ascii=False)
    open(os.path.join(d, "meta.json"), "a").write("\n")
    return sid, ev.get("applies"), ev.get("compiles"), ev.get("baseline_passes"), ev.get("demo_fails_with_change"), ev.get("demo_passes_without_change"), ev.get("detected"), ev.get("check_exit")


def main():
    ap = argparse.ArgumentParser()
    ap.add_argument("ids", nargs="*")
    ap.add_argument("-j", type=int, default=2)
    ap.add_argument("--tier", default="quick")
    a = ap.parse_args()
    ids = a.ids or sorted(os.path.basename(p) for p in glob.glob(os.path.join(ROOT, "C*")))
    with concurrent.futures.ThreadPoolExecutor(max_workers=a.j) as ex:
        for r in ex.map(lambda s: one(s, a.tier), ids):
            print("%s applies=%s compiles=%s baseline=%s demo_fails=%s demo_passes_clean=%s DETECTED=%s exit=%s" % r, flush=True)


if __name__ == "__main__":
    main()
