#!/bin/bash
# tools/mutant.sh <name> <patch-file|-e 'sed-expr' file> -- <check args...>
# Copies /repo's working tree (without .git) to /dev/shm, applies a mutation, runs
# ./check against it with VERIF_REPO, prints the result, removes the copy.
set -uo pipefail
NAME=$1; shift
D=/dev/shm/mut-$NAME-$$
mkdir -p $D && rsync -a --exclude .git --exclude mkdocs-material /repo/ $D/
if [ "$1" = "-e" ]; then
  sed -i -E "$2" "$D/$3" || { echo "sed failed"; rm -rf $D; exit 3; }
  if diff -q "$D/$3" "/repo/$3" >/dev/null; then echo "MUTANT $NAME: sed changed nothing"; rm -rf $D; exit 3; fi
  shift 3
else
  (cd $D && patch -s -p1 < "$1") || { echo "patch failed"; rm -rf $D; exit 3; }
  shift 1
fi
[ "$1" = "--" ] && shift
(cd $D && diff -ru /repo/ $D/ -x .git -x mkdocs-material | grep -E '^[-+][^-+]' | head -8)
cd /verif && VERIF_REPO=$D ./check "$@" 2>&1 | grep -E "VIOLATION|KNOWN-FINDING|INCONCLUSIVE|HARNESS|sub-run|evaluations=" | head -12
rc=${PIPESTATUS[0]}
echo "MUTANT $NAME rc=$rc"
rm -rf $D
exit $rc
