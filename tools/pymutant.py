#!/usr/bin/env python3
"""tools/pymutant.py <name> <file-in-repo> <old-text-file> <new-text-file> -- <check args>
Multi-line mutant helper: copies /repo to /dev/shm, replaces the first occurrence of old by new
in the file, runs ./check against the copy (VERIF_REPO), prints the verdict lines, removes the copy."""
import subprocess, os, shutil, sys
def mutant(name, fn, old, new, check):
    d = '/dev/shm/mut-%s-%d' % (name, os.getpid())
    shutil.rmtree(d, ignore_errors=True)
    subprocess.check_call(['rsync', '-a', '--exclude', '.git', '--exclude', 'mkdocs-material', '/repo/', d + '/'])
    try:
        p = os.path.join(d, fn)
        s = open(p).read()
        if s.count(old) < 1:
            print('MUTANT', name, 'pattern not found')
            return 3
        open(p, 'w').write(s.replace(old, new, 1))
        r = subprocess.run(['./check'] + check, cwd='/verif', env=dict(os.environ, VERIF_REPO=d), stdout=subprocess.PIPE, stderr=subprocess.STDOUT)
        out = r.stdout.decode(errors='replace')
        lines = [l for l in out.splitlines() if l.startswith(('VIOLATION', '  sub-run', 'INCONCLUSIVE', 'KNOWN')) or 'evaluations=' in l or 'HARNESS' in l]
        print('MUTANT', name, 'rc=', r.returncode)
        print('\n'.join(l[:300] for l in lines[:6]))
        return r.returncode
    finally:
        shutil.rmtree(d, ignore_errors=True)
if __name__ == '__main__':
    i = sys.argv.index('--')
    name, fn, oldf, newf = sys.argv[1:5]
    sys.exit(mutant(name, fn, open(oldf).read(), open(newf).read(), sys.argv[i + 1:]))
