#!/usr/bin/env python3
"""Regenerates /verif/MANIFEST.json from checks_table.py and manifest_text.py."""
import json, os, sys, subprocess
ROOT = os.path.dirname(os.path.dirname(os.path.abspath(__file__)))
sys.path.insert(0, ROOT)
from checks_table import CHECKS
from checks_table import TEXT
from manifest_text import NOT_APPLICABLE, ENGINES

props = [json.loads(l)["id"] for l in open(os.path.join(ROOT, "properties.jsonl"))]
hooks = subprocess.run(["git", "-C", "/repo", "log", "--format=%h %s", "1d61b08..HEAD"], stdout=subprocess.PIPE).stdout.decode().splitlines()
hook_commits = [l.split()[0] for l in hooks if l.split(" ", 1)[1].startswith("verif hook")]
checks = []
for pid in props:
    if pid not in CHECKS or pid not in TEXT:
        continue
    t = TEXT[pid]
    c = dict(property_id=pid,
             quick_cmd="./check %s --tier quick" % pid,
             evidence_file="/verif/evidence/%s.json" % pid,
             replay_cmd_template="./check %s --replay {path}" % pid,
             engine=t["engine"],
             level_claimed=dict(category=CHECKS[pid]["level"], text=t["level_text"], design_ref=t["design_ref"]),
             level_note=t["level_note"], technique=t["technique"])
    if CHECKS[pid].get("thorough"):
        c["thorough_cmd"] = "./check %s --tier thorough" % pid
    checks.append(c)
na = [dict(property_id=p, reason=NOT_APPLICABLE.get(p, "no check registered yet for this property in the committed state; see DESIGN.md")) for p in props if p not in [c["property_id"] for c in checks]]
m = dict(version=1,
         setup_cmd="./setup.sh",
         hooks=dict(guard="verif", enable="go build tag: every check compiles /repo with `-tags verif` through the harness module (replace github.com/youzan/ZanRedisDB => /repo)",
                    baseline_off_cmd="cd /repo && go test -mod=mod -json -vet=off -count=1 -timeout 25m ./...",
                    source_commits=hook_commits, add_only=True),
         engines=ENGINES, checks=checks, not_applicable=na,
         notes="Property-based testing / fuzzing only (rapid v1.3.0 + native go fuzz). Exit codes of ./check: 0 held, 1 violation (VIOLATION line), 2 inconclusive (could not run; never reported as violation). VERIF_SEED selects the rapid seeds; VERIF_REPO may point the harness at another tree. known_findings.json lists repaired (fixed:) and recorded defects.")
json.dump(m, open(os.path.join(ROOT, "MANIFEST.json"), "w"), indent=1)
print("wrote MANIFEST.json with", len(checks), "checks,", len(na), "not_applicable")
