#!/usr/bin/env python3
"""tools/seedeval.py <seed-dir> <property> [--tier quick|thorough] [--only regex] [--demo 'cmd run inside tree']
Evaluates an independently produced breaking change: <seed-dir> holds patch.diff (+ demo files, meta.json).
 1. fresh scratch worktree of /repo HEAD under /dev/shm, `git apply patch.diff`
 2. whole repository builds (patched binding), baseline leaf-package tests pass
 3. optional demo command: must FAIL with the patch and PASS without it (demo files are copied from
    <seed-dir>/demo_files/<relative path> into the tree first, if that directory exists)
 4. ./check <property> against the patched tree (VERIF_REPO): must exit 1 with a VIOLATION line
Prints a JSON summary; removes the worktree."""
import argparse, json, os, shutil, subprocess, sys, time
ap = argparse.ArgumentParser()
ap.add_argument("seed"); ap.add_argument("prop"); ap.add_argument("--tier", default="quick"); ap.add_argument("--only")
ap.add_argument("--demo"); ap.add_argument("--skip-baseline", action="store_true")
a = ap.parse_args()
seed = os.path.abspath(a.seed)
scratch = "/dev/shm/seedeval-%s-%d" % (a.prop, os.getpid())
# everything the builds, the baseline tests and the demonstration leave in the temp directory goes away with the evaluation
tmpdir = scratch + "-tmp"
os.makedirs(tmpdir, exist_ok=True)
env = dict(os.environ, GOFLAGS="-mod=mod", GOPROXY="off", GOSUMDB="off", GOTOOLCHAIN="local", CGO_ENABLED="1", TMPDIR=tmpdir)
def sh(cmd, cwd=None, timeout=3600):
    r = subprocess.run(cmd, shell=True, cwd=cwd, env=env, stdout=subprocess.PIPE, stderr=subprocess.STDOUT, timeout=timeout)
    return r.returncode, r.stdout.decode(errors="replace")
res = dict(seed=seed, property=a.prop)
subprocess.check_call(["git", "-C", "/repo", "worktree", "add", "-q", "--detach", scratch, "HEAD"])
try:
    rc, out = sh("git apply --whitespace=nowarn %s/patch.diff" % seed, cwd=scratch)
    if rc != 0:
        # HEAD has moved on since the change was made (later fix: commits): three-way merge of the hunks
        rc, out2 = sh("git apply -3 --whitespace=nowarn %s/patch.diff && git reset -q" % seed, cwd=scratch)
        res["applied_three_way"] = rc == 0
        out += out2
    res["applies"] = rc == 0
    if rc != 0:
        res["apply_output"] = out[-800:]
        print(json.dumps(res, indent=1)); sys.exit(3)
    rc, out = sh("/verif/tools/repotest.sh -C %s build ./..." % scratch)
    res["compiles"] = rc == 0
    if rc != 0:
        res["build_output"] = out[-800:]
    if not a.skip_baseline:
        rc, out = sh("go test -mod=mod -vet=off -count=1 ./common/... ./internal/... ./metric/... ./pkg/... ./settings/... ./slow/... 2>&1 | grep -v '^ok\\|no test files' | tail -5", cwd=scratch)
        res["baseline_passes"] = "FAIL" not in out
        if "FAIL" in out:
            res["baseline_output"] = out[-800:]
    if a.demo:
        df = os.path.join(seed, "demo_files")
        if os.path.isdir(df):
            sh("cp -r %s/. %s/" % (df, scratch))
        rc1, out1 = sh(a.demo, cwd=scratch)
        res["demo_fails_with_change"] = rc1 != 0
        res["demo_with_change_tail"] = out1[-400:]
        # back to HEAD for the tracked files (the demo files are untracked and stay), then the change again
        sh("git checkout -q -- .", cwd=scratch)
        rc2, out2 = sh(a.demo, cwd=scratch)
        res["demo_passes_without_change"] = rc2 == 0
        if rc2 != 0:
            res["demo_without_change_tail"] = out2[-400:]
        rc3, _ = sh("git apply --whitespace=nowarn %s/patch.diff" % seed, cwd=scratch)
        if rc3 != 0:
            sh("git apply -3 --whitespace=nowarn %s/patch.diff && git reset -q" % seed, cwd=scratch)
        if os.path.isdir(df):
            # remove demo files again so that the checked tree is patch-only
            for root, _, files in os.walk(df):
                for f in files:
                    p = os.path.join(scratch, os.path.relpath(os.path.join(root, f), df))
                    if os.path.exists(p):
                        os.remove(p)
    t0 = time.time()
    cmd = "./check %s --tier %s" % (a.prop, a.tier) + (" --only '%s'" % a.only if a.only else "")
    r = subprocess.run(cmd, shell=True, cwd="/verif", env=dict(env, VERIF_REPO=scratch), stdout=subprocess.PIPE, stderr=subprocess.STDOUT)
    out = r.stdout.decode(errors="replace")
    res["check_cmd"] = cmd
    res["check_exit"] = r.returncode
    res["check_wall_s"] = round(time.time() - t0)
    res["check_lines"] = [l[:400] for l in out.splitlines() if l.startswith(("VIOLATION", "  sub-run", "INCONCLUSIVE", "HARNESS")) or "evaluations=" in l][:8]
    res["detected"] = r.returncode == 1 and any(l.startswith("VIOLATION") for l in out.splitlines())
finally:
    subprocess.call(["git", "-C", "/repo", "worktree", "remove", "--force", scratch])
    shutil.rmtree(scratch, ignore_errors=True)
    shutil.rmtree(tmpdir, ignore_errors=True)
print(json.dumps(res, indent=1))
