#!/bin/bash
# tools/seedimport.sh <PROP> <variant> <package-dir> <demo-test-file-name> <go-test-run-regex> [extra seedeval args]
# Imports /tmp/seed-<PROP>/OUT/<variant> into /verif/seeded/<PROP><variant>/ and evaluates it (tools/seedeval.py).
set -uo pipefail
P=$1; V=$2; PKG=$3; DEMO=$4; RX=$5; shift 5
SRC=/tmp/seed-$P/OUT/$V
DST=/verif/seeded/$P$V
mkdir -p $DST/demo_files/$PKG
cp $SRC/patch.diff $DST/patch.diff
cp $SRC/$DEMO $DST/demo_files/$PKG/
[ -f $SRC/meta.json ] && cp $SRC/meta.json $DST/agent_meta.json
[ -f $SRC/RUN.txt ] && cp $SRC/RUN.txt $DST/RUN.txt
/verif/tools/seedeval.py $DST $P --demo "/verif/tools/repotest.sh -C . test -count=1 -run '$RX' ./$PKG/" "$@" > $DST/eval.json 2>$DST/eval.err
python3 - $DST <<'PY'
import json,sys
d=sys.argv[1]
try:
    e=json.load(open(d+'/eval.json'))
    print(d.split('/')[-1], 'applies',e.get('applies'),'compiles',e.get('compiles'),'baseline',e.get('baseline_passes'),'demo_fails',e.get('demo_fails_with_change'),'demo_passes_clean',e.get('demo_passes_without_change'),'DETECTED',e.get('detected'),'exit',e.get('check_exit'), 'wall',e.get('check_wall_s'))
    for l in e.get('check_lines',[])[:3]: print('   ',l[:220])
except Exception as ex:
    print(d,'eval failed',ex, open(d+'/eval.err').read()[-500:])
PY
