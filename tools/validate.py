#!/opt/veriftools/pyvenv/bin/python
import json, sys, glob, jsonschema
ok = True
m = json.load(open('/verif/MANIFEST.json')) if len(sys.argv) < 2 or sys.argv[1] != '--evidence-only' else None
if m is not None:
    jsonschema.validate(m, json.load(open('/root/.vp/MANIFEST.schema.json')))
    print("MANIFEST valid; checks:", [c['property_id'] for c in m['checks']], "n/a:", [c['property_id'] for c in m.get('not_applicable', [])])
sch = json.load(open('/root/.vp/EVIDENCE.schema.json'))
for f in sorted(glob.glob('/verif/evidence/*.json')):
    try:
        jsonschema.validate(json.load(open(f)), sch)
        print("ok", f)
    except Exception as e:
        ok = False
        print("INVALID", f, str(e)[:300])
sys.exit(0 if ok else 1)
