#!/bin/bash
# Run tests of packages of a ZanRedisDB tree that only build with the patched rocksdb
# binding, without touching the tree: tools/repotest.sh [-C tree] <go test args...>
set -euo pipefail
TREE=/repo
if [ "${1:-}" = "-C" ]; then TREE=$2; shift 2; fi
export GOFLAGS=-mod=mod GOPROXY=off GOSUMDB=off GOTOOLCHAIN=local CGO_ENABLED=1
D=$(mktemp -d /dev/shm/repotest.XXXXXX)
trap 'rm -rf $D' EXIT
cp $TREE/go.mod $D/alt.mod; cp $TREE/go.sum $D/alt.sum
cat >> $D/alt.mod <<EOM

replace github.com/youzan/gorocksdb => /verif/third_party/gorocksdb

replace github.com/ugorji/go => /verif/third_party/ugorji-go
EOM
SUB=$1; shift
cd $TREE && go $SUB -modfile=$D/alt.mod "$@"
