# Human-written text per property for MANIFEST.json (see tools/gen_manifest.py).
ENGINES = [
    dict(name="codec", path="harness/c16_codec", serves_properties=["C16"], kind_free_text="direct calls of pure functions / codecs with rapid-generated inputs, plus native go fuzz targets in the thorough tier"),
]
NOT_APPLICABLE = {}
TEXT = {}
TEXT["C16"] = dict(
    engine="codec",
    design_ref="DESIGN.md §4 C16",
    technique="property-based testing (rapid): round-trip and prefix-then-error oracles over generated message streams; native go fuzzing of both decoders in the thorough tier",
    level_text="Generated-input exploration: tens of thousands of multi-group message sequences through the real msgappv2 and message encoders/decoders compared message by message (after the whole stream is decoded, so buffer aliasing shows); every truncation point of small streams must give a prefix of the sent sequence followed by an error; mutated streams and fuzzed bytes must not panic or allocate from unchecked lengths. No absence claim.",
    level_note="Trusted: gogo-protobuf marshal/unmarshal of raftpb; the canonical text rendering used for equality (nil and empty slices identified). Inputs to msgappv2 are restricted to the MsgApp shape raft produces. For corrupted (not truncated) streams the format has no checksum, so only crash/allocation safety is decided.",
)
