# Engines and not-applicable reasons for MANIFEST.json (per-property text lives in table/CNN.py).
ENGINES = [
    dict(name="codec", path="harness/c16_codec", serves_properties=["C16"], kind_free_text="direct calls of pure functions / codecs with rapid-generated inputs, plus native go fuzz targets in the thorough tier"),
]
NOT_APPLICABLE = {}
