# Engines and not-applicable reasons for MANIFEST.json (per-property text lives in table/CNN.py).
ENGINES = [
    dict(name="codec", path="harness/c16_codec", serves_properties=["C16"], kind_free_text="direct calls of pure functions / codecs with rapid-generated inputs, plus native go fuzz targets in the thorough tier"),
]
ENGINES.append(dict(name="simkv", path="harness/lib/simkv", serves_properties=["C07", "C08", "C09", "C10", "C11", "C12", "C13", "C14", "C15", "C19"],
                    kind_free_text="the real server.Server / NamespaceMgr / KVNode handlers and applyEntries run in-process behind a synchronous fake raft.Node (hook: node/verif_export.go); the harness owns commit order, apply batching and log timestamps"))
NOT_APPLICABLE = {}
