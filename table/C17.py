# Run table and MANIFEST text for C17 (see ../check and ../tools/gen_manifest.py).
SPEC = dict(
    level="exploration",
    rule="rapid-generated topologies (1-40 node ids of the production format over 1-4 data centres, even / uneven / with nodes that carry no usable dc_info tag), "
         "partitions 1-64, replicas 1-5, namespace names (ring offset), ring v1 and incremental v2; every case is a chain: fresh layout, then 1-8 events "
         "{lose k nodes, add k nodes, lose a whole DC, bring it back}, v2 always fed with the layout it produced in the previous step. "
         "Plus a bounded-exhaustive sub-run over all topologies of <=6 nodes / <=3 DCs (+untagged) / <=8 partitions / <=3 replicas (reported with exhaustive=true for that sub-run only). "
         "distinct_nontrivial counts distinct chains with >=2 data centres AND (partition count not a multiple of the node count OR, for v2, a node loss that removed the leader of >=1 row).",
    assumptions=[
        "previous layouts handed to v2 are only layouts v2 itself produced for the same namespace, partition count and replication factor (the property quantifies over layouts reachable by node loss/addition)",
        "the data-centre-spread clause is asserted only for layouts computed without a previous layout, when every live node carries a non-empty string dc_info tag, every data centre holds exactly the same number of nodes, and there are at least `replica` data centres",
        "a refusal is demanded exactly when live nodes < replicas; with enough nodes an error is reported as a violation too (otherwise a driver that always refuses would pass)",
        "the leader-balance clause is asserted for the ring algorithm only and only when partitionNum % nodeCount == 0",
    ],
    quick=[
        dict(name="chains", pkg="c17_placement", test="TestPlacementChains", checks=6000, shards=10),
        dict(name="exhaustive", pkg="c17_placement", test="TestExhaustiveSmall", checks=1, shards=1),
    ],
    thorough=[
        dict(name="chains", pkg="c17_placement", test="TestPlacementChains", checks=60000, shards=14),
        dict(name="exhaustive", pkg="c17_placement", test="TestExhaustiveSmall", checks=1, shards=1),
    ],
)

TEXT = dict(
    engine="placement",
    design_ref="DESIGN.md §4 C17",
    technique="property-based testing (rapid) of the real layout function through a verif-tagged export: validity predicate (rows x distinct live replicas), determinism across repeated calls and map insertion orders, refusal iff too few nodes, data-centre spread and ring leader balance under their stated preconditions; chains of node loss/addition for the incremental algorithm; bounded-exhaustive small scope",
    level_text="Generated-input exploration: tens of thousands of topology/event chains through getRebalancedNamespacePartitions (v1 and v2), each layout checked against the validity predicate and recomputed under permuted map insertion orders. One sub-run enumerates every topology of at most 6 nodes over at most 3 data centres (plus untagged nodes), 1-8 partitions, 1-3 replicas, both algorithms, and for v2 every single-node loss, whole-DC loss and single addition from the fresh layout; only that sub-run is exhaustive, and only within those bounds.",
    level_note="Trusted: the harness's own bookkeeping of which nodes are live and which data centre a node belongs to (a node without a non-empty string dc_info tag belongs to no data centre for the oracle). Previous layouts for v2 are restricted to layouts v2 produced itself; hand-made previous layouts (ISR subsets, rows longer than the replication factor) are not generated.",
)
