# Run table and MANIFEST text for C10.
SPEC = dict(
    level="exploration",
    rule="two generated-history checks. (1) value-header policy: command sequences with SETEX / SET EX / *EXPIRE / *PERSIST / *TTL of every type mixed with the C08 grammar (+APPEND, SETRANGE, STRLEN); the harness owns every log timestamp and places it before / exactly at / 1 ns and 1 s around each expiry instant; "
         "write replies are predicted at log time and reads at the wall clock by lib/model (per-key expiry, generation semantics), TTL within the run's own duration; compaction rounds must be invisible. "
         "(2) local-deletion policy: sequences with expiry instants 10 min .. 23 days ahead interleaved with synchronous runs of the real background expiry pass and compactions; nothing may be removed. "
         "distinct_nontrivial sums the sub-runs' own rules (see sub_runs).",
    assumptions=[
        "the wall clock cannot be replaced (reads call time.Now()): generated expiry instants stay outside [T0-900s, T0+10^6s], so a defect that needs a read within a second of an expiry instant is out of reach; log time is varied freely",
        "log time never runs ahead of the wall clock in these runs",
        "two-stage commands (SETNX, LPOP/RPOP, SPOP, SADD, SREM, ZREM) are modelled with their leader-side pre-read at the wall clock",
        "two reply-only differences from Redis are recorded as known findings of C08 and switched in lib/model by them (PERSIST answers 1 for any existing key, TTL of a missing/expired key is -1); APPEND/SETRANGE with an empty operand are not generated",
        "the compaction filter of the rocksdb engine keeps expired data for 48 h (lazyCleanExpired); physical removal by it is not exercised",
    ],
    quick=[
        dict(name="wc_mem", pkg="c10_expiry", test="TestWaitCompactMem", checks=1000, shards=3),
        dict(name="wc_pebble", pkg="c10_expiry", test="TestWaitCompactPebble", checks=700, shards=3),
        dict(name="wc_rocksdb", pkg="c10_expiry", test="TestWaitCompactRocksdb", checks=400, shards=2),
        dict(name="ld_mem", pkg="c10_expiry", test="TestLocalDeletionMem", checks=800, shards=1),
        dict(name="ld_pebble", pkg="c10_expiry", test="TestLocalDeletionPebble", checks=600, shards=1),
        dict(name="known", pkg="c10_expiry", test="TestKnown.*", checks=1, shards=1),
    ],
    thorough=[
        dict(name="wc_mem", pkg="c10_expiry", test="TestWaitCompactMem", checks=15000, shards=5),
        dict(name="wc_pebble", pkg="c10_expiry", test="TestWaitCompactPebble", checks=10000, shards=5),
        dict(name="wc_rocksdb", pkg="c10_expiry", test="TestWaitCompactRocksdb", checks=6000, shards=3),
        dict(name="ld_mem", pkg="c10_expiry", test="TestLocalDeletionMem", checks=15000, shards=1),
        dict(name="ld_pebble", pkg="c10_expiry", test="TestLocalDeletionPebble", checks=10000, shards=1),
        dict(name="known", pkg="c10_expiry", test="TestKnown.*", checks=1, shards=1),
    ],
)
TEXT = dict(
    engine="simkv",
    design_ref="DESIGN.md §4 C10, §1.3",
    technique="model-based property testing (rapid) with harness-owned log timestamps placed around every expiry instant; reference model with per-key expiry; metamorphic invisibility of compaction / background expiry passes",
    level_text="Generated-input exploration: sequences whose log timestamps are placed adversarially around each expiry instant are run through the real apply path and compared with a reference model (writes at log time, reads at the wall clock); the local-deletion background pass is run synchronously between commands and must remove nothing that is not due. Found one repaired and two recorded defects.",
    level_note="Trusted: lib/model, the fake raft that lets the harness rewrite the timestamp of each proposed entry (hook node/verif_export.go), hook rockredis.VerifRunLocalExpire (runs the real TTLChecker.check + batched delete once). Reads use the real wall clock, held away from every expiry instant.",
)
