# Run table and MANIFEST text for C03 (see ../check and ../tools/gen_manifest.py).
_PKG = "c03_durability"
SPEC = dict(
    level="exploration",
    rule="rapid-generated crash-heavy schedules over the raftsim simulator: a crash point among the 9 stage boundaries of processReady "
         "(incl. a torn [entries..,hardstate] WAL tail and loss of unsynced commit-only hard states) is drawn for 1-15% of all steps, plus "
         "crash-all and crash-a-quorum macros; storage kinds raft.MemoryStorage and raft.RocksStorage over mem / pebble (thorough: rocksdb) "
         "engines whose contents survive a restart or are wiped; every case ends with a deterministic heal phase. A case is non-trivial if "
         ">=1 entry was committed before a crash of a replica whose durable record held it, that replica restarted, AND a new leader term was "
         "observed after that restart. distinct_nontrivial sums the distinct non-trivial trace hashes per sub-run. Crash stages are drawn per "
         "step, not enumerated. A last sub-run (ready_order) drives the one function that keeps the premise of the property, raftNode.processReady, directly (lib/raftsim re-implements its step order): generated Ready values, recording WAL / transport, oracle = no send by a non-leader and no hand-over of still-unwritten committed entries to the apply loop before the save.",
    assumptions=[
        "a restart has exactly what reached the WAL-like durable record: synced records always (wal.Save syncs iff entries were written or term/vote changed; SaveSnapshot always), an unsynced tail may survive partly; restart replays it as ValidSnapshotEntries + LoadNewestAvailable + ReadAll do and fills a NEW storage object as replayWAL does",
        "the engine under a RocksStorage either keeps all its contents across the restart or is empty (production runs it with the engine WAL disabled and rebuilds from the file WAL)",
        "eventual application is decided as bounded convergence after the heal phase: stuck clusters are violations, cases that run out of the 60-election-timeout budget are counted inconclusive",
        "triggers of the recorded known findings are excluded from generation and counted",
    ],
    quick=[
        dict(name="mem", pkg=_PKG, test="TestDurabilityMemory", checks=1100, shards=5),
        dict(name="rocks", pkg=_PKG, test="TestDurabilityRocks", checks=800, shards=5),
        dict(name="l3", pkg=_PKG, test="TestDurabilityL3", checks=2600, shards=3),
        dict(name="l1", pkg=_PKG, test="TestDurabilityL1", checks=1100, shards=2),
        dict(name="ready_order", pkg=_PKG, test="TestReadyOrder", checks=30000, shards=1),
        dict(name="known", pkg=_PKG, test="TestKnown.*", checks=1, shards=1),
    ],
    thorough=[
        dict(name="mem", pkg=_PKG, test="TestDurabilityMemory", checks=10000, shards=5),
        dict(name="rocks", pkg=_PKG, test="TestDurabilityRocks", checks=5500, shards=6),
        dict(name="l3", pkg=_PKG, test="TestDurabilityL3", checks=22000, shards=3),
        dict(name="l1", pkg=_PKG, test="TestDurabilityL1", checks=10000, shards=2),
        dict(name="ready_order", pkg=_PKG, test="TestReadyOrder", checks=500000, shards=4),
        dict(name="known", pkg=_PKG, test="TestKnown.*", checks=1, shards=1),
    ],
)

TEXT = dict(
    engine="raftsim",
    design_ref="DESIGN.md §3-A, §4 C03",
    technique="property-based testing (rapid) of crash-heavy generated schedules over real raft.Node replicas; invariant (leader completeness against the set of handed-out entries) + differential (storage object vs shadow log built from the durable record / the Ready stream) + bounded convergence after a deterministic heal phase; plus generated Ready values through the REAL raftNode.processReady (recording WAL and transport) checked for its two ordering rules: nothing is sent by a non-leader, and nothing the Ready still has to write is handed to the apply loop, before the WAL save",
    level_text="Generated-schedule exploration with drawn crash points (not enumerated). committed := handed out by anyone. Checked: (1) every replica first observed as leader of term t holds every entry handed out by a replica whose term was below t (snapshot may cover a prefix); (2) after every restart the new storage object answers FirstIndex/LastIndex/Term/Entries/InitialState/Snapshot exactly as the replayed durable record says, and a RocksStorage matches the shadow log after every completed step (cached first/last index, overwrite-and-delete-tail); (3) after the heal phase every live member of the final configuration was handed every committed entry unchanged; a cluster that is stuck is a violation, one that is merely slow is counted inconclusive. A replica that cannot restart from its own durable record is a violation. Held on everything explored outside the excluded triggers; no absence claim.",
    level_note="Five genuine violations found by this check on the pinned tree are repaired in /repo (single-voter apply-before-WAL, restarted learner refusing snapshots, RocksStorage stale tail, WAL replay resurrecting a truncated suffix, and C02's commit by a non-leader); one stays open (C03-promoted-learner-ignores-votes: its upstream repair contradicts the clause of C01 that learners never vote) and is recognised by its signature in the heal verdict. Not modelled: real files/fsync (C05), engine-level partial loss of a RocksStorage engine between 'intact' and 'empty', optimized_fsync mode.",
)
