# Run table and MANIFEST text for C02 (see ../check and ../tools/gen_manifest.py).
_PKG = "c02_apply"
SPEC = dict(
    level="exploration",
    rule="rapid-generated schedules over the raftsim simulator (same alphabet as C01) with unique payloads, MaxCommittedSizePerReady in "
         "{one entry, 64 B, 1 KiB, unlimited}, steps without hand-out (moreEntriesToApply=false) and with busySnap, snapshot+compact followed by "
         "MsgSnap catch-up of lagging/fresh replicas. A case is non-trivial if >=2 replicas were each handed >=5 entries AND (a new leader term "
         "was observed after the first hand-out OR a snapshot was installed through Ready.Snapshot OR a conflicting log suffix was truncated). "
         "distinct_nontrivial sums the distinct non-trivial trace hashes per sub-run.",
    assumptions=[
        "the simulator only moves, drops or duplicates messages a node emitted and processes each Ready in the order of node/raft.go processReady",
        "snapshots are created as node/raft.go beginSnapshot does (CreateSnapshot at the applied index with the ConfState returned by the last ApplyConfChange, then Compact), only when maybeTriggerSnapshot's preconditions hold",
        "the hand-out sequence is what StepNode returns in Ready.CommittedEntries/Ready.Snapshot; a repeated index counts as a violation although node.applyEntries would skip it",
        "triggers of the recorded known findings (see C01/C03) are excluded from generation and counted",
    ],
    quick=[
        dict(name="l1", pkg=_PKG, test="TestApplyL1", checks=1300, shards=2),
        dict(name="l2", pkg=_PKG, test="TestApplyL2", checks=1300, shards=5),
        dict(name="snap", pkg=_PKG, test="TestApplySnapshot", checks=1300, shards=4),
        dict(name="l3", pkg=_PKG, test="TestApplyL3", checks=6700, shards=5),
        dict(name="known", pkg=_PKG, test="TestKnown.*", checks=1, shards=1),
    ],
    thorough=[
        dict(name="l1", pkg=_PKG, test="TestApplyL1", checks=12000, shards=1),
        dict(name="l2", pkg=_PKG, test="TestApplyL2", checks=12000, shards=4),
        dict(name="snap", pkg=_PKG, test="TestApplySnapshot", checks=12000, shards=3),
        dict(name="l3", pkg=_PKG, test="TestApplyL3", checks=60000, shards=8),
        dict(name="known", pkg=_PKG, test="TestKnown.*", checks=1, shards=1),
    ],
)

TEXT = dict(
    engine="raftsim",
    design_ref="DESIGN.md §3-A, §4 C02",
    technique="property-based testing (rapid) of generated schedules over real raft.Node replicas in a schedule-owning simulator; history-invariant oracle: global index->entry map filled by the first hand-out, gap-free hand-out per incarnation, snapshot (index, term, ConfState) consistency, raft panics",
    level_text="Generated-schedule exploration. Every Ready.CommittedEntries / Ready.Snapshot of every replica and incarnation is compared with a global map index -> (term, type, hash(payload)): same entry everywhere, strictly consecutive indexes per incarnation starting after its snapshot, snapshots only forward and consistent with the map in (index, term) and in ConfState (fold of the applied conf changes). A panic inside raft under a legal schedule is a violation. Half of the thorough budget goes to phase-structured election cases on 3 replicas with one-entry messages (the shape needed to expose commit-rule defects). Held on everything explored outside the excluded triggers; no absence claim.",
    level_note="The genuine violation this check found on the pinned tree (C02-nonleader-commits-on-conf-replay: a restarted follower that re-applies a RemoveNode leaving it alone in its rebuilt configuration commits its own unreplicated tail) is repaired in /repo, as are the C03 findings that broke this property too; only the trigger of the open C01-partial-bootstrap-self-election is still excluded. Sensitivity: the Figure-8 mutant (maybeCommit without the current-term check) falls to the quick tier (L3 after 140-700 cases, L2 after 400-800). Trusted: the simulator's durability model and apply-side model (see C01).",
)
