# Run table and MANIFEST text for C19.
SPEC = dict(
    level="exploration",
    rule="generated source logs of two source clusters (consecutive indexes, non-decreasing terms, 0-3 non-idempotent commands per entry: INCR, INCRBY, APPEND, LPUSH, RPUSH, HINCRBY, SADD, SPOP, ZINCRBY; empty entries) framed as the source cluster's log syncer frames them, delivered to the real Server.ApplyRaftReqs the way a sender does after interruptions: batches start at or before the synced position + 1, with stale re-sends, duplicates and older entries mixed in, injected propose failures followed by retries; "
         "between deliveries raft snapshots of the receiver (KVNode.GetSnapshot), restarts from the latest snapshot (RestoreFromSnapshot + replay of the receiver's own log tail as 'replaying') and follower replicas that replay the receiver's log; at most once per case the sender announces a remote snapshot of X ahead of the synced position whose files never arrive (NotifyTransferSnap with ignore_remote_file_sync, then NotifyApplySnap: the restore fails), after which the position must be unchanged and the status must not read applied. "
         "A second sub-run applies the receiver's own log as it looks when duplicates raced past the receive-time filter (copies of already contained entries directly in the log), where only the apply-time filter protects. Oracle after every delivery with p = reported synced index: receiver data == lib/model applied once to source[1..p]; p monotone; p reaches the end of every delivery that reported success; per-cluster independence; after restart positions and data unchanged; follower == leader. "
         "A third sub-run puts the real sender in front: the source cluster's log syncer state machine (logSyncerSM + RemoteLogSender) is fed a generated source log over 1-3 learner incarnations (each replays from an index at or before the receiver's position + 1, with a drawn number of entries queued before it learns the remote position, transport faults, lost replies, dropped proposals, incarnations stopped with entries queued) and talks loopback gRPC to the real receiver; at every quiescent point the receiver's position equals what the sender reports as synced and the data is the source prefix applied once. "
         "non-trivial = a non-idempotent entry re-sent after it was applied, with a snapshot/restart between its first and second delivery (sender sub-run: a first batch that straddles the receiver's synced position).",
    assumptions=[
        "the receiving cluster runs in syncer-only mode (node.SetSyncerOnly(true)), as a replication target does; the conflict check against local client writes is not exercised",
        "a correct sender never skips ahead of the receiver's synced position + 1 (the receiver only logs a warning for gaps), so gaps are not generated in the receiver sub-runs; the sender sub-run checks that the real sender keeps that promise when its learner restarts from an index at or before the receiver's position + 1",
        "sender sub-run: batch boundaries after the first batch depend on goroutine scheduling (the send loop drains whatever is queued); the oracle holds for every batching, the recorded delivery trace is the reproducible unit",
        "of the remote snapshot hand-over only the failing restore is driven (transfer step switched to a no-op by the documented ignore_remote_file_sync option); a successful restore from files rsync brought over from another cluster is not",
        "restart = RestoreFromSnapshot on the same in-process node + replay of its own log tail; process restart with WAL is C06's subject",
    ],
    quick=[
        dict(name="replay", pkg="c19_crosscluster", test="TestCrossClusterReplay", checks=700, shards=6),
        dict(name="applydedupe", pkg="c19_crosscluster", test="TestApplyTimeDedupe", checks=1500, shards=2),
        dict(name="sender", pkg="c19_crosscluster", test="TestSenderReceiver", checks=150, shards=6),
    ],
    thorough=[
        dict(name="replay", pkg="c19_crosscluster", test="TestCrossClusterReplay", checks=15000, shards=12),
        dict(name="applydedupe", pkg="c19_crosscluster", test="TestApplyTimeDedupe", checks=40000, shards=4),
        dict(name="sender", pkg="c19_crosscluster", test="TestSenderReceiver", checks=2500, shards=8),
    ],
)
TEXT = dict(
    engine="simkv",
    design_ref="DESIGN.md §4 C19",
    technique="model-based property testing (rapid): generated delivery sequences with duplicates, stale re-sends, injected propose faults, snapshots, restarts and follower replay against the real gRPC handler and apply path, plus generated learner-restart / fault schedules through the real sender (logSyncerSM) over loopback gRPC; oracle = reference model applied once to the source prefix up to the reported synced position",
    level_text="Generated-input exploration through the real ApplyRaftReqs handler and the node's applyEntries with a fake raft that can drop proposals. The oracle ties the data to the reported synced position after every delivery.",
    level_note="Trusted: lib/model for the nine command kinds used; the framing of source entries (copied from logSyncerSM.ApplyRaftRequest); the fake raft (commit = apply; a dropped proposal fails like raft's drop).",
)
