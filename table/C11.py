# Run table and MANIFEST text for C11.
SPEC = dict(
    level="exploration",
    rule="a short valid prefix followed by commands derived by 1-3 mutations from valid commands of every registered read / write / merge command (C08 grammar + TTL, bitmap, HLL, JSON, geo, scan, fullscan, index search, multi-key and server-level commands): drop / duplicate / swap arguments, empty, non-numeric, +-2^63, 1e400, nan, inf, negative and huge counts / offsets / lengths, over-long key or field (limit +-1, 64 KiB), missing / doubled / foreign namespace prefix, binary or unknown command names, unknown option words, arity +-1 and +5001/+10002; sent through the server's redis entry point (validation -> propose -> real applyEntries). "
         "Oracles: no panic below applyEntries; a panic in a goroutine of the merge dispatcher kills the test process and is reported from its output; a twin store that receives only the commands that did NOT fail must answer every later command identically and show an identical logical dump after every failed command, after the command following it and at the end (so an error reply changed nothing and leaked nothing); reply streams are well-formed. "
         "non-trivial = a mutated command reached propose, OR was rejected after at least one earlier write succeeded.",
    assumptions=[
        "a panic on the connection path is recovered by serverRedis (the process survives, as the statement asks) and is only counted (label recovered_panic_on_connection_path)",
        "values above MaxValueSize (8 MiB) are not generated in the quick tier",
        "merged scan replies are not compared with the twin (partition order of merged pages is map order); JSON.OBJKEYS is compared as a set",
        "the rocksdb engine is not used for mutated inputs: the sandbox's stock librocksdb 7.8.3 is built with assertions and aborts in FixedPrefixTransform::Transform (InDomain) on a seek key shorter than the 3-byte prefix, which a release build (and youzan's fork) does not; a crash there is an artefact of the library build, not of ZanRedisDB (DESIGN.md §7 item 4)",
    ],
    quick=[
        dict(name="mem", pkg="c11_robust", test="TestRobustMem", checks=700, shards=4),
        dict(name="pebble", pkg="c11_robust", test="TestRobustPebble", checks=500, shards=4),
        dict(name="multipart", pkg="c11_robust", test="TestRobustMultiPartition", checks=400, shards=2),
        dict(name="known", pkg="c11_robust", test="TestKnown.*", checks=1, shards=1),
    ],
    thorough=[
        dict(name="mem", pkg="c11_robust", test="TestRobustMem", checks=12000, shards=5),
        dict(name="pebble", pkg="c11_robust", test="TestRobustPebble", checks=9000, shards=5),
        dict(name="multipart", pkg="c11_robust", test="TestRobustMultiPartition", checks=8000, shards=3),
        dict(name="known", pkg="c11_robust", test="TestKnown.*", checks=1, shards=1),
        dict(name="fuzz", pkg="c11_robust", fuzz="FuzzRobust", fuzztime="150s", parallel=12),
    ],
)
TEXT = dict(
    engine="simkv",
    design_ref="DESIGN.md §4 C11",
    technique="mutation-based property testing (rapid) through the real client entry point with a twin-store differential oracle (store with vs without the failed commands) and apply-path panic detection",
    level_text="Generated-input exploration: mutated argument vectors of every registered command are sent the way a client sends them; an apply-path panic, a process death, a malformed reply or any difference to a twin store that never saw the failed commands is a violation. Found and repaired three crashes (SETRANGE negative offset, SCAN COUNT -1, SETBIT after an expired bitmap).",
    level_note="Trusted: the fake single-replica raft (apply happens inside propose, so an apply-path panic is detected by a flag set in the harness's recover, not by process death), the dump command list. The thorough tier adds a coverage-guided native fuzz campaign over the same property (rapid.MakeFuzz: the fuzz bytes are the bitstream the generator draws from).",
)
