# Run table and MANIFEST text for C12.
SPEC = dict(
    level="exploration",
    rule="three generated checks. (1) frame property through the client API on mem / pebble / rocksdb: adversarial pairs of addresses A, B; B and bystanders populated in all five types plus a three-segment bitmap (setbitv2) and a JSON document, and dumped; then write commands of every family (bitmap commands at segment-boundary offsets included) on A ('other key'), of one family on B's own key while its other families are watched ('other type'), or the replicated whole-table delete of A's table ('table delete': its keys gone, everything else unchanged); the dump of B and the bystanders must not change. "
         "(2) memcomparable tuple codec: decode(encode(x)) == x and byte order == tuple order on generated tuple pairs. (3) every key encoder of the data mapping (hook): decoder(encoder(a)) == a, injective, no collision across encoders, element keys inside their own collection / table range and outside every other. distinct_nontrivial sums the sub-runs' own rules.",
    assumptions=[
        "table names never contain ':' (the first ':' of a key defines where the table ends) and keys are non-empty",
        "the whole-table delete is only exercised for table names that are valid UTF-8: the replicated request carries the name as a JSON string",
        "scans inside a collection are part of the dump (HSCAN/SSCAN/ZSCAN); key scans across a table are C13's subject",
        "the sign of a floating-point zero is not preserved by the codec (-0 and 0 compare equal); NaN is not generated",
    ],
    quick=[
        dict(name="frame_mem", pkg="c12_isolation", test="TestFrameMem", checks=700, shards=2),
        dict(name="frame_pebble", pkg="c12_isolation", test="TestFramePebble", checks=600, shards=2),
        dict(name="frame_rocksdb", pkg="c12_isolation", test="TestFrameRocksdb", checks=400, shards=2),
        dict(name="codec", pkg="c12_isolation", test="TestMemCmpCodec", checks=100000, shards=2),
        dict(name="known", pkg="c12_isolation", test="TestKnown.*", checks=1, shards=1),
        dict(name="keys", pkg="c12_isolation", test="TestKeyEncoders", checks=60000, shards=2),
    ],
    thorough=[
        dict(name="frame_mem", pkg="c12_isolation", test="TestFrameMem", checks=12000, shards=4),
        dict(name="frame_pebble", pkg="c12_isolation", test="TestFramePebble", checks=10000, shards=4),
        dict(name="frame_rocksdb", pkg="c12_isolation", test="TestFrameRocksdb", checks=8000, shards=3),
        dict(name="codec", pkg="c12_isolation", test="TestMemCmpCodec", checks=2000000, shards=3),
        dict(name="known", pkg="c12_isolation", test="TestKnown.*", checks=1, shards=1),
        dict(name="keys", pkg="c12_isolation", test="TestKeyEncoders", checks=1000000, shards=2),
    ],
)
TEXT = dict(
    engine="simkv",
    design_ref="DESIGN.md §4 C12",
    technique="property-based testing (rapid): frame property (snapshot B, operate on A, B unchanged) through the real client path; round-trip and order-preservation of the tuple codec; injectivity and range containment of the key encoders",
    level_text="Generated-input exploration over adversarial name pairs. The frame check is black-box (client commands in, client reads out) on all three engines; the codec and encoder checks call the pure functions directly (encoders through a verif-tagged export).",
    level_note="Trusted: the dump command list as the observation of B. Lengths stay far below the limits (names up to ~10 bytes plus look-alike bytes), so defects that need a name near MaxKeySize are not reached.",
)
