# Run table and MANIFEST text for C09.
SPEC = dict(
    level="exploration",
    rule="rapid-generated command sequences over hash/list/set/zset (C08 grammar, plus commands that fail and groups of 2-6 writes applied inside one apply batch); after every command or batch all redundant reads of the touched collections are cross-checked "
         "(HLEN=|HGETALL|=|HKEYS|=|HVALS|, HGET/HEXISTS per field; SCARD=|SMEMBERS|, SISMEMBER; LLEN=|LRANGE 0 -1|, LINDEX; ZCARD=|ZRANGE|=|ZRANGEBYSCORE -inf +inf|=|ZRANGEBYLEX - +|, unique members, ZSCORE, ZRANK/ZREVRANK = position; *KEYEXIST iff size>0; H/S/ZSCAN to exhaustion). "
         "non-trivial = size changed by a command that repeated an element, OR a removal named a missing element and changed the size, OR a collection was emptied and re-created, OR one apply batch touched one collection twice.",
    assumptions=[
        "no reference model: only agreement between the implementation's own commands is demanded",
        "scans are compared on the elements with non-empty names (C13's stated domain: the empty cursor means 'start')",
        "names containing 0x00 are not generated on the mem engine while known finding C20-mem-radix-seek-lowerbound-nul is open",
    ],
    quick=[
        dict(name="mem", pkg="c09_consistency", test="TestConsistencyMem", checks=1500, shards=3),
        dict(name="pebble", pkg="c09_consistency", test="TestConsistencyPebble", checks=1000, shards=3),
        dict(name="rocksdb", pkg="c09_consistency", test="TestConsistencyRocksdb", checks=500, shards=2),
    ],
    thorough=[
        dict(name="mem", pkg="c09_consistency", test="TestConsistencyMem", checks=25000, shards=6),
        dict(name="pebble", pkg="c09_consistency", test="TestConsistencyPebble", checks=20000, shards=6),
        dict(name="rocksdb", pkg="c09_consistency", test="TestConsistencyRocksdb", checks=12000, shards=4),
    ],
)
TEXT = dict(
    engine="simkv",
    design_ref="DESIGN.md §4 C09, §3-B",
    technique="property-based testing (rapid): self-consistency invariants over all redundant read commands after every prefix of generated command sequences",
    level_text="Generated-input exploration with a model-free oracle: after every command (and after every multi-command apply batch) counting, enumerating, point-lookup and scan commands of each touched collection must agree. Independent of lib/model, so it cross-checks C08.",
    level_note="Trusted: the fake single-replica raft and the reply parser. Only collections are covered (the property is about collections).",
)
