# Run table and MANIFEST text for C14.
SPEC = dict(
    level="exploration",
    rule="generated write histories (C08 grammar + counters, PFADD, far-future TTLs, compaction rounds) with backups (RockDB.Backup(term, index)) at generated log indexes and restores at generated later instants: on the same store (also repeated, also an older checkpoint after a newer one) and on a second store that received a copy of the checkpoint directory (RestoreFromRemoteBackup); KeepBackup in {1, 2, 10}, latest-snapshot index moved as the node does. "
         "Oracle: dump at backup time == dump after every restore of that checkpoint; checkpoint files (names + SHA-1) unchanged by restores and by later writes / compactions of the live store; purge rule (never a checkpoint >= latest snapshot index, never with fewer than KeepBackup newer ones; survivors pass IsLocalBackupOK). "
         "non-trivial = restore after >= 10 writes since its backup incl. an overwrite/delete of checkpointed data and >= 1 compaction.",
    assumptions=[
        "the store-level API (Backup / Restore / RestoreFromRemoteBackup) is driven directly; the node-level snapshot transfer (rsync between machines) is replaced by a local copy of the checkpoint directory",
        "LOG* files and the empty LOCK file that validation leaves in a checkpoint directory are not counted as changes to the checkpoint",
        "table key counters are not compared (documented as inexact)",
    ],
    quick=[
        dict(name="pebble", pkg="c14_checkpoint", test="TestCheckpointPebble", checks=150, shards=4),
        dict(name="rocksdb", pkg="c14_checkpoint", test="TestCheckpointRocksdb", checks=100, shards=4),
        dict(name="mem", pkg="c14_checkpoint", test="TestCheckpointMem", checks=150, shards=2),
        dict(name="known", pkg="c14_checkpoint", test="TestKnown.*", checks=1, shards=1),
    ],
    thorough=[
        dict(name="pebble", pkg="c14_checkpoint", test="TestCheckpointPebble", checks=2500, shards=6),
        dict(name="rocksdb", pkg="c14_checkpoint", test="TestCheckpointRocksdb", checks=1800, shards=6),
        dict(name="mem", pkg="c14_checkpoint", test="TestCheckpointMem", checks=2500, shards=3),
        dict(name="known", pkg="c14_checkpoint", test="TestKnown.*", checks=1, shards=1),
    ],
)
TEXT = dict(
    engine="simkv",
    design_ref="DESIGN.md §4 C14",
    technique="property-based testing (rapid): round-trip oracle (dump at backup == dump after restore), immutability of checkpoint files by content hash, purge-rule invariant, over generated histories of writes / backups / restores / compactions",
    level_text="Generated-input exploration on pebble, rocksdb and mem. Found and repaired a defect in which the flush performed by every backup wrote a stale cached HyperLogLog over a newer value.",
    level_note="Trusted: the dump command list; the fake raft (log index = number of applied entries). The transfer of a checkpoint between machines is a local directory copy.",
)
