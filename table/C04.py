# Run table and MANIFEST text for C04 (see ../check and ../tools/gen_manifest.py).
SPEC = dict(
    level="exploration",
    rule="one case = one recorded history against a fresh cluster of real data-node processes (3 replicas; 5 in a thorough sub-run; pebble, and rocksdb in a thorough sub-run; "
         "TickMs 100 / ElectionTick 5, SnapCount 40-200, SnapCatchup 5-30, small WAL segments, so snapshots, log compaction, WAL cuts and snapshot catch-up happen inside a history): "
         "4-8 client goroutines issue INCR, INCRBY, GETSET, SETNX, APPEND, HINCRBY, HSETNX, LPUSH, LPOP, RPOP, SADD, SPOP, ZINCRBY with unique arguments plus leader reads on 3-5 typed keys "
         "while a nemesis draws from kill -9 of the leader / of a random replica, SIGTERM, restart, leader transfer, SIGSTOP+SIGCONT (kills always leave a majority alone; pauses are schedules, not faults: some outlast the 4 s proposal deadline, "
         "one kind deschedules every follower at once, and in a quarter of the histories the apply loop of one replica is held once for 4.2-5.2 s through the crash-point hook); half of the clients keep their connection after an error reply; then all replicas "
         "are brought back, the cluster settles (barrier write, equal and quiet applied indexes) and every replica is dumped. "
         "Non-trivial = at least 30 acknowledged writes, at least one kill -9 while a write was in flight, and at least one observed change of leader between the first and the last acknowledged write. "
         "distinct_nontrivial counts distinct drawn plans whose recorded history satisfied that rule. "
         "A second sub-run (waiters) checks the pending request table as a state machine of its own on the real proposal path of one KVNode behind a schedule-owning fake raft: proposals are queued, cancelled through the cancel function raft holds, "
         "dropped for good or committed later in drawn batches; every request that was not cancelled must get exactly the model's reply for its place in the commit order and only after its own entry was applied, and no finished id may stay registered.",
    assumptions=[
        "the interleaving of clients, nemesis and replicas is the operating system's: a case is a pure function of the seed only as far as the drawn plan goes; the reproducible unit is the recorded history, which the deterministic checker re-examines (./check C04 --replay <violation-*.json>)",
        "invoke/return stamps are taken from the test process's monotonic clock immediately before a command is written to and after its reply is read from the socket; clients talk to the node the control endpoints report as leader, re-reading it after any error and now and then by plan, so after a leader transfer part of the writes enter through followers",
        "only replies produced by the state machine on apply constrain the linearizability check: negative replies of the two-stage commands (SETNX 0, SADD 0, LPOP/RPOP/SPOP nil), which the serving node may answer from its local store without proposing, and all plain reads (served locally without a quorum round, so a resumed former leader answers them from the past) are recorded and counted but kept out of it",
        "one rule is checked on reads: a read that follows an acknowledged SET/GETSET on the same TCP connection (same process, whose store only moves forward) must not return a value that had been overwritten before that write was invoked, nor find the key absent; half of the SETs are followed at once by such a read",
        "an operation whose client saw a timeout, a connection loss or any other error reply has an unknown outcome: it may take effect at any time after its invocation, or never. Writes answered with one of the eight errors that the code returns before anything is proposed (listed in linear_test.go with their call sites) are held to 'no effect' in a first pass; a history failing that pass is re-examined with those writes as unknown-outcome operations, and only what still fails is a violation, because the property promises no more than 'at most once' for a write that got an error",
        "the final value of every key (read from every replica through the production stale-read switch, after a barrier write and once the applied and commit indexes of all replicas are equal and did not move while dumping) enters the per-key history as one more read that follows every completed operation",
        "a cluster that does not come up or does not settle within the time limits and a porcupine search that exceeds 25 s are counted as inconclusive histories, never as violations; a replica that is running without its namespace at settle time (its snapshot restore failed because the leader had already purged the checkpoint; in production the cluster coordinator re-creates it) is restarted by the harness and counted",
        "SPOP removes in member order (doc/user-guide.md), ZINCRBY deltas are integers below 2^37 so that float scores are exact",
    ],
    quick=[
        dict(name="selftest", pkg="c04_linear", test="TestCheckerSelfTest", checks=1, shards=1),
        dict(name="known", pkg="c04_linear", test="TestKnown.*", checks=1, shards=1),
        dict(name="waiters", pkg="c04_linear", test="TestPendingTable", checks=2500, shards=2),
        dict(name="n3", pkg="c04_linear", test="TestLinearizable", checks=4, shards=4, timeout=600, shrinktime="0s",
             env={"C04_NODES": 3, "C04_ENGINE": "pebble", "C04_PORT_BASE": 21000}),
    ],
    thorough=[
        dict(name="selftest", pkg="c04_linear", test="TestCheckerSelfTest", checks=1, shards=1),
        dict(name="known", pkg="c04_linear", test="TestKnown.*", checks=1, shards=1),
        dict(name="waiters", pkg="c04_linear", test="TestPendingTable", checks=60000, shards=4),
        dict(name="n3", pkg="c04_linear", test="TestLinearizable", checks=45, shards=5, timeout=1800, shrinktime="0s",
             env={"C04_NODES": 3, "C04_ENGINE": "pebble", "C04_PORT_BASE": 21000}),
        dict(name="n5", pkg="c04_linear", test="TestLinearizable", checks=35, shards=2, timeout=1800, shrinktime="0s",
             env={"C04_NODES": 5, "C04_ENGINE": "pebble", "C04_PORT_BASE": 23200}),
        dict(name="rocks", pkg="c04_linear", test="TestLinearizable", checks=35, shards=1, timeout=1800, shrinktime="0s",
             env={"C04_NODES": 3, "C04_ENGINE": "rocksdb", "C04_PORT_BASE": 24400}),
    ],
)

TEXT = dict(
    engine="verifkv-processes",
    design_ref="DESIGN.md §4 C04, §3 D",
    technique="fault-injected concurrent histories against real multi-process clusters (plans drawn with rapid; kill -9 aimed at in-flight writes, SIGTERM, restart, leader transfer, SIGSTOP/SIGCONT), "
              "checked per key for linearizability with porcupine against a sequential model of the command set (operations of unknown outcome open-ended, the final value as a last read), "
              "plus exactly-once accounting of uniquely tagged effects, a same-connection visibility rule for acknowledged SETs, and equality of the logical dumps of all replicas after settling; "
              "and a rapid state-machine test of the pending request table (propose / cancel / drop / commit in drawn batches on the real KVNode proposal path behind a fake raft, oracle = reference model at the request's place in the commit order)",
    level_text="Exploration with fault injection: each tier records a fixed number of histories (quick 16, thorough 330: 225 on 3 replicas, 70 on 5 replicas, 35 on the rocksdb engine) and every completed history "
               "must linearize, account for every acknowledged write exactly once and leave identical replicas. The schedule inside a history is the operating system's, not the harness's. "
               "No absence claim; this is the weakest kind of evidence in the suite and is labelled so.",
    level_note="Trusted: the monotonic clock of the test process, porcupine's search, the sequential model and the checker's inferences about operations of unknown outcome (all cross-checked by a deterministic "
               "self-test of the checker on about fifty hand-written good and bad histories). Out of reach: schedules the OS does not produce, power loss (kill -9 keeps the page cache; see C05/C06), "
               "network partitions other than a stopped process, membership changes. Locally answered replies (reads, negative replies of the two-stage commands) are excluded from the linearizability check "
               "because the code serves them without a quorum round. Histories that do not settle or exceed the checker's time limit are counted as inconclusive in evidence, not passed. "
               "The finding this check made on the unchanged tree under machine load (C04-checkpoint-not-frozen, same root cause as C06-checkpoint-cut-after-apply-resumed: a restored checkpoint that took longer than its 20 ms 'frozen' signal) "
               "is repaired in /repo; its engine-level probe TestKnownCheckpointNotFrozen runs in every tier.",
)
