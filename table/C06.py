# Run table and MANIFEST text for C06 (see ../check and ../tools/gen_manifest.py).
SPEC = dict(
    level="fault_enumeration",
    rule="rapid-generated write histories (3 concurrent client streams on disjoint key pools: SET/INCR/INCRBY/APPEND/DEL/HSET/HMSET/HDEL/LPUSH/RPUSH/LPOP/SADD/SREM/ZADD/ZREM "
         "with unique values, 300-450 writes, SnapCount 20, SnapCatchup 5, KeepWAL 2, KeepBackup 2, 4 KiB WAL segments) against one real verifkv data-node process (replicator 1) on /dev/shm. "
         "Every run has 2-3 crash rounds: round 1 ends with kill -9 at a drawn instant, the second incarnation (which recovers, is checked, and writes on) carries the enumerated fault, "
         "round 3 a drawn extra fault; then a clean start and the final check. Per history the crash points reached by the second incarnation are learned by a dry run and enumerated completely: "
         "every reached named point x k-th hit for k in {1,2,3,5,8,last}, plus stall-then-die variants at 13 points and kill -9 at 6 drawn instants. "
         "After every start the node must become ready+leader by itself and its logical dump (GET/HGETALL/LRANGE/SMEMBERS/ZRANGE WITHSCORES of every pool key, written or not) must equal, per stream, "
         "model(acknowledged writes) or model(acknowledged writes + the one in-flight write); acknowledged replies are compared with the model too. "
         "distinct_nontrivial counts distinct (history, crash plan) runs in which a crash hit after >= 1 completed raft snapshot with >= 1 acknowledged write newer than that snapshot "
         "and the following start restored a checkpoint and replayed a WAL tail.",
    assumptions=[
        "a process death keeps the page cache: only orderings between steps are exercised, not missing fsyncs (power loss is C05's crash model for the WAL)",
        "the reproducible unit is the saved (history, crash plan) JSON; the schedule inside the process is the operating system's",
        "'comes back' = the production readiness predicate NamespaceNode.IsNsNodeFullReady(true) and leadership, polled; a start that needs more than 180 s is inconclusive if the applied index still moves, a violation if nothing moves or the process exits",
        "an acknowledged error reply or a client timeout makes that write outcome-unknown (treated like in-flight); neither occurred in the recorded runs unless the label histogram says so",
        "single replica only: the five points on the incoming-snapshot path (ready.snap_saved, ready.snap_applied, apply.snap_prepared, apply.snap_restoring) and start.cleaned after a snapshot are not reachable and are listed as unreached",
        "rocksdb runs against the sandbox's stock librocksdb 7.8.3 (assertion-enabled build) through the patched binding; an abort inside librocksdb with 'Assertion ... failed' is excluded and counted (excluded_rocksdb_assert_artifact)",
        "the five findings this check made on the pinned tree (acknowledgement before the WAL save with one replica, death inside the checkpoint restore, checkpoint cut after the apply loop resumed, ready before the replayed batch was committed, stale temp WAL segment) are repaired in /repo; their exclusions (no stall-then-die at ready.before_persist, no death inside the copy loop, a barrier write before each dump, tolerance for the last acknowledged write) are keyed to known_findings.json and are therefore off",
        "histories also write HyperLogLog keys (PFADD on dedicated keys; the reference model counts them as exact sets, which a self-check proves right for the element pool; the reply of PFADD is not compared) and draw the namespace option optimized_fsync",
    ],
    quick=[
        dict(name="crash_pebble", pkg="c06_crash", test="TestCrashEnumeration", checks=1, shards=16, timeout=900,
             env={"C06_ENGINE": "pebble", "C06_STRIDE": "2"}),
        dict(name="known", pkg="c06_crash", test="TestKnown.*", checks=1, shards=1, timeout=600),
    ],
    thorough=[
        dict(name="crash_pebble", pkg="c06_crash", test="TestCrashEnumeration", checks=2, shards=16, timeout=3000,
             env={"C06_ENGINE": "pebble", "C06_STRIDE": "1"}),
        dict(name="crash_rocksdb", pkg="c06_crash", test="TestCrashEnumeration", checks=2, shards=16, timeout=3000,
             env={"C06_ENGINE": "rocksdb", "C06_STRIDE": "1"}),
        dict(name="known", pkg="c06_crash", test="TestKnown.*", checks=1, shards=1, timeout=600),
    ],
)

TEXT = dict(
    engine="verifkv-processes",
    design_ref="DESIGN.md §4 C06, §3 D, Appendix B",
    technique="fault enumeration over generated histories: a real data-node process (production server, raft, WAL, snapshotter, pebble/rocksdb engine; build tag verif) is killed at named crash points "
              "(internal/verifhook call sites on the persist/apply/snapshot/restore/purge/WAL-cut path: k-th hit, or stall-then-die) and by kill -9 at drawn instants, including crashes while it is "
              "recovering from a crash, restarted on the same directory, and its full logical dump is compared with a reference model of the acknowledged history",
    level_text="Per generated history the named crash points that the history reaches are enumerated completely x k in {1,2,3,5,8,last} (31 call sites, 26 reachable with one replica); "
               "kill -9 instants, stall durations and the histories themselves are explored, not enumerated. The schedule inside the process is not controlled: a window between two steps is hit "
               "only where a named point (or a stall at one) opens it. No absence claim beyond the runs made.",
    level_note="Trusted: the reference model (lib/model, decided against the implementation by C08), the RESP client, the hook log order (one O_APPEND write per point). "
               "One replica only, so the follower-side snapshot path is out of reach here. Process kills keep the page cache: missing-fsync defects are invisible by construction (C05 covers the WAL's). "
               "No known finding of this property is open.",
)
