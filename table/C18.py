# Run table and MANIFEST text for C18 (see ../check and ../tools/gen_manifest.py).
SPEC = dict(
    level="exploration",
    rule="placeholder",
    assumptions=[],
    quick=[
        dict(name="sequences", pkg="c18_migration", test="TestMigrationSequences", checks=700, shards=16),
        dict(name="known", pkg="c18_migration", test="TestKnown.*", checks=1, shards=1),
    ],
    thorough=[
        dict(name="sequences", pkg="c18_migration", test="TestMigrationSequences", checks=6000, shards=16),
        dict(name="known", pkg="c18_migration", test="TestKnown.*", checks=1, shards=1),
    ],
)
TEXT = dict(engine="pd-coordinator", design_ref="DESIGN.md §4 C18", technique="", level_text="", level_note="")
