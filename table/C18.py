# Run table and MANIFEST text for C18 (see ../check and ../tools/gen_manifest.py).
SPEC = dict(
    level="exploration",
    rule="rapid-generated sequences against a real, never-started PDCoordinator wired to an in-memory register (epochs / compare-and-swap honoured, read cache refreshed like the etcd register's) "
         "and to loopback HTTP servers playing the data nodes (their port is part of the node id, so IsRaftNodeSynced / IsAllISRFullReady / IsRaftNodeJoined run unchanged). "
         "Start: replication 1-5, 1-3 partitions, 3-8 nodes, any layout that satisfies the invariants (quorum, <=1 removal pending, <= replica+1 replicas, arbitrary ids <= MaxRaftID). "
         "Then 5-60 steps drawn from: node down / up / register session lost / unreachable for the coordinator / new node / node marked for decommission; probe answers per (node, partition): synced yes/no, "
         "member view applied / including the removing replica / lagging one write / namespace not loaded; register faults: CAS failure, write error, commit with lost reply, scan error, remote read error, cache refresh; "
         "coordinator actions: full and single-partition doCheckNamespaces pass, handleNamespaceMigrate, removeNamespaceFromRemovings, balance round (rebalanceNamespace), decommission round (processRemovingNodes), "
         "addNamespaceToNode / removeNamespaceFromNode under the gates of their automatic callers, and the operator API RemoveNamespaceFromNode. "
         "The oracle runs inside the register on every accepted UpdateNamespacePartReplicaInfo. "
         "distinct_nontrivial counts distinct sequences with >=2 accepted writes one of which newly marks a removal while another replica of that partition (not the marked one) is down (unregistered or not answering) or answers 'not synced'.",
    assumptions=[
        "the namespace's Replica setting is constant inside a sequence (ChangeNamespaceMetaParam is not an event): after raising it the stored layout can already be below the new quorum and addNamespaceToNode, which has no quorum test of its own, may legitimately write such a layout",
        "'unreachable' in the last clause means: the replica's node does not answer the coordinator's HTTP probes; a node that lost its register session but still answers is reachable. The clause is not asserted for writes made through the operator API RemoveNamespaceFromNode, which takes no liveness input by design",
        "'report being in sync' means: every remaining replica (RaftNodes minus Removings) of the replaced value answers the israftsynced probe with OK at the time of the write",
        "addNamespaceToNode / removeNamespaceFromNode have no gates of their own for sync state; they are invoked only the way their callers invoke them: through the real balance / decommission / check-pass code, or directly after the same tests those callers make (no removal pending, remaining replicas <= replica resp. > replica, IsAllISRFullReady)",
        "the register's node watch is replaced by VerifSetDataNodes, which applies the state changes of handleDataNodes for one watch event; the two wait intervals are set to 0 by hook; the hard-coded 10 ms sleep of doCheckNamespaces is slept; the hard-coded 5 s waits of balance / decommission rounds are cut by closing the monitor channel (coordinator loses leadership) at the round's first write attempt, so a round performs at most one write",
        "at most one node is marked for decommission at a time; with more than one partition the coordinator visits partitions in Go map order, so a failing multi-partition sequence may not replay identically (the failure message carries the complete trace)",
        "while known finding C18-placement-panic-live-nodes-all-in-row is open, coordinator actions whose layout call would panic are skipped (counted as excluded_by_known_finding)",
    ],
    quick=[
        dict(name="sequences", pkg="c18_migration", test="TestMigrationSequences", checks=700, shards=16),
        dict(name="known", pkg="c18_migration", test="TestKnown.*", checks=1, shards=1),
    ],
    thorough=[
        dict(name="sequences", pkg="c18_migration", test="TestMigrationSequences", checks=6000, shards=16),
        dict(name="known", pkg="c18_migration", test="TestKnown.*", checks=1, shards=1),
    ],
)

TEXT = dict(
    engine="pd-coordinator",
    design_ref="DESIGN.md §4 C18",
    technique="property-based testing (rapid): generated event / probe-answer / register-fault / action sequences drive the real decision methods of the placement-driver coordinator through verif-tagged wrappers; invariant oracle over every metadata write the in-memory register accepts, relative to the value it replaces",
    level_text="Generated-input exploration: thousands of sequences per run; every accepted PartitionReplicaInfo is checked for: at most one removal pending; remaining replicas distinct and a strict majority of the replication factor; at most one replica added per write and only while every remaining replica answers 'synced'; replica ids unique and every new id above all ids ever seen for the partition; no removal newly marked while more than half of the replicas do not answer. No absence claim.",
    level_note="Trusted: the in-memory register (CAS on epochs, cache semantics modelled on register_etcd.go) and the harness data nodes' answers. Seams: VerifSetDataNodes mirrors handleDataNodes; balance / decommission rounds are cut after their first write by closing the monitor channel; the learner coordinator, namespace creation and Replica changes are not driven. The coordinator's goroutines never run, so races between its loops are outside this check.",
)
