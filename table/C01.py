# Run table and MANIFEST text for C01 (see ../check and ../tools/gen_manifest.py).
_PKG = "c01_leader"
SPEC = dict(
    level="exploration",
    rule="rapid-generated schedules of one raft group of real raft.Node replicas driven through StepNode by the schedule-owning simulator "
         "lib/raftsim (ticks, message deliver/drop/dup/reorder, partitions, proposals, single-step membership changes incl. learners, "
         "campaign, leadership transfer, crash at every stage boundary of processReady with torn WAL tail, restart from the durable record, "
         "snapshot+compact); 1-5 bootstrap replicas, pre-vote/check-quorum on and off. A case is non-trivial if it contains >=2 distinct "
         "terms with an observed leader AND at least one of {crash/restart, dropped or duplicated vote message, applied membership change, "
         "partition}. distinct_nontrivial sums the distinct non-trivial trace hashes per sub-run.",
    assumptions=[
        "the simulator only moves, drops or duplicates messages a node emitted, and processes each Ready in the order of node/raft.go processReady (new leader sends first; publish, snapshot marker, entries+hardstate, storage.Append, send, Advance)",
        "a restart has exactly what reached the WAL-like durable record (synced records always; an unsynced tail may survive partly)",
        "replica ids are never reused after removal (the cluster layer allocates fresh ids)",
        "the trigger of the one open known finding (C01-partial-bootstrap-self-election) is excluded from generation and counted; the findings of C02/C03 that also broke election safety downstream are repaired in /repo (known_findings.json) and their triggers are generated again",
    ],
    quick=[
        dict(name="l1", pkg=_PKG, test="TestLeaderL1", checks=2400, shards=2),
        dict(name="l2", pkg=_PKG, test="TestLeaderL2", checks=1700, shards=5),
        dict(name="member", pkg=_PKG, test="TestLeaderMembership", checks=2000, shards=4),
        dict(name="l3", pkg=_PKG, test="TestLeaderL3", checks=4000, shards=4),
        dict(name="known", pkg=_PKG, test="TestKnown.*", checks=1, shards=1),
    ],
    thorough=[
        dict(name="l1", pkg=_PKG, test="TestLeaderL1", checks=30000, shards=2),
        dict(name="l2", pkg=_PKG, test="TestLeaderL2", checks=14000, shards=5),
        dict(name="member", pkg=_PKG, test="TestLeaderMembership", checks=16000, shards=5),
        dict(name="l3", pkg=_PKG, test="TestLeaderL3", checks=30000, shards=4),
        dict(name="known", pkg=_PKG, test="TestKnown.*", checks=1, shards=1),
    ],
)

TEXT = dict(
    engine="raftsim",
    design_ref="DESIGN.md §3-A, §4 C01",
    technique="property-based testing (rapid) of generated schedules and fault sequences over real raft.Node replicas in a schedule-owning simulator; history-invariant oracle on black-box observations (Ready.SoftState/HardState, emitted messages, durable record)",
    level_text="Generated-schedule exploration: the simulator owns network, clocks, disks and the application of 1-5 (plus up to 2 joined) real raft.Node replicas and runs raft code only in StepNode/Ready processing that copies node/raft.go processReady, with crashes at every stage boundary. Three generator layers (uniform, swarm, phase-structured elections that stop at the instant of leadership) plus a membership macro (back-to-back conf changes while commit-carrying messages are withheld from one member, leader isolated, both sides campaign). Checked after every step: at most one replica acts as leader per term; a learner (in its own applied configuration) never leads and never grants a vote; one vote per replica and term among sent votes, durable hard states and across restarts. Held on everything explored outside the excluded triggers of the known findings; no absence claim.",
    level_note="One genuine violation is recorded as known finding C01-partial-bootstrap-self-election (two leaders in one term; needs a bootstrap member that lost its first WAL write and a message size limit that splits the bootstrap entries); its trigger is excluded by construction (counter excluded_by_known_finding). lib/raftsim re-implements the step order of processReady and the replay rule of wal.ReadAll; the real functions are checked by C03's sub-run ready_order, by C05 and by C06. Trusted: the simulator's model of WAL/snapshot durability (wal.Save/SaveSnapshot sync rules, ValidSnapshotEntries, ReadAll replay) and of the apply goroutine (ApplyConfChange hand-off). The real transport, WAL files and KVNode goroutines are not in the loop (C04-C06, C16). Raft panics are treated as a crash here (they are violations in C02).",
)
