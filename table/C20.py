# Run table and MANIFEST text for C20 (see ../check and ../tools/gen_manifest.py).
_HIST = "TestEngineHistories"

SPEC = dict(
    level="exploration",
    rule="rapid-generated histories over engine.KVEngine executed on every engine of the sub-run and compared, read by read, with a "
         "from-scratch sorted-map reference: write batches (new / default) of put, delete, delete-range and 8-byte little-endian counter merge that are "
         "committed (Commit or KVEngine.Write), cleared, re-used or abandoned, with reads while the batch is still uncommitted; point reads through "
         "GetBytes/GetBytesNoLock/Exist/ExistNoLock/MultiGetBytes/GetRef/GetRefNoLock/GetValueWithOp/GetValueWithOpNoLock; range and range-limit "
         "iterators over every combination of nil/existing/between/below-all/above-all bounds, close/lopen/ropen/open, direction, offset, count, "
         "IgnoreDel, WithSnap (with a commit while the iterator is open), NoTimestamp, Key/RefKey; raw cursor walks (Seek/SeekForPrev/SeekToFirst/"
         "SeekToLast/Next/Prev); CompactAllRange, close+reopen, checkpoint+open; a full dump at the end. "
         "distinct_nontrivial counts histories with >=1 committed delete-range or merge AND >=1 reverse range iterator with a closed bound equal to a "
         "visible key that was compared on every engine of the case.",
    assumptions=[
        "iterator cases keep all keys >= 3 bytes inside one 3-byte prefix with bounds inside that prefix (rocksdb is opened with FixedPrefixTransform(3) + prefix_same_as_start; engine/iterator.go documents that iterators may skip keys of other prefixes); keys of neighbouring prefixes are stored as noise and must never be returned; a nil bound is only used on a side without foreign-prefix keys; raw cursor positions outside the prefix are observed as 'none'",
        "keys of 1-2 bytes are used only in histories without iterators and without CompactAllRange; the empty key is outside the domain (no caller can encode it; pebble fails to reopen after Put(\"\") and its CompactAllRange never returns)",
        "merge is applied only to dedicated counter keys whose values are always 8 bytes or absent (the table key counter is the only merge target in rockredis); MultiGetBytes gets >= 1 key",
        "batch shapes no caller produces are not generated: DeleteRange over a key put/merged earlier in the same uncommitted batch, Merge on a key deleted earlier in the same batch (the mem-radix batch evaluates DeleteRange and Merge against committed data and orders these two shapes differently from rocksdb/pebble); every Commit/Write is followed by Clear; at most one batch holds operations at a time (the radix index has a single writer lock); an abandoned batch is destroyed",
        "IgnoreDel is used only in histories without delete-range; Next/Prev are never called on an invalid cursor; approximate sizes / key counts and DeleteFilesInRange are not compared",
        "rocksdb is stock 7.8.3 behind the patched binding (DESIGN 1.1); the btree and skiplist variants of the mem engine (not selectable by configuration, switched through the verif hook engine.VerifSetMemType) run only in the thorough tier, without the commit-while-iterator-open step (btree would self-deadlock, skiplist iterators are live views) and without the check that batches do not retain caller buffers",
        "open known findings exclude their trigger on the affected engine only (counted in excluded_by_known_finding): reverse start on an inclusive Max that is a visible key (pebble, mem-btree); keys / bounds related by a 0x00 extension (mem-radix; the pebble+rocksdb sub-run keeps such keys); reverse range with no key <= Max in the whole store (mem)",
    ],
    quick=[
        dict(name="mem_pebble", pkg="c20_engine", test=_HIST, checks=1500, shards=4, env={"C20_ENGINES": "mem-radix,pebble"}),
        dict(name="all3", pkg="c20_engine", test=_HIST, checks=500, shards=3, env={"C20_ENGINES": "mem-radix,pebble,rocksdb"}),
        dict(name="pebble_rocksdb", pkg="c20_engine", test=_HIST, checks=400, shards=1, env={"C20_ENGINES": "pebble,rocksdb"}),
        dict(name="known", pkg="c20_engine", test="TestKnown.*", checks=1, shards=1),
    ],
    thorough=[
        dict(name="mem_pebble", pkg="c20_engine", test=_HIST, checks=45000, shards=8, env={"C20_ENGINES": "mem-radix,pebble"}),
        dict(name="all3", pkg="c20_engine", test=_HIST, checks=9000, shards=5, env={"C20_ENGINES": "mem-radix,pebble,rocksdb"}),
        dict(name="pebble_rocksdb", pkg="c20_engine", test=_HIST, checks=9000, shards=1, env={"C20_ENGINES": "pebble,rocksdb"}),
        dict(name="btree_pebble", pkg="c20_engine", test=_HIST, checks=30000, shards=1, env={"C20_ENGINES": "mem-btree,pebble"}),
        dict(name="skiplist_rocksdb", pkg="c20_engine", test=_HIST, checks=10000, shards=1, env={"C20_ENGINES": "mem-skiplist,rocksdb"}),
        dict(name="known", pkg="c20_engine", test="TestKnown.*", checks=1, shards=1),
        dict(name="fuzz", pkg="c20_engine", fuzz="FuzzEngineHistories", fuzztime="60s", parallel=3, env={"C20_ENGINES": "mem-radix,pebble,rocksdb"}),
    ],
)

TEXT = dict(
    engine="engine-diff",
    design_ref="DESIGN.md §4 C20",
    technique="property-based testing (rapid): differential execution of generated batch/read/iterator histories on the real mem, pebble and rocksdb engines against a sorted-map reference model written from the contract in engine/kv.go and engine/iterator.go; in the thorough tier the same property is also driven by go's native fuzzer (rapid.MakeFuzz, mutation of the draw stream, no coverage guidance since the driver builds without instrumentation)",
    level_text="Generated-history exploration: thousands (quick) to several hundred thousand (thorough) histories per run, every read of every engine compared with the reference, so the engines are pairwise equal on everything explored; uncommitted, cleared and abandoned batches must stay invisible, committed ones become visible completely; snapshot iterators must not see a commit made while they are open; state must survive compaction, close+reopen and checkpoint+open. No absence claim.",
    level_note="Trusted: the ~150-line reference model. Domain restricted to what the callers can produce (one 3-byte prefix per iterator case, no empty key, merge only on counter keys, batch shapes of rockredis; see assumptions). rocksdb results are evidence about the Go wrapper on stock RocksDB 7.8.3, not about youzan's fork. Triggers of the open known findings are excluded on the affected engine only and counted.",
)
