# Run table and MANIFEST text for C08.
SPEC = dict(
    level="exploration",
    rule="rapid-generated command sequences (1-60 commands of the documented KV/hash/list/set/zset command set incl. clear/keyexist extensions and multi-key DEL/EXISTS/MGET) over small adversarial per-case pools "
         "(names that are prefixes of each other, contain ':' 0x00 0xff, empty members/values, integer extremes, score ties, fractional and huge scores, negative and out-of-range indexes), sent through the server's redis entry point; "
         "every reply, a read-back of the touched key after every write and of the whole pool at the end are compared with lib/model (errors by class). non-trivial = a collection was emptied and re-created, OR a command repeats a member/field/key, OR a negative/out-of-range index hit a non-empty list/zset. "
         "Scores at the edge of the number line are drawn into the pool in three cases of eight: inf / -inf / +inf (valid scores) and nan (must be refused, also as the result of ZINCRBY of one infinity onto the other). Grammar exclusions: infinite range bounds on the other side or without sign ('+inf' / 'inf' as min, '-inf' as max, '+' as lexical min, '-' as lexical max: refused with an error instead of selecting nothing - recorded as C08-infinite-range-bound-only-on-its-own-side, not generated while it is open); indexes beyond +-100 (the documented 5000-element fetch limit is computed before clamping); DECR / DECRBY / SMCLEAR (documented, no client-side handler: C08-documented-commands-not-registered); "
         "names containing 0x00 on the mem engine and MGET across partitions while the corresponding known findings are open; the score -0 is generated (a quarter of the cases) and only the sign of a zero and the spelling of an infinity (+Inf for inf) in a sorted-set reply are not compared while C08-negative-zero-score-sign / C08-infinite-score-spelled-go-style are open.",
    assumptions=[
        "reference model lib/model written from Redis semantics + doc/user-guide.md; conventions of its own that are modelled: the extension commands' replies (*CLEAR return 1/0), ZRANGEBYLEX on mixed scores in member order (unspecified in Redis), finite scores print in the shortest form that reads back (strconv 'g'); reply differences from Redis that are recorded as known findings switch the model while they are open (TTL of a missing key, PERSIST without expiry, spelling of an infinite score)",
        "log timestamps are the real wall clock here (expiry is C10's subject); only far-future TTLs are generated",
        "fake single-replica raft: each proposal is committed and applied synchronously through the node's real applyEntries",
    ],
    quick=[
        dict(name="mem", pkg="c08_model", test="TestModelMem", checks=2500, shards=3),
        dict(name="pebble", pkg="c08_model", test="TestModelPebble", checks=1500, shards=3),
        dict(name="rocksdb", pkg="c08_model", test="TestModelRocksdb", checks=800, shards=2),
        dict(name="localdel", pkg="c08_model", test="TestModelLocalDeletion", checks=1200, shards=1),
        dict(name="multipart", pkg="c08_model", test="TestModelMultiPartition", checks=1200, shards=1),
        dict(name="known", pkg="c08_model", test="TestKnown.*", checks=1, shards=1),
    ],
    thorough=[
        dict(name="mem", pkg="c08_model", test="TestModelMem", checks=40000, shards=5),
        dict(name="pebble", pkg="c08_model", test="TestModelPebble", checks=30000, shards=5),
        dict(name="rocksdb", pkg="c08_model", test="TestModelRocksdb", checks=20000, shards=3),
        dict(name="localdel", pkg="c08_model", test="TestModelLocalDeletion", checks=30000, shards=1),
        dict(name="multipart", pkg="c08_model", test="TestModelMultiPartition", checks=30000, shards=1),
        dict(name="known", pkg="c08_model", test="TestKnown.*", checks=1, shards=1),
        dict(name="exhaustive", pkg="c08_model", test="TestExhaustiveSmallScope", checks=1, shards=16),
    ],
)
TEXT = dict(
    engine="simkv",
    design_ref="DESIGN.md §4 C08, §3-B",
    technique="model-based property testing (rapid): generated command sequences run through the real server/node/apply path and compared reply-by-reply with a from-scratch reference model",
    level_text="Generated-input exploration against an explicit reference model: thousands of colliding command sequences per run on mem, pebble and rocksdb, both expiry policies and 2-4 partitions; every reply and every read-back must equal the model. Found and repaired four defects on the pinned tree (see known_findings.json). No absence claim except for the thorough tier's bounded-exhaustive sub-run: all 112,944 sequences of length <= 3 over a 48-command alphabet on the mem engine.",
    level_note="Trusted: lib/model (about 900 lines, written from Redis semantics and the user guide; its own conventions and the finding-switched replies listed in the evidence assumptions), the fake raft (commit = apply, single replica), error comparison by class only. RocksDB is stock 7.8.3 through a patched binding.",
)
