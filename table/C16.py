# Run table and MANIFEST text for C16 (see ../check and ../tools/gen_manifest.py).
SPEC = dict(
    level="exploration",
    rule="rapid-generated message sequences pushed through the real stream encoders and decoders "
         "(msgappv2: MsgApp-shaped messages of 1-6 raft groups sharing one stream, entry sizes around the 1 MiB buffer limit; "
         "message codec: all types, arbitrary fields); every/sampled truncation point; byte mutations. "
         "Sub-run stream: the real streamWriter (queue, flush batching, attach / stop; hook rafthttp.VerifStreamWriterRun) in front of the real decoder, with a backlog queued before the connection is attached (none, a few, around the flush-batch limit of half the queue, up to the full queue) and batches queued afterwards: what the queue accepted is what is read back, in order. "
         "distinct_nontrivial sums, per sub-run, the distinct cases that satisfy that sub-run's rule (see sub_runs).",
    assumptions=[
        "msgappv2 inputs are restricted to what peer.pick routes there: MsgApp with From/To equal to the groups' replica ids, group name a function of group id, FromGroup.NodeId == remote, ToGroup.NodeId == local",
        "the stream formats carry no checksum: for corrupted bytes only termination without panic/unbounded allocation is decided; equality is decided for intact and truncated streams",
    ],
    quick=[
        dict(name="v2rt", pkg="c16_codec", test="TestMsgAppV2RoundTrip", checks=6000, shards=2),
        dict(name="v2trunc", pkg="c16_codec", test="TestMsgAppV2Truncation", checks=300, shards=2),
        dict(name="msgrt", pkg="c16_codec", test="TestMessageRoundTrip", checks=6000, shards=1),
        dict(name="msgtrunc", pkg="c16_codec", test="TestMessageTruncation", checks=300, shards=2),
        dict(name="corrupt", pkg="c16_codec", test="TestCorruptStreamNoPanic", checks=8000, shards=1),
        dict(name="stream", pkg="c16_codec", test="TestStreamWriter", checks=150, shards=4),
        dict(name="known", pkg="c16_codec", test="TestKnown.*", checks=1, shards=1),
    ],
    thorough=[
        dict(name="v2rt", pkg="c16_codec", test="TestMsgAppV2RoundTrip", checks=40000, shards=6),
        dict(name="v2trunc", pkg="c16_codec", test="TestMsgAppV2Truncation", checks=2500, shards=4),
        dict(name="msgrt", pkg="c16_codec", test="TestMessageRoundTrip", checks=40000, shards=2),
        dict(name="msgtrunc", pkg="c16_codec", test="TestMessageTruncation", checks=2500, shards=3),
        dict(name="corrupt", pkg="c16_codec", test="TestCorruptStreamNoPanic", checks=100000, shards=1),
        dict(name="known", pkg="c16_codec", test="TestKnown.*", checks=1, shards=1),
        dict(name="stream", pkg="c16_codec", test="TestStreamWriter", checks=4000, shards=6),
        dict(name="fuzzv2", pkg="c16_codec", fuzz="FuzzMsgAppV2Decode", fuzztime="90s", parallel=6),
        dict(name="fuzzmsg", pkg="c16_codec", fuzz="FuzzMessageDecode", fuzztime="60s", parallel=4),
    ],
)

TEXT = dict(
    engine="codec",
    design_ref="DESIGN.md §4 C16",
    technique="property-based testing (rapid): round-trip and prefix-then-error oracles over generated message streams; the real stream writer over an in-memory connection; native go fuzzing of both decoders in the thorough tier",
    level_text="Generated-input exploration: tens of thousands of multi-group message sequences through the real msgappv2 and message encoders/decoders compared message by message (after the whole stream is decoded, so buffer aliasing shows); every truncation point of small streams must give a prefix of the sent sequence followed by an error; mutated streams and fuzzed bytes must not panic or allocate from unchecked lengths; the real stream writer is driven with backlogs around its flush-batch limit. The stream reader's dial / retry loop and real sockets are not driven. No absence claim.",
    level_note="Trusted: gogo-protobuf marshal/unmarshal of raftpb; the canonical text rendering used for equality (nil and empty slices identified). Inputs to msgappv2 are restricted to the MsgApp shape raft produces. For corrupted (not truncated) streams the format has no checksum, so only crash/allocation safety is decided.",
)
