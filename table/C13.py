# Run table and MANIFEST text for C13.
SPEC = dict(
    level="exploration",
    rule="generated populations of non-empty names (prefixes of each other, ':' 0x00 0xff, glob metacharacters, 300-byte names) per (type, table) or per collection, with populated neighbouring tables, collections and types; scan plans over SCAN / REVSCAN / ADVSCAN / ADVREVSCAN (5 types) through the server's merge layer on 1, 3 or 4 partitions and HSCAN / SSCAN / ZSCAN + rev forms; COUNT in {absent, 1, 2, 3, n-1, n, n+1, 100}; optional MATCH; optional writes to other names between pages; every returned cursor is fed back until the empty cursor. "
         "Oracle: pages concatenated == (reverse-)sorted population (per partition on a multi-partition namespace, as the user guide states), nothing from neighbours, no duplicates, termination within n+12 pages, with MATCH exactly the glob-filtered subset, collection scans resumed at a random intermediate cursor return exactly the suffix. "
         "non-trivial = population with two names one of which is a prefix of the other AND >= 2 pages.",
    assumptions=[
        "a reverse scan starts below its cursor and the empty cursor is below everything (asserted by the repository's own tests), so reverse scans are started from a client-built cursor above every generated name",
        "for key scans MATCH is applied to the stored name 'table:key' (as the implementation and the user guide's example do); for collection scans to the element name; glob semantics are those of gobwas/glob, the library the code uses",
        "reverse key scans are not run on the rocksdb engine: the sandbox's assertion-enabled stock librocksdb aborts in FixedPrefixTransform (InDomain) there, a release build does not",
        "names containing 0x00 are generated on every engine since the mem-radix fix; empty names are outside the property's stated domain",
        "the FULLSCAN command (rockredis/fullscan.go) is not part of the claim: the statement names SCAN/ADVSCAN/HSCAN/SSCAN/ZSCAN, the user guide does not document FULLSCAN, and a generated cursor-chained run of it (DESIGN.md 9.8) showed a legacy interface that answers with internal representations (versioned collection keys, kv values with their stored header) although every (key, element) pair came back exactly once and every run terminated; its key builders are used by the whole-table delete, which C12 exercises",
    ],
    quick=[
        dict(name="key_mem", pkg="c13_scan", test="TestKeyScanMem", checks=700, shards=2),
        dict(name="key_pebble", pkg="c13_scan", test="TestKeyScanPebble", checks=700, shards=2),
        dict(name="key_rocksdb", pkg="c13_scan", test="TestKeyScanRocksdb", checks=400, shards=1),
        dict(name="key_multi", pkg="c13_scan", test="TestKeyScanMultiPartition", checks=700, shards=2),
        dict(name="coll_mem", pkg="c13_scan", test="TestCollScanMem", checks=900, shards=1),
        dict(name="coll_pebble", pkg="c13_scan", test="TestCollScanPebble", checks=900, shards=1),
        dict(name="coll_rocksdb", pkg="c13_scan", test="TestCollScanRocksdb", checks=500, shards=1),
        dict(name="known", pkg="c13_scan", test="TestKnown.*", checks=1, shards=1),
    ],
    thorough=[
        dict(name="key_mem", pkg="c13_scan", test="TestKeyScanMem", checks=12000, shards=3),
        dict(name="key_pebble", pkg="c13_scan", test="TestKeyScanPebble", checks=12000, shards=3),
        dict(name="key_rocksdb", pkg="c13_scan", test="TestKeyScanRocksdb", checks=8000, shards=2),
        dict(name="key_multi", pkg="c13_scan", test="TestKeyScanMultiPartition", checks=12000, shards=3),
        dict(name="coll_mem", pkg="c13_scan", test="TestCollScanMem", checks=15000, shards=2),
        dict(name="coll_pebble", pkg="c13_scan", test="TestCollScanPebble", checks=15000, shards=2),
        dict(name="coll_rocksdb", pkg="c13_scan", test="TestCollScanRocksdb", checks=10000, shards=1),
        dict(name="known", pkg="c13_scan", test="TestKnown.*", checks=1, shards=1),
    ],
)
TEXT = dict(
    engine="simkv",
    design_ref="DESIGN.md §4 C13",
    technique="property-based testing (rapid): generated populations and scan plans; oracle = sorted-population reference (order, exactly-once, containment, glob subset, termination, cursor-resume suffix)",
    level_text="Generated-input exploration: every scan command is iterated to exhaustion through the real server merge layer / node handlers over adversarial populations with populated neighbours and compared with the sorted population. Found and repaired two defects of the server's scan path.",
    level_note="Trusted: the glob library for the expected MATCH subset, the partition hash (node.GetHashedPartitionID) used only to check per-partition order on multi-partition namespaces.",
)
