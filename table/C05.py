# Run table and MANIFEST text for C05 (see ../check and ../tools/gen_manifest.py).
SPEC = dict(
    level="fault_enumeration",
    rule="rapid-generated save histories (Create, Save with hard state and/or entries incl. suffix overwrites with a higher term, SaveSnapshot local and incoming, "
         "Sync, ReleaseLockTo, Close+reopen-and-continue; payloads 0/1/7/8/9/30/100/500-520/4 KiB+-8 and occasionally around the 1 MiB encoder buffer; "
         "segments of 4/16/64 KiB; both optimizedFsync settings) are executed by the real WAL in a worker process under strace; crash images are built from the observed "
         "write/fdatasync/ftruncate/rename/fsync(dir) calls and reopened with the production sequence Open->ReadAll, Repair once on error. "
         "Per history the images are enumerated, not sampled: see sub_runs.crash_images.rule. "
         "distinct_nontrivial sums, per sub-run, the distinct images that satisfy that sub-run's rule.",
    assumptions=[
        "crash model: bytes covered by a completed fdatasync/fsync of their file are present; every other written byte is present or absent per 512-byte sector (plus the byte-granular prefix cuts the property quantifies over); absent bytes read as the zeros of the preallocated file; a rename is durable after the directory fsync that follows it, both outcomes before that; the first segment's directory entry is taken as durable once Create has returned",
        "histories have the shape node/raft.go produces (terms/commit monotone, contiguous entries, overwrite only of an uncommitted suffix with a higher term, a hard state passed only when it changed, local snapshot markers at committed indexes, an incoming snapshot followed by the Save that commits it); the log is reopened at snapshot markers ValidSnapshotEntries returns for the image (production) and at the zero marker when that fails",
        "the 8-byte framing and the protobuf envelope of the segment files are parsed by the harness to locate record boundaries and byte classes (trusted: gogo-protobuf unmarshal)",
        "lower bound of the returned prefix = max(everything written before the start of the last completed fdatasync as observed in the trace, everything an already returned call promises durable: raft.MustSync for Save, SaveSnapshot, Sync, Close; with optimizedFsync only Save with a term/vote change, Sync, Close)",
        "a loud failure (error from Open/ReadAll after the one Repair) is always accepted, as the property states; label counts split loud failures from returned prefixes and byte-granular from sector-granular images",
    ],
    quick=[
        dict(name="crash", pkg="c05_wal", test="TestWALCrashImages", checks=10, shards=16, timeout=600),
        dict(name="known", pkg="c05_wal", test="TestKnown.*", checks=1, shards=1),
    ],
    thorough=[
        dict(name="crash", pkg="c05_wal", test="TestWALCrashImages", checks=30, shards=16, timeout=1500),
        dict(name="known", pkg="c05_wal", test="TestKnown.*", checks=1, shards=1),
        dict(name="fuzzseg", pkg="c05_wal", fuzz="FuzzWALSegment", fuzztime="120s", parallel=6),
    ],
)

TEXT = dict(
    engine="wal-crash-images",
    design_ref="DESIGN.md §4 C05, §3 E",
    technique="fault enumeration over generated histories: the real WAL runs each rapid-generated save history in a worker process under strace; "
              "from the observed system calls the harness builds every crash image of its enumeration (byte- and sector-granular loss of unsynced writes, sector holes, "
              "rename durable or not, single bit flips in synced bytes) and reopens each with the production Open/ReadAll/Repair sequence against a reference replay of a record prefix; "
              "native go fuzzing of a mutated segment file in the thorough tier",
    level_text="Per generated history the crash points are enumerated completely within stated caps: at every observed system-call boundary the images "
               "'nothing unsynced present' and 'everything written present'; after every write the unsynced tail cut at each sector and record boundary; for the last write and "
               "drawn other writes every byte offset of the unsynced tail (windowed above 700 bytes quick / 2200 bytes thorough) and every present/absent pattern over up to 6 unsynced sectors. "
               "Histories themselves are explored, not enumerated. No absence claim beyond the images actually built.",
    level_note="Trusted: strace's report of system calls and their order, the append-only reconstruction of file contents (verified per trace), gogo-protobuf, the harness's frame walker. "
               "Sync points are observed, the durability promise of each API call is taken from the documented policy. A loud failure is accepted for every image (the property says so); "
               "evidence labels show how many sector-granular images ended loud. One open known finding narrows the search: flips of the record-type byte are excluded (C05-record-type-not-checksummed). The optimizedFsync cut finding, the stale temp segment and the replay truncation rule are repaired in /repo.",
)
