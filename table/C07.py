# Run table and MANIFEST text for C07.
SPEC = dict(
    level="exploration",
    rule="a generated committed log (5-80 entries, write commands of the KV / hash / list / set / zset / bitmap / HyperLogLog / JSON families incl. every EXPIRE / PERSIST variant over a small colliding key pool; log timestamps adversarially spaced: equal (when no known finding forbids it), +1 ns, sub-second, across second boundaries, at / 1 ns / 1 s around expiry instants) is framed exactly as KVNode.ProposeInternal frames it and applied by the node's real applyEntries under TWO execution plans that differ in engine (mem / pebble / rocksdb), partition of the log into apply batches (singletons / random cuts / one batch), replay cut (prefix applied as 'replaying'), leader vs follower (waiters registered or not), and whether the replica takes a checkpoint and restarts from it (engine reopened, every cache gone) after a drawn entry of the log; "
         "the reply recorded for every request id and a logical dump of the whole key pool through the read handlers (24 reads per key; TTLs within 2 s) must be equal. A THIRD execution applies the same log shifted by a whole number of seconds from 'every expiry long past' (T0-2000 s) to 'every expiry in the future' (T0+2*10^6 s) of the wall clock: every write reply must be the same (error class for errors). "
         "non-trivial = the log has two adjacent batchable writes on one key AND a read-modify-write on a key that carries an expiry AND the plans differ in >= 2 dimensions.",
    assumptions=[
        "log level only: commands answered by the leader-side pre-read (SETNX/SPOP/LPOP ... on a no-op) never enter a log and are outside the property by definition",
        "both expiry policies; no background expiry pass runs (so the documented local-deletion exception never applies)",
        "checkpoint/restore and reopen as plan dimensions are covered by C14, not here",
        "entries that share one timestamp are not generated while known finding C10-clear-recreate-same-timestamp is open",
    ],
    quick=[
        dict(name="mem_pebble", pkg="c07_determinism", test="TestDeterminismMemPebble", checks=500, shards=6),
        dict(name="all_engines", pkg="c07_determinism", test="TestDeterminismAllEngines", checks=250, shards=4),
        dict(name="known", pkg="c07_determinism", test="TestKnown.*", checks=1, shards=1),
    ],
    thorough=[
        dict(name="mem_pebble", pkg="c07_determinism", test="TestDeterminismMemPebble", checks=12000, shards=10),
        dict(name="all_engines", pkg="c07_determinism", test="TestDeterminismAllEngines", checks=6000, shards=6),
        dict(name="known", pkg="c07_determinism", test="TestKnown.*", checks=1, shards=1),
    ],
)
TEXT = dict(
    engine="simkv",
    design_ref="DESIGN.md §4 C07, §3-B (log-level entry)",
    technique="relational / metamorphic property testing (rapid): the same generated log under pairs of execution plans must give equal replies and dumps; the log shifted in time relative to the wall clock must give equal write replies",
    level_text="Generated-input exploration with a relational oracle (no model): every case runs one log three times through the real apply path and compares. Found and repaired a wall-clock read in HCLEAR and an apply-path panic in SETBIT.",
    level_note="Trusted: the entry framing (copied from ProposeInternal / rebuildFirstKeyAndPropose), the waiter hook, the dump command list. Reads use the real wall clock, held away from every expiry instant (DESIGN §1.3).",
)
