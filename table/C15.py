# Run table and MANIFEST text for C15.
SPEC = dict(
    level="exploration",
    rule="(1) hash agreement: generated (namespace, set, key) triples, each checked for EVERY partition count 1..1024: the node's hash, the official SDK's hash on the sharding key it derives, and the server's split + hash of the raw key the SDK sends must agree and be in range. "
         "(2) routing: command sequences (C08 grammar, PLSET, multi-key DEL / EXISTS with duplicates) on namespaces of 1 / 3 / 4 / 8 partitions, all hosted or one partition not hosted: after every write only the owning partition's store may hold the key (node-level reads on every hosted partition), replies and data equal the one-store reference model, commands naming a key of a non-hosted partition are rejected and change nothing. "
         "distinct_nontrivial sums the sub-runs' own rules (see sub_runs).",
    assumptions=[
        "the SDK is github.com/youzan/go-zanredisdb v0.6.3 from the repository's go.mod",
        "MGET across partitions is a recorded finding (C15-mget-cross-partition) and is reduced to one key by the generator while it is open",
        "single-replica partitions behind the fake raft: 'the replica group of that partition' is one node per partition",
    ],
    quick=[
        dict(name="hash", pkg="c15_partition", test="TestHashAgreement", checks=6000, shards=2),
        dict(name="routing", pkg="c15_partition", test="TestRouting", checks=500, shards=6),
        dict(name="known", pkg="c15_partition", test="TestKnown.*", checks=1, shards=1),
    ],
    thorough=[
        dict(name="hash", pkg="c15_partition", test="TestHashAgreement", checks=100000, shards=4),
        dict(name="routing", pkg="c15_partition", test="TestRouting", checks=12000, shards=10),
        dict(name="known", pkg="c15_partition", test="TestKnown.*", checks=1, shards=1),
    ],
)
TEXT = dict(
    engine="simkv",
    design_ref="DESIGN.md §4 C15",
    technique="property-based testing (rapid): differential check server vs SDK hash for all partition counts; model-based routing check with per-partition ownership inspection",
    level_text="Generated-input exploration; the hash part is complete in the partition count (1..1024) for every generated key. The routing part inspects every hosted partition's store after every write. MGET across partitions is a recorded, unrepaired finding.",
    level_note="Trusted: lib/model as the one-store reference; node-level reads as the way to see which partition holds a key.",
)
