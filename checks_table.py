# Loads table/CNN.py files. Each defines
#   SPEC: level, rule, assumptions, quick=[sub-runs], thorough=[sub-runs]
#         sub-run keys: name, pkg (harness package dir), test (regex of Test functions), checks (rapid cases per shard),
#         shards (parallel processes with distinct rapid seeds), optional env={}, timeout (s), steps (rapid.steps),
#         or fuzz=<FuzzTarget>, fuzztime, parallel for a native fuzz campaign (thorough only)
#   TEXT: engine, design_ref, technique, level_text, level_note   (goes into MANIFEST.json)
import glob, importlib.util, os
CHECKS, TEXT = {}, {}
for fn in sorted(glob.glob(os.path.join(os.path.dirname(os.path.abspath(__file__)), "table", "C*.py"))):
    pid = os.path.basename(fn)[:-3]
    spec = importlib.util.spec_from_file_location("table_" + pid, fn)
    mod = importlib.util.module_from_spec(spec)
    spec.loader.exec_module(mod)
    CHECKS[pid] = mod.SPEC
    if hasattr(mod, "TEXT"):
        TEXT[pid] = mod.TEXT
