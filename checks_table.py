# Per-property run table used by ./check. One entry per sub-run:
#   pkg: harness package, test: regex of Test functions, checks: rapid cases per shard,
#   shards: parallel processes with distinct rapid seeds, fuzz: native fuzz target (thorough only).
CHECKS = {}

CHECKS["C16"] = dict(
    level="exploration",
    rule="rapid-generated message sequences pushed through the real stream encoders and decoders "
         "(msgappv2: MsgApp-shaped messages of 1-6 raft groups sharing one stream, entry sizes around the 1 MiB buffer limit; "
         "message codec: all types, arbitrary fields); every/sampled truncation point; byte mutations. "
         "distinct_nontrivial sums, per sub-run, the distinct cases that satisfy that sub-run's rule (see sub_runs).",
    assumptions=[
        "msgappv2 inputs are restricted to what peer.pick routes there: MsgApp with From/To equal to the groups' replica ids, group name a function of group id, FromGroup.NodeId == remote, ToGroup.NodeId == local",
        "the stream formats carry no checksum: for corrupted bytes only termination without panic/unbounded allocation is decided; equality is decided for intact and truncated streams",
    ],
    quick=[
        dict(name="v2rt", pkg="c16_codec", test="TestMsgAppV2RoundTrip", checks=6000, shards=2),
        dict(name="v2trunc", pkg="c16_codec", test="TestMsgAppV2Truncation", checks=300, shards=2),
        dict(name="msgrt", pkg="c16_codec", test="TestMessageRoundTrip", checks=6000, shards=1),
        dict(name="msgtrunc", pkg="c16_codec", test="TestMessageTruncation", checks=300, shards=2),
        dict(name="corrupt", pkg="c16_codec", test="TestCorruptStreamNoPanic", checks=8000, shards=1),
        dict(name="known", pkg="c16_codec", test="TestKnown.*", checks=1, shards=1),
    ],
    thorough=[
        dict(name="v2rt", pkg="c16_codec", test="TestMsgAppV2RoundTrip", checks=40000, shards=6),
        dict(name="v2trunc", pkg="c16_codec", test="TestMsgAppV2Truncation", checks=2500, shards=4),
        dict(name="msgrt", pkg="c16_codec", test="TestMessageRoundTrip", checks=40000, shards=2),
        dict(name="msgtrunc", pkg="c16_codec", test="TestMessageTruncation", checks=2500, shards=3),
        dict(name="corrupt", pkg="c16_codec", test="TestCorruptStreamNoPanic", checks=100000, shards=1),
        dict(name="known", pkg="c16_codec", test="TestKnown.*", checks=1, shards=1),
        dict(name="fuzzv2", pkg="c16_codec", fuzz="FuzzMsgAppV2Decode", fuzztime="90s", parallel=6),
        dict(name="fuzzmsg", pkg="c16_codec", fuzz="FuzzMessageDecode", fuzztime="60s", parallel=4),
    ],
)
