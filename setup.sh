#!/bin/bash
# setup_cmd: materialise patched third-party modules from the module cache, and
# warm the build cache. Offline; uses only files on disk.
set -euo pipefail
cd "$(dirname "$0")"
export GOFLAGS=-mod=mod GOPROXY=off GOSUMDB=off GOTOOLCHAIN=local CGO_ENABLED=1
MODCACHE=$(go env GOMODCACHE)

TP=third_party
if [ ! -f $TP/gorocksdb/.verif_ok ]; then
  rm -rf $TP/gorocksdb
  cp -r "$MODCACHE/github.com/youzan/gorocksdb@v0.0.0-20201201080653-1a9b5c65c962" $TP/gorocksdb
  chmod -R u+w $TP/gorocksdb
  (cd $TP/gorocksdb && patch -s -p1 < ../gorocksdb-stock-rocksdb7.patch)
  [ -f $TP/gorocksdb/go.mod ] || echo "module github.com/youzan/gorocksdb" > $TP/gorocksdb/go.mod
  touch $TP/gorocksdb/.verif_ok
fi
if [ ! -f $TP/ugorji-go/.verif_ok ]; then
  rm -rf $TP/ugorji-go
  cp -r "$MODCACHE/github.com/ugorji/go@v0.0.0-20170107133203-ded73eae5db7" $TP/ugorji-go
  chmod -R u+w $TP/ugorji-go
  (cd $TP/ugorji-go && patch -s -p1 < ../ugorji-go-base64-alphabet.patch)
  [ -f $TP/ugorji-go/go.mod ] || echo "module github.com/ugorji/go" > $TP/ugorji-go/go.mod
  touch $TP/ugorji-go/.verif_ok
fi

# go.sum for the harness: the repo's plus the harness' own extras (committed).
cat /repo/go.sum harness/go.sum.extra 2>/dev/null | sort -u > harness/go.sum

mkdir -p evidence replays
if [ "${1:-}" != "--nowarm" ]; then
  (cd harness && go build -tags verif ./... >/dev/null 2>&1 && go vet -tags verif ./lib/... >/dev/null 2>&1 || true)
  (cd harness && go test -tags verif -count=1 -run '^$' ./... >/dev/null 2>&1 || true)
fi
echo "setup ok"
