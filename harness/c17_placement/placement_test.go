package c17

// C17 - placement puts each partition's replicas on distinct, spread-out nodes.
//
// The layout function of the placement driver (getRebalancedNamespacePartitions, both the
// ring "v1" and the incremental "v2" algorithm) is called through the verif hook
// cluster/pdnode_coord/verif_export.go with rapid-generated topologies and, as previous
// layouts, only layouts the function itself produced earlier in the same chain.
//
// Oracle (exactly the clauses of the property statement):
//   V  a produced layout has partitionNum rows of `replica` distinct nodes, all in the live set
//   D  the result is the same for a repeated call and for the same node set inserted into the
//      Go map in other orders
//   R  fewer live nodes than replicas  <=>  refusal (error and no layout)
//   S  FRESH layout (no previous layout given) on nodes EVENLY spread over >= replica data
//      centres => no two replicas of a row share a data centre. "Evenly spread" is used in
//      the only sense in which the interleaved ring can give the guarantee: every live node
//      carries a non-empty string dc_info tag and every data centre holds exactly the same
//      number of nodes (then the ring is periodic in the DC sequence, also across the wrap).
//   L  ring (v1) and partitionNum % nodeCount == 0 => every node is first in equally many rows

import (
	"fmt"
	"os"
	"sort"
	"strings"
	"testing"

	"github.com/youzan/ZanRedisDB/cluster"
	"github.com/youzan/ZanRedisDB/cluster/pdnode_coord"
	"pgregory.net/rapid"

	"verifharness/lib/stats"
)

func TestMain(m *testing.M) {
	cluster.SetLogger(0, nil) // the layout code formats whole layouts into Info lines
	stats.Main(m)
}

const ntRule = "non-trivial = >=2 data centres AND (partitionNum not a multiple of the node count of some layout call OR, for v2, the chain contains a node loss that removes the first node (leader) of >=1 row of the previous layout)"

var (
	recChain = stats.New("placement_chains", "rapid: 1-40 nodes over 1-4 data centres (even / uneven / with untagged or non-string-tagged nodes), partitions 1-64, replicas 1-5, namespace names, v1 and v2; fresh layout then 1-8 events {lose k nodes, add k nodes, lose a whole DC, bring it back}, v2 fed with its own previous layout; "+ntRule)
	recExh = stats.New("placement_small_exhaustive", "complete enumeration: every split of 1-6 nodes over 3 named data centres + untagged, partitions 1-8, replicas 1-3, v1 and v2, 3 namespace names (ring offsets); for v2 additionally every single-node loss, every whole-DC loss and one node addition per DC applied to the fresh layout; "+ntRule)
)

// ---------------------------------------------------------------- topology

type tnode struct {
	id     string
	dc     string // effective data centre as the property sees it; "" = no usable DC tag
	tagFmt int    // 0 string tag, 1 no Tags map, 2 Tags without dc_info, 3 non-string dc_info, 4 empty string dc_info
	info   cluster.NodeInfo
}

func mkNode(regID int, ipStyle int, dc string, tagFmt int) tnode {
	var ni cluster.NodeInfo
	ni.RegID = uint64(regID)
	switch ipStyle {
	case 0:
		ni.NodeIP = "127.0.0.1"
	case 1:
		ni.NodeIP = fmt.Sprintf("10.%d.0.%d", regID%7, 1+regID%200)
	default:
		ni.NodeIP = fmt.Sprintf("192.168.%d.%d", (regID*37)%250, (regID*11)%250)
	}
	ni.RedisPort = fmt.Sprint(12380 + (regID*7)%50)
	ni.HttpPort = fmt.Sprint(12381 + (regID*3)%50)
	switch tagFmt {
	case 0:
		ni.Tags = map[string]interface{}{cluster.DCInfoTag: dc, "rack": regID % 3}
	case 1:
		dc = ""
	case 2:
		ni.Tags = map[string]interface{}{"rack": "r1"}
		dc = ""
	case 3:
		ni.Tags = map[string]interface{}{cluster.DCInfoTag: float64(regID % 2)} // JSON number in the node config
		dc = ""
	case 4:
		ni.Tags = map[string]interface{}{cluster.DCInfoTag: ""}
		dc = ""
	}
	ni.ID = cluster.GenNodeID(&ni, "datanode")
	return tnode{id: ni.ID, dc: dc, tagFmt: tagFmt, info: ni}
}

type topo struct {
	live []tnode // ordered by creation; the order is never handed to the code under test
}

func (tp *topo) ids() []string {
	out := make([]string, len(tp.live))
	for i, n := range tp.live {
		out[i] = n.id
	}
	return out
}

// nodeMap builds the Go map in the given insertion order (perm == nil: creation order).
func (tp *topo) nodeMap(perm []int) map[string]cluster.NodeInfo {
	m := make(map[string]cluster.NodeInfo)
	if perm == nil {
		for _, n := range tp.live {
			m[n.id] = n.info
		}
		return m
	}
	for _, i := range perm {
		m[tp.live[i].id] = tp.live[i].info
	}
	return m
}

// evenSpread: every node has a usable DC tag and all DCs hold the same number of nodes.
func (tp *topo) evenSpread() (even bool, ndc int) {
	cnt := map[string]int{}
	for _, n := range tp.live {
		if n.dc == "" {
			return false, 0
		}
		cnt[n.dc]++
	}
	first := -1
	for _, c := range cnt {
		if first == -1 {
			first = c
		} else if c != first {
			return false, len(cnt)
		}
	}
	return len(cnt) > 0, len(cnt)
}

func (tp *topo) dcCount() int {
	cnt := map[string]bool{}
	for _, n := range tp.live {
		cnt[n.dc] = true // untagged nodes form one more group, as in the code
	}
	return len(cnt)
}

func (tp *topo) describe() []string {
	var out []string
	for _, n := range tp.live {
		d := n.dc
		if d == "" {
			d = fmt.Sprintf("<untagged:%d>", n.tagFmt)
		}
		out = append(out, n.id+"@"+d)
	}
	return out
}

// ---------------------------------------------------------------- oracle

func copyLayout(l [][]string) [][]string {
	if l == nil {
		return nil
	}
	out := make([][]string, len(l))
	for i, r := range l {
		out[i] = append([]string(nil), r...)
	}
	return out
}

func layoutStr(l [][]string) string {
	var b strings.Builder
	for i, r := range l {
		fmt.Fprintf(&b, "p%d=%s;", i, strings.Join(r, ","))
	}
	return b.String()
}

type failer interface {
	Fatalf(format string, args ...interface{})
}

type callCtx struct {
	ns      string
	pn, rep int
	ver     string
	tp      *topo
	old     [][]string
	step    string
}

func (c *callCtx) String() string {
	return fmt.Sprintf("step=%s ver=%s ns=%q partitions=%d replica=%d nodes(%d)=%v old=%s", c.step, c.ver, c.ns, c.pn, c.rep, len(c.tp.live), c.tp.describe(), layoutStr(c.old))
}

// place runs the real layout function and checks clauses V, D, R. perms are extra map
// insertion orders. It returns the layout (nil when refused).
func place(t failer, c *callCtx, perms [][]int) [][]string {
	layout, err := pdnode_coord.VerifRebalancedPartitions(c.ns, c.pn, c.rep, copyLayout(c.old), c.tp.nodeMap(nil), c.ver)
	if len(c.tp.live) < c.rep {
		if err == nil || layout != nil {
			t.Fatalf("R: %d live nodes < %d replicas but the driver did not refuse: err=%v layout=%s\n%s", len(c.tp.live), c.rep, err, layoutStr(layout), c)
		}
		return nil
	}
	if err != nil {
		t.Fatalf("R: %d live nodes >= %d replicas but the driver refused: %v\n%s", len(c.tp.live), c.rep, err, c)
	}
	liveSet := map[string]bool{}
	for _, n := range c.tp.live {
		liveSet[n.id] = true
	}
	if len(layout) != c.pn {
		t.Fatalf("V: layout has %d rows, want %d\n%s\nlayout=%s", len(layout), c.pn, c, layoutStr(layout))
	}
	for p, row := range layout {
		if len(row) != c.rep {
			t.Fatalf("V: partition %d has %d replicas, want %d: %v\n%s\nlayout=%s", p, len(row), c.rep, row, c, layoutStr(layout))
		}
		seen := map[string]bool{}
		for _, n := range row {
			if seen[n] {
				t.Fatalf("V: partition %d places two replicas on node %q: %v\n%s\nlayout=%s", p, n, row, c, layoutStr(layout))
			}
			seen[n] = true
			if !liveSet[n] {
				t.Fatalf("V: partition %d uses node %q which is not in the live set: %v\n%s\nlayout=%s", p, n, row, c, layoutStr(layout))
			}
		}
	}
	want := layoutStr(layout)
	again, err2 := pdnode_coord.VerifRebalancedPartitions(c.ns, c.pn, c.rep, copyLayout(c.old), c.tp.nodeMap(nil), c.ver)
	if err2 != nil || layoutStr(again) != want {
		t.Fatalf("D: repeated call with identical inputs differs (err=%v)\nfirst =%s\nsecond=%s\n%s", err2, want, layoutStr(again), c)
	}
	for _, perm := range perms {
		other, err3 := pdnode_coord.VerifRebalancedPartitions(c.ns, c.pn, c.rep, copyLayout(c.old), c.tp.nodeMap(perm), c.ver)
		if err3 != nil || layoutStr(other) != want {
			t.Fatalf("D: same node set inserted into the map in order %v gives a different layout (err=%v)\nfirst=%s\nother=%s\n%s", perm, err3, want, layoutStr(other), c)
		}
	}
	return layout
}

// checkFresh asserts clauses S and L on a layout computed without a previous layout.
// It returns whether the S precondition held.
func checkFresh(t failer, c *callCtx, layout [][]string) (spreadChecked bool) {
	if layout == nil {
		return false
	}
	dcOf := map[string]string{}
	for _, n := range c.tp.live {
		dcOf[n.id] = n.dc
	}
	even, ndc := c.tp.evenSpread()
	if even && ndc >= c.rep {
		spreadChecked = true
		for p, row := range layout {
			seen := map[string]string{}
			for _, n := range row {
				if o, ok := seen[dcOf[n]]; ok {
					t.Fatalf("S: fresh layout on %d nodes evenly spread over %d data centres (>= %d replicas) puts %q and %q of partition %d into data centre %q: %v\n%s\nlayout=%s",
						len(c.tp.live), ndc, c.rep, o, n, p, dcOf[n], row, c, layoutStr(layout))
				}
				seen[dcOf[n]] = n
			}
		}
	}
	if c.ver != pdnode_coord.BalanceV2Str && c.pn%len(c.tp.live) == 0 {
		lead := map[string]int{}
		for _, row := range layout {
			lead[row[0]]++
		}
		want := c.pn / len(c.tp.live)
		for _, n := range c.tp.live {
			if lead[n.id] != want {
				t.Fatalf("L: ring layout with %d partitions on %d nodes: node %q leads %d partitions, want %d\n%s\nlayout=%s", c.pn, len(c.tp.live), n.id, lead[n.id], want, c, layoutStr(layout))
			}
		}
	}
	return spreadChecked
}

// ---------------------------------------------------------------- generated chains

var dcNames = []string{"dc-a", "dc-b", "hz", "sh-2"}

func drawPerm(t *rapid.T, n int, label string) []int {
	p := make([]int, n)
	for i := range p {
		p[i] = i
	}
	// Fisher-Yates driven by rapid
	for i := n - 1; i > 0; i-- {
		j := rapid.IntRange(0, i).Draw(t, label)
		p[i], p[j] = p[j], p[i]
	}
	return p
}

func reversed(n int) []int {
	p := make([]int, n)
	for i := range p {
		p[i] = n - 1 - i
	}
	return p
}

func TestPlacementChains(t *testing.T) {
	rapid.Check(t, func(t *rapid.T) {
		ver := rapid.SampledFrom([]string{"v1", pdnode_coord.BalanceV2Str, pdnode_coord.BalanceV2Str}).Draw(t, "ver")
		ndc := rapid.IntRange(1, 4).Draw(t, "ndc")
		mode := rapid.SampledFrom([]string{"even", "even", "uneven", "even+untagged", "uneven+untagged"}).Draw(t, "mode")
		ipStyle := rapid.IntRange(0, 2).Draw(t, "ipstyle")
		names := append([]string(nil), dcNames...)
		if rapid.Bool().Draw(t, "dcorder") {
			names[0], names[3] = names[3], names[0]
			names[1], names[2] = names[2], names[1]
		}
		nextReg := 1
		if rapid.Bool().Draw(t, "regbase") {
			nextReg = rapid.IntRange(2, 120).Draw(t, "reg0") // ids with 1-3 digits sort differently as strings
		}
		tp := &topo{}
		add := func(dc string, tagFmt int) tnode {
			n := mkNode(nextReg, ipStyle, dc, tagFmt)
			nextReg++
			tp.live = append(tp.live, n)
			return n
		}
		if strings.HasPrefix(mode, "even") {
			per := rapid.IntRange(1, 40/ndc).Draw(t, "perdc")
			if per > 10 && rapid.IntRange(0, 3).Draw(t, "small") > 0 {
				per = 1 + per%6
			}
			for i := 0; i < per; i++ {
				for d := 0; d < ndc; d++ {
					add(names[d], 0)
				}
			}
		} else {
			left := 40
			for d := 0; d < ndc; d++ {
				max := left - (ndc - d - 1)
				if max > 12 {
					max = 12
				}
				k := rapid.IntRange(1, max).Draw(t, "ndcnodes")
				for i := 0; i < k; i++ {
					add(names[d], 0)
				}
				left -= k
			}
		}
		if strings.HasSuffix(mode, "untagged") && len(tp.live) < 40 {
			max := 40 - len(tp.live)
			if max > 6 {
				max = 6
			}
			k := rapid.IntRange(1, max).Draw(t, "nuntagged")
			for i := 0; i < k; i++ {
				add("", rapid.IntRange(1, 4).Draw(t, "tagfmt"))
			}
		}
		if rapid.IntRange(0, 9).Draw(t, "tiny") == 0 { // clusters smaller than the replication factor
			keep := rapid.IntRange(1, 4).Draw(t, "keep")
			if keep < len(tp.live) {
				tp.live = tp.live[:keep]
			}
		}
		pn := rapid.IntRange(1, 64).Draw(t, "partitions")
		switch rapid.IntRange(0, 5).Draw(t, "pnmode") {
		case 0: // a multiple of the node count
			if m := 64 / len(tp.live); m >= 1 {
				pn = len(tp.live) * rapid.IntRange(1, m).Draw(t, "pnmult")
			}
		case 1:
			pn = rapid.SampledFrom([]int{1, 2, 3, 4, 8, 16, 32, 64}).Draw(t, "pnpow")
		}
		rep := rapid.SampledFrom([]int{1, 2, 3, 3, 3, 4, 5}).Draw(t, "replica")
		ns := rapid.OneOf(rapid.SampledFrom([]string{"a", "ns1", "yz_test", "default", "test_ns_17"}), rapid.StringMatching(`[a-z][a-z0-9_]{0,14}`)).Draw(t, "ns")

		var trace []string
		labels := map[string]bool{}
		ntMultiple, ntLeaderLoss := false, false
		maxDC := 0
		var lostDC []tnode
		var cur [][]string // previous layout handed to v2

		runStep := func(step string) {
			if d := tp.dcCount(); d > maxDC {
				maxDC = d
			}
			if len(tp.live) == 0 {
				return
			}
			perms := [][]int{reversed(len(tp.live))}
			if len(tp.live) > 2 {
				perms = append(perms, drawPerm(t, len(tp.live), "perm"))
			}
			c := &callCtx{ns: ns, pn: pn, rep: rep, ver: ver, tp: tp, step: step}
			if ver == pdnode_coord.BalanceV2Str {
				c.old = cur
			}
			layout := place(t, c, perms)
			if layout == nil {
				labels["refused_too_few_nodes"] = true
				trace = append(trace, step+" -> refused")
				return
			}
			if pn%len(tp.live) != 0 {
				ntMultiple = true
			} else {
				labels["partitions_multiple_of_nodes"] = true
			}
			if c.old == nil {
				if checkFresh(t, c, layout) {
					labels["dc_spread_asserted_"+ver] = true
				}
			} else {
				labels["v2_incremental_layout"] = true
				// every node set is also a fresh-layout input: check the fresh clauses on it as well
				cf := &callCtx{ns: ns, pn: pn, rep: rep, ver: ver, tp: tp, step: step + "(fresh)"}
				if fl := place(t, cf, nil); fl != nil && checkFresh(t, cf, fl) {
					labels["dc_spread_asserted_"+ver] = true
				}
			}
			if ver == pdnode_coord.BalanceV2Str {
				cur = layout
			}
			trace = append(trace, step+" -> "+layoutStr(layout))
		}
		runStep("fresh")

		nev := rapid.IntRange(1, 8).Draw(t, "nevents")
		for e := 0; e < nev; e++ {
			kind := rapid.SampledFrom([]string{"lose", "lose", "add", "losedc", "backdc"}).Draw(t, "event")
			var removed []tnode
			switch kind {
			case "lose":
				if len(tp.live) == 0 {
					continue
				}
				k := rapid.IntRange(1, 3).Draw(t, "k")
				for i := 0; i < k && len(tp.live) > 0; i++ {
					var idx int
					if cur != nil && rapid.Bool().Draw(t, "hitleader") {
						// aim at the leader of some row
						row := cur[rapid.IntRange(0, len(cur)-1).Draw(t, "row")]
						idx = -1
						for j, n := range tp.live {
							if n.id == row[0] {
								idx = j
							}
						}
						if idx == -1 {
							idx = rapid.IntRange(0, len(tp.live)-1).Draw(t, "victim")
						}
					} else {
						idx = rapid.IntRange(0, len(tp.live)-1).Draw(t, "victim")
					}
					removed = append(removed, tp.live[idx])
					tp.live = append(append([]tnode(nil), tp.live[:idx]...), tp.live[idx+1:]...)
				}
				labels["event_lose_nodes"] = true
			case "add":
				k := rapid.IntRange(1, 3).Draw(t, "k")
				for i := 0; i < k && len(tp.live) < 40; i++ {
					d := rapid.IntRange(-1, 3).Draw(t, "adddc")
					if d < 0 {
						add("", rapid.IntRange(1, 4).Draw(t, "tagfmt"))
					} else {
						add(names[d], 0)
					}
				}
				labels["event_add_nodes"] = true
			case "losedc":
				if len(tp.live) == 0 || lostDC != nil {
					continue
				}
				dc := tp.live[rapid.IntRange(0, len(tp.live)-1).Draw(t, "dcof")].dc
				var keep []tnode
				for _, n := range tp.live {
					if n.dc == dc {
						removed = append(removed, n)
					} else {
						keep = append(keep, n)
					}
				}
				tp.live = keep
				lostDC = removed
				labels["event_lose_dc"] = true
			case "backdc":
				if lostDC == nil {
					continue
				}
				for _, n := range lostDC {
					if len(tp.live) < 40 {
						tp.live = append(tp.live, n)
					}
				}
				lostDC = nil
				labels["event_dc_back"] = true
			}
			if cur != nil {
				for _, r := range removed {
					for _, row := range cur {
						if row[0] == r.id {
							ntLeaderLoss = true
						}
					}
				}
			}
			var rm []string
			for _, r := range removed {
				rm = append(rm, r.id)
			}
			runStep(fmt.Sprintf("e%d:%s%v", e, kind, rm))
		}
		if ntLeaderLoss {
			labels["v2_loss_hit_leader"] = true
		}
		nt := maxDC >= 2 && (ntMultiple || (ver == pdnode_coord.BalanceV2Str && ntLeaderLoss))
		var ls []string
		for l := range labels {
			ls = append(ls, l)
		}
		sort.Strings(ls)
		ls = append(ls, "alg_"+ver, "mode_"+mode)
		canon := fmt.Sprintf("%s|%s|%d|%d|%s", ver, ns, pn, rep, strings.Join(trace, "|"))
		recChain.Record(stats.HashString(canon), nt, ls, func() interface{} {
			tr := trace
			if len(tr) > 4 {
				tr = append(append([]string(nil), tr[:4]...), fmt.Sprintf("... %d more steps", len(trace)-4))
			}
			for i := range tr {
				if len(tr[i]) > 700 {
					tr[i] = tr[i][:700] + "..."
				}
			}
			return map[string]interface{}{"algorithm": ver, "namespace": ns, "partitions": pn, "replica": rep, "mode": mode, "final_nodes": tp.describe(), "steps": tr}
		})
	})
}

// ---------------------------------------------------------------- bounded-exhaustive small scope

type fatalCollector struct{ t *testing.T }

func (f fatalCollector) Fatalf(format string, args ...interface{}) {
	f.t.Fatalf(format, args...)
}

func allPerms(n int) [][]int {
	if n > 4 {
		return [][]int{reversed(n)}
	}
	var out [][]int
	var rec func(cur []int, used int)
	rec = func(cur []int, used int) {
		if len(cur) == n {
			out = append(out, append([]int(nil), cur...))
			return
		}
		for i := 0; i < n; i++ {
			if used&(1<<uint(i)) == 0 {
				rec(append(cur, i), used|1<<uint(i))
			}
		}
	}
	rec(nil, 0)
	return out
}

func TestExhaustiveSmall(t *testing.T) {
	f := fatalCollector{t}
	exhNames := []string{"dc-a", "dc-b", "hz"}
	nsList := []string{"a", "ns1", "yz_test"} // murmur3 offsets differ mod 2..6
	for total := 1; total <= 6; total++ {
		for c0 := 0; c0 <= total; c0++ {
			for c1 := 0; c0+c1 <= total; c1++ {
				for c2 := 0; c0+c1+c2 <= total; c2++ {
					cu := total - c0 - c1 - c2
					counts := []int{c0, c1, c2}
					base := &topo{}
					reg := 1
					// interleave creation so that ids are not grouped by DC
					for i := 0; i < 6; i++ {
						for d := 0; d < 3; d++ {
							if i < counts[d] {
								base.live = append(base.live, mkNode(reg, 0, exhNames[d], 0))
								reg++
							}
						}
						if i < cu {
							base.live = append(base.live, mkNode(reg, 0, "", 1+i%4))
							reg++
						}
					}
					perms := allPerms(len(base.live))
					for _, ver := range []string{"v1", pdnode_coord.BalanceV2Str} {
						for _, ns := range nsList {
							for pn := 1; pn <= 8; pn++ {
								for rep := 1; rep <= 3; rep++ {
									exhCase(f, base, perms, ver, ns, pn, rep, exhNames, &reg)
								}
							}
						}
					}
				}
			}
		}
	}
	recExh.Exhaustive(true)
}

func exhCase(f failer, base *topo, perms [][]int, ver, ns string, pn, rep int, exhNames []string, reg *int) {
	c := &callCtx{ns: ns, pn: pn, rep: rep, ver: ver, tp: base, step: "fresh"}
	layout := place(f, c, perms)
	spread := checkFresh(f, c, layout)
	ndc := base.dcCount()
	nt := ndc >= 2 && layout != nil && pn%len(base.live) != 0
	var labels []string
	if spread {
		labels = append(labels, "dc_spread_asserted_"+ver)
	}
	if layout == nil {
		labels = append(labels, "refused_too_few_nodes")
	}
	canon := fmt.Sprintf("%s|%s|%d|%d|%v", ver, ns, pn, rep, base.describe())
	recExh.Record(stats.HashString(canon), nt, append(labels, "alg_"+ver), func() interface{} {
		return map[string]interface{}{"algorithm": ver, "namespace": ns, "partitions": pn, "replica": rep, "nodes": base.describe(), "layout": layoutStr(layout)}
	})
	if ver != pdnode_coord.BalanceV2Str || layout == nil {
		return
	}
	// one incremental step from the fresh layout: every single-node loss, every whole-DC loss, one addition per DC / untagged
	type variant struct {
		name string
		tp   *topo
		lost []string
	}
	var vs []variant
	for i := range base.live {
		tp := &topo{live: append(append([]tnode(nil), base.live[:i]...), base.live[i+1:]...)}
		vs = append(vs, variant{"lose:" + base.live[i].id, tp, []string{base.live[i].id}})
	}
	dcs := map[string]bool{}
	for _, n := range base.live {
		if dcs[n.dc] {
			continue
		}
		dcs[n.dc] = true
		tp := &topo{}
		var lost []string
		for _, m := range base.live {
			if m.dc == n.dc {
				lost = append(lost, m.id)
			} else {
				tp.live = append(tp.live, m)
			}
		}
		if len(lost) > 1 {
			vs = append(vs, variant{"losedc:" + n.dc, tp, lost})
		}
	}
	for d := -1; d < 3; d++ {
		var nn tnode
		if d < 0 {
			nn = mkNode(90, 0, "", 1)
		} else {
			nn = mkNode(91+d, 0, exhNames[d], 0)
		}
		tp := &topo{live: append(append([]tnode(nil), base.live...), nn)}
		vs = append(vs, variant{"add:" + nn.id + "@" + nn.dc, tp, nil})
	}
	for _, v := range vs {
		if len(v.tp.live) == 0 {
			continue
		}
		cc := &callCtx{ns: ns, pn: pn, rep: rep, ver: ver, tp: v.tp, old: layout, step: v.name}
		nl := place(f, cc, [][]int{reversed(len(v.tp.live))})
		hit := false
		for _, l := range v.lost {
			for _, row := range layout {
				if row[0] == l {
					hit = true
				}
			}
		}
		nt2 := ndc >= 2 && nl != nil && (pn%len(v.tp.live) != 0 || pn%len(base.live) != 0 || hit)
		var ls []string
		if hit {
			ls = append(ls, "v2_loss_hit_leader")
		}
		if nl == nil {
			ls = append(ls, "refused_too_few_nodes")
		}
		recExh.Record(stats.HashString(canon+"|"+v.name), nt2, append(ls, "v2_incremental_layout"), func() interface{} {
			return map[string]interface{}{"algorithm": ver, "namespace": ns, "partitions": pn, "replica": rep, "nodes": base.describe(), "previous": layoutStr(layout), "event": v.name, "layout": layoutStr(nl)}
		})
	}
}

var _ = os.Getenv
