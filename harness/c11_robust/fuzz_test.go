package c11

import (
	"testing"

	"pgregory.net/rapid"
)

// FuzzRobust drives the same property with Go's coverage-guided fuzzer: the fuzz bytes are
// the bitstream rapid draws from, so they decode into (prefix, base command, mutations) and the
// fuzzer reaches handlers instead of dying in input validation. Thorough tier only.
func FuzzRobust(f *testing.F) {
	f.Fuzz(rapid.MakeFuzz(func(t *rapid.T) { runCase(t, "mem", 1, "fuzz_robust_mem") }))
}
