package c11

import (
	"os"
	"path/filepath"
	"regexp"
	"sort"
	"strings"
)

// harvested is a fuzzing dictionary taken from the tree under test itself: the string literals
// that its non-test code compares text against (strings./bytes. Contains, HasPrefix, HasSuffix,
// EqualFold, Index, ==, != and case labels) in the packages a client command travels through. A
// predicate that matches on a piece of text - an error message that echoes the client's argument,
// an option word - can only be steered by an input that contains that text; no amount of random
// numbers finds it. The list is sorted, so a run is still a pure function of the tree and the seed.
var harvested = harvestDict()

var (
	reCall = regexp.MustCompile(`(?:strings|bytes)\.(?:Contains|HasPrefix|HasSuffix|EqualFold|Index|TrimPrefix|TrimSuffix)\([^"\n]*"((?:[^"\\\n]|\\.){2,64})"`)
	reCmp  = regexp.MustCompile(`(?:==|!=)\s*"((?:[^"\\\n]|\\.){2,64})"`)
	reCase = regexp.MustCompile(`case\s+"((?:[^"\\\n]|\\.){2,64})"`)
)

func harvestDict() []string {
	root := os.Getenv("VERIF_REPO")
	if root == "" {
		root = "/repo"
	}
	seen := map[string]bool{}
	for _, pkg := range []string{"node", "rockredis", "server", "common", "engine"} {
		files, _ := filepath.Glob(filepath.Join(root, pkg, "*.go"))
		for _, f := range files {
			if strings.HasSuffix(f, "_test.go") || strings.Contains(filepath.Base(f), "verif_") {
				continue
			}
			b, err := os.ReadFile(f)
			if err != nil {
				continue
			}
			for _, re := range []*regexp.Regexp{reCall, reCmp, reCase} {
				for _, m := range re.FindAllSubmatch(b, -1) {
					s := string(m[1])
					if strings.Contains(s, `\`) || strings.Contains(s, "%") {
						continue // escapes and format verbs: not worth unquoting
					}
					seen[s] = true
					// a prefix match is also satisfied, and a containment test also met, by the tail of a message
					if i := strings.Index(s, ": "); i > 0 && len(s)-i-2 >= 4 {
						seen[s[i+2:]] = true
					}
				}
			}
		}
	}
	out := make([]string, 0, len(seen))
	for s := range seen {
		out = append(out, s)
	}
	sort.Strings(out)
	return out
}
