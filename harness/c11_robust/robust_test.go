package c11

import (
	"fmt"
	"os"
	"sort"
	"strconv"
	"strings"
	"testing"
	"time"

	"pgregory.net/rapid"

	"verifharness/lib/gen"
	"verifharness/lib/known"
	"verifharness/lib/simkv"
	"verifharness/lib/stats"
)

func TestMain(m *testing.M) { stats.Main(m) }

const ns = "default"

const rule = "a short valid prefix (C08 grammar incl. TTL, bitmap, HLL, JSON, geo, scan and multi-key commands) followed by commands derived from valid ones of every registered read / write / merge command by 1-3 mutations (drop, duplicate, swap, empty, non-numeric, +-2^63, 1e400, nan, negative and huge counts/offsets/lengths, over-long key/field (limit+-1), missing / doubled / foreign namespace prefix, binary names, unknown option words, arity +-1 and +-many), sent through the server's redis entry point (leader-side validation -> propose -> the node's real applyEntries). " +
	"Oracles: no panic below applyEntries (fatal: every replica would die and die again on replay); an error reply changes nothing and leaks nothing: a twin store that receives only the commands that did NOT fail must show identical replies and an identical logical dump after every step; the reply stream stays well-formed. " +
	"non-trivial = a mutated command that passed leader-side validation (an entry was proposed) OR was rejected with an error after at least one earlier write succeeded"

var recs = map[string]*stats.Recorder{}

func rec(name string) *stats.Recorder {
	if r, ok := recs[name]; ok {
		return r
	}
	r := stats.New(name, rule)
	recs[name] = r
	return r
}

var hostile = []string{"", "-1", "0", "1", "9223372036854775807", "9223372036854775808", "-9223372036854775808", "-9223372036854775809", "18446744073709551616",
	"1e400", "-1e400", "nan", "NaN", "inf", "-inf", "+inf", "1.5", "0x10", " 1", "1 ", "abc", "\x00", "\xff\xff", "(", "[", "(1", "[a", "-", "+", "*", "?",
	"2147483647", "2147483648", "4294967296", "-2147483649", "536870912", "16777216", "16777217", "5001", "100000", "limit", "withscores", "count", "match", "ex", "nx", "xx", "px",
	"kv", "hash", "list", "set", "zset", "KV", "json", "$", ".", "..", "a.b", "a.0", "{", "{}", "[]", "null", `{"a":`, "m", "km", "ft", "mi", "asc", "desc", "withcoord", "withdist", "withhash"}

func longName(n int) string { return strings.Repeat("L", n) }

// valid base commands outside the C08 grammar (client form: namespace prefix included)
func extraBase(t *rapid.T, p *gen.Pool) []string {
	k := ns + ":" + rapid.SampledFrom(p.Keys).Draw(t, "xkey")
	tbl := strings.SplitN(rapid.SampledFrom(p.Keys).Draw(t, "xtable"), ":", 2)[0]
	m := func() string { return rapid.SampledFrom(p.Members).Draw(t, "xm") }
	v := func() string { return rapid.SampledFrom(p.Values).Draw(t, "xv") }
	all := [][]string{
		{"pfadd", k, m(), m()}, {"pfcount", k}, {"setbit", k, "7", "1"}, {"setbitv2", k, "100", "1"}, {"getbit", k, "7"}, {"bitcount", k}, {"bitcount", k, "0", "-1"}, {"bitclear", k},
		{"bexpire", k, "2000000"}, {"bpersist", k}, {"bttl", k}, {"bkeyexist", k},
		{"json.set", k, ".", `{"a":[1,2],"b":"x"}`}, {"json.set", k, "a", "2"}, {"json.get", k, "a"}, {"json.get", k}, {"json.del", k, "a"}, {"json.type", k, "a"}, {"json.arrappend", k, "a", "3"},
		{"json.arrpop", k, "a"}, {"json.arrlen", k, "a"}, {"json.objkeys", k}, {"json.objlen", k}, {"json.keyexists", k}, {"json.mkget", k, "a"},
		{"geoadd", k, "13.361389", "38.115556", "a", "15.087269", "37.502669", "b"}, {"geodist", k, "a", "b", "km"}, {"geopos", k, "a"}, {"geohash", k, "a"},
		{"georadius", k, "15", "37", "200", "km", "withdist"}, {"georadiusbymember", k, "a", "100", "km"},
		{"setrange", k, "3", v()}, {"getrange", k, "0", "-1"}, {"strlen", k}, {"getnolock", k}, {"setifeq", k, v(), v()}, {"setifeq", k, v(), v(), "ex", "2000000"}, {"delifeq", k, v()},
		{"incr", k}, {"lfixkey", k}, {"zfixkey", k}, {"stale.get", k}, {"stale.getversion", k}, {"stale.getexpired", k}, {"stale.hget.version", k, m()}, {"stale.hgetall.expired", k}, {"stale.hmget.expired", k, m()},
		{"scan", ns + ":" + tbl + ":", "count", "3"}, {"scan", ns + ":" + tbl + ":", "match", "*k*", "count", "10"}, {"revscan", ns + ":" + tbl + ":", "count", "3"},
		{"advscan", ns + ":" + tbl + ":", "hash", "count", "3"}, {"advscan", ns + ":" + tbl, "kv", "count", "3"}, {"advrevscan", ns + ":" + tbl + ":", "zset", "count", "3"},
		{"fullscan", ns + ":" + tbl + ":", "kv", "count", "3"}, {"fullscan", ns + ":" + tbl + ":", "hash", "count", "3"},
		{"hscan", k, "", "count", "2"}, {"sscan", k, "", "count", "2"}, {"zscan", k, "", "count", "2"}, {"hrevscan", k, "", "count", "2"}, {"hscan", k, m(), "match", "a*"},
		{"plset", k, v(), ns + ":" + rapid.SampledFrom(p.Keys).Draw(t, "k2"), v()}, {"hidx.from", ns + ":" + tbl, "where", `"f=1"`}, {"hidx.from", ns + ":" + tbl, "where", `"f>1 and f<=3"`}, {"hidx.from", ns + ":" + tbl, "where", "f<2"},
		{"ping"}, {"info"}, {"auth", "x"},
	}
	return rapid.SampledFrom(all).Draw(t, "extra")
}

// partialFailure builds a multi-argument write whose LAST argument is invalid in a way that is only
// detected while the command is applied, after the earlier arguments were already put into the
// store's shared write batch: the error reply must leave nothing behind, not even for the next write.
func partialFailure(t *rapid.T, p *gen.Pool) []string {
	k := ns + ":" + rapid.SampledFrom(p.Keys).Draw(t, "pfkey")
	k2 := ns + ":" + rapid.SampledFrom(p.Keys).Draw(t, "pfkey2")
	m := func() string { return rapid.SampledFrom(p.Members).Draw(t, "pfm") }
	v := func() string { return rapid.SampledFrom(p.Values).Draw(t, "pfv") }
	long := longName(10241)
	return rapid.SampledFrom([][]string{
		{"sadd", k, m(), long}, {"srem", k, m(), long}, {"srem", k, m(), m(), long},
		{"hmset", k, m(), v(), long, v()}, {"hdel", k, m(), long}, {"hdel", k, m(), m(), long},
		{"zadd", k, "1", m(), "2", long}, {"zrem", k, m(), long}, {"zrem", k, m(), m(), long},
		{"plset", k, v(), ns + ":notable", v()}, {"plset", k, v(), k2, v(), ns + ":t:" + long, v()}, {"plset", k, v(), ns + ":" + longName(300) + ":k", v()},
		{"del", k, ns + ":notable"}, {"del", k, k2, ns + ":t:" + long},
	}).Draw(t, "partial")
}

func mutate(t *rapid.T, c []string) ([]string, []string) {
	c = append([]string(nil), c...)
	var muts []string
	n := rapid.IntRange(1, 3).Draw(t, "nmut")
	for i := 0; i < n; i++ {
		op := rapid.IntRange(0, 16).Draw(t, "mut")
		pos := 0
		if len(c) > 1 {
			pos = rapid.IntRange(1, len(c)-1).Draw(t, "pos")
		}
		switch {
		case op == 0 && len(c) > 1: // drop
			muts = append(muts, fmt.Sprintf("drop[%d]", pos))
			c = append(c[:pos:pos], c[pos+1:]...)
		case op == 1 && len(c) > 1: // duplicate
			muts = append(muts, fmt.Sprintf("dup[%d]", pos))
			c = append(c[:pos+1:pos+1], c[pos:]...)
		case op == 2 && len(c) > 2: // swap
			q := rapid.IntRange(1, len(c)-1).Draw(t, "pos2")
			muts = append(muts, fmt.Sprintf("swap[%d,%d]", pos, q))
			c[pos], c[q] = c[q], c[pos]
		case op == 3: // append hostile
			h := rapid.SampledFrom(hostile).Draw(t, "h")
			muts = append(muts, fmt.Sprintf("append %q", h))
			c = append(c, h)
		case op == 4 && len(c) > 1: // truncate to arity
			muts = append(muts, fmt.Sprintf("truncate to %d", pos))
			c = c[:pos]
		case op == 5 && len(c) > 1: // over-long
			l := rapid.SampledFrom([]int{255, 256, 1024, 10239, 10240, 10241, 65535, 65536, 70000}).Draw(t, "len")
			muts = append(muts, fmt.Sprintf("long[%d]=%d bytes", pos, l))
			if pos == 1 && strings.HasPrefix(c[1], ns+":") {
				c[pos] = c[1] + longName(l)
			} else {
				c[pos] = longName(l)
			}
		case op == 6 && len(c) > 1: // namespace damage on the key
			k := c[1]
			v := rapid.SampledFrom([]string{strings.TrimPrefix(k, ns+":"), ns + ":" + k, "other:" + strings.TrimPrefix(k, ns+":"), ns, ns + ":", ns + "::", ":", ns + ":t", "", strings.ToUpper(k)}).Draw(t, "nsdmg")
			muts = append(muts, fmt.Sprintf("key=%q", v))
			c[1] = v
		case op == 7: // many extra args
			cnt := rapid.SampledFrom([]int{3, 8, 5001, 10002}).Draw(t, "many")
			muts = append(muts, fmt.Sprintf("append %d args", cnt))
			h := rapid.SampledFrom(hostile).Draw(t, "h")
			for j := 0; j < cnt; j++ {
				c = append(c, h)
			}
		case op == 8: // command name case / unknown
			v := rapid.SampledFrom([]string{strings.ToUpper(c[0]), c[0] + "x", "", "\x00", "stale." + c[0]}).Draw(t, "name")
			muts = append(muts, fmt.Sprintf("name=%q", v))
			c[0] = v
		case op >= 15 && len(c) > 1 && len(harvested) > 0: // a text the code under test matches on, preferably where a number is expected (validation errors echo the argument)
			var numeric []int
			for j := 2; j < len(c); j++ {
				if _, err := strconv.ParseFloat(c[j], 64); err == nil {
					numeric = append(numeric, j)
				}
			}
			if len(numeric) > 0 && rapid.IntRange(0, 3).Draw(t, "numpos") > 0 {
				pos = numeric[rapid.IntRange(0, len(numeric)-1).Draw(t, "whichnum")]
			}
			h := rapid.SampledFrom(harvested).Draw(t, "dict")
			muts = append(muts, fmt.Sprintf("[%d]=dict %q", pos, h))
			c[pos] = h
		case op >= 13 && op <= 14 && len(c) > 1 && len(c[pos]) > 0: // surgery inside one argument (what a mini-language inside an argument needs: "f=1" -> "=1")
			a := c[pos]
			q := rapid.IntRange(0, len(a)-1).Draw(t, "bytepos")
			switch rapid.IntRange(0, 4).Draw(t, "surgery") {
			case 0:
				a = a[1:]
			case 1:
				a = a[:len(a)-1]
			case 2:
				a = a[:q] + a[q+1:]
			case 3:
				a = a[:q] + string(a[q]) + a[q:]
			default:
				a = a[:q] + rapid.SampledFrom([]string{"=", "<", ">", "\"", " and ", " ", ".", "[", "-", "\x00", "*"}).Draw(t, "ins") + a[q:]
			}
			muts = append(muts, fmt.Sprintf("[%d] %q -> %q", pos, c[pos], a))
			c[pos] = a
		default: // replace by hostile constant
			if len(c) > 1 {
				h := rapid.SampledFrom(hostile).Draw(t, "h")
				muts = append(muts, fmt.Sprintf("[%d]=%q", pos, h))
				c[pos] = h
			}
		}
	}
	return c, muts
}

func dumpCmds(key string) [][]string {
	return [][]string{{"get", key}, {"ttl", key}, {"hgetall", key}, {"httl", key}, {"lrange", key, "0", "-1"}, {"smembers", key}, {"zrange", key, "0", "-1", "withscores"},
		{"hlen", key}, {"llen", key}, {"scard", key}, {"zcard", key}, {"pfcount", key}, {"bitcount", key}, {"json.get", key}}
}

func dump(s *simkv.Sim, keys []string) []string {
	var out []string
	for _, k := range keys {
		for _, dc := range dumpCmds(ns + ":" + k) {
			out = append(out, gen.Quote(dc)+" -> "+s.Do(dc...).String())
		}
	}
	return out
}

func quoteAll(c []string) string { return gen.Quote(c) }

// journal of commands about to be executed (VERIF_JOURNAL=path), for hangs and process deaths
var journal = func() *os.File {
	if p := os.Getenv("VERIF_JOURNAL"); p != "" {
		f, _ := os.Create(p)
		return f
	}
	return nil
}()

func poisoned(s *simkv.Sim) bool {
	for _, p := range s.Parts {
		if p.Poisoned {
			return true
		}
	}
	return false
}

func proposed(s *simkv.Sim) int {
	n := 0
	for _, p := range s.Parts {
		n += len(p.Raft.Log)
	}
	return n
}

// isErrReply: the command as a whole failed. PLSET answers once per pair and is not atomic across
// partitions: with some pairs stored and others refused it did not fail as a whole (the twin gets
// the same command and must end up the same).
func isErrReply(r simkv.Reply) bool {
	if r.Malformed != "" || len(r.Vals) == 0 {
		return true
	}
	for _, v := range r.Vals {
		if v.Kind != 'e' {
			return false
		}
		// the 4 s proposal deadline passed while the entry was being applied (a 10000-value
		// JSON.ARRAPPEND takes that long on a loaded machine): the write has an unknown outcome for
		// the client, it did not fail - the fake raft has applied it, so the twin gets it too
		if strings.Contains(v.S, "context deadline exceeded") {
			return false
		}
	}
	return true
}

func runCase(t *rapid.T, engine string, parts int, recName string) {
	nulFree := engine == "mem" && known.Active("C20-mem-radix-seek-lowerbound-nul")
	pool := gen.DrawPool(t, nulFree)
	g := gen.NewGrammar(gen.FamKV|gen.FamHash|gen.FamList|gen.FamSet|gen.FamZSet|gen.FamTTL|gen.FamExtra, gen.FarDurations)
	policy := rapid.SampledFrom([]string{"wait_compact", "local_deletion"}).Draw(t, "policy") // both data layouts
	a, err := simkv.New(simkv.Options{Engine: engine, Partitions: parts, ExpPolicy: policy})
	if err != nil {
		t.Fatalf("HARNESS: %v", err)
	}
	defer a.Close()
	b, err := simkv.New(simkv.Options{Engine: engine, Partitions: parts, ExpPolicy: policy})
	if err != nil {
		t.Fatalf("HARNESS: %v", err)
	}
	defer b.Close()
	// both stores get the same harness-owned log timestamps so that their data is comparable
	cur := time.Now().UnixNano()
	for _, s := range []*simkv.Sim{a, b} {
		for _, p := range s.Parts {
			p.Raft.Stamp = func() int64 { return cur }
		}
	}
	var trace []string
	fail := func(format string, args ...interface{}) {
		tr := trace
		if len(tr) > 50 {
			tr = tr[len(tr)-50:]
		}
		t.Fatalf("%s\ntrace (command -> reply; [skipped on twin] marks commands that failed and were not sent to the twin store):\n  %s", fmt.Sprintf(format, args...), strings.Join(tr, "\n  "))
	}
	nt := false
	labels := map[string]bool{}
	wrote := false
	prevFailed := false
	var canon []string
	nprefix := rapid.IntRange(0, 8).Draw(t, "nprefix")
	nmut := rapid.IntRange(1, 12).Draw(t, "nmut")
	for i := 0; i < nprefix+nmut; i++ {
		cur += 1000
		var base []string
		if rapid.IntRange(0, 9).Draw(t, "src") < 4 {
			base = extraBase(t, pool)
		} else {
			base = gen.WithNS(ns, g.Command(t, pool))
		}
		c := base
		var muts []string
		if i >= nprefix {
			if rapid.IntRange(0, 5).Draw(t, "partialfailure") == 0 {
				c, muts = partialFailure(t, pool), []string{"last argument invalid at apply time"}
				base = c
			} else {
				c, muts = mutate(t, base)
			}
		}
		if len(c) == 0 {
			continue
		}
		canon = append(canon, strings.Join(c, "\x1f"))
		before := proposed(a)
		if journal != nil {
			fmt.Fprintf(journal, "%s\n", quoteAll(c))
		}
		ra := a.Serve(simkv.CmdS(c...))
		if poisoned(a) {
			trace = append(trace, fmt.Sprintf("%s (mutations %v)", quoteAll(c), muts))
			fail("PANIC IN THE APPLY PATH while applying %s (derived from %s by %v): the committed entry takes down every replica that applies or replays it", quoteAll(c), quoteAll(base), muts)
		}
		if ra.Closed {
			labels["recovered_panic_on_connection_path"] = true
		}
		if ra.Malformed != "" {
			trace = append(trace, fmt.Sprintf("%s -> %s", quoteAll(c), ra))
			fail("malformed reply stream for %s: %s", quoteAll(c), ra.Malformed)
		}
		passed := proposed(a) > before
		if len(muts) > 0 && passed {
			nt = true
			labels["mutated_command_reached_propose"] = true
		}
		failed := isErrReply(ra)
		if failed && ra.Closed && len(ra.Vals) == 0 {
			// connection closed after a recovered panic: the client saw no reply; treat as failed
		}
		if failed {
			if len(muts) > 0 && wrote {
				nt = true
				labels["mutated_command_rejected_after_writes"] = true
			}
			trace = append(trace, fmt.Sprintf("%s -> %s   [skipped on twin] (mutations %v)", quoteAll(c), ra, muts))
		} else {
			if passed {
				wrote = true
			}
			rb := b.Serve(simkv.CmdS(c...))
			if poisoned(b) {
				fail("PANIC IN THE APPLY PATH (twin) while applying %s", quoteAll(c))
			}
			trace = append(trace, fmt.Sprintf("%s -> %s (mutations %v)", quoteAll(c), ra, muts))
			if strings.ToLower(c[0]) != "info" && normReply(c[0], ra) != normReply(c[0], rb) && !isScanLike(c[0]) {
				fail("a command answers differently on a store that additionally received the failed commands above: %s\n  store with failed commands: %s\n  twin without them:          %s", quoteAll(c), ra, rb)
			}
		}
		// the dump is compared after every failed command, after the command that follows it (a
		// leaked write batch would be committed by that one) and at the end
		last := i == nprefix+nmut-1
		if !failed && !prevFailed && !last {
			prevFailed = failed
			continue
		}
		prevFailed = failed
		da, db := dump(a, pool.Keys), dump(b, pool.Keys)
		for j := range da {
			if da[j] != db[j] && !ttlClose(da[j], db[j]) {
				fail("after %s (reply %s) the data differs from a store that never saw the failed commands:\n  with:    %s\n  without: %s", quoteAll(c), ra, da[j], db[j])
			}
		}
	}
	var ls []string
	for l := range labels {
		ls = append(ls, l)
	}
	sort.Strings(ls)
	rc := rec(recName)
	if nulFree {
		rc.Count("excluded_by_known_finding", 1)
	}
	rc.Record(stats.HashString(strings.Join(canon, "\x1e")), nt, ls, func() interface{} {
		tr := trace
		if len(tr) > 30 {
			tr = tr[:30]
		}
		return map[string]interface{}{"engine": engine, "partitions": parts, "trace": tr}
	})
}

// merged scans concatenate per-partition results in map order
func isScanLike(name string) bool {
	n := strings.ToLower(name)
	return strings.Contains(n, "scan")
}

func TestRobustMem(t *testing.T) {
	rapid.Check(t, func(t *rapid.T) { runCase(t, "mem", 1, "robust_mem") })
}
func TestRobustPebble(t *testing.T) {
	rapid.Check(t, func(t *rapid.T) { runCase(t, "pebble", 1, "robust_pebble") })
}
func TestRobustRocksdb(t *testing.T) {
	rapid.Check(t, func(t *rapid.T) { runCase(t, "rocksdb", 1, "robust_rocksdb") })
}
func TestRobustMultiPartition(t *testing.T) {
	rapid.Check(t, func(t *rapid.T) { runCase(t, "pebble", 3, "robust_multi_partition") })
}

func TestKnownSetbitAfterExpiredBitmap(t *testing.T) {
	known.Probe(t, "C11-setbit-after-expired-bitmap-panics", func() (v bool, detail string) {
		sim, err := simkv.New(simkv.Options{Engine: "pebble"})
		if err != nil {
			return false, "HARNESS: " + err.Error()
		}
		defer sim.Close()
		cur := (time.Now().Unix() - 2000) * 1e9
		sim.Parts[0].Raft.Stamp = func() int64 { return cur }
		sim.Do("setbit", "default:t:k", "1", "1")
		sim.Do("bexpire", "default:t:k", "1")
		sim.Do("set", "default:t:k", "12345678")
		cur += 2e9
		sim.Do("setbit", "default:t:k", "1", "1")
		if sim.Parts[0].Poisoned {
			return true, "SETBIT k 1 1; BEXPIRE k 1; SET k 12345678; (log time +2s) SETBIT k 1 1 panics in the apply path"
		}
		return false, ""
	})
}

func TestKnownSetrangeNegativeOffset(t *testing.T) {
	known.Probe(t, "C11-setrange-negative-offset-panics", func() (v bool, detail string) {
		sim, err := simkv.New(simkv.Options{Engine: "pebble"})
		if err != nil {
			return false, "HARNESS: " + err.Error()
		}
		defer sim.Close()
		sim.Do("set", "default:t:k", "abc")
		for _, off := range []string{"-1", "9223372036854775807", "9223372036854775800"} {
			sim.Do("setrange", "default:t:k", off, "zz")
			if sim.Parts[0].Poisoned {
				return true, "SETRANGE k " + off + " zz passes leader-side validation and panics in the apply path"
			}
		}
		return false, ""
	})
}

func TestKnownScanNegativeCount(t *testing.T) {
	known.Probe(t, "C11-scan-negative-count-crashes-process", func() (v bool, detail string) {
		sim, err := simkv.New(simkv.Options{Engine: "pebble"})
		if err != nil {
			return false, "HARNESS: " + err.Error()
		}
		defer sim.Close()
		// the node-level handlers are called directly so that a panic can be observed instead of killing this process
		for _, c := range [][]string{{"scan", "default:t:", "count", "-1"}, {"advscan", "default:t:", "kv", "count", "-1"}, {"hscan", "default:t:h", "", "count", "-1"},
			{"sscan", "default:t:s", "", "count", "-1"}, {"zscan", "default:t:z", "", "count", "-1"}} {
			func() {
				defer func() {
					if r := recover(); r != nil {
						v, detail = true, fmt.Sprintf("%q panics: %v", c, r)
					}
				}()
				sim.Parts[0].NodeExec(simkv.CmdS(c...))
			}()
		}
		return v, detail
	})
}

func TestKnownJSONPathHugeIndex(t *testing.T) {
	known.Probe(t, "C11-json-path-huge-index-exhausts-memory", func() (v bool, detail string) {
		sim, err := simkv.New(simkv.Options{Engine: "pebble"})
		if err != nil {
			return false, "HARNESS: " + err.Error()
		}
		defer sim.Close()
		// 20,000,000 costs ~100 MB on a defective tree: enough to see the document being built, cheap enough to survive
		r := sim.Do("json.arrappend", "default:t:j", "20000000", "3").One()
		if !r.IsErr() {
			return true, "JSON.ARRAPPEND j 20000000 3 is accepted and builds a 20,000,001-element array in the apply path: " + r.String()
		}
		r = sim.Do("json.set", "default:t:j2", "a.20000000", "3").One()
		if !r.IsErr() {
			return true, "JSON.SET j2 a.20000000 3 is accepted: " + r.String()
		}
		return false, ""
	})
}

// normReply renders a reply for comparison; JSON.OBJKEYS lists the members of an object in
// map order, so its elements are compared as a set.
func normReply(name string, r simkv.Reply) string {
	if strings.ToLower(name) == "plset" {
		// one reply per pair, written per partition group in map order: compared as a multiset
		var el []string
		for _, v := range r.Vals {
			el = append(el, v.String())
		}
		sort.Strings(el)
		return strings.Join(el, " | ")
	}
	if strings.ToLower(name) == "json.objkeys" && len(r.Vals) == 1 && r.Vals[0].Kind == 'a' {
		var el []string
		for _, v := range r.Vals[0].A {
			el = append(el, v.String())
		}
		sort.Strings(el)
		return strings.Join(el, " ")
	}
	return r.String()
}

// ttlClose accepts two TTL dump lines whose remaining seconds differ by at most 2 (the two
// stores are read at slightly different wall-clock instants).
func ttlClose(a, b string) bool {
	if !(strings.HasPrefix(a, `"ttl"`) || strings.HasPrefix(a, `"httl"`)) {
		return false
	}
	ia, ib := strings.LastIndex(a, ":"), strings.LastIndex(b, ":")
	if ia < 0 || ib < 0 || a[:ia] != b[:ib] {
		return false
	}
	x, e1 := strconv.ParseInt(a[ia+1:], 10, 64)
	y, e2 := strconv.ParseInt(b[ib+1:], 10, 64)
	return e1 == nil && e2 == nil && x > 0 && y > 0 && x-y <= 2 && y-x <= 2
}

func TestKnownGeoradiusRepeatedOption(t *testing.T) {
	known.Probe(t, "C11-georadius-repeated-option-malformed-reply", func() (v bool, detail string) {
		sim, err := simkv.New(simkv.Options{Engine: "mem"})
		if err != nil {
			return false, "HARNESS: " + err.Error()
		}
		defer sim.Close()
		sim.Do("geoadd", "default:t:k", "13.361389", "38.115556", "a", "15.087269", "37.502669", "b")
		for _, opt := range []string{"withdist", "withcoord", "withhash"} {
			r := sim.Do("georadius", "default:t:k", "15", "37", "200", "km", opt, opt)
			if r.Malformed != "" {
				return true, "GEORADIUS k 15 37 200 km " + opt + " " + opt + " writes a malformed reply: " + r.Malformed
			}
		}
		return false, ""
	})
}

func TestKnownHidxWhereWithoutField(t *testing.T) {
	known.Probe(t, "C11-hidx-where-without-field-crashes-process", func() (v bool, detail string) {
		// the handler runs in a bare goroutine of the merge layer: a panic there ends the process,
		// so the probe asks the parser's caller through the same entry and relies on the fix being present;
		// on a tree without the fix this test process dies, which the driver reports as "process died"
		sim, err := simkv.New(simkv.Options{Engine: "mem"})
		if err != nil {
			return false, "HARNESS: " + err.Error()
		}
		defer sim.Close()
		for _, w := range []string{"=1", `"=1"`, `"<=1"`, `">=1 and =2"`} {
			r := sim.Do("hidx.from", "default:t", "where", w).One()
			if !r.IsErr() {
				return true, "HIDX.FROM t WHERE " + w + " -> " + r.String() + ", expected an error reply"
			}
		}
		return false, ""
	})
}

func TestKnownNonUTF8TableName(t *testing.T) {
	known.Probe(t, "C11-non-utf8-table-name-panics-metrics", func() (v bool, detail string) {
		sim, err := simkv.New(simkv.Options{Engine: "mem"})
		if err != nil {
			return false, "HARNESS: " + err.Error()
		}
		defer sim.Close()
		for _, c := range [][]string{{"rpush", "default:t\xff:l"}, {"sadd", "default:t\xff:s"}, {"hmset", "default:t\xff:h"}, {"zadd", "default:t\xff:z"}} {
			for i := 0; i < 140; i++ {
				switch c[0] {
				case "hmset":
					c = append(c, fmt.Sprintf("f%03d", i), "v")
				case "zadd":
					c = append(c, fmt.Sprint(i), fmt.Sprintf("m%03d", i))
				default:
					c = append(c, fmt.Sprintf("e%03d", i))
				}
			}
			r := sim.Do(c...)
			if poisoned(sim) || r.Closed {
				return true, fmt.Sprintf("%s with 140 elements on a key whose table name is not valid UTF-8 (t\\xff) panics in the apply path: %s", strings.ToUpper(c[0]), r.String())
			}
		}
		return false, ""
	})
}
