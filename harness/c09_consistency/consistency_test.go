package c09

import (
	"fmt"
	"sort"
	"strings"
	"testing"

	"pgregory.net/rapid"

	"verifharness/lib/gen"
	"verifharness/lib/known"
	"verifharness/lib/resp"
	"verifharness/lib/simkv"
	"verifharness/lib/stats"
)

func TestMain(m *testing.M) { stats.Main(m) }

const ns = "default"

const rule = "command sequence from the C08 grammar (all collection families, plus failing commands and groups of 2-6 writes applied inside ONE apply batch through the node's real applyEntries); after every command / batch every redundant read of every touched collection must agree (sizes, enumerations, point lookups, scans to exhaustion, *KEYEXIST), no reference model involved; non-trivial = a collection's size changed through a command that repeated an element or named a missing element, OR a collection was cleared/emptied and re-created, OR a batch of >= 2 writes touched one collection"

var recs = map[string]*stats.Recorder{}

func rec(name string) *stats.Recorder {
	if r, ok := recs[name]; ok {
		return r
	}
	r := stats.New(name, rule)
	recs[name] = r
	return r
}

type ctx struct {
	t     *rapid.T
	sim   *simkv.Sim
	trace []string
}

func (c *ctx) do(args ...string) resp.Val {
	return c.sim.Do(gen.WithNS(ns, args)...).One()
}

func (c *ctx) fail(format string, a ...interface{}) {
	tr := c.trace
	if len(tr) > 60 {
		tr = tr[len(tr)-60:]
	}
	c.t.Fatalf("%s\ntrace (command -> reply):\n  %s", fmt.Sprintf(format, a...), strings.Join(tr, "\n  "))
}

func (c *ctx) arr(v resp.Val, what string) []string {
	if v.Kind != 'a' {
		c.fail("%s: expected an array, got %s", what, v)
	}
	out := make([]string, len(v.A))
	for i, x := range v.A {
		if x.Kind != 'b' {
			c.fail("%s: element %d is %s, expected a bulk string", what, i, x)
		}
		out[i] = x.S
	}
	return out
}

func (c *ctx) num(v resp.Val, what string) int64 {
	if v.Kind != 'i' {
		c.fail("%s: expected an integer, got %s", what, v)
	}
	return v.I
}

// scanAll feeds the cursor back until it is empty.
func (c *ctx) scanAll(cmd, key string, pairs bool, max int) []string {
	var out []string
	cursor := ""
	for page := 0; ; page++ {
		if page > max+3 {
			c.fail("%s %q did not terminate after %d pages", cmd, key, page)
		}
		v := c.do(cmd, key, cursor, "count", "2")
		if v.Kind != 'a' || len(v.A) != 2 || v.A[0].Kind != 'b' {
			c.fail("%s %q cursor %q: malformed reply %s", cmd, key, cursor, v)
		}
		out = append(out, c.arr(v.A[1], cmd+" page")...)
		cursor = v.A[0].S
		if cursor == "" {
			break
		}
	}
	_ = pairs
	return out
}

func eqStr(a, b []string) bool {
	if len(a) != len(b) {
		return false
	}
	for i := range a {
		if a[i] != b[i] {
			return false
		}
	}
	return true
}

func (c *ctx) checkHash(k string) int {
	all := c.arr(c.do("hgetall", k), "hgetall")
	if len(all)%2 != 0 {
		c.fail("HGETALL %q returned an odd number of elements: %q", k, all)
	}
	n := c.num(c.do("hlen", k), "hlen")
	keys := c.arr(c.do("hkeys", k), "hkeys")
	vals := c.arr(c.do("hvals", k), "hvals")
	if int(n) != len(all)/2 || len(keys) != len(all)/2 || len(vals) != len(all)/2 {
		c.fail("hash %q: HLEN=%d |HGETALL|=%d |HKEYS|=%d |HVALS|=%d", k, n, len(all)/2, len(keys), len(vals))
	}
	seen := map[string]bool{}
	for i := 0; i < len(all); i += 2 {
		f, v := all[i], all[i+1]
		if seen[f] {
			c.fail("hash %q: field %q enumerated twice", k, f)
		}
		seen[f] = true
		if keys[i/2] != f || vals[i/2] != v {
			c.fail("hash %q: HKEYS/HVALS disagree with HGETALL at %d: %q/%q vs %q/%q", k, i/2, keys[i/2], vals[i/2], f, v)
		}
		if g := c.do("hget", k, f); g.Kind != 'b' || g.S != v {
			c.fail("hash %q: HGETALL shows %q=%q but HGET returns %s", k, f, v, g)
		}
		if e := c.do("hexists", k, f); e.Kind != 'i' || e.I != 1 {
			c.fail("hash %q: enumerated field %q but HEXISTS returns %s", k, f, e)
		}
	}
	ex := c.num(c.do("hkeyexist", k), "hkeyexist")
	if (ex == 1) != (n > 0) || (ex != 0 && ex != 1) {
		c.fail("hash %q: HKEYEXIST=%d but HLEN=%d", k, ex, n)
	}
	sc := c.scanAll("hscan", k, true, int(n))
	// the empty cursor means "from the start" and cursors are exclusive, so an element whose
	// name is empty cannot be returned by a scan (C13 is stated for non-empty names)
	if len(all) >= 2 && all[0] == "" {
		all = all[2:]
	}
	if !eqStr(sc, all) {
		c.fail("hash %q: HSCAN to exhaustion %q differs from HGETALL %q", k, sc, all)
	}
	return int(n)
}

func (c *ctx) checkSet(k string) int {
	ms := c.arr(c.do("smembers", k), "smembers")
	n := c.num(c.do("scard", k), "scard")
	if int(n) != len(ms) {
		c.fail("set %q: SCARD=%d but SMEMBERS returns %d members %q", k, n, len(ms), ms)
	}
	seen := map[string]bool{}
	for _, m := range ms {
		if seen[m] {
			c.fail("set %q: member %q enumerated twice", k, m)
		}
		seen[m] = true
		if e := c.do("sismember", k, m); e.Kind != 'i' || e.I != 1 {
			c.fail("set %q: enumerated member %q but SISMEMBER returns %s", k, m, e)
		}
	}
	ex := c.num(c.do("skeyexist", k), "skeyexist")
	if (ex == 1) != (n > 0) {
		c.fail("set %q: SKEYEXIST=%d but SCARD=%d", k, ex, n)
	}
	sc := c.scanAll("sscan", k, false, int(n))
	if len(ms) >= 1 && ms[0] == "" {
		ms = ms[1:]
	}
	if !eqStr(sc, ms) {
		c.fail("set %q: SSCAN to exhaustion %q differs from SMEMBERS %q", k, sc, ms)
	}
	return int(n)
}

func (c *ctx) checkList(k string) int {
	items := c.arr(c.do("lrange", k, "0", "-1"), "lrange")
	n := c.num(c.do("llen", k), "llen")
	if int(n) != len(items) {
		c.fail("list %q: LLEN=%d but LRANGE 0 -1 returns %d elements", k, n, len(items))
	}
	for i, it := range items {
		if g := c.do("lindex", k, fmt.Sprint(i)); g.Kind != 'b' || g.S != it {
			c.fail("list %q: LRANGE shows [%d]=%q but LINDEX returns %s", k, i, it, g)
		}
	}
	ex := c.num(c.do("lkeyexist", k), "lkeyexist")
	if (ex == 1) != (n > 0) {
		c.fail("list %q: LKEYEXIST=%d but LLEN=%d", k, ex, n)
	}
	return int(n)
}

func (c *ctx) checkZSet(k string) int {
	ws := c.arr(c.do("zrange", k, "0", "-1", "withscores"), "zrange")
	if len(ws)%2 != 0 {
		c.fail("ZRANGE WITHSCORES %q returned an odd number of elements", k)
	}
	n := c.num(c.do("zcard", k), "zcard")
	byScore := c.arr(c.do("zrangebyscore", k, "-inf", "+inf"), "zrangebyscore")
	byLex := c.arr(c.do("zrangebylex", k, "-", "+"), "zrangebylex")
	plain := c.arr(c.do("zrange", k, "0", "-1"), "zrange")
	if int(n) != len(ws)/2 || len(byScore) != len(ws)/2 || len(byLex) != len(ws)/2 || len(plain) != len(ws)/2 {
		c.fail("zset %q: ZCARD=%d |ZRANGE 0 -1|=%d |ZRANGEBYSCORE -inf +inf|=%d |ZRANGEBYLEX - +|=%d\n  zrange withscores: %q\n  bylex: %q", k, n, len(ws)/2, len(byScore), len(byLex), ws, byLex)
	}
	seen := map[string]bool{}
	var members []string
	for i := 0; i < len(ws); i += 2 {
		m, s := ws[i], ws[i+1]
		if seen[m] {
			c.fail("zset %q: member %q appears twice in ZRANGE: %q", k, m, ws)
		}
		seen[m] = true
		members = append(members, m)
		if plain[i/2] != m || byScore[i/2] != m {
			c.fail("zset %q: enumerations disagree at %d: zrange %q, zrange withscores %q, zrangebyscore %q", k, i/2, plain[i/2], m, byScore[i/2])
		}
		if g := c.do("zscore", k, m); g.Kind != 'b' || g.S != s {
			c.fail("zset %q: ZRANGE shows %q with score %s but ZSCORE returns %s", k, m, s, g)
		}
		if r := c.do("zrank", k, m); r.Kind != 'i' || int(r.I) != i/2 {
			c.fail("zset %q: member %q is at position %d of ZRANGE but ZRANK returns %s", k, m, i/2, r)
		}
		if r := c.do("zrevrank", k, m); r.Kind != 'i' || int(r.I) != len(ws)/2-1-i/2 {
			c.fail("zset %q: member %q: ZREVRANK returns %s, expected %d", k, m, r, len(ws)/2-1-i/2)
		}
	}
	sorted := append([]string(nil), members...)
	sort.Strings(sorted)
	if !eqStr(sorted, byLex) {
		c.fail("zset %q: ZRANGEBYLEX - + %q is not the sorted member set %q", k, byLex, sorted)
	}
	ex := c.num(c.do("zkeyexist", k), "zkeyexist")
	if (ex == 1) != (n > 0) {
		c.fail("zset %q: ZKEYEXIST=%d but ZCARD=%d", k, ex, n)
	}
	sc := c.scanAll("zscan", k, true, int(n))
	// zscan returns member,score pairs in member order
	var scm []string
	for i := 0; i+1 < len(sc); i += 2 {
		scm = append(scm, sc[i])
		if g := c.do("zscore", k, sc[i]); g.Kind != 'b' || g.S != sc[i+1] {
			c.fail("zset %q: ZSCAN shows %q with score %q but ZSCORE returns %s", k, sc[i], sc[i+1], g)
		}
	}
	if len(sorted) >= 1 && sorted[0] == "" {
		sorted = sorted[1:]
	}
	if len(sc)%2 != 0 || !eqStr(scm, sorted) {
		c.fail("zset %q: ZSCAN to exhaustion %q differs from the member set %q", k, sc, sorted)
	}
	return int(n)
}

// extra commands that fail: wrong kind of argument, over-long field
func badCommand(t *rapid.T, p *gen.Pool) []string {
	k := rapid.SampledFrom(p.Keys).Draw(t, "badkey")
	m := func() string { return rapid.SampledFrom(p.Members).Draw(t, "badm") }
	long := strings.Repeat("F", 10241) // MaxSubKeyLen + 1
	return rapid.SampledFrom([][]string{
		{"hincrby", k, "a", "notanumber"}, {"zadd", k, "notafloat", "a"}, {"zadd", k, "1", "a", "x", "b"}, {"hset", k, long, "v"},
		{"lset", k, "99", "v"}, {"zincrby", k, "x", "a"}, {"hdel", k}, {"sadd", k}, {"spop", k, "0"}, {"ltrim", k, "a", "b"}, {"zremrangebyscore", k, "a", "b"},
		// commands that fail on a LATER argument, after earlier ones were already put into the write batch:
		// the error reply must leave nothing behind
		{"sadd", k, m(), long}, {"sadd", k, m(), m(), long}, {"srem", k, m(), long}, {"srem", k, m(), m(), long},
		{"hmset", k, m(), "1", long, "2"}, {"hmset", k, m(), "1", m(), "2", long, "3"}, {"hdel", k, m(), long}, {"hdel", k, m(), m(), long},
		{"zadd", k, "1", m(), "2", long}, {"zadd", k, "1", m(), "2", m(), "3", long}, {"zrem", k, m(), long}, {"zrem", k, m(), m(), long},
		{"zadd", k, "1", m(), "notafloat", m()},
	}).Draw(t, "bad")
}

func touched(c []string) (byte, string) {
	switch c[0][0] {
	case 'h':
		return 'h', c[1]
	case 'l', 'r':
		return 'l', c[1]
	case 'z':
		return 'z', c[1]
	case 's':
		switch c[0] {
		case "set", "setex", "setnx", "strlen":
			return 'k', c[1]
		}
		return 's', c[1]
	}
	return 'k', c[1]
}

func hasDup(c []string) bool {
	seen := map[string]bool{}
	for _, x := range c[2:] {
		if seen[x] {
			return true
		}
		seen[x] = true
	}
	return false
}

func runCase(t *rapid.T, engine, recName string) {
	nulFree := engine == "mem" && known.Active("C20-mem-radix-seek-lowerbound-nul")
	pool := gen.DrawPool(t, nulFree)
	excluded := 0
	pool.Excluded = &excluded
	pool.NoDupArgs = known.Active("C08-duplicate-argument-counted-twice")
	g := gen.NewGrammar(gen.FamHash|gen.FamList|gen.FamSet|gen.FamZSet, gen.FarDurations)
	// both data layouts: the versioned one (wait_compact, a clear bumps the key version) and
	// the plain one (local_deletion, the production default, a clear deletes every member)
	policy := rapid.SampledFrom([]string{"wait_compact", "local_deletion"}).Draw(t, "policy")
	sim, err := simkv.New(simkv.Options{Engine: engine, ExpPolicy: policy})
	if err != nil {
		t.Fatalf("HARNESS: %v", err)
	}
	defer sim.Close()
	c := &ctx{t: t, sim: sim}
	part := sim.Parts[0]
	sizes := map[string]int{}
	emptied := map[string]bool{}
	nt := false
	var labels = map[string]bool{}
	canon := []string{policy}
	labels["policy:"+policy] = true
	check := func(fam byte, key string) int {
		switch fam {
		case 'h':
			return c.checkHash(key)
		case 's':
			return c.checkSet(key)
		case 'l':
			return c.checkList(key)
		case 'z':
			return c.checkZSet(key)
		}
		return -1
	}
	n := rapid.IntRange(1, 40).Draw(t, "nsteps")
	for i := 0; i < n; i++ {
		mode := rapid.IntRange(0, 9).Draw(t, "mode")
		var cmds [][]string
		switch {
		case mode <= 1:
			cmds = [][]string{badCommand(t, pool)}
			labels["failing_command"] = true
		case mode <= 3:
			// several writes inside one apply batch
			k := rapid.IntRange(2, 6).Draw(t, "batch")
			for j := 0; j < k; j++ {
				cmds = append(cmds, g.Command(t, pool))
			}
		default:
			cmds = [][]string{g.Command(t, pool)}
		}
		for _, cm := range cmds {
			canon = append(canon, strings.Join(cm, "\x1f"))
		}
		if len(cmds) == 1 {
			v := c.sim.Do(gen.WithNS(ns, cmds[0])...)
			c.trace = append(c.trace, fmt.Sprintf("%s -> %s", gen.Quote(cmds[0]), v))
		} else {
			part.Raft.Immediate = false
			var futs []*simkv.Future
			for _, cm := range cmds {
				futs = append(futs, part.NodeWrite(simkv.CmdS(gen.WithNS(ns, cm)...)))
			}
			part.Flush(nil, 0)
			part.Raft.Immediate = true
			for j, f := range futs {
				var rs string
				if _, isW := part.KV.GetWriteHandler(cmds[j][0]); isW {
					rs = f.Wait().String()
				} else {
					rs = "(read command skipped in batch)"
				}
				c.trace = append(c.trace, fmt.Sprintf("[batch %d/%d] %s -> %s", j+1, len(cmds), gen.Quote(cmds[j]), rs))
			}
			labels["multi_command_apply_batch"] = true
		}
		perKey := map[string]int{}
		for _, cm := range cmds {
			fam, key := touched(cm)
			if fam == 'k' {
				continue
			}
			ck := string(fam) + key
			perKey[ck]++
			before := sizes[ck]
			after := check(fam, key)
			sizes[ck] = after
			if after != before && (hasDup(cm)) {
				nt = true
				labels["size_changed_by_command_with_repeated_element"] = true
			}
			if before > 0 && after == 0 {
				emptied[ck] = true
			}
			if before == 0 && after > 0 && emptied[ck] {
				nt = true
				labels["emptied_and_recreated"] = true
			}
			switch cm[0] {
			case "hdel", "srem", "zrem":
				if after == before || before-after < len(cm)-2 {
					nt = nt || before != after
					labels["removal_named_missing_element"] = true
				}
			}
		}
		for _, k := range perKey {
			if k >= 2 {
				nt = true
				labels["batch_touched_one_collection_twice"] = true
			}
		}
	}
	for _, k := range pool.Keys {
		for _, fam := range []byte{'h', 's', 'l', 'z'} {
			check(fam, k)
		}
	}
	var ls []string
	for l := range labels {
		ls = append(ls, l)
	}
	sort.Strings(ls)
	r := rec(recName)
	if excluded > 0 || nulFree {
		r.Count("excluded_by_known_finding", int64(excluded)+1)
	}
	r.Record(stats.HashString(strings.Join(canon, "\x1e")), nt, ls, func() interface{} {
		tr := c.trace
		if len(tr) > 40 {
			tr = tr[:40]
		}
		return map[string]interface{}{"engine": engine, "commands_and_replies": tr}
	})
}

func TestConsistencyMem(t *testing.T) {
	rapid.Check(t, func(t *rapid.T) { runCase(t, "mem", "consistency_mem") })
}
func TestConsistencyPebble(t *testing.T) {
	rapid.Check(t, func(t *rapid.T) { runCase(t, "pebble", "consistency_pebble") })
}
func TestConsistencyRocksdb(t *testing.T) {
	rapid.Check(t, func(t *rapid.T) { runCase(t, "rocksdb", "consistency_rocksdb") })
}
