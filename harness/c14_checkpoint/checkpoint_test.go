package c14

import (
	"crypto/sha1"
	"fmt"
	"io"
	"os"
	"os/exec"
	"path/filepath"
	"sort"
	"strconv"
	"strings"
	"testing"
	"time"

	"github.com/youzan/ZanRedisDB/rockredis"
	"pgregory.net/rapid"

	"verifharness/lib/gen"
	"verifharness/lib/known"
	"verifharness/lib/simkv"
	"verifharness/lib/stats"
)

func TestMain(m *testing.M) { stats.Main(m) }

const ns = "default"

const rule = "a generated write history (C08 grammar + INCR / HINCRBY counters, PFADD, far-future TTLs, compaction rounds) with backups taken at generated log indexes (RockDB.Backup(term, index), waited for) and, at generated later instants: Restore of a recorded checkpoint on the same store (also repeatedly, also an older one after a newer one), or restore on a SECOND store that received a copy of the checkpoint directory (what rsync delivers; RestoreFromRemoteBackup); KeepBackup in {1, 2, 10} with the latest-snapshot index moved as the node does. Oracle: the logical dump recorded at backup time == the dump after every restore of that checkpoint (all types, PFCOUNT, TTLs within 2 s); the checkpoint directory's file list and content hashes are unchanged by any restore and by later writes / compactions of the live store; after every backup / restore every checkpoint with index >= the latest snapshot index still exists and passes IsLocalBackupOK, and a checkpoint disappears only if at least KeepBackup newer ones exist. non-trivial = a restore performed after >= 10 writes following its backup, at least one of which deleted or overwrote a key present in the checkpoint, with >= 1 compaction in between"

var recs = map[string]*stats.Recorder{}

func rec(name string) *stats.Recorder {
	if r, ok := recs[name]; ok {
		return r
	}
	r := stats.New(name, rule)
	recs[name] = r
	return r
}

func dumpCmds(key string) [][]string {
	return [][]string{{"get", key}, {"ttl", key}, {"hgetall", key}, {"httl", key}, {"lrange", key, "0", "-1"}, {"smembers", key}, {"zrange", key, "0", "-1", "withscores"},
		{"hlen", key}, {"llen", key}, {"scard", key}, {"zcard", key}, {"pfcount", key}, {"exists", key}}
}

func dump(s *simkv.Sim, keys []string) []string {
	var out []string
	for _, k := range keys {
		for _, dc := range dumpCmds(ns + ":" + k) {
			out = append(out, gen.Quote(dc)+" -> "+s.Do(dc...).String())
		}
	}
	return out
}

func sameLine(a, b string) bool {
	if a == b {
		return true
	}
	if strings.HasPrefix(a, `"ttl"`) || strings.HasPrefix(a, `"httl"`) {
		ia, ib := strings.LastIndex(a, ":"), strings.LastIndex(b, ":")
		if ia > 0 && ib > 0 && a[:ia] == b[:ib] {
			x, e1 := strconv.ParseInt(a[ia+1:], 10, 64)
			y, e2 := strconv.ParseInt(b[ib+1:], 10, 64)
			return e1 == nil && e2 == nil && x > 0 && y > 0 && x-y <= 600 && y-x <= 600 // wall clock moves on between backup and restore; generated TTLs are ~2*10^6 s
		}
	}
	return false
}

func dirHash(dir string) (map[string]string, error) {
	out := map[string]string{}
	ents, err := os.ReadDir(dir)
	if err != nil {
		return nil, err
	}
	for _, e := range ents {
		if e.IsDir() || strings.HasPrefix(e.Name(), "LOG") || e.Name() == "LOCK" { // LOCK: empty file left by opening the checkpoint read-only for validation
			continue
		}
		f, err := os.Open(filepath.Join(dir, e.Name()))
		if err != nil {
			return nil, err
		}
		h := sha1.New()
		io.Copy(h, f)
		f.Close()
		out[e.Name()] = fmt.Sprintf("%x", h.Sum(nil))
	}
	return out, nil
}

type ckpt struct {
	index   uint64
	dump    []string
	files   map[string]string
	writes  int  // writes applied after this backup
	clobber bool // a later write deleted/overwrote something (any successful write on a key that had data)
	compact bool
}

func extraCmd(t *rapid.T, p *gen.Pool) []string {
	k := rapid.SampledFrom(p.Keys).Draw(t, "xkey")
	m := rapid.SampledFrom(p.Members).Draw(t, "xm")
	switch rapid.IntRange(0, 3).Draw(t, "extra") {
	case 0:
		return []string{"pfadd", k, m, rapid.SampledFrom(p.Members).Draw(t, "xm2")}
	case 1:
		return []string{"incr", k}
	case 2:
		return []string{"hincrby", k, m, "3"}
	default:
		return []string{"setex", k, "2000000", "ttl-value"}
	}
}

func runCase(t *rapid.T, engine string) {
	keep := rapid.SampledFrom([]int{1, 2, 10}).Draw(t, "keepbackup")
	policy := rapid.SampledFrom([]string{"wait_compact", "local_deletion"}).Draw(t, "policy") // both data layouts
	sim, err := simkv.New(simkv.Options{Engine: engine, KeepBackup: keep, ExpPolicy: policy})
	if err != nil {
		t.Fatalf("HARNESS: %v", err)
	}
	defer sim.Close()
	var sim2 *simkv.Sim
	defer func() {
		if sim2 != nil {
			sim2.Close()
		}
	}()
	part := sim.Parts[0]
	db := part.Store().RockDB
	pool := gen.DrawPool(t, false)
	g := gen.NewGrammar(gen.FamKV|gen.FamHash|gen.FamList|gen.FamSet|gen.FamZSet|gen.FamTTL|gen.FamExtra, gen.FarDurations)
	var cks []*ckpt
	latestSnap := uint64(0)
	var trace []string
	fail := func(format string, a ...interface{}) {
		tr := trace
		if len(tr) > 60 {
			tr = tr[len(tr)-60:]
		}
		t.Fatalf("%s\nengine=%s keep_backup=%d latest_snapshot_index=%d\nhistory:\n  %s", fmt.Sprintf(format, a...), engine, keep, latestSnap, strings.Join(tr, "\n  "))
	}
	ckDir := func(d *rockredis.RockDB, idx uint64) string {
		return filepath.Join(d.GetBackupDir(), rockredis.GetCheckpointDir(1, idx))
	}
	// The purge round runs in the backup goroutine AFTER the backup has reported its result, so
	// a checkpoint may vanish while it is being looked at: an observation that is contradicted
	// by a second look is repeated instead of judged.
	checkPurge := func() {
		for attempt := 0; ; attempt++ {
			raced := false
			newer := 0
			for i := len(cks) - 1; i >= 0 && !raced; i-- {
				c := cks[i]
				_, err := os.Stat(ckDir(db, c.index))
				if err != nil {
					if c.index >= latestSnap && latestSnap > 0 {
						fail("checkpoint %d was discarded although it is not older than the latest recorded snapshot (index %d)", c.index, latestSnap)
					}
					if newer < keep {
						fail("checkpoint %d was discarded although only %d newer checkpoints exist (keep_backup %d)", c.index, newer, keep)
					}
					continue
				}
				if ok, err := db.IsLocalBackupOK(1, c.index); !ok {
					if _, serr := os.Stat(ckDir(db, c.index)); serr != nil && attempt < 20 {
						raced = true // purged between the two looks
						time.Sleep(10 * time.Millisecond)
						continue
					}
					fail("checkpoint %d exists on disk but IsLocalBackupOK says %v, %v", c.index, ok, err)
				}
				newer++
			}
			if !raced {
				return
			}
		}
	}
	checkRestored := func(s *simkv.Sim, c *ckpt, what string) {
		got := dump(s, pool.Keys)
		for i := range got {
			if !sameLine(got[i], c.dump[i]) {
				fail("%s of the checkpoint taken at index %d does not give the data as of that index:\n  at backup time: %s\n  after restore:  %s", what, c.index, c.dump[i], got[i])
			}
		}
	}
	checkFiles := func(c *ckpt, d *rockredis.RockDB, what string) {
		if _, err := os.Stat(ckDir(d, c.index)); err != nil {
			return // purged; checked elsewhere
		}
		now, err := dirHash(ckDir(d, c.index))
		if err != nil {
			if _, serr := os.Stat(ckDir(d, c.index)); serr != nil {
				return // purged by the backup goroutine while it was being read
			}
			if now, err = dirHash(ckDir(d, c.index)); err != nil {
				if _, serr := os.Stat(ckDir(d, c.index)); serr != nil {
					return
				}
				fail("HARNESS: hashing checkpoint %d: %v", c.index, err)
			}
		}
		if fmt.Sprint(now) != fmt.Sprint(c.files) {
			if _, serr := os.Stat(ckDir(d, c.index)); serr != nil {
				return // being purged while it was read
			}
			time.Sleep(20 * time.Millisecond)
			if _, serr := os.Stat(ckDir(d, c.index)); serr != nil {
				return
			}
			fail("%s changed the files of checkpoint %d:\n  before: %v\n  after:  %v", what, c.index, c.files, now)
		}
	}
	nt := false
	labels := map[string]bool{}
	var canon []string
	n := rapid.IntRange(10, 90).Draw(t, "nsteps")
	for i := 0; i < n; i++ {
		act := rapid.IntRange(0, 19).Draw(t, "act")
		switch {
		case act <= 1: // backup
			idx := uint64(len(part.Raft.Log)) + 1
			if len(cks) > 0 && cks[len(cks)-1].index >= idx {
				idx = cks[len(cks)-1].index + 1
			}
			bi := db.Backup(1, idx)
			for try := 0; bi == nil && try < 400; try++ {
				// Backup hands the request to the backup goroutine without waiting and returns nil
				// if that goroutine is not at its receive yet (e.g. still purging after the last one)
				time.Sleep(5 * time.Millisecond)
				bi = db.Backup(1, idx)
			}
			if bi == nil {
				fail("HARNESS: backup goroutine never accepted the request")
			}
			// the node's apply loop goes on as soon as the checkpoint reports its state frozen
			// (kvStoreSM.GetSnapshot -> BackupInfo.WaitReady), not when it is finished: writes that
			// arrive from then on are after index idx and must not be in it
			atBackup := dump(sim, pool.Keys)
			bi.WaitReady()
			var late []string
			if rapid.IntRange(0, 2).Draw(t, "late_writes") == 0 {
				for j := rapid.IntRange(1, 3).Draw(t, "nlate"); j > 0; j-- {
					k := rapid.SampledFrom(pool.Keys).Draw(t, "latekey")
					var lc []string
					switch rapid.IntRange(0, 3).Draw(t, "latecmd") {
					case 0:
						lc = []string{"set", k, fmt.Sprintf("late-%d-%d", i, j)}
					case 1:
						lc = []string{"hset", k, "late", fmt.Sprintf("%d-%d", i, j)}
					case 2:
						lc = []string{"rpush", k, fmt.Sprintf("late-%d-%d", i, j)}
					default:
						lc = []string{"incr", k + "-latecnt"}
					}
					r := sim.Do(gen.WithNS(ns, lc)...)
					late = append(late, gen.Quote(lc)+" -> "+r.String())
				}
				labels["writes_between_frozen_signal_and_end_of_backup"] = true
			}
			if _, err := bi.GetResult(); err != nil {
				fail("backup at index %d failed: %v", idx, err)
			}
			c := &ckpt{index: idx, dump: atBackup}
			c.files, err = dirHash(ckDir(db, idx))
			if err != nil {
				fail("backup at index %d reported success but its directory cannot be read: %v", idx, err)
			}
			cks = append(cks, c)
			trace = append(trace, fmt.Sprintf("BACKUP index %d (%d files)", idx, len(c.files)))
			for _, l := range late {
				trace = append(trace, "  after the frozen signal, before the backup finished: "+l)
			}
			if len(late) > 0 {
				for _, ck := range cks {
					ck.writes += len(late)
					ck.clobber = true
				}
			}
			canon = append(canon, "backup")
			if rapid.Bool().Draw(t, "recordsnap") {
				latestSnap = idx
				db.SetLatestSnapIndex(idx)
				trace = append(trace, fmt.Sprintf("latest snapshot index := %d", idx))
			}
			checkPurge()
		case act == 2 && len(cks) > 0: // restore on the same store
			var avail []*ckpt
			for _, c := range cks {
				if _, err := os.Stat(ckDir(db, c.index)); err == nil {
					avail = append(avail, c)
				}
			}
			if len(avail) == 0 {
				continue
			}
			c := avail[rapid.IntRange(0, len(avail)-1).Draw(t, "which")]
			if rapid.IntRange(0, 2).Draw(t, "prefer_old") > 0 {
				for _, o := range avail { // the checkpoint the live store has moved furthest away from
					if o.writes > c.writes {
						c = o
					}
				}
			}
			if err := db.Restore(1, c.index); err != nil {
				if _, serr := os.Stat(ckDir(db, c.index)); serr != nil {
					continue // purged by the backup goroutine after it was selected
				}
				fail("restore of checkpoint %d failed: %v", c.index, err)
			}
			trace = append(trace, fmt.Sprintf("RESTORE index %d (after %d writes, clobbering=%v, compaction=%v)", c.index, c.writes, c.clobber, c.compact))
			canon = append(canon, fmt.Sprintf("restore%d", c.index))
			checkRestored(sim, c, "restore")
			checkFiles(c, db, "restoring it")
			if c.writes >= 10 && c.clobber && c.compact {
				nt = true
			}
			labels["restore_same_store"] = true
			_, stillThere := os.Stat(ckDir(db, c.index))
			if rapid.Bool().Draw(t, "again") && stillThere == nil { // a restore ends with a purge round, which may legitimately drop an old checkpoint
				if err := db.Restore(1, c.index); err != nil {
					fail("second restore of checkpoint %d failed: %v", c.index, err)
				}
				checkRestored(sim, c, "a repeated restore")
				checkFiles(c, db, "restoring it twice")
				labels["repeated_restore"] = true
			}
			for _, o := range cks {
				o.writes, o.clobber, o.compact = 0, false, false
			}
			checkPurge()
		case act == 3 && len(cks) > 0: // restore on a second store from a copy
			c := cks[len(cks)-1]
			src := ckDir(db, c.index)
			if _, err := os.Stat(src); err != nil {
				continue
			}
			if sim2 == nil {
				sim2, err = simkv.New(simkv.Options{Engine: engine, KeepBackup: keep, ExpPolicy: policy})
				if err != nil {
					fail("HARNESS: %v", err)
				}
				// the other node has its own history
				sim2.Do("set", ns+":"+pool.Keys[0], "other-node-data")
				sim2.Do("hset", ns+":"+pool.Keys[0], "f", "other")
			}
			db2 := sim2.Parts[0].Store().RockDB
			if rapid.IntRange(0, 2).Draw(t, "own_same_name") == 0 {
				// the receiving store has a checkpoint of its OWN data under the same term-index name
				// (checkpoints fetched from another cluster are numbered by that cluster's log)
				sim2.Do("set", ns+":"+pool.Keys[0], fmt.Sprintf("other-node-data-%d", i))
				sim2.Do("hset", ns+":"+pool.Keys[0], "f", fmt.Sprintf("other-%d", i))
				bi := db2.Backup(1, c.index)
				for try := 0; bi == nil && try < 400; try++ {
					time.Sleep(5 * time.Millisecond)
					bi = db2.Backup(1, c.index)
				}
				if bi == nil {
					fail("HARNESS: the other store does not accept a backup")
				}
				if _, err := bi.GetResult(); err != nil {
					fail("backup on the other store failed: %v", err)
				}
				trace = append(trace, fmt.Sprintf("OTHER-NODE takes its own checkpoint named index %d", c.index))
				labels["other_store_has_own_checkpoint_of_same_name"] = true
			}
			dst := filepath.Join(db2.GetBackupDirForRemote(), rockredis.GetCheckpointDir(1, c.index))
			os.RemoveAll(dst)
			os.MkdirAll(filepath.Dir(dst), 0755)
			if out, err := exec.Command("cp", "-r", src, dst).CombinedOutput(); err != nil {
				fail("HARNESS: cp: %v %s", err, out)
			}
			if err := db2.RestoreFromRemoteBackup(1, c.index); err != nil {
				fail("restore of a copy of checkpoint %d on another store failed: %v", c.index, err)
			}
			trace = append(trace, fmt.Sprintf("RESTORE-ON-OTHER-NODE index %d", c.index))
			canon = append(canon, "remote")
			checkRestored(sim2, c, "restore on another store (copied checkpoint)")
			checkFiles(c, db, "copying it to another node")
			labels["restore_other_store"] = true
		case act == 4 || act == 5:
			part.KV.OptimizeDB("")
			trace = append(trace, "COMPACT")
			canon = append(canon, "compact")
			for _, c := range cks {
				c.compact = true
			}
		default:
			var c []string
			if rapid.IntRange(0, 4).Draw(t, "src") == 0 {
				c = extraCmd(t, pool)
			} else {
				c = g.Command(t, pool)
			}
			if (c[0] == "expire" || c[0] == "persist") && known.Active("C14-expire-on-hll-key-corrupts-count") {
				// exclusion by construction: KV EXPIRE / PERSIST (the two commands that rewrite only the
				// value header of a stored value) could hit a key that holds a HyperLogLog
				c[0] = "h" + c[0]
				rec("checkpoint_"+engine).Count("excluded_by_known_finding", 1)
			}
			before := len(part.Raft.Log)
			hadData := false
			for _, l := range dump(sim, []string{c[1]}) {
				if !(strings.HasSuffix(l, "-> nil") || strings.HasSuffix(l, "-> :0") || strings.HasSuffix(l, "-> []") || strings.HasSuffix(l, "-> :-1")) {
					hadData = true
				}
			}
			r := sim.Do(gen.WithNS(ns, c)...)
			trace = append(trace, gen.Quote(c)+" -> "+r.String())
			canon = append(canon, strings.Join(c, "\x1f"))
			if len(part.Raft.Log) > before {
				for _, ck := range cks {
					ck.writes++
					if hadData {
						ck.clobber = true
					}
				}
			}
		}
		// later writes and compactions of the live store must not touch any checkpoint (hard-link safety)
		if i%7 == 6 {
			for _, c := range cks {
				checkFiles(c, db, "later writes/compactions of the live store")
			}
		}
	}
	for _, c := range cks {
		checkFiles(c, db, "the rest of the history")
	}
	var ls []string
	for l := range labels {
		ls = append(ls, l)
	}
	sort.Strings(ls)
	rec("checkpoint_"+engine).Record(stats.HashString(fmt.Sprintf("%d|%s", keep, strings.Join(canon, "\x1e"))), nt, ls, func() interface{} {
		tr := trace
		if len(tr) > 40 {
			tr = tr[:40]
		}
		return map[string]interface{}{"engine": engine, "keep_backup": keep, "history": tr}
	})
}

func TestCheckpointPebble(t *testing.T)  { rapid.Check(t, func(t *rapid.T) { runCase(t, "pebble") }) }
func TestCheckpointRocksdb(t *testing.T) { rapid.Check(t, func(t *rapid.T) { runCase(t, "rocksdb") }) }
func TestCheckpointMem(t *testing.T)     { rapid.Check(t, func(t *rapid.T) { runCase(t, "mem") }) }

func TestKnownHLLCacheSurvivesOverwrite(t *testing.T) {
	known.Probe(t, "C14-hll-cache-survives-overwrite", func() (bool, string) {
		sim, err := simkv.New(simkv.Options{Engine: "pebble"})
		if err != nil {
			return false, "HARNESS: " + err.Error()
		}
		defer sim.Close()
		db := sim.Parts[0].Store().RockDB
		sim.Do("pfadd", "default:t:k", "a", "b")
		sim.Do("set", "default:t:k", "x")
		bi := db.Backup(1, 5)
		for try := 0; bi == nil && try < 400; try++ {
			time.Sleep(5 * time.Millisecond)
			bi = db.Backup(1, 5)
		}
		if bi == nil {
			return false, "HARNESS: backup not accepted"
		}
		bi.GetResult()
		if v := sim.Do("get", "default:t:k").One(); v.Kind != 'b' || v.S != "x" {
			return true, fmt.Sprintf("PFADD k a b; SET k x; backup; GET k -> %.40q (the SET was undone by the cache flush)", v.S)
		}
		if v := sim.Do("pfcount", "default:t:k").One(); v.Kind == 'i' && v.I == 2 {
			return true, "PFADD k a b; SET k x; PFCOUNT k still answers 2 from the cache"
		}
		return false, ""
	})
}

func TestKnownExpireOnHLLKey(t *testing.T) {
	known.Probe(t, "C14-expire-on-hll-key-corrupts-count", func() (bool, string) {
		sim, err := simkv.New(simkv.Options{Engine: "pebble"})
		if err != nil {
			return false, "HARNESS: " + err.Error()
		}
		defer sim.Close()
		db := sim.Parts[0].Store().RockDB
		bk := func(i uint64) bool {
			bi := db.Backup(1, i)
			for try := 0; bi == nil && try < 400; try++ {
				time.Sleep(5 * time.Millisecond)
				bi = db.Backup(1, i)
			}
			if bi == nil {
				return false
			}
			bi.GetResult()
			return true
		}
		sim.Do("pfadd", "default:t:k", "a")
		if !bk(1) {
			return false, "HARNESS: backup not accepted"
		}
		sim.Do("expire", "default:t:k", "2000000")
		before := sim.Do("pfcount", "default:t:k").String()
		if !bk(2) {
			return false, "HARNESS: backup not accepted"
		}
		if err := db.Restore(1, 2); err != nil {
			return false, "HARNESS: restore: " + err.Error()
		}
		after := sim.Do("pfcount", "default:t:k").String()
		if before != after {
			return true, fmt.Sprintf("PFADD k a; backup; EXPIRE k 2000000; PFCOUNT k -> %s; backup; restore; PFCOUNT k -> %s", before, after)
		}
		return false, ""
	})
}
