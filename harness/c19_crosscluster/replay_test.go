package c19

import (
	"fmt"
	"sort"
	"strings"
	"testing"
	"time"

	"github.com/youzan/ZanRedisDB/common"
	"github.com/youzan/ZanRedisDB/node"
	pb "github.com/youzan/ZanRedisDB/raft/raftpb"
	"github.com/youzan/ZanRedisDB/syncerpb"
	"golang.org/x/net/context"
	"pgregory.net/rapid"

	"verifharness/lib/gen"
	"verifharness/lib/model"
	"verifharness/lib/resp"
	"verifharness/lib/simkv"
	"verifharness/lib/stats"
)

func TestMain(m *testing.M) {
	node.SetSyncerOnly(true) // the receiving cluster of a log syncer runs in syncer-only mode (no conflict check against local client writes)
	// the documented switch that makes the transfer step of a remote snapshot a no-op (files are
	// brought over out of band): lets the snapshot hand-over run without rsync
	common.SetStrDynamicConf(common.ConfIgnoreRemoteFileSync, "1")
	stats.Main(m)
}

const ns = "default"
const group = "default-0"

const rule = "a generated source log of cluster X (consecutive indexes, non-decreasing terms, entries with 0-3 non-idempotent commands: INCR, INCRBY, APPEND, LPUSH, RPUSH, HINCRBY, SADD/SPOP, ZINCRBY, plus empty entries as leader transfers leave them) and a second source cluster Y on other keys, delivered to the real Server.ApplyRaftReqs as a sender does after interruptions: every batch starts at or before the receiver's synced position + 1, with stale re-sends, duplicates inside a batch, older entries mixed in after newer ones, and injected propose failures (raft drops the proposal) followed by a retry; between deliveries: raft snapshot of the receiver (KVNode.GetSnapshot) and later restart from it (RestoreFromSnapshot + replay of the receiver's own log tail as 'replaying'), and replay of the receiver's own log on a follower replica; at most once a remote snapshot of X whose files never arrive (restore fails: position unchanged, status not 'applied'). Oracle after EVERY delivery, with p = the synced index the receiver reports for X: receiver data == lib/model applied to source[1..p] once, in order; p never decreases; p >= the highest index of a delivery that reported success; X's deliveries never move Y's position; follower data and positions equal the leader's. non-trivial = a non-idempotent entry was re-sent after it had been applied AND a snapshot/restart happened between its first and second delivery"

var rec = stats.New("cross_cluster_replay", rule)

type srcEntry struct {
	term, index uint64
	ts          int64
	cmds        [][]string
	data        []byte // framed as the log syncer sends it
	raw         []byte // the source cluster's own entry (what its log syncer learner applies)
}

func buildSource(t *rapid.T, cluster string, keys []string, n int, base int64) []srcEntry {
	var out []srcEntry
	term := uint64(1)
	ts := base
	for i := 1; i <= n; i++ {
		if rapid.IntRange(0, 9).Draw(t, "termup") == 0 {
			term++
		}
		ts += int64(rapid.IntRange(1, 2000000000).Draw(t, "dt"))
		e := srcEntry{term: term, index: uint64(i), ts: ts}
		nc := rapid.SampledFrom([]int{0, 1, 1, 1, 2, 3}).Draw(t, "ncmds")
		var lc []simkv.LogCmd
		for j := 0; j < nc; j++ {
			k := rapid.SampledFrom(keys).Draw(t, "key")
			var c []string
			switch rapid.IntRange(0, 8).Draw(t, "cmd") {
			case 0:
				c = []string{"incr", k + "-n"}
			case 1:
				c = []string{"incrby", k + "-n", fmt.Sprint(rapid.IntRange(1, 9).Draw(t, "by"))}
			case 2:
				c = []string{"append", k + "-s", fmt.Sprintf("<%s%d.%d>", cluster, i, j)}
			case 3:
				c = []string{"lpush", k, fmt.Sprintf("%s%d.%d", cluster, i, j)}
			case 4:
				c = []string{"rpush", k, fmt.Sprintf("%s%d.%d", cluster, i, j)}
			case 5:
				c = []string{"hincrby", k, "f", "1"}
			case 6:
				c = []string{"sadd", k, fmt.Sprintf("m%d", i%5)}
			case 7:
				c = []string{"spop", k}
			default:
				c = []string{"zincrby", k, "1", "m"}
			}
			e.cmds = append(e.cmds, c)
			lc = append(lc, simkv.LogCmd{ID: uint64(i*10 + j), Args: c})
		}
		// what the log syncer of the source cluster sends (node/syncer_learner.go logSyncerSM.ApplyRaftRequest):
		// the request list of the source entry, stamped with source cluster, term, index and marked as coming from a syncer
		ent := simkv.BuildEntry(uint64(i), ts, lc)
		e.raw = append([]byte(nil), ent.Data...)
		var rl node.BatchInternalRaftRequest
		if err := rl.Unmarshal(ent.Data); err != nil {
			t.Fatalf("HARNESS: %v", err)
		}
		rl.Type = node.FromClusterSyncer
		rl.OrigCluster = cluster
		rl.OrigTerm = term
		rl.OrigIndex = uint64(i)
		if len(rl.Reqs) > 0 {
			rl.ReqId = rl.Reqs[0].Header.ID
		}
		e.data, _ = rl.Marshal()
		out = append(out, e)
	}
	return out
}

func dumpCmds(key string) [][]string {
	return [][]string{{"get", key + "-n"}, {"get", key + "-s"}, {"lrange", key, "0", "-1"}, {"hgetall", key}, {"smembers", key}, {"zrange", key, "0", "-1", "withscores"}}
}

func modelUpTo(src []srcEntry, p uint64) *model.Model {
	m := model.New()
	for _, e := range src {
		if e.index > p {
			break
		}
		for _, c := range e.cmds {
			m.Apply(e.ts, e.ts/1e9, c)
		}
	}
	return m
}

func TestCrossClusterReplay(t *testing.T) {
	rapid.Check(t, func(t *rapid.T) {
		engine := rapid.SampledFrom([]string{"mem", "pebble"}).Draw(t, "engine")
		sim, err := simkv.New(simkv.Options{Engine: engine, KeepBackup: 10})
		if err != nil {
			t.Fatalf("HARNESS: %v", err)
		}
		defer sim.Close()
		part := sim.Parts[0]
		keysX := []string{"t:x1", "t:x2"}
		keysY := []string{"t:y1"}
		base := (time.Now().Unix() - 100000) * 1e9
		srcX := buildSource(t, "X", keysX, rapid.IntRange(3, 30).Draw(t, "nx"), base)
		srcY := buildSource(t, "Y", keysY, rapid.IntRange(1, 10).Draw(t, "ny"), base)
		var trace []string
		fail := func(format string, a ...interface{}) {
			tr := trace
			if len(tr) > 60 {
				tr = tr[len(tr)-60:]
			}
			var sx []string
			for _, e := range srcX {
				var cs []string
				for _, c := range e.cmds {
					cs = append(cs, gen.Quote(c))
				}
				sx = append(sx, fmt.Sprintf("X[%d] term %d: %s", e.index, e.term, strings.Join(cs, " ; ")))
			}
			t.Fatalf("%s\nsource log of X:\n  %s\ndeliveries:\n  %s", fmt.Sprintf(format, a...), strings.Join(sx, "\n  "), strings.Join(trace, "\n  "))
		}
		synced := func(p *simkv.Part, cluster string) uint64 {
			_, idx, _ := p.KV.GetRemoteClusterSyncedRaft(cluster)
			return idx
		}
		checkData := func(s *simkv.Sim, who string) {
			px, py := synced(s.Parts[0], "X"), synced(s.Parts[0], "Y")
			for _, sc := range []struct {
				src  []srcEntry
				p    uint64
				keys []string
				name string
			}{{srcX, px, keysX, "X"}, {srcY, py, keysY, "Y"}} {
				m := modelUpTo(sc.src, sc.p)
				now := time.Now().Unix()
				for _, k := range sc.keys {
					for _, dc := range dumpCmds(k) {
						got := s.Do(gen.WithNS(ns, dc)...).One()
						want := m.Apply(0, now, dc)
						if !resp.Equal(got, want) {
							fail("%s: synced position for %s is %d, but the data is not the source log applied once up to %d:\n  %s -> %s\n  expected %s", who, sc.name, sc.p, sc.p, gen.Quote(dc), got, want)
						}
					}
				}
			}
		}
		applied := map[uint64]int{} // source index of X -> how often it was delivered
		firstDelivery := map[uint64]int{}
		snapshotEpoch := 0
		snapTried := false
		nt := false
		labels := map[string]bool{}
		var canon []string
		lastX := uint64(0)
		type snap struct {
			index uint64
			raft  pb.Snapshot
		}
		var snaps []snap
		deliver := func(cluster string, src []srcEntry, idxs []uint64, drop int) bool {
			var reqs syncerpb.RaftReqs
			for _, i := range idxs {
				e := src[i-1]
				reqs.RaftLog = append(reqs.RaftLog, syncerpb.RaftLogData{Type: syncerpb.EntryNormalRaw, ClusterName: cluster, RaftGroupName: group, Term: e.term, Index: e.index, RaftTimestamp: e.ts, Data: append([]byte(nil), e.data...)})
			}
			part.Raft.DropNext = drop
			rsp, err := sim.Srv.ApplyRaftReqs(context.Background(), &reqs)
			part.Raft.DropNext = 0
			ok := err == nil && rsp != nil && rsp.ErrCode == 0 && rsp.ErrMsg == ""
			trace = append(trace, fmt.Sprintf("deliver %s%v dropping_proposal=%d -> ok=%v (%v)  synced X=%d Y=%d", cluster, idxs, drop, ok, rsp, synced(part, "X"), synced(part, "Y")))
			return ok
		}
		steps := rapid.IntRange(3, 25).Draw(t, "nsteps")
		for s := 0; s < steps; s++ {
			act := rapid.IntRange(0, 19).Draw(t, "act")
			px, py := synced(part, "X"), synced(part, "Y")
			switch {
			case act == 11 && px < uint64(len(srcX)): // the batch names a raft group this node has not loaded (restart / partition move window)
				e := srcX[px]
				reqs := syncerpb.RaftReqs{RaftLog: []syncerpb.RaftLogData{{Type: syncerpb.EntryNormalRaw, ClusterName: "X", RaftGroupName: "default-7", Term: e.term, Index: e.index, RaftTimestamp: e.ts, Data: append([]byte(nil), e.data...)}}}
				rsp, err := sim.Srv.ApplyRaftReqs(context.Background(), &reqs)
				ok := err == nil && rsp != nil && rsp.ErrCode == 0 && rsp.ErrMsg == ""
				trace = append(trace, fmt.Sprintf("deliver X[%d] addressed to raft group default-7, which is not loaded here -> ok=%v (%v)", e.index, ok, rsp))
				canon = append(canon, fmt.Sprintf("unloaded%d", e.index))
				labels["delivery_for_group_not_loaded"] = true
				if ok {
					fail("a delivery for a raft group that is not loaded on this node was acknowledged: the sender moves on and X[%d] is never applied", e.index)
				}
				if nx := synced(part, "X"); nx != px {
					fail("a delivery for another raft group moved the synced position of X here: %d -> %d", px, nx)
				}
			case act == 10 && !snapTried && px < uint64(len(srcX)): // the sender hands over a snapshot of X whose files never arrive: the restore fails
				snapTried = true
				T := px + uint64(rapid.IntRange(1, 3).Draw(t, "snapahead"))
				if T > uint64(len(srcX)) {
					T = uint64(len(srcX))
				}
				e := srcX[T-1]
				req := &syncerpb.RaftApplySnapReq{ClusterName: "X", RaftGroupName: group, Term: e.term, Index: e.index, RaftTimestamp: e.ts, SyncAddr: "127.0.0.1", SyncPath: "/nonexistent"}
				status := func() syncerpb.RaftApplySnapStatus {
					st, err := sim.Srv.GetApplySnapStatus(context.Background(), &syncerpb.RaftApplySnapStatusReq{ClusterName: "X", RaftGroupName: group, Term: e.term, Index: e.index})
					if err != nil {
						fail("HARNESS: GetApplySnapStatus: %v", err)
					}
					return st.Status
				}
				waitFor := func(done func(syncerpb.RaftApplySnapStatus) bool) (syncerpb.RaftApplySnapStatus, bool) {
					var st syncerpb.RaftApplySnapStatus
					for try := 0; try < 600; try++ {
						if st = status(); done(st) {
							return st, true
						}
						time.Sleep(5 * time.Millisecond)
					}
					return st, false
				}
				rsp, err := sim.Srv.NotifyTransferSnap(context.Background(), req)
				trace = append(trace, fmt.Sprintf("REMOTE SNAPSHOT of X at %d-%d announced (transfer) -> %v %v", e.term, e.index, rsp, err))
				st, ok := waitFor(func(s syncerpb.RaftApplySnapStatus) bool {
					return s != syncerpb.ApplyWaitingBegin && s != syncerpb.ApplyWaitingTransfer && s != syncerpb.ApplyMissing
				})
				canon = append(canon, fmt.Sprintf("rsnap%d", T))
				if !ok || st != syncerpb.ApplyTransferSuccess {
					trace = append(trace, fmt.Sprintf("  transfer did not reach the transferred state (%v): hand-over not continued", st))
				} else {
					rsp, err = sim.Srv.NotifyApplySnap(context.Background(), req)
					st, ok = waitFor(func(s syncerpb.RaftApplySnapStatus) bool { return s != syncerpb.ApplyWaiting && s != syncerpb.ApplyTransferSuccess })
					trace = append(trace, fmt.Sprintf("  apply of the remote snapshot requested -> %v %v; status %v; synced X=%d", rsp, err, st, synced(part, "X")))
					labels["remote_snapshot_restore_failed"] = true
					if ok && st == syncerpb.ApplySuccess {
						fail("the receiver reports the remote snapshot of X at %d as applied although no snapshot data was ever there (the restore failed): the sender continues at %d and the entries %d..%d are never applied", T, T+1, px+1, T)
					}
				}
				if nx := synced(part, "X"); nx != px {
					fail("a remote snapshot of X at %d whose restore failed moved the synced position of X: %d -> %d; entries %d..%d will be refused as already applied", T, px, nx, px+1, nx)
				}
				if synced(part, "Y") != py {
					fail("a remote snapshot of X moved the synced position of Y: %d -> %d", py, synced(part, "Y"))
				}
				checkData(sim, "receiver after a failed remote snapshot")
			case act <= 11: // delivery for X as a (re)starting sender would send it
				if px >= uint64(len(srcX)) && rapid.Bool().Draw(t, "skipdone") {
					continue
				}
				start := px + 1
				if rapid.IntRange(0, 2).Draw(t, "stale") == 0 && px > 0 {
					start = uint64(rapid.IntRange(1, int(px)).Draw(t, "from"))
				}
				end := start + uint64(rapid.IntRange(0, 6).Draw(t, "len"))
				if end > uint64(len(srcX)) {
					end = uint64(len(srcX))
				}
				if start > end {
					start = end
				}
				var idxs []uint64
				for i := start; i <= end; i++ {
					idxs = append(idxs, i)
					if rapid.IntRange(0, 5).Draw(t, "dupin") == 0 { // duplicate, or an older entry mixed in
						idxs = append(idxs, uint64(rapid.IntRange(1, int(i)).Draw(t, "older")))
					}
				}
				drop := 0
				if rapid.IntRange(0, 4).Draw(t, "fault") == 0 {
					drop = 1
				}
				for _, i := range idxs {
					if applied[i] > 0 && i <= px && firstDelivery[i] < snapshotEpoch && len(srcX[i-1].cmds) > 0 {
						nt = true
						labels["resend_after_snapshot_restart"] = true
					}
					if applied[i] == 0 {
						firstDelivery[i] = snapshotEpoch
					}
					applied[i]++
				}
				ok := deliver("X", srcX, idxs, drop)
				canon = append(canon, fmt.Sprintf("X%v/%d", idxs, drop))
				nx := synced(part, "X")
				if nx < px {
					fail("the synced position of X moved backwards: %d -> %d", px, nx)
				}
				if ok && drop == 0 && nx < end && end >= px {
					fail("a delivery up to X[%d] reported success but the synced position is %d", end, nx)
				}
				if synced(part, "Y") != py {
					fail("a delivery for cluster X moved the synced position of cluster Y: %d -> %d", py, synced(part, "Y"))
				}
				lastX = nx
				checkData(sim, "receiver")
			case act <= 14: // delivery for Y
				start := py + 1
				if start > uint64(len(srcY)) {
					start = uint64(len(srcY))
				}
				end := start + uint64(rapid.IntRange(0, 3).Draw(t, "leny"))
				if end > uint64(len(srcY)) {
					end = uint64(len(srcY))
				}
				var idxs []uint64
				for i := start; i <= end; i++ {
					idxs = append(idxs, i)
				}
				deliver("Y", srcY, idxs, 0)
				canon = append(canon, fmt.Sprintf("Y%v", idxs))
				if nxx := synced(part, "X"); nxx != px {
					fail("a delivery for cluster Y moved the synced position of cluster X: %d -> %d", px, nxx)
				}
				checkData(sim, "receiver")
			case act <= 16: // raft snapshot of the receiver
				idx := uint64(len(part.Raft.Log))
				if idx == 0 || (len(snaps) > 0 && snaps[len(snaps)-1].index >= idx) {
					continue
				}
				var sn node.Snapshot
				for try := 0; try < 400; try++ {
					sn, err = part.KV.GetSnapshot(1, idx)
					if err == nil {
						break
					}
					time.Sleep(5 * time.Millisecond)
				}
				if err != nil {
					fail("HARNESS: GetSnapshot: %v", err)
				}
				// the snapshot object is taken in the apply loop; its data (engine checkpoint name +
				// synced positions) is serialised later by another goroutine while the apply loop goes
				// on: source entries applied in between are after the snapshot index
				if rapid.IntRange(0, 1).Draw(t, "deliver_before_serialise") == 0 && px < uint64(len(srcX)) {
					end := px + uint64(rapid.IntRange(1, 3).Draw(t, "nmid"))
					if end > uint64(len(srcX)) {
						end = uint64(len(srcX))
					}
					var idxs []uint64
					for i := px + 1; i <= end; i++ {
						idxs = append(idxs, i)
						if applied[i] == 0 {
							firstDelivery[i] = snapshotEpoch
						}
						applied[i]++
					}
					deliver("X", srcX, idxs, 0)
					canon = append(canon, fmt.Sprintf("mid%v", idxs))
					labels["delivery_between_snapshot_and_its_serialisation"] = true
					trace = append(trace, "  (that delivery came after the snapshot object of the next line was taken, before its data was serialised)")
				}
				d, err := sn.GetData()
				if err != nil {
					fail("snapshot at receiver index %d failed: %v", idx, err)
				}
				snaps = append(snaps, snap{idx, pb.Snapshot{Data: d, Metadata: pb.SnapshotMetadata{Index: idx, Term: 1}}})
				trace = append(trace, fmt.Sprintf("SNAPSHOT of the receiver at its log index %d (synced X=%d Y=%d)", idx, px, py))
				canon = append(canon, "snapshot")
				labels["snapshot"] = true
			case act <= 18 && len(snaps) > 0: // restart from the latest snapshot + replay of the own log tail
				sn := snaps[len(snaps)-1]
				if err := part.KV.RestoreFromSnapshot(sn.raft); err != nil {
					fail("restart: RestoreFromSnapshot(index %d) failed: %v", sn.index, err)
				}
				tail := append([]pb.Entry(nil), part.Raft.Log[sn.index:]...)
				part.ResetProgress(sn.index)
				part.ReplayTail(tail)
				snapshotEpoch++
				trace = append(trace, fmt.Sprintf("RESTART from the snapshot at receiver index %d + replay of %d own log entries -> synced X=%d Y=%d", sn.index, len(tail), synced(part, "X"), synced(part, "Y")))
				canon = append(canon, "restart")
				labels["restart_from_snapshot"] = true
				if nx := synced(part, "X"); nx != px {
					fail("after restart from snapshot + replay of the own log the synced position of X is %d, before the restart it was %d", nx, px)
				}
				if ny := synced(part, "Y"); ny != py {
					fail("after restart the synced position of Y is %d, before %d", ny, py)
				}
				checkData(sim, "receiver after restart")
			default: // a follower replica replays the receiver's own log
				fol, err := simkv.New(simkv.Options{Engine: engine})
				if err != nil {
					fail("HARNESS: %v", err)
				}
				fol.Parts[0].ApplyLog(append([]pb.Entry(nil), part.Raft.Log...), nil, 0)
				fx, fy := synced(fol.Parts[0], "X"), synced(fol.Parts[0], "Y")
				if fx != px || fy != py {
					fol.Close()
					fail("a follower that applied the receiver's log has synced positions X=%d Y=%d, the leader X=%d Y=%d", fx, fy, px, py)
				}
				func() {
					defer fol.Close()
					checkData(fol, "follower replica")
				}()
				trace = append(trace, "FOLLOWER replayed the receiver's log: ok")
				canon = append(canon, "follower")
				labels["follower_replay"] = true
			}
		}
		_ = lastX
		var ls []string
		for l := range labels {
			ls = append(ls, l)
		}
		sort.Strings(ls)
		rec.Record(stats.HashString(strings.Join(canon, "|")+fmt.Sprint(len(srcX))), nt, ls, func() interface{} {
			tr := trace
			if len(tr) > 30 {
				tr = tr[:30]
			}
			return map[string]interface{}{"engine": engine, "source_entries_X": len(srcX), "source_entries_Y": len(srcY), "deliveries": tr}
		})
	})
}

var _ = common.ErrInvalidArgs

var recApply = stats.New("apply_time_dedupe", "the receiver's OWN raft log as it looks when duplicates raced past the receive-time filter (both copies were proposed before the first was applied): a generated sequence of framed source entries in which every entry is either the next new one (synced+1) or a copy of an already contained one, applied by a replica through the real applyEntries in generated apply batches, partly as 'replaying' (only the apply-time filter protects here). Oracle: data == lib/model applied once to the source prefix up to the reported synced position, which equals the highest contained index; non-trivial = the log contains a copy of a non-empty entry directly or later after the original")

func TestApplyTimeDedupe(t *testing.T) {
	rapid.Check(t, func(t *rapid.T) {
		engine := rapid.SampledFrom([]string{"mem", "pebble"}).Draw(t, "engine")
		sim, err := simkv.New(simkv.Options{Engine: engine})
		if err != nil {
			t.Fatalf("HARNESS: %v", err)
		}
		defer sim.Close()
		part := sim.Parts[0]
		keys := []string{"t:x1", "t:x2"}
		base := (time.Now().Unix() - 100000) * 1e9
		src := buildSource(t, "X", keys, rapid.IntRange(2, 20).Draw(t, "n"), base)
		var order []uint64
		next := uint64(1)
		dupOfNonEmpty := false
		for next <= uint64(len(src)) {
			if next > 1 && rapid.IntRange(0, 2).Draw(t, "dup") == 0 {
				i := uint64(rapid.IntRange(1, int(next-1)).Draw(t, "copyof"))
				if rapid.Bool().Draw(t, "latest") {
					i = next - 1
				}
				order = append(order, i)
				dupOfNonEmpty = dupOfNonEmpty || len(src[i-1].cmds) > 0
				continue
			}
			order = append(order, next)
			next++
		}
		var ents []pb.Entry
		for li, i := range order {
			var rl node.BatchInternalRaftRequest
			if err := rl.Unmarshal(src[i-1].data); err != nil {
				t.Fatalf("HARNESS: %v", err)
			}
			rl.ReqId = uint64(100000 + li) // ProposeRawAsyncFromSyncer gives every proposal a fresh request id
			d, _ := rl.Marshal()
			ents = append(ents, pb.Entry{Type: pb.EntryNormal, Term: 1, Index: uint64(li + 1), Data: d})
		}
		var sizes []int
		for left := len(ents); left > 0; {
			k := rapid.IntRange(1, 6).Draw(t, "batch")
			sizes = append(sizes, k)
			left -= k
		}
		replay := uint64(0)
		if rapid.Bool().Draw(t, "replaying") {
			replay = uint64(rapid.IntRange(1, len(ents)).Draw(t, "replayupto"))
		}
		part.ApplyLog(ents, sizes, replay)
		_, p, _ := part.KV.GetRemoteClusterSyncedRaft("X")
		if p != uint64(len(src)) {
			t.Fatalf("receiver log %v (source indexes) applied; synced position is %d, expected %d", order, p, len(src))
		}
		m := modelUpTo(src, p)
		now := time.Now().Unix()
		for _, k := range keys {
			for _, dc := range dumpCmds(k) {
				got := sim.Do(gen.WithNS(ns, dc)...).One()
				want := m.Apply(0, now, dc)
				if !resp.Equal(got, want) {
					var sx []string
					for _, e := range src {
						var cs []string
						for _, c := range e.cmds {
							cs = append(cs, gen.Quote(c))
						}
						sx = append(sx, fmt.Sprintf("X[%d]: %s", e.index, strings.Join(cs, " ; ")))
					}
					t.Fatalf("a replica applied a log holding the source entries %v (batches %v, replaying up to %d): the data is not the source log applied once:\n  %s -> %s\n  expected %s\nsource:\n  %s", order, sizes, replay, gen.Quote(dc), got, want, strings.Join(sx, "\n  "))
				}
			}
		}
		recApply.Record(stats.HashString(fmt.Sprint(order, sizes, replay, len(src))), dupOfNonEmpty, nil, func() interface{} {
			return map[string]interface{}{"engine": engine, "source_indexes_in_receiver_log": order, "apply_batches": sizes, "replaying_up_to": replay}
		})
	})
}
