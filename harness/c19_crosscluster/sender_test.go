package c19

import (
	"fmt"
	"net"
	"sort"
	"strings"
	"sync"
	"testing"
	"time"

	"github.com/youzan/ZanRedisDB/common"
	"github.com/youzan/ZanRedisDB/metric"
	"github.com/youzan/ZanRedisDB/node"
	"github.com/youzan/ZanRedisDB/pkg/wait"
	"github.com/youzan/ZanRedisDB/syncerpb"
	"golang.org/x/net/context"
	"google.golang.org/grpc"
	"pgregory.net/rapid"

	"verifharness/lib/gen"
	"verifharness/lib/resp"
	"verifharness/lib/simkv"
	"verifharness/lib/stats"
)

// The whole replay path: the REAL log syncer of the source cluster (node.logSyncerSM built by
// node.NewStateMachine for a learner with role_log_syncer, its send loop and RemoteLogSender)
// talks gRPC over loopback to the REAL receiver (server.Server as CrossClusterAPIServer on a
// simkv node). The harness plays the learner's raft apply loop: it hands the source cluster's
// committed entries to the state machine in index order, stops and restarts the learner
// (which then replays its own log from an older index, as a learner restarted from its raft
// snapshot does) and injects transport faults in the bridge between the two.

var recSender = stats.New("sender_receiver", "the real log syncer state machine of the source cluster (logSyncerSM + RemoteLogSender) connected over loopback gRPC to the real receiver (Server.GetSyncedRaft / ApplyRaftReqs on a simkv node): a generated source log is handed to the sender as a learner's apply loop does, over 1-3 learner incarnations; every incarnation replays from a drawn index at or before the receiver's synced position + 1, a drawn number of entries is queued before the sender learns the remote position (so its first batch lies below, across or above that position), the rest follows in drawn chunks; faults: a delivery fails before it reaches the receiver, a reply is lost after the receiver handled the delivery, raft drops a proposal at the receiver, an incarnation is stopped with entries still queued. Oracle at every quiescent point (sender reports everything handed to it as synced): the receiver's synced position equals that index and receiver data == lib/model applied once to source[1..position]; the sender never reports more as synced than the receiver holds. non-trivial = some incarnation's first batch straddled the receiver's synced position (started at or below it, ended beyond it)")

type bridge struct {
	mu       sync.Mutex
	sim      *simkv.Sim
	gate     chan struct{} // closed = GetSyncedRaft may pass
	failNext int           // the next ApplyRaftReqs fails before reaching the receiver
	loseNext int           // the next ApplyRaftReqs reaches the receiver, its reply is lost
	dropNext int           // raft of the receiver drops a proposal of the next delivery
	trace    []string
	straddle bool
}

func (b *bridge) GetSyncedRaft(ctx context.Context, req *syncerpb.SyncedRaftReq) (*syncerpb.SyncedRaftRsp, error) {
	b.mu.Lock()
	g := b.gate
	b.mu.Unlock()
	select {
	case <-g:
	case <-ctx.Done():
		return nil, ctx.Err()
	}
	rsp, err := b.sim.Srv.GetSyncedRaft(ctx, req)
	b.mu.Lock()
	if rsp != nil {
		b.trace = append(b.trace, fmt.Sprintf("sender asks for the synced position of %s/%s -> %d-%d (%v)", req.ClusterName, req.RaftGroupName, rsp.Term, rsp.Index, err))
	}
	b.mu.Unlock()
	return rsp, err
}

func (b *bridge) ApplyRaftReqs(ctx context.Context, reqs *syncerpb.RaftReqs) (*syncerpb.RpcErr, error) {
	b.mu.Lock()
	defer b.mu.Unlock()
	var idx []uint64
	for _, l := range reqs.RaftLog {
		idx = append(idx, l.Index)
	}
	_, before, _ := b.sim.Parts[0].KV.GetRemoteClusterSyncedRaft("X")
	if len(idx) > 0 && idx[0] <= before && idx[len(idx)-1] > before {
		b.straddle = true
	}
	if b.failNext > 0 {
		b.failNext--
		b.trace = append(b.trace, fmt.Sprintf("delivery X%v lost before the receiver (receiver at %d)", idx, before))
		return nil, fmt.Errorf("verif: injected transport failure")
	}
	if b.dropNext > 0 {
		b.sim.Parts[0].Raft.DropNext = b.dropNext
		b.dropNext = 0
	}
	rsp, err := b.sim.Srv.ApplyRaftReqs(ctx, reqs)
	b.sim.Parts[0].Raft.DropNext = 0
	_, after, _ := b.sim.Parts[0].KV.GetRemoteClusterSyncedRaft("X")
	b.trace = append(b.trace, fmt.Sprintf("delivery X%v -> %v %v (receiver %d -> %d)", idx, rsp, err, before, after))
	if b.loseNext > 0 {
		b.loseNext--
		b.trace = append(b.trace, "  the reply of that delivery is lost")
		return nil, fmt.Errorf("verif: injected reply loss")
	}
	return rsp, err
}

func (b *bridge) NotifyTransferSnap(ctx context.Context, r *syncerpb.RaftApplySnapReq) (*syncerpb.RpcErr, error) {
	return b.sim.Srv.NotifyTransferSnap(ctx, r)
}
func (b *bridge) NotifyApplySnap(ctx context.Context, r *syncerpb.RaftApplySnapReq) (*syncerpb.RpcErr, error) {
	return b.sim.Srv.NotifyApplySnap(ctx, r)
}
func (b *bridge) GetApplySnapStatus(ctx context.Context, r *syncerpb.RaftApplySnapStatusReq) (*syncerpb.RaftApplySnapStatusRsp, error) {
	return b.sim.Srv.GetApplySnapStatus(ctx, r)
}

type clusterX struct{}

func (clusterX) GetClusterName() string { return "X" }
func (clusterX) GetSnapshotSyncInfo(fullNS string) ([]common.SnapshotSyncInfo, error) {
	return nil, nil
}
func (clusterX) UpdateMeForNamespaceLeader(fullNS string) (bool, error) { return true, nil }

type syncStats interface {
	GetLogSyncStats() (metric.LogSyncStats, metric.LogSyncStats)
}

func TestSenderReceiver(t *testing.T) {
	rapid.Check(t, func(t *rapid.T) {
		sim, err := simkv.New(simkv.Options{Engine: "mem"})
		if err != nil {
			t.Fatalf("HARNESS: %v", err)
		}
		defer sim.Close()
		part := sim.Parts[0]
		keys := []string{"t:x1", "t:x2"}
		base := (time.Now().Unix() - 100000) * 1e9
		src := buildSource(t, "X", keys, rapid.IntRange(3, 24).Draw(t, "n"), base)
		n := uint64(len(src))

		lis, err := net.Listen("tcp", "127.0.0.1:0")
		if err != nil {
			t.Fatalf("HARNESS: %v", err)
		}
		br := &bridge{sim: sim}
		gs := grpc.NewServer()
		syncerpb.RegisterCrossClusterAPIServer(gs, br)
		go gs.Serve(lis)
		defer gs.Stop()
		// a failing case must stop its sender before the receiver's store is closed
		var cur node.StateMachine
		defer func() {
			if cur != nil {
				cur.Close()
			}
		}()

		var trace []string
		flush := func() {
			br.mu.Lock()
			trace = append(trace, br.trace...)
			br.trace = nil
			br.mu.Unlock()
		}
		fail := func(format string, a ...interface{}) {
			flush()
			var sx []string
			for _, e := range src {
				var cs []string
				for _, c := range e.cmds {
					cs = append(cs, gen.Quote(c))
				}
				sx = append(sx, fmt.Sprintf("X[%d] term %d: %s", e.index, e.term, strings.Join(cs, " ; ")))
			}
			t.Fatalf("%s\nsource log of X:\n  %s\nwhat happened:\n  %s", fmt.Sprintf(format, a...), strings.Join(sx, "\n  "), strings.Join(trace, "\n  "))
		}
		recvSynced := func() uint64 {
			_, idx, _ := part.KV.GetRemoteClusterSyncedRaft("X")
			return idx
		}
		checkData := func(p uint64) {
			m := modelUpTo(src, p)
			now := time.Now().Unix()
			for _, k := range keys {
				for _, dc := range dumpCmds(k) {
					got := sim.Do(gen.WithNS(ns, dc)...).One()
					want := m.Apply(0, now, dc)
					if !resp.Equal(got, want) {
						fail("the receiver's synced position is %d, but its data is not the source log applied once up to %d:\n  %s -> %s\n  expected %s", p, p, gen.Quote(dc), got, want)
					}
				}
			}
		}

		fed := uint64(0) // highest source index the learner has ever applied
		labels := map[string]bool{}
		var canon []string
		incarnations := rapid.IntRange(1, 3).Draw(t, "incarnations")
		for inc := 0; inc < incarnations; inc++ {
			last := inc == incarnations-1
			rs := recvSynced()
			maxFrom := rs + 1
			if maxFrom > fed+1 {
				maxFrom = fed + 1
			}
			if maxFrom > n {
				maxFrom = n
			}
			from := uint64(rapid.IntRange(1, int(maxFrom)).Draw(t, "from"))
			lo := fed
			if lo < from {
				lo = from
			}
			upto := n
			if !last {
				upto = uint64(rapid.IntRange(int(lo), int(n)).Draw(t, "upto"))
			}
			queued := rapid.IntRange(0, int(upto-from+1)).Draw(t, "queued_before_position_known")
			fault := rapid.IntRange(0, 7).Draw(t, "fault")
			abandon := !last && rapid.IntRange(0, 3).Draw(t, "abandon") == 0
			canon = append(canon, fmt.Sprintf("%d-%d/q%d/f%d/a%v", from, upto, queued, fault, abandon))

			br.mu.Lock()
			br.gate = make(chan struct{})
			br.failNext, br.loseNext, br.dropNext = 0, 0, 0
			switch fault {
			case 0:
				br.failNext = 1
				labels["delivery_lost"] = true
			case 1:
				br.loseNext = 1
				labels["reply_lost"] = true
			case 2:
				br.dropNext = 1
				labels["receiver_raft_drops_proposal"] = true
			}
			gate := br.gate
			br.mu.Unlock()

			mc := node.MachineConfig{LearnerRole: common.LearnerRoleLogSyncer, RemoteSyncCluster: "test://" + lis.Addr().String()}
			sm, err := node.NewStateMachine(&node.KVOptions{}, mc, 1, group, clusterX{}, wait.New(), nil)
			if err != nil {
				t.Fatalf("HARNESS: %v", err)
			}
			cur = sm
			sm.Start()
			trace = append(trace, fmt.Sprintf("LEARNER incarnation %d: replays its log from X[%d], receiver at %d; %d entries queued before it learns the remote position", inc+1, from, rs, queued))
			stop := make(chan struct{})
			feed := func(i uint64) {
				var rl node.BatchInternalRaftRequest
				if err := rl.Unmarshal(src[i-1].raw); err != nil {
					t.Fatalf("HARNESS: %v", err)
				}
				if _, err := sm.ApplyRaftRequest(false, nil, rl, src[i-1].term, i, stop); err != nil {
					sm.Close()
					fail("the log syncer refused source entry %d: %v", i, err)
				}
				if i > fed {
					fed = i
				}
			}
			senderSynced := func() uint64 {
				_, st := sm.(syncStats).GetLogSyncStats()
				return st.Index
			}
			waitDrained := func(to uint64) {
				deadline := time.Now().Add(60 * time.Second)
				for senderSynced() < to {
					if time.Now().After(deadline) {
						sm.Close()
						flush()
						t.Fatalf("HARNESS: the sender did not report X[%d] as synced within 60 s (at %d)\n  %s", to, senderSynced(), strings.Join(trace, "\n  "))
					}
					time.Sleep(200 * time.Microsecond)
				}
			}
			quiescent := func(to uint64) {
				waitDrained(to)
				flush()
				ss, rp := senderSynced(), recvSynced()
				trace = append(trace, fmt.Sprintf("quiescent: sender reports %d as synced, receiver holds %d", ss, rp))
				if ss > rp {
					sm.Close()
					fail("the sender reports source index %d as synced but the receiver's synced position is %d: the entries in between were never replayed", ss, rp)
				}
				if rp < to {
					sm.Close()
					fail("everything up to X[%d] was handed to the sender and reported as synced, the receiver is at %d", to, rp)
				}
				checkData(rp)
			}
			i := from
			for ; i < from+uint64(queued); i++ {
				feed(i)
			}
			close(gate)
			for i <= upto {
				chunk := uint64(rapid.IntRange(1, 5).Draw(t, "chunk"))
				for c := uint64(0); c < chunk && i <= upto; c++ {
					feed(i)
					i++
				}
				if rapid.IntRange(0, 2).Draw(t, "wait") == 0 && !abandon {
					quiescent(i - 1)
				}
			}
			if abandon {
				// the learner is stopped with whatever is still queued
				labels["incarnation_stopped_with_entries_queued"] = true
				sm.Close()
				flush()
				trace = append(trace, fmt.Sprintf("learner stopped; receiver at %d", recvSynced()))
				checkData(recvSynced())
				continue
			}
			quiescent(upto)
			sm.Close()
		}
		flush()
		if rp := recvSynced(); rp != n {
			fail("the whole source log (%d entries) went through the sender, the receiver's synced position is %d", n, rp)
		}
		if br.straddle {
			labels["batch_straddles_synced_position"] = true
		}
		var ls []string
		for l := range labels {
			ls = append(ls, l)
		}
		sort.Strings(ls)
		recSender.Record(stats.HashString(strings.Join(canon, "|")+fmt.Sprint(n)), br.straddle, ls, func() interface{} {
			tr := trace
			if len(tr) > 30 {
				tr = tr[:30]
			}
			return map[string]interface{}{"source_entries": n, "what_happened": tr}
		})
	})
}
