package c02

// C02 - replicas never apply different entries at the same log index.
// Engine A (lib/raftsim). Oracle (history invariant over Ready.CommittedEntries / Ready.Snapshot
// of every replica and incarnation, checked while the schedule runs):
//   G[index] -> (term, type, hash(data)) is filled by the first hand-out of that index;
//   (1) every later hand-out of the index, by any replica or incarnation, matches G;
//   (2) per incarnation the indexes handed out are strictly consecutive, starting right
//       after the snapshot the incarnation started from;
//   (3) a Ready.Snapshot only jumps forward; its (index, term) agrees with G when G knows
//       the index; its ConfState equals the membership obtained by folding the conf-change
//       entries of G[1..index] (for indexes inside the bootstrap prefix the bootstrap
//       membership is accepted too: StartNode installs all peers before entry 1 is applied);
//   (4) a panic raised inside raft code under the (legal) schedule is a violation.

import (
	"fmt"
	"os"
	"strings"
	"testing"

	"github.com/youzan/ZanRedisDB/raft"
	pb "github.com/youzan/ZanRedisDB/raft/raftpb"
	"pgregory.net/rapid"

	"verifharness/lib/known"
	"verifharness/lib/raftsim"
	"verifharness/lib/stats"
)

func TestMain(m *testing.M) { stats.Main(m) }

const ntRule = "non-trivial = >=2 replicas were each handed >=5 entries AND (a new leader term was observed after the first hand-out OR a snapshot was installed through Ready.Snapshot OR a conflicting suffix was truncated, i.e. Ready.Entries started at or below an index already in that replica's log)"

var (
	recL2   = stats.New("l2_swarm", "L2 swarm schedules, 30-400 actions, unique payloads, MaxCommittedSizePerReady in {one entry, 64 B, 1 KiB, unlimited}, steps without hand-out and with busySnap, macros: normal rounds, stop-at-leadership election, snapshot+compact then catch-up of a lagging/fresh replica by MsgSnap, crash-all; "+ntRule)
	recL1   = stats.New("l1_uniform", "L1 uniform schedules over the same alphabet; "+ntRule)
	recL3   = stats.New("l3_phases", "L3: 2-8 election phases on mostly 3 replicas with one-entry messages: candidate + quorum (45% return to the leader before last with a swing voter), others cut off, stop at leadership, propose 0-2, deliver 0-16 in-quorum messages, crash or keep; "+ntRule)
	recSnap = stats.New("l2_snapshot_heavy", "L2 with the snapshot catch-up and membership macros in most cases (fresh joiners and laggers restored by MsgSnap, conf state of every snapshot checked); "+ntRule)
)

var profL1 = raftsim.Profile{Name: "c02-l1", Layer: 1, MinSteps: 30, MaxSteps: 400, StorageW: [4]int{3, 1, 0, 0},
	CrashPct: []int{0, 0, 1, 3}, MacroPct: 2, MacroW: [7]int{6, 1, 0, 0, 0, 0, 2}, MembershipPct: 35}

var profL2 = raftsim.Profile{Name: "c02-l2", Layer: 2, MinSteps: 30, MaxSteps: 400, StorageW: [4]int{3, 1, 0, 0},
	CrashPct: []int{0, 0, 1, 3, 8}, MacroPct: 7, MacroW: [7]int{6, 5, 1, 1, 1, 1, 4}, MembershipPct: 40}

var profSnap = raftsim.Profile{Name: "c02-snap", Layer: 2, MinSteps: 20, MaxSteps: 200, StorageW: [4]int{2, 1, 1, 0},
	CrashPct: []int{0, 0, 1, 3}, MacroPct: 8, MacroW: [7]int{4, 2, 4, 0, 1, 0, 10}, MembershipPct: 70}

var profL3 = raftsim.Profile{Name: "c02-l3", Layer: 3, StorageW: [4]int{1, 0, 0, 0}, CrashPct: []int{0}, MacroPct: 4,
	MacroW: [7]int{4, 0, 1, 1, 1, 0, 2}, MembershipPct: 20, MinPhases: 3, MaxPhases: 8}

type oracle struct {
	raftsim.NopObserver
	G       map[uint64]raftsim.EntrySig
	who     map[uint64]string
	ents    map[uint64]pb.Entry // conf-change entries of G (for the fold)
	maxG    uint64
	next    map[uint64]uint64 // per replica id: next index this incarnation must be handed
	handed  map[uint64]int    // per replica id: entries handed out, all incarnations
	shadow  map[uint64]*raftsim.Shadow
	leaders map[uint64]bool // terms with an observed leader

	leadersAtFirstCommit int
	leaderChangeAfter    bool
	snapInstalls         int
	truncations          int
	snapConfChecked      int
	snapConfUnknown      int
	snapConfLearnerSelf  int
	knownPanics          map[string]bool
	excludedPanics       int
}

func newOracle(kp map[string]bool) *oracle {
	return &oracle{G: map[uint64]raftsim.EntrySig{}, who: map[uint64]string{}, ents: map[uint64]pb.Entry{}, next: map[uint64]uint64{},
		handed: map[uint64]int{}, shadow: map[uint64]*raftsim.Shadow{}, leaders: map[uint64]bool{}, leadersAtFirstCommit: -1, knownPanics: kp}
}

func (o *oracle) Incarnation(s *raftsim.Sim, r *raftsim.Replica, restarted bool) {
	sh := &raftsim.Shadow{}
	if restarted {
		sn, _, ents, _ := r.Disk.Replay()
		sh.Reset(sn, ents)
	}
	o.shadow[r.ID] = sh
	o.next[r.ID] = r.App.StartIndex + 1
}

func (o *oracle) Ready(s *raftsim.Sim, r *raftsim.Replica, rd *raft.Ready, before raft.VerifPeekState) {
	for _, t := range raftsim.LeaderTermsIn(r, rd) {
		if !o.leaders[t] {
			o.leaders[t] = true
			if o.leadersAtFirstCommit >= 0 && len(o.leaders) > o.leadersAtFirstCommit {
				o.leaderChangeAfter = true
			}
		}
	}
	sh := o.shadow[r.ID]
	if !raft.IsEmptySnap(rd.Snapshot) {
		sh.ApplySnapshot(rd.Snapshot)
	}
	if len(rd.Entries) > 0 {
		if rd.Entries[0].Index <= sh.Last() {
			o.truncations++
		}
		if err := sh.Append(rd.Entries); err != nil {
			s.Fail("C02: replica %d emitted Ready.Entries that do not continue its log: %v", r.ID, err)
		}
	}
	for _, e := range r.LogErrors() {
		if strings.Contains(e, "index not continued") {
			s.Fail("C02 (2): raft's own detector fired on replica %d: %s", r.ID, e)
		}
	}
}

func (o *oracle) foldTo(idx uint64, fromBootstrap []uint64) (*raftsim.ConfFold, bool) {
	c := raftsim.NewConfFold(fromBootstrap...)
	for i := uint64(1); i <= idx; i++ {
		g, ok := o.G[i]
		if !ok {
			return nil, false
		}
		if g.Type == pb.EntryConfChange {
			e := o.ents[i]
			if err := c.ApplyEntry(&e); err != nil {
				return nil, false
			}
		}
	}
	return c, true
}

func (o *oracle) HandOut(s *raftsim.Sim, r *raftsim.Replica, sn pb.Snapshot, ents []pb.Entry) {
	next := o.next[r.ID]
	if !raft.IsEmptySnap(sn) {
		m := sn.Metadata
		if m.Index < next {
			s.Fail("C02 (3): replica %d (incarnation %d) is handed a snapshot at index %d although it was already handed everything up to %d", r.ID, r.Incarnation, m.Index, next-1)
		}
		if g, ok := o.G[m.Index]; ok && g.Term != m.Term {
			s.Fail("C02 (3): replica %d is handed a snapshot at index %d with term %d, but the entry applied at that index (first by %s) has term %d", r.ID, m.Index, m.Term, o.who[m.Index], g.Term)
		}
		if fold, ok := o.foldTo(m.Index, nil); ok {
			o.snapConfChecked++
			okc := fold.Matches(m.ConfState)
			if !okc && m.Index < uint64(s.P.N) {
				// inside the bootstrap prefix a bootstrap member already knows all peers
				var boot []uint64
				for i := 1; i <= s.P.N; i++ {
					boot = append(boot, uint64(i))
				}
				if f2, ok2 := o.foldTo(m.Index, boot); ok2 && f2.Matches(m.ConfState) {
					okc = true
				}
			}
			if !okc {
				// a replica that was STARTED as learner knows itself as learner from its first step
				// (raft.StartNode puts it into Config.learners), before the AddLearner entry that
				// announces it is applied: a snapshot it takes of a prefix that ends before that
				// entry already lists it. The later AddLearner is then a no-op; nothing is applied
				// differently. (First met at VERIF_SEED=3 once the learner findings were repaired
				// and such replicas could catch up, lead and hand their own snapshots on.)
				f3, _ := o.foldTo(m.Index, nil)
				for _, x := range s.Reps {
					if x != nil && x.Learner && !f3.Voters[x.ID] {
						f3.Learners[x.ID] = true
					}
				}
				if f3.Matches(m.ConfState) {
					okc = true
					o.snapConfLearnerSelf++
				}
			}
			if !okc {
				s.Fail("C02 (3): replica %d is handed a snapshot at index %d whose ConfState is voters=%v learners=%v, but folding the conf changes applied at indexes 1..%d gives %s",
					r.ID, m.Index, m.ConfState.Nodes, m.ConfState.Learners, m.Index, fold)
			}
		} else {
			o.snapConfUnknown++
		}
		o.snapInstalls++
		next = m.Index + 1
	}
	for i := range ents {
		e := &ents[i]
		if e.Index != next {
			what := "a gap"
			if e.Index < next {
				what = "a repeat"
			}
			s.Fail("C02 (2): replica %d (incarnation %d) is handed index %d where index %d is due (%s in the applied sequence)", r.ID, r.Incarnation, e.Index, next, what)
		}
		next++
		sig := raftsim.SigOf(e)
		if g, ok := o.G[e.Index]; ok {
			if g != sig {
				s.Fail("C02 (1): index %d: replica %d (incarnation %d) is handed {%s} but %s was handed {%s}", e.Index, r.ID, r.Incarnation, sig, o.who[e.Index], g)
			}
		} else {
			if o.leadersAtFirstCommit < 0 && e.Index > uint64(s.P.N) {
				o.leadersAtFirstCommit = len(o.leaders)
			}
			o.G[e.Index] = sig
			o.who[e.Index] = fmt.Sprintf("replica %d (incarnation %d)", r.ID, r.Incarnation)
			if e.Type == pb.EntryConfChange {
				o.ents[e.Index] = *e
			}
			if e.Index > o.maxG {
				o.maxG = e.Index
			}
		}
		o.handed[r.ID]++
	}
	o.next[r.ID] = next
}

func (o *oracle) RaftPanic(s *raftsim.Sim, r *raftsim.Replica, where string, v interface{}) {
	txt := fmt.Sprint(v)
	for id, on := range o.knownPanics {
		if on && strings.Contains(txt, panicText[id]) {
			o.excludedPanics++
			return
		}
	}
	s.Fail("C02 (4): raft code panicked on replica %d in %s under a legal schedule: %s", r.ID, where, txt)
}

// known findings that show as a panic: id -> text of the panic
var panicText = map[string]string{}

func labelsOf(c *raftsim.Case, o *oracle) (labels []string, nontrivial bool) {
	st := &c.S.St
	add := func(cond bool, l string) {
		if cond {
			labels = append(labels, l)
		}
	}
	busy := 0
	for _, n := range o.handed {
		if n >= 5 {
			busy++
		}
	}
	add(st.Crashes > 0, "has_crash")
	add(st.Restarts > 0, "has_restart")
	add(st.Partitions > 0, "has_partition")
	add(st.ConfProposals > 0, "membership_change_proposed")
	add(o.snapInstalls > 0, "snapshot_install")
	add(st.SnapshotsCreated > 0, "snapshot_created")
	add(o.snapConfChecked > 0, "snapshot_confstate_checked")
	add(o.truncations > 0, "conflicting_suffix_truncated")
	add(o.leaderChangeAfter, "leader_change_after_first_commit")
	add(len(o.leaders) >= 2, "leader_change")
	add(st.PagedHandouts > 0, "paginated_handout")
	add(st.NoApplySteps > 0, "step_without_handout")
	add(st.BusySteps > 0, "step_busy_snapshot")
	add(st.Transfers > 0, "has_transfer")
	add(st.Dupped > 0, "has_dup")
	add(st.Dropped > 0, "has_drop")
	add(st.TornLoss > 0, "torn_tail_loss")
	add(st.Joiners > 0, "joiner_started")
	add(busy >= 2, "two_replicas_applied_5")
	add(o.maxG > uint64(c.S.P.N), "something_committed")
	add(o.maxG >= 20, "committed_ge20")
	add(c.S.P.Storage != raftsim.StoreMem, "rocksstorage")
	labels = append(labels, fmt.Sprintf("n%d", c.S.P.N))
	return labels, busy >= 2 && (o.leaderChangeAfter || o.snapInstalls > 0 || o.truncations > 0)
}

func sample(c *raftsim.Case, o *oracle) interface{} {
	st := c.S.St
	return map[string]interface{}{
		"params": c.S.P.String(),
		"applied": fmt.Sprintf("maxIndex=%d handedPerReplica=%v leaderTerms=%d snapshotInstalls=%d truncations=%d snapshotConfChecked=%d",
			o.maxG, o.handed, len(o.leaders), o.snapInstalls, o.truncations, o.snapConfChecked),
		"counts": fmt.Sprintf("steps=%d readies=%d delivered=%d dropped=%d dupped=%d proposals=%d confProposals=%d crashes=%d restarts=%d partitions=%d snapshotsCreated=%d pagedHandouts=%d replicas=%d",
			st.Steps, st.Readies, st.Delivered, st.Dropped, st.Dupped, st.Proposals, st.ConfProposals, st.Crashes, st.Restarts, st.Partitions, st.SnapshotsCreated, st.PagedHandouts, len(c.S.Reps)),
	}
}

func knownSet() map[string]bool {
	m := map[string]bool{}
	for _, id := range raftsim.KnownIDs {
		if known.Active(id) {
			m[id] = true
		}
	}
	return m
}

func run(t *testing.T, prof raftsim.Profile, rec *stats.Recorder) {
	ks := knownSet()
	rapid.Check(t, func(t *rapid.T) {
		var o *oracle
		raftsim.RunCase(t, prof, raftsim.CaseFuncs{
			Observers: func() []raftsim.Observer { o = newOracle(ks); return []raftsim.Observer{o} },
			Known:     ks,
			Finish: func(c *raftsim.Case) {
				labels, nt := labelsOf(c, o)
				if n := c.S.St.ExcludedKnown + o.excludedPanics; n > 0 {
					rec.Count("excluded_by_known_finding", int64(n))
				}
				rec.Count("sum_steps", int64(c.S.St.Steps))
				rec.Count("sum_readies", int64(c.S.St.Readies))
				rec.Count("sum_crashes", int64(c.S.St.Crashes))
				rec.Count("sum_restarts", int64(c.S.St.Restarts))
				rec.Record(c.S.TraceHash(), nt, labels, func() interface{} { return sample(c, o) })
			},
		})
	})
}

func TestApplyL1(t *testing.T)       { run(t, profL1, recL1) }
func TestApplyL2(t *testing.T)       { run(t, profL2, recL2) }
func TestApplySnapshot(t *testing.T) { run(t, profSnap, recSnap) }
func TestApplyL3(t *testing.T)       { run(t, profL3, recL3) }

// ---- regression probe of the finding recorded for this property ----

// C02-nonleader-commits-on-conf-replay: group {1,2}; leader 2 snapshots (ConfState {1,2}),
// removes 1 (it is the only voter for a moment), adds 3 and 4. Cut off, it appends X at index k in term T and dies.
// 3 and 4 elect 3 in term T+1 and commit another entry at k. Replica 2 restarts in term T
// from that snapshot (newRaft creates its own progress with Match = last index) and
// re-applies the committed entries behind it; when it re-applies "remove node 1" its
// rebuilt configuration is {2}, raft.removeNode calls maybeCommit although 2 is a follower,
// the quorum of one is its own last index, the entry there is of its current term: X is
// committed and handed out.
func TestKnownNonLeaderCommitsOnConfReplay(t *testing.T) {
	known.Probe(t, raftsim.KnownConfReplayCommit, func() (bool, string) {
		msg := raftsim.Scripted(func(ct *raftsim.CollectT) {
			p := raftsim.Params{N: 2, ElectionTick: 3, HeartbeatTick: 1, MaxSizePerMsg: 1 << 20, MaxCommittedSize: 1 << 40, MaxInflight: 8,
				Storage: raftsim.StoreMem, Seed: 1, KeepLastAppResp: true, RealCtor: true}
			s := raftsim.New(ct, p, newOracle(nil))
			defer s.Close()
			r1, r2 := s.Rep(1), s.Rep(2)
			settle := func(n int) {
				for i := 0; i < n; i++ {
					s.TickAll()
					s.Settle(200, nil, nil)
				}
			}
			s.FullStep(r1)
			s.FullStep(r2)
			s.Campaign(r2)
			s.FullStep(r2)
			s.Settle(50, nil, nil)
			if !s.Snapshot(r2, 0) {
				ct.Fatalf("HARNESS: probe could not snapshot replica 2 (applied %d)", r2.App.Applied)
			}
			s.ProposeConf(r2, pb.ConfChangeRemoveNode, 1)
			s.FullStep(r2)
			settle(3)
			r3 := s.AddReplica(false)
			s.ProposeConf(r2, pb.ConfChangeAddNode, 3)
			s.FullStep(r2)
			settle(3)
			r4 := s.AddReplica(false)
			s.ProposeConf(r2, pb.ConfChangeAddNode, 4)
			s.FullStep(r2)
			settle(4)
			if v := s.Peek(r2).Voters; len(v) != 3 || r3.App.Applied != r2.App.Applied || r4.App.Applied != r2.App.Applied {
				ct.Fatalf("HARNESS: probe set-up failed: voters %v applied %d/%d/%d", v, r2.App.Applied, r3.App.Applied, r4.App.Applied)
			}
			s.SetSides([]int{0, 1, 0, 0})
			s.Propose(r2, 8) // X: durable on 2 only
			s.FullStep(r2)
			s.Crash(r2, nil)
			s.DropAll(nil)
			s.Campaign(r3)
			s.FullStep(r3)
			s.Settle(50, nil, nil) // 3 leads term T+1, its entry at X's index commits with 4
			settle(2)
			s.Restart(r2, false)
			for i := 0; i < 6; i++ {
				s.FullStep(r2)
			}
			if os.Getenv("VERIF_PROBE_DEBUG") != "" {
				fmt.Println(s.Describe())
			}
		})
		if strings.HasPrefix(msg, "HARNESS:") {
			t.Fatalf("%s", msg)
		}
		if msg != "" {
			if i := strings.IndexByte(msg, '\n'); i >= 0 {
				msg = msg[:i]
			}
			return true, msg
		}
		return false, ""
	})
}
