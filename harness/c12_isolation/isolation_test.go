package c12

import (
	"bytes"
	"fmt"
	"math"
	"sort"
	"strconv"
	"strings"
	"testing"
	"unicode/utf8"

	"github.com/youzan/ZanRedisDB/node"
	"github.com/youzan/ZanRedisDB/rockredis"
	"pgregory.net/rapid"

	"verifharness/lib/gen"
	"verifharness/lib/known"
	"verifharness/lib/resp"
	"verifharness/lib/simkv"
	"verifharness/lib/stats"
)

func TestMain(m *testing.M) { stats.Main(m) }

const ns = "default"

var recFrame = map[string]*stats.Recorder{}

const ruleFrame = "frame property through the client API: a pair of distinct addresses A, B drawn from adversarial full names (prefixes of each other, ':' inside keys, 0x00 0xff, length-prefix look-alikes such as k\\x00\\x01, the 'meta:' prefix of size keys, names that collide under naive concatenation such as t:k:x vs t:k + field x); B and 2 bystanders are populated in all five types, a full dump of them is taken, then 1-20 write commands of every family (incl. clears, far-future expiry, PLSET / multi-key DEL) are applied to A (mode 'other key'), or commands of ONE family to A = B's key while the other families of that key are watched (mode 'other type'), or the whole table of A is deleted through the replicated DeleteTableRange (mode 'table delete': everything of A's table must be gone, everything else unchanged). Afterwards the dump of B and the bystanders must be unchanged. non-trivial = A and B share a common prefix of at least min(len) bytes or one contains a separator / length-like byte"

func rec(m map[string]*stats.Recorder, name, rule string) *stats.Recorder {
	if r, ok := m[name]; ok {
		return r
	}
	r := stats.New(name, rule)
	m[name] = r
	return r
}

var fullNames = []string{"t:k", "t:kk", "t:k:", "t:k:x", "t::k", "tt:k", "t:k\x00", "t:k\x00\x01", "t:\x00k", "t\x00:k", "t:meta:k", "t:k\xff", "t:\xffk", "T:k", "t:K",
	"t:k\x00\x00", "t:\x00\x01k", "t:k;", "t0:k", "t:k\x00\x01x", "t:\x00", "t:\xff", "t:k\x01", "t:j\xff", "t:t:k", "t:k:k", "t\xff:k", "t:\x00\x01", "t:kx"}

var members = []string{"x", "", "k", ":", "\x00", "x\x00", "\x00\x01x", "k:x", "\xff", "xx"}

func tableOf(full string) string { return full[:strings.IndexByte(full, ':')] }

func populate(s *simkv.Sim, full string, tag string) {
	k := ns + ":" + full
	s.Do("set", k, "kv-"+tag)
	s.Do("hmset", k, "x", "h-"+tag, "", "he-"+tag, "k:x", "hk-"+tag)
	s.Do("rpush", k, "l1-"+tag, "l2-"+tag)
	s.Do("sadd", k, "x", "", "s-"+tag)
	s.Do("zadd", k, "1", "x", "2", "", "3", "z-"+tag)
	// a bitmap (its own type since setbitv2: 1 KiB segments keyed by their byte index) with three segments
	s.Do("setbitv2", k, fmt.Sprint(7+len(tag)), "1")
	s.Do("setbitv2", k, "9000", "1")
	s.Do("setbitv2", k, "1048577", "1")
	s.Do("json.set", k, ".", `{"tag":"`+tag+`"}`)
}

var bitOffsets = []string{"0", "1", "7", "8", "8191", "8192", "8193", "9000", "16383", "16384", "1048577", "4294967294"}

// bitmapOp draws a command of the bitmap type on key a.
func bitmapOp(t *rapid.T, a string) []string {
	switch rapid.IntRange(0, 6).Draw(t, "bitop") {
	case 0:
		return []string{"bitclear", a}
	case 1:
		return []string{"getbit", a, rapid.SampledFrom(bitOffsets).Draw(t, "bitoff")}
	case 2:
		return []string{"bitcount", a}
	}
	return []string{"setbitv2", a, rapid.SampledFrom(bitOffsets).Draw(t, "bitoff"), rapid.SampledFrom([]string{"1", "1", "0"}).Draw(t, "bitval")}
}

func dumpKey(s *simkv.Sim, full string, skipFam byte) []string {
	k := ns + ":" + full
	var out []string
	add := func(fam byte, c ...string) {
		if fam == skipFam {
			return
		}
		out = append(out, gen.Quote(c)+" -> "+s.Do(c...).String())
	}
	add('k', "get", k)
	add('k', "exists", k)
	add('h', "hgetall", k)
	add('h', "hlen", k)
	add('l', "lrange", k, "0", "-1")
	add('l', "llen", k)
	add('s', "smembers", k)
	add('s', "scard", k)
	add('z', "zrange", k, "0", "-1", "withscores")
	add('z', "zcard", k)
	add('z', "zrangebylex", k, "-", "+")
	add('h', "hscan", k, "", "count", "100")
	add('s', "sscan", k, "", "count", "100")
	add('z', "zscan", k, "", "count", "100")
	add('b', "bitcount", k)
	add('b', "getbit", k, "9000")
	add('b', "getbit", k, "1048577")
	add('b', "getbit", k, "8")
	add('j', "json.get", k)
	return out
}

func commonPrefix(a, b string) int {
	n := 0
	for n < len(a) && n < len(b) && a[n] == b[n] {
		n++
	}
	return n
}

func odd(a, b string) bool {
	m := len(a)
	if len(b) < m {
		m = len(b)
	}
	if commonPrefix(a, b) >= m {
		return true
	}
	ka, kb := a[strings.IndexByte(a, ':')+1:], b[strings.IndexByte(b, ':')+1:]
	return strings.ContainsAny(ka+kb, ":;\x00\x01\xff")
}

func famOf(name string) byte {
	switch name {
	case "setbitv2", "getbit", "bitcount", "bitclear":
		return 'b'
	case "set", "setex", "setnx", "strlen", "get", "getset", "incr", "incrby", "append", "setrange", "del", "exists", "mget", "expire", "persist", "ttl", "plset":
		return 'k'
	}
	switch name[0] {
	case 'h':
		return 'h'
	case 'l', 'r':
		return 'l'
	case 's':
		return 's'
	case 'z':
		return 'z'
	}
	return 'k'
}

func runFrame(t *rapid.T, engine string) {
	// both data layouts: collection keys with a version suffix (wait_compact) and plain ones
	// (local_deletion, the production default)
	policy := rapid.SampledFrom([]string{"wait_compact", "local_deletion"}).Draw(t, "policy")
	sim, err := simkv.New(simkv.Options{Engine: engine, ExpPolicy: policy})
	if err != nil {
		t.Fatalf("HARNESS: %v", err)
	}
	defer sim.Close()
	perm := rapid.Permutation(fullNames).Draw(t, "names")
	a, b := perm[0], perm[1]
	by := perm[2:4]
	mode := rapid.SampledFrom([]string{"other_key", "other_key", "other_type", "table_delete", "other_key", "other_key", "other_type", "table_delete", "big_collection"}).Draw(t, "mode")
	watched := append([]string{b}, by...)
	if mode == "big_collection" {
		// collections above 5000 elements are removed through engine range deletes built from
		// encoded bounds (RangeDeleteNum): every other name is watched, and half of the time the
		// big collection is the name most other names of the pool are built around
		if rapid.Bool().Draw(t, "bigcentral") {
			for i, n := range perm {
				if n == "t:k" {
					perm[0], perm[i] = perm[i], perm[0]
				}
			}
			a = perm[0]
		}
		watched = append([]string(nil), perm[1:]...)
	}
	for i, w := range watched {
		populate(sim, w, fmt.Sprint(i))
	}
	populate(sim, a, "A")
	var skip byte
	if mode == "other_type" {
		a = b
		skip = rapid.SampledFrom([]byte{'k', 'h', 'l', 's', 'z', 'b'}).Draw(t, "family")
	}
	snap := map[string][]string{}
	for _, w := range watched {
		sk := byte(0)
		if w == a {
			sk = skip
		}
		snap[w] = dumpKey(sim, w, sk)
	}
	var trace []string
	pool := &gen.Pool{Keys: []string{a}, Members: members, Values: gen.Values, Scores: gen.Scores}
	g := gen.NewGrammar(gen.FamKV|gen.FamHash|gen.FamList|gen.FamSet|gen.FamZSet|gen.FamTTL|gen.FamExtra, gen.FarDurations)
	if mode == "table_delete" && !utf8.ValidString(tableOf(a)) {
		// the table name travels as a JSON string in the replicated DeleteTableRange request
		// (an HTTP admin API), which cannot carry bytes that are not valid UTF-8
		mode = "other_key"
	}
	if mode == "table_delete" {
		ta := tableOf(a)
		if err := sim.Parts[0].KV.DeleteRange(node.DeleteTableRange{Table: ta, DeleteAll: true}); err != nil {
			t.Fatalf("DeleteTableRange %q: %v", ta, err)
		}
		trace = append(trace, fmt.Sprintf("DeleteTableRange table=%q delete_all", ta))
		for _, w := range append([]string{a}, watched...) {
			if tableOf(w) != ta {
				continue
			}
			// everything of that table must be gone
			for _, l := range dumpKey(sim, w, 0) {
				if !(strings.HasSuffix(l, "-> nil") || strings.HasSuffix(l, "-> :0") || strings.HasSuffix(l, "-> []") || strings.HasSuffix(l, `-> ["" []]`) || strings.HasSuffix(l, `"json.get" `+fmt.Sprintf("%q", ns+":"+w)+` -> [""]`)) {
					t.Fatalf("after deleting table %q, key %q of that table still shows data: %s", ta, w, l)
				}
			}
			delete(snap, w)
		}
	} else if mode == "big_collection" {
		fam := rapid.SampledFrom([]string{"list", "hash", "set", "zset"}).Draw(t, "bigfam")
		const total = 5004
		const parts = 12
		for part := 0; part < parts; part++ {
			var c []string
			switch fam {
			case "list":
				c = []string{"rpush", a}
			case "hash":
				c = []string{"hmset", a}
			case "set":
				c = []string{"sadd", a}
			default:
				c = []string{"zadd", a}
			}
			for i := part * total / parts; i < (part+1)*total/parts; i++ {
				switch fam {
				case "hash":
					c = append(c, fmt.Sprintf("f%05d", i), "v")
				case "zset":
					c = append(c, fmt.Sprint(i), fmt.Sprintf("m%05d", i))
				default:
					c = append(c, fmt.Sprintf("e%05d", i))
				}
			}
			if r := sim.Do(gen.WithNS(ns, c)...).One(); r.IsErr() {
				t.Fatalf("HARNESS: building the big %s failed: %s", fam, r)
			}
		}
		trace = append(trace, fmt.Sprintf("%s %q filled with %d elements", fam, a, total))
		var cands [][]string
		switch fam {
		case "list":
			cands = [][]string{{"ltrim", a, "5001", "-1"}, {"ltrim", a, "0", "1"}, {"ltrim", a, "5002", "5002"}, {"lclear", a}}
		case "hash":
			cands = [][]string{{"hclear", a}, {"hmclear", a}}
		case "set":
			cands = [][]string{{"sclear", a}, {"smclear", a}}
		default:
			cands = [][]string{{"zclear", a}, {"zremrangebyrank", a, "0", "5001"}, {"zremrangebyscore", a, "-inf", "+inf"}, {"zremrangebyscore", a, "1", "5002"}, {"zremrangebylex", a, "-", "+"}, {"zmclear", a}}
		}
		cleared := false
		for j := rapid.IntRange(1, 2).Draw(t, "nbigops"); j > 0; j-- {
			c := cands[rapid.IntRange(0, len(cands)-1).Draw(t, "bigop")]
			r := sim.Do(gen.WithNS(ns, c)...)
			trace = append(trace, gen.Quote(c)+" -> "+r.String())
			cleared = strings.HasSuffix(c[0], "clear") && !r.One().IsErr()
		}
		if cleared && rapid.Bool().Draw(t, "rebuild") {
			// the cleared name is free again: the same collection can be built a second time, and
			// nothing of the first one may be in its way or show through
			// a little longer than the first one (which also held the few elements of the populate step)
			const again = total + 8
			var lastReply resp.Val
			for part := 0; part < parts; part++ {
				var c []string
				switch fam {
				case "list":
					c = []string{"rpush", a}
				case "hash":
					c = []string{"hmset", a}
				case "set":
					c = []string{"sadd", a}
				default:
					c = []string{"zadd", a}
				}
				for i := part * again / parts; i < (part+1)*again/parts; i++ {
					switch fam {
					case "hash":
						c = append(c, fmt.Sprintf("f%05d", i), "v")
					case "zset":
						c = append(c, fmt.Sprint(i), fmt.Sprintf("m%05d", i))
					default:
						c = append(c, fmt.Sprintf("e%05d", i))
					}
				}
				lastReply = sim.Do(gen.WithNS(ns, c)...).One()
				if lastReply.IsErr() {
					t.Fatalf("after %q was cleared, building it again fails: %s\noperations:\n  %s", a, lastReply, strings.Join(trace, "\n  "))
				}
			}
			cnt := map[string]string{"list": "llen", "hash": "hlen", "set": "scard", "zset": "zcard"}[fam]
			if got := sim.Do(gen.WithNS(ns, []string{cnt, a})...).One(); got.Kind != 'i' || got.I != again {
				t.Fatalf("after %q was cleared and built again with %d elements, %s answers %s\noperations:\n  %s", a, again, strings.ToUpper(cnt), got, strings.Join(trace, "\n  "))
			}
			trace = append(trace, fmt.Sprintf("%s %q built again with %d elements", fam, a, total))
		}
	} else {
		n := rapid.IntRange(1, 20).Draw(t, "nops")
		for i := 0; i < n; i++ {
			var c []string
			if skip == 'b' || (mode != "other_type" && rapid.IntRange(0, 5).Draw(t, "bitmap") == 0) {
				c = bitmapOp(t, a)
			}
			for try := 0; c == nil; try++ {
				c = g.Command(t, pool)
				if mode != "other_type" || famOf(c[0]) == skip || try > 30 {
					break
				}
				c = nil
			}
			if mode == "other_type" && famOf(c[0]) != skip {
				continue
			}
			r := sim.Do(gen.WithNS(ns, c)...)
			trace = append(trace, gen.Quote(c)+" -> "+r.String())
		}
	}
	for w, before := range snap {
		sk := byte(0)
		if w == a {
			sk = skip
		}
		after := dumpKey(sim, w, sk)
		for i := range before {
			if before[i] != after[i] {
				t.Fatalf("operations on %q (mode %s) changed what is read from %q:\n  before: %s\n  after:  %s\noperations:\n  %s", a, mode, w, before[i], after[i], strings.Join(trace, "\n  "))
			}
		}
	}
	rc := rec(recFrame, "frame_"+engine, ruleFrame)
	canon := fmt.Sprintf("%s|%s|%q|%q|%q|%c|%s", mode, policy, a, b, by, skip, strings.Join(trace, "\x1e"))
	rc.Record(stats.HashString(canon), odd(perm[0], b) || mode == "other_type" || mode == "big_collection", []string{"mode_" + mode, "policy_" + policy}, func() interface{} {
		tr := trace
		if len(tr) > 15 {
			tr = tr[:15]
		}
		return map[string]interface{}{"engine": engine, "mode": mode, "A": fmt.Sprintf("%q", a), "B": fmt.Sprintf("%q", b), "bystanders": fmt.Sprintf("%q", by), "operations_on_A": tr}
	})
}

func TestFrameMem(t *testing.T)     { rapid.Check(t, func(t *rapid.T) { runFrame(t, "mem") }) }
func TestFramePebble(t *testing.T)  { rapid.Check(t, func(t *rapid.T) { runFrame(t, "pebble") }) }
func TestFrameRocksdb(t *testing.T) { rapid.Check(t, func(t *rapid.T) { runFrame(t, "rocksdb") }) }

// ------------------------------------------------------------------ memcomparable tuple codec

var recCodec = stats.New("memcmp_codec", "pairs of tuples over ([]byte | int64 | float64 | nil) of equal type signature, plus prefix pairs: Decode(EncodeMemCmpKey(x)) == x and sign(bytes.Compare(enc x, enc y)) == sign of the tuple order; byte strings around the 8-byte group size of the escaping scheme, integers and floats at the extremes; non-trivial = a []byte component of length >= 8 or containing 0x00/0xff, or a negative number")

func drawElem(t *rapid.T, kind int) interface{} {
	switch kind {
	case 0:
		switch rapid.IntRange(0, 3).Draw(t, "bk") {
		case 0:
			return []byte(rapid.SampledFrom([]string{"", "a", "ab", "a\x00", "a\x00b", "\x00", "\xff", "\xff\xff\xff\xff\xff\xff\xff\xff", "12345678", "1234567", "123456789", "\x00\x00\x00\x00\x00\x00\x00\x00", "a\xff"}).Draw(t, "bs"))
		case 1:
			return rapid.SliceOfN(rapid.Byte(), 0, 20).Draw(t, "bytes")
		default:
			return rapid.SliceOfN(rapid.SampledFrom([]byte{0, 1, 0xff, 'a'}), 0, 18).Draw(t, "fewbytes")
		}
	case 1:
		if rapid.Bool().Draw(t, "ie") {
			return rapid.SampledFrom([]int64{0, 1, -1, math.MaxInt64, math.MinInt64, 255, 256, -256, 1 << 32, -(1 << 32)}).Draw(t, "iext")
		}
		return rapid.Int64().Draw(t, "int")
	case 2:
		if rapid.Bool().Draw(t, "fe") {
			return rapid.SampledFrom([]float64{0, math.Copysign(0, -1), 1, -1, 0.5, -0.5, math.MaxFloat64, -math.MaxFloat64, math.SmallestNonzeroFloat64, -math.SmallestNonzeroFloat64, math.Inf(1), math.Inf(-1), 1e308, 4503599627370497.5}).Draw(t, "fext")
		}
		f := rapid.Float64().Draw(t, "float")
		if math.IsNaN(f) {
			f = 0
		}
		return f
	}
	return nil
}

func cmpElem(a, b interface{}) int {
	switch x := a.(type) {
	case []byte:
		return bytes.Compare(x, b.([]byte))
	case int64:
		y := b.(int64)
		switch {
		case x < y:
			return -1
		case x > y:
			return 1
		}
		return 0
	case float64:
		y := b.(float64)
		switch {
		case x < y:
			return -1
		case x > y:
			return 1
		}
		return 0
	}
	return 0
}

func showTuple(x []interface{}) string {
	var p []string
	for _, e := range x {
		switch v := e.(type) {
		case []byte:
			p = append(p, fmt.Sprintf("%q", v))
		case float64:
			p = append(p, strconv.FormatFloat(v, 'g', -1, 64)+"f")
		default:
			p = append(p, fmt.Sprint(v))
		}
	}
	return "(" + strings.Join(p, ", ") + ")"
}

func TestMemCmpCodec(t *testing.T) {
	rapid.Check(t, func(t *rapid.T) {
		n := rapid.IntRange(1, 4).Draw(t, "arity")
		kinds := make([]int, n)
		for i := range kinds {
			kinds[i] = rapid.IntRange(0, 3).Draw(t, "kind")
		}
		mk := func() []interface{} {
			x := make([]interface{}, n)
			for i, k := range kinds {
				x[i] = drawElem(t, k)
			}
			return x
		}
		x, y := mk(), mk()
		if rapid.IntRange(0, 4).Draw(t, "shareprefix") == 0 && n > 1 {
			copy(y, x[:rapid.IntRange(1, n-1).Draw(t, "shared")])
		}
		ex, err := rockredis.EncodeMemCmpKey(nil, x...)
		if err != nil {
			t.Fatalf("encode %s: %v", showTuple(x), err)
		}
		ey, _ := rockredis.EncodeMemCmpKey(nil, y...)
		dx, err := rockredis.Decode(ex, n)
		if err != nil || len(dx) != n {
			t.Fatalf("decode(encode(%s)) = %v, %v", showTuple(x), dx, err)
		}
		for i := range x {
			same := false
			switch v := x[i].(type) {
			case []byte:
				d, ok := dx[i].([]byte)
				same = ok && bytes.Equal(d, v)
			case int64:
				d, ok := dx[i].(int64)
				same = ok && d == v
			case float64:
				d, ok := dx[i].(float64)
				same = ok && d == v // the sign of zero is not kept; -0 and 0 compare equal
			case nil:
				same = dx[i] == nil
			}
			if !same {
				t.Fatalf("round trip changed component %d of %s: got %#v", i, showTuple(x), dx[i])
			}
		}
		// -0 and 0 are the same number: they compare equal as tuple components, so their
		// encodings have to be the same bytes and the later components decide the order
		want := 0
		for i := range x {
			if c := cmpElem(x[i], y[i]); c != 0 {
				want = c
				break
			}
		}
		got := bytes.Compare(ex, ey)
		if (got < 0) != (want < 0) || (got > 0) != (want > 0) {
			t.Fatalf("order not preserved: %s vs %s compare %d as tuples but their encodings compare %d\n  enc x: %x\n  enc y: %x", showTuple(x), showTuple(y), want, got, ex, ey)
		}
		// a tuple that is a proper prefix of another sorts before it
		if n > 1 {
			k := rapid.IntRange(1, n-1).Draw(t, "prefixlen")
			ep, _ := rockredis.EncodeMemCmpKey(nil, x[:k]...)
			if !bytes.HasPrefix(ex, ep) || bytes.Compare(ep, ex) >= 0 {
				t.Fatalf("encoding of the prefix %s is not a proper prefix of / smaller than the encoding of %s", showTuple(x[:k]), showTuple(x))
			}
		}
		nt := false
		for _, e := range x {
			switch v := e.(type) {
			case []byte:
				nt = nt || len(v) >= 8 || bytes.ContainsAny(v, "\x00\xff")
			case int64:
				nt = nt || v < 0
			case float64:
				nt = nt || v < 0
			}
		}
		recCodec.Record(stats.Hash(ex, ey), nt, nil, func() interface{} {
			return map[string]interface{}{"x": showTuple(x), "y": showTuple(y), "enc_x": fmt.Sprintf("%x", ex), "tuple_order": want, "byte_order": got}
		})
	})
}

// ------------------------------------------------------------------ key encoders of the data mapping

var recKeys = stats.New("key_encoders", "pairs of addresses (table, key, sub-key, list sequence, score) over the adversarial vocabulary, pushed through every key encoder of the data mapping (hook rockredis.VerifEncodeKeys): decoder(encoder(a)) == a; enc(a) == enc(b) only if a == b; encodings of different encoders never coincide; every element key lies in [start, stop) of its own collection and of its table, and outside the range of every other collection / table of the pair; non-trivial = the two addresses differ but share table or key prefix, or contain ':' / 0x00 / 0xff")

var tablesK = []string{"t", "tt", "T", "t\x00", "t0", "t\xff", "\x00", "t\x00\x01"}
var keysK = []string{"k", "kk", "k:", ":k", "k:x", "\x00", "k\x00", "k\x00\x01", "\xff", "k\xff", "meta:k", "", "x", "kx", "\x00\x01", "\x00\x01k"}

type addr struct {
	table, key, sub string
	seq             int64
	score           float64
}

func (a addr) String() string {
	return fmt.Sprintf("{table %q key %q sub %q seq %d score %v}", a.table, a.key, a.sub, a.seq, a.score)
}

func drawAddr(t *rapid.T, l string) addr {
	return addr{
		table: rapid.SampledFrom(tablesK).Draw(t, l+"table"),
		key:   rapid.SampledFrom(keysK).Draw(t, l+"key"),
		sub:   rapid.SampledFrom(members).Draw(t, l+"sub"),
		seq:   rapid.SampledFrom([]int64{1000, 1001, 1 << 61, 1<<62 - 1001, 5000}).Draw(t, l+"seq"),
		score: rapid.SampledFrom([]float64{0, 1, -1, 1.5, 1e308, -1e308}).Draw(t, l+"score"),
	}
}

func inRange(k, start, stop []byte) bool {
	return bytes.Compare(k, start) >= 0 && bytes.Compare(k, stop) < 0
}

func TestKeyEncoders(t *testing.T) {
	rapid.Check(t, func(t *rapid.T) {
		a, b := drawAddr(t, "a"), drawAddr(t, "b")
		if rapid.IntRange(0, 2).Draw(t, "sametable") == 0 {
			b.table = a.table
		}
		ea := rockredis.VerifEncodeKeys([]byte(a.table), []byte(a.key), []byte(a.sub), a.seq, a.score)
		eb := rockredis.VerifEncodeKeys([]byte(b.table), []byte(b.key), []byte(b.sub), b.seq, b.score)
		for i := range ea {
			name := ea[i].Name
			// round trip
			tb, k, sub, seq, score, err := rockredis.VerifDecodeKey(name, ea[i].Enc)
			if err != nil {
				t.Fatalf("%s: decoder rejects its own encoder's output for %s: %v", name, a, err)
			}
			if string(tb) != a.table || string(k) != a.key {
				t.Fatalf("%s: encode/decode of table %q key %q gives table %q key %q", name, a.table, a.key, tb, k)
			}
			switch name {
			case "hash", "set", "zset", "zscore":
				if string(sub) != a.sub {
					t.Fatalf("%s: sub-key %q decoded as %q", name, a.sub, sub)
				}
			}
			if name == "list" && seq != a.seq {
				t.Fatalf("list: sequence %d decoded as %d", a.seq, seq)
			}
			if name == "zscore" && score != a.score {
				t.Fatalf("zscore: score %v decoded as %v", a.score, score)
			}
			// injectivity per encoder
			sameAddr := a.table == b.table && a.key == b.key
			switch name {
			case "hash", "set", "zset":
				sameAddr = sameAddr && a.sub == b.sub
			case "list":
				sameAddr = sameAddr && a.seq == b.seq
			case "zscore":
				sameAddr = sameAddr && a.sub == b.sub && a.score == b.score
			}
			if bytes.Equal(ea[i].Enc, eb[i].Enc) != sameAddr {
				t.Fatalf("%s: addresses %s and %s: same address=%v but encodings equal=%v (%x)", name, a, b, sameAddr, bytes.Equal(ea[i].Enc, eb[i].Enc), ea[i].Enc)
			}
			// no collision across encoders
			for j := range eb {
				if j != i && bytes.Equal(ea[i].Enc, eb[j].Enc) {
					t.Fatalf("encoder %s of %s and encoder %s of %s produce the same engine key %x", name, a, eb[j].Name, b, ea[i].Enc)
				}
			}
			// range containment
			if ea[i].Start != nil {
				if !inRange(ea[i].Enc, ea[i].Start, ea[i].Stop) {
					t.Fatalf("%s: key of %s (%x) is outside the range [%x, %x) of its own collection", name, a, ea[i].Enc, ea[i].Start, ea[i].Stop)
				}
				otherColl := a.table != b.table || a.key != b.key
				if name == "kv" {
					otherColl = a.table != b.table
				}
				if otherColl && inRange(eb[i].Enc, ea[i].Start, ea[i].Stop) {
					t.Fatalf("%s: key of %s (%x) lies inside the range [%x, %x) of the different collection/table of %s", name, b, eb[i].Enc, ea[i].Start, ea[i].Stop, a)
				}
			}
			if ts, te := rockredis.VerifTableRange(name, []byte(a.table)); ts != nil {
				if !inRange(ea[i].Enc, ts, te) {
					t.Fatalf("%s: key of %s (%x) is outside its table range [%x, %x)", name, a, ea[i].Enc, ts, te)
				}
				if a.table != b.table && inRange(eb[i].Enc, ts, te) {
					t.Fatalf("%s: key of %s in table %q lies inside the range [%x, %x) of table %q", name, b, b.table, ts, te, a.table)
				}
			}
		}
		nt := (a != b) && (a.table == b.table || strings.HasPrefix(a.key, b.key) || strings.HasPrefix(b.key, a.key) || strings.ContainsAny(a.table+a.key+b.table+b.key, ":\x00\xff"))
		recKeys.Record(stats.HashString(fmt.Sprintf("%s|%s", a, b)), nt, nil, func() interface{} {
			return map[string]interface{}{"a": fmt.Sprintf("%s", a), "b": fmt.Sprintf("%s", b)}
		})
	})
}

var _ = sort.Strings

// TestKnownTableDeleteLeavesBitmapAndJSON: the whole-table delete has to remove every type.
func TestKnownTableDeleteLeavesBitmapAndJSON(t *testing.T) {
	known.Probe(t, "C12-table-delete-leaves-bitmap-and-json", func() (bool, string) {
		for _, engine := range []string{"pebble", "mem"} {
			s, err := simkv.New(simkv.Options{Engine: engine})
			if err != nil {
				return false, "HARNESS: " + err.Error()
			}
			k, other := ns+":t:k", ns+":tt:k"
			for _, x := range []string{k, other} {
				s.Do("setbitv2", x, "9000", "1")
				s.Do("json.set", x, ".", `{"a":1}`)
				s.Do("hset", x, "f", "v")
			}
			if err := s.Parts[0].KV.DeleteRange(node.DeleteTableRange{Table: "t", DeleteAll: true}); err != nil {
				s.Close()
				return false, "HARNESS: " + err.Error()
			}
			var left []string
			if r := s.Do("bitcount", k).String(); r != ":0" {
				left = append(left, "bitcount -> "+r)
			}
			if r := s.Do("json.get", k).String(); r != `[""]` {
				left = append(left, "json.get -> "+r)
			}
			if r := s.Do("hlen", k).String(); r != ":0" {
				left = append(left, "hlen -> "+r)
			}
			// and nothing of the neighbouring table "tt" may go
			if r := s.Do("bitcount", other).String(); r != ":1" {
				left = append(left, "table tt: bitcount -> "+r)
			}
			if r := s.Do("json.get", other).String(); r != `["{\"a\":1}"]` {
				left = append(left, "table tt: json.get -> "+r)
			}
			s.Close()
			if len(left) > 0 {
				return true, fmt.Sprintf("%s: after deleting table t, key t:k: %s", engine, strings.Join(left, "; "))
			}
		}
		return false, ""
	})
}
