package c06

// C06 — a data node restarted after a crash serves exactly the acknowledged state.
//
// One real data-node process (cmd/verifkv: production server, real raft, real WAL, real
// engine; replicator 1 so it has to come back alone) is driven by three concurrent redis
// clients on disjoint key sets, killed (named crash point x k-th hit, stall-then-kill,
// kill -9 at drawn instants, crashes during the restart itself), started again on the
// same directory without the harness touching a file, and dumped through the redis API.
// Oracle: per client stream the dump equals model(acknowledged writes) or
// model(acknowledged writes + the one in-flight write); keys never written are absent.

import (
	"encoding/json"
	"flag"
	"fmt"
	"os"
	"path/filepath"
	"sort"
	"strconv"
	"strings"
	"sync"
	"sync/atomic"
	"syscall"
	"testing"
	"time"

	"pgregory.net/rapid"

	"verifharness/lib/known"
	"verifharness/lib/simkv"
	"verifharness/lib/stats"
)

const (
	findingAckBeforeWAL  = "C06-ack-before-wal-single-replica"
	findingRestoreCrash  = "C06-crash-in-checkpoint-restore"
	findingReadyTooEarly = "C06-ready-before-replayed-batch-committed"
	findingCkptRace      = "C06-checkpoint-cut-after-apply-resumed"
)

func TestMain(m *testing.M) {
	// the reproducible unit is the saved (history, crash plan) JSON, not a rapid fail file
	flag.Set("rapid.nofailfile", "true")
	stats.Main(m)
}

const ruleText = "rapid-generated write histories (3 concurrent client streams on disjoint key pools; SET/INCR/INCRBY/APPEND/DEL/HSET/HMSET/HDEL/LPUSH/RPUSH/LPOP/SADD/SREM/ZADD/ZREM with unique values; " +
	"~300-420 writes over 3 crash rounds, SnapCount 20, 4 KiB WAL segments) against one verifkv process; per history the named crash points reached by the second incarnation are learned by a dry run and " +
	"enumerated x k in {1,2,3,5,8,last} (plus stall-then-kill variants and kill -9 at drawn instants), sliced over the shards; round 1 always ends with kill -9 at a drawn instant, round 3 is a drawn extra crash. " +
	"non-trivial = some crash of the run hit after >= 1 completed raft snapshot with >= 1 acknowledged write newer than that snapshot, and the following start restored a checkpoint and replayed a WAL tail"

var (
	recPebble  = stats.New("crash_pebble", ruleText)
	recRocksdb = stats.New("crash_rocksdb", ruleText)
	recKnown   = stats.New("known", "regression probes of recorded findings")
)

// ---------------------------------------------------------------- case description

type CrashSpec struct {
	Kind      string `json:"kind"` // none | point | kill
	Point     string `json:"point,omitempty"`
	K         int    `json:"k,omitempty"`
	KLabel    string `json:"k_label,omitempty"`
	DelayMs   int    `json:"delay_ms,omitempty"`   // stall the goroutine that reached the point, then die
	AfterAcks int    `json:"after_acks,omitempty"` // kill: when this many writes of the round were acknowledged
	ExtraUs   int    `json:"extra_us,omitempty"`   // kill: plus this long
	Stall     string `json:"stall,omitempty"`      // VERIF_STALL of this incarnation: slow steps that do not kill
}

func (c CrashSpec) env() string {
	if c.Kind != "point" {
		return ""
	}
	s := c.Point + ":" + strconv.Itoa(c.K)
	if c.DelayMs > 0 {
		s += ":" + strconv.Itoa(c.DelayMs)
	}
	return s
}

func (c CrashSpec) String() string {
	switch c.Kind {
	case "point":
		s := fmt.Sprintf("%s#%d", c.Point, c.K)
		if c.KLabel != "" {
			s += "(" + c.KLabel + ")"
		}
		if c.DelayMs > 0 {
			s += fmt.Sprintf("+stall%dms", c.DelayMs)
		}
		return s
	case "kill":
		return fmt.Sprintf("kill-9@%dacks+%dus", c.AfterAcks, c.ExtraUs)
	}
	return "none"
}

type Round struct {
	Crash CrashSpec `json:"crash"`
	Upto  [3]int    `json:"upto"` // per stream: ops [previous upto, upto) are issued in this round
}

type Case struct {
	Property string   `json:"property"`
	Cfg      nodeCfg  `json:"cfg"`
	Streams  [3][]Op  `json:"streams"`
	Rounds   []Round  `json:"rounds"`
	Observed string   `json:"observed,omitempty"`
	Trace    []string `json:"trace,omitempty"`
	LogTail  string   `json:"log_tail,omitempty"`
	// raft files of a node that did not come back (wal-1/ and snap-1/, base64 by encoding/json), for the post-mortem
	RaftFiles map[string][]byte `json:"raft_files,omitempty"`
}

var streamIDs = [3]string{"a", "b", "c"}

func (c *Case) summary() string {
	var parts []string
	for r, rd := range c.Rounds {
		prev := [3]int{}
		if r > 0 {
			prev = c.Rounds[r-1].Upto
		}
		parts = append(parts, fmt.Sprintf("round%d[%d+%d+%d writes; crash %s]", r+1, rd.Upto[0]-prev[0], rd.Upto[1]-prev[1], rd.Upto[2]-prev[2], rd.Crash.String()))
	}
	return fmt.Sprintf("engine=%s %s", c.Cfg.Engine, strings.Join(parts, " "))
}

func (c *Case) canonical() string {
	b, _ := json.Marshal(struct {
		C nodeCfg
		S [3][]Op
		R []Round
	}{c.Cfg, c.Streams, c.Rounds})
	return string(b)
}

// ---------------------------------------------------------------- generator

type genHistory struct {
	Streams  [3][]Op
	Seg      [3][3]int // Seg[round][stream] = ops of that stream in that round
	R1Frac   int       // round 1 kill after this percentage of its writes
	R1Us     int
	Rnd      []uint32 // pre-drawn randomness for the enumerated plans
	OptFsync bool     // namespace option optimized_fsync for this history
}

func genOp(rt *rapid.T, id string, seq int) Op {
	key := func(pfx string, n int) string {
		return fmt.Sprintf("%s:%s%s%d", table, id, pfx, rapid.IntRange(0, n-1).Draw(rt, "ki"))
	}
	val := fmt.Sprintf("%s%d", id, seq)
	kinds := []string{"set", "set", "set", "incr", "incr", "incrby", "append", "del", "del", "hset", "hset", "hmset", "hdel",
		"lpush", "lpush", "rpush", "lpop", "sadd", "sadd", "srem", "zadd", "zadd", "zrem", "pfadd", "pfadd"}
	switch k := rapid.SampledFrom(kinds).Draw(rt, "kind"); k {
	case "set":
		return Op{[]string{"set", key("k", 4), val}}
	case "incr":
		return Op{[]string{"incr", key("n", 2)}}
	case "incrby":
		return Op{[]string{"incrby", key("n", 2), strconv.Itoa(rapid.IntRange(-5, 50).Draw(rt, "delta"))}}
	case "append":
		return Op{[]string{"append", key("a", 2), val + ","}}
	case "del":
		all := []string{"k0", "k1", "k2", "k3", "n0", "n1", "a0", "a1"}
		i := rapid.IntRange(0, len(all)-1).Draw(rt, "d1")
		args := []string{"del", fmt.Sprintf("%s:%s%s", table, id, all[i])}
		if rapid.IntRange(0, 2).Draw(rt, "two") == 0 {
			j := (i + 1 + rapid.IntRange(0, len(all)-2).Draw(rt, "d2")) % len(all)
			args = append(args, fmt.Sprintf("%s:%s%s", table, id, all[j]))
		}
		return Op{args}
	case "hset":
		return Op{[]string{"hset", key("h", 2), fmt.Sprintf("f%d", rapid.IntRange(0, 5).Draw(rt, "f")), val}}
	case "hmset":
		f := rapid.IntRange(0, 5).Draw(rt, "f")
		g := (f + 1 + rapid.IntRange(0, 4).Draw(rt, "g")) % 6
		return Op{[]string{"hmset", key("h", 2), fmt.Sprintf("f%d", f), val, fmt.Sprintf("f%d", g), val + "'"}}
	case "hdel":
		return Op{[]string{"hdel", key("h", 2), fmt.Sprintf("f%d", rapid.IntRange(0, 5).Draw(rt, "f"))}}
	case "lpush", "rpush":
		return Op{[]string{k, key("l", 2), val}}
	case "lpop":
		return Op{[]string{"lpop", key("l", 2)}}
	case "pfadd":
		// elements come from the pool <stream><0..hllPool-1> that TestKnownHLLPoolExact checks to be counted exactly
		el := val
		if rapid.IntRange(0, 4).Draw(rt, "again") == 0 {
			el = fmt.Sprintf("%s%d", id, rapid.IntRange(0, seq).Draw(rt, "old"))
		}
		return Op{[]string{"pfadd", key("p", 2), el}}
	case "sadd", "srem":
		return Op{[]string{k, key("s", 2), fmt.Sprintf("m%d", rapid.IntRange(0, 7).Draw(rt, "m"))}}
	case "zadd":
		return Op{[]string{"zadd", key("z", 2), strconv.Itoa(seq), fmt.Sprintf("m%d", rapid.IntRange(0, 5).Draw(rt, "m"))}}
	default:
		return Op{[]string{"zrem", key("z", 2), fmt.Sprintf("m%d", rapid.IntRange(0, 5).Draw(rt, "m"))}}
	}
}

func genHist(rt *rapid.T) genHistory {
	var h genHistory
	for s := 0; s < 3; s++ {
		h.Seg[0][s] = rapid.IntRange(40, 60).Draw(rt, "seg1")
		h.Seg[1][s] = rapid.IntRange(40, 55).Draw(rt, "seg2")
		h.Seg[2][s] = rapid.IntRange(20, 35).Draw(rt, "seg3")
		n := h.Seg[0][s] + h.Seg[1][s] + h.Seg[2][s]
		for i := 0; i < n; i++ {
			h.Streams[s] = append(h.Streams[s], genOp(rt, streamIDs[s], i))
		}
	}
	h.OptFsync = rapid.Bool().Draw(rt, "optimized_fsync")
	h.R1Frac = rapid.IntRange(3, 97).Draw(rt, "r1frac")
	h.R1Us = rapid.IntRange(0, 1500).Draw(rt, "r1us")
	h.Rnd = rapid.SliceOfN(rapid.Uint32(), 512, 512).Draw(rt, "rnd")
	return h
}

func (h *genHistory) upto(round int) [3]int {
	var u [3]int
	for s := 0; s < 3; s++ {
		for r := 0; r <= round; r++ {
			u[s] += h.Seg[r][s]
		}
	}
	return u
}

func (h *genHistory) round1() Round {
	tot := h.Seg[0][0] + h.Seg[0][1] + h.Seg[0][2]
	return Round{Crash: CrashSpec{Kind: "kill", AfterAcks: tot * h.R1Frac / 100, ExtraUs: h.R1Us}, Upto: h.upto(0)}
}

// all crash-point names of internal/verifhook call sites (DESIGN Appendix B + start.replayed)
var allPoints = []string{
	"ready.before_persist", "ready.snap_saved", "ready.wal_saved", "ready.snap_applied", "ready.appended", "ready.before_advance",
	"persist.snapfile_written", "snap.backup_started", "snap.created", "snap.saved", "snap.synced", "snap.released", "snap.compacted",
	"apply.before_entry", "apply.after_entry", "apply.before_commit_batch", "apply.after_commit_batch", "apply.snap_prepared", "apply.snap_restoring",
	"ckpt.before_save", "ckpt.engine_begin", "ckpt.after_save", "restore.engine_closed", "restore.files_removed", "restore.copying", "restore.before_reopen",
	"purge.ckpt", "purge.file", "start.cleaned", "start.restored", "start.replayed", "wal.cut",
}

// points where a stall-then-kill variant (the goroutine that reached the point is held for
// a while with everything else running, then the process dies) opens a wider window
var stallPoints = []string{"ready.before_persist", "ready.wal_saved", "ready.appended", "snap.backup_started", "snap.created", "snap.saved",
	"snap.released", "persist.snapfile_written", "ckpt.after_save", "apply.before_commit_batch", "apply.after_entry", "wal.cut", "purge.ckpt"}

// enumerate builds the complete fault list of one history from the learned hit counts of
// the second incarnation.
func enumerate(h *genHistory, counts map[string]int, activeFinding bool) (plans []CrashSpec, excluded int) {
	for _, p := range allPoints {
		n := counts[p]
		if n == 0 {
			continue
		}
		if p == "restore.copying" && known.Active(findingRestoreCrash) {
			// a death inside the copy loop of restoreFromPath is the trigger of a recorded finding
			excluded += n
			continue
		}
		seen := map[int]bool{}
		for _, k := range []int{1, 2, 3, 5, 8, n} {
			if k > n || seen[k] {
				continue
			}
			seen[k] = true
			lbl := strconv.Itoa(k)
			if k == n {
				lbl = "last"
			}
			plans = append(plans, CrashSpec{Kind: "point", Point: p, K: k, KLabel: lbl})
		}
	}
	ri := 0
	rnd := func(n int) int {
		v := int(h.Rnd[ri%len(h.Rnd)] % uint32(n))
		ri++
		return v
	}
	for _, p := range stallPoints {
		n := counts[p]
		if n == 0 {
			continue
		}
		for _, k := range []int{1 + rnd(n), 1 + n/2} {
			if k > n {
				k = n
			}
			if p == "ready.before_persist" && activeFinding {
				// the deterministic trigger of the recorded finding: excluded by construction while it is open
				excluded++
				continue
			}
			plans = append(plans, CrashSpec{Kind: "point", Point: p, K: k, KLabel: "stall", DelayMs: 15 + rnd(40)})
		}
	}
	tot := h.Seg[1][0] + h.Seg[1][1] + h.Seg[1][2]
	for i := 0; i < 6; i++ {
		plans = append(plans, CrashSpec{Kind: "kill", AfterAcks: rnd(tot), ExtraUs: rnd(1200)})
	}
	return plans, excluded
}

func (h *genHistory) round3(idx int, counts map[string]int) (Round, bool) {
	r := h.Rnd[(idx*7+3)%len(h.Rnd)]
	tot := h.Seg[2][0] + h.Seg[2][1] + h.Seg[2][2]
	switch r % 10 {
	case 0, 1, 2:
		return Round{}, false
	case 3, 4, 5, 6:
		return Round{Crash: CrashSpec{Kind: "kill", AfterAcks: int(r/16) % tot, ExtraUs: int(r/4096) % 1000}, Upto: h.upto(2)}, true
	default:
		var reach []string
		for _, p := range allPoints {
			if counts[p] > 0 && !(p == "restore.copying" && known.Active(findingRestoreCrash)) {
				reach = append(reach, p)
			}
		}
		if len(reach) == 0 {
			return Round{}, false
		}
		p := reach[int(r/16)%len(reach)]
		n := counts[p]
		if n > 40 {
			n = 40 + n/4 // round 3 is shorter than the learned round
		}
		return Round{Crash: CrashSpec{Kind: "point", Point: p, K: 1 + int(r/8192)%n}, Upto: h.upto(2)}, true
	}
}

// ---------------------------------------------------------------- executing one case

type outcome struct {
	violation    string
	inconclusive string
	labels       []string
	nontrivial   bool
	trace        []string
	logTail      string
	raftFiles    map[string][]byte
	counts       map[int]map[string]int // incarnation -> point hit counts
	excludedKF   bool                   // matched only through the known-finding tolerance
	wall         time.Duration
}

func (o *outcome) label(l string) { o.labels = append(o.labels, l) }
func (o *outcome) tracef(f string, a ...interface{}) {
	o.trace = append(o.trace, fmt.Sprintf(f, a...))
}

type runOpts struct {
	tolerateKF bool // findingAckBeforeWAL is open: the last acknowledged write of a stream may be missing if the hook log cannot prove its WAL save
	barrier    bool // findingReadyTooEarly is open: one barrier write is acknowledged before the dump is read
	skipCkRace bool // findingCkptRace is open: a run in which the apply loop worked while a checkpoint was being taken is not evaluated
	streams    int
}

func defaultOpts() runOpts {
	return runOpts{tolerateKF: known.Active(findingAckBeforeWAL), barrier: known.Active(findingReadyTooEarly), skipCkRace: known.Active(findingCkptRace)}
}

var portsMu sync.Mutex
var myPorts *portBlock

func getPorts() (*portBlock, error) {
	portsMu.Lock()
	defer portsMu.Unlock()
	if myPorts == nil {
		b, err := allocPorts("c06")
		if err != nil {
			return nil, err
		}
		myPorts = b
	}
	return myPorts, nil
}

func nodeLogTail(d *nodeDir, n int) string {
	var sb strings.Builder
	for inc := 1; inc <= d.inc; inc++ {
		b, _ := os.ReadFile(d.logPath(inc))
		if inc < d.inc-1 {
			continue
		}
		sb.WriteString(fmt.Sprintf("---- incarnation %d log tail ----\n%s\n", inc, tail(string(b), n)))
	}
	return sb.String()
}

func runCase(c *Case, opt runOpts) (out outcome) {
	t0 := time.Now()
	defer func() { out.wall = time.Since(t0) }()
	out.counts = map[int]map[string]int{}
	ports, err := getPorts()
	if err != nil {
		out.inconclusive = "ports: " + err.Error()
		return
	}
	d, err := newNodeDir(c.Cfg, ports)
	if err != nil {
		out.inconclusive = "dir: " + err.Error()
		return
	}
	var cur *proc
	stuckDump := false
	defer func() {
		if cur != nil && !cur.dead() {
			cur.kill()
		}
		if out.violation != "" || out.inconclusive != "" {
			n := 6000
			if stuckDump {
				n = 60000
			}
			out.logTail = nodeLogTail(d, n)
			if strings.HasPrefix(out.violation, "needs manual repair") {
				head := ""
				if b, err := os.ReadFile(d.logPath(d.inc)); err == nil {
					if len(b) > 12000 {
						b = b[:12000]
					}
					head = fmt.Sprintf("---- incarnation %d log HEAD ----\n%s\n", d.inc, b)
				}
				out.logTail = "---- read-only look at the node's raft directories ----\n" + diagnose(d) + head + out.logTail
				out.raftFiles = map[string][]byte{}
				total := 0
				for _, sub := range []string{"wal-1", "snap-1"} {
					dir := filepath.Join(d.root, "data", "default-0", sub)
					ents, _ := os.ReadDir(dir)
					for _, e := range ents {
						if b, err := os.ReadFile(filepath.Join(dir, e.Name())); err == nil && total+len(b) < 4<<20 {
							out.raftFiles[sub+"/"+e.Name()] = b
							total += len(b)
						}
					}
				}
			}
		}
		d.remove()
	}()

	nstreams := 3
	if opt.streams > 0 {
		nstreams = opt.streams
	}
	streams := make([]*stream, nstreams)
	pools := make([][]poolKey, nstreams)
	loseIdx := make([]int, nstreams) // known-finding tolerance: index of the acknowledged write that may be missing, or -1
	for i := range streams {
		streams[i] = newStream(streamIDs[i])
		pools[i] = streamPool(streamIDs[i])
		loseIdx[i] = -1
	}
	var lastSnapSaved int64 // newest snap.saved instant over all incarnations so far
	crashNT := false        // a crash so far satisfied the non-trivial precondition
	crashes := 0

	// bring an incarnation to "ready + leader" or classify why not
	bringUp := func(p *proc, r int) (ok bool) {
		lim1 := time.Duration(envInt("C06_READY_LIMIT_S", 60)) * time.Second
		rr := p.waitReady(lim1)
		if !rr.ready && !rr.died {
			out.label("slow_start")
			rr2 := p.waitReady(2 * lim1)
			rr2.progress = rr2.progress || rr.progress
			rr = rr2
		}
		if rr.ready {
			out.tracef("incarnation %d ready after %dms (applied=%d snap_index=%d)", p.inc, rr.waited.Milliseconds(), rr.last.Applied, rr.last.SnapIndex)
			return true
		}
		lines := readCrashLog(d.crashLog(p.inc))
		out.counts[p.inc] = countPoints(lines)
		if rr.died {
			kind := p.exitKind()
			fired := hookFired(lines)
			if kind == "sigkill" && fired != "" {
				out.tracef("incarnation %d died at %s while starting", p.inc, fired)
				out.label("died_while_starting")
				if r > 0 {
					out.label("double_crash")
				}
				crashes++
				return false
			}
			lg, _ := os.ReadFile(d.logPath(p.inc))
			switch {
			case r > 0 && strings.Contains(string(lg), "VERIFKV-FATAL: InitKVNamespace"):
				// production (apps/zankv) ignores this error and runs without the namespace; either way nothing is served
				msg := string(lg)[strings.Index(string(lg), "VERIFKV-FATAL: InitKVNamespace"):]
				out.violation = "needs manual repair: restarted on the same directory the namespace cannot be initialised: " + strings.TrimSpace(tail(msg, 400))
			case r == 0 || strings.Contains(string(lg), "VERIFKV-FATAL"):
				out.inconclusive = fmt.Sprintf("incarnation %d exited (%s) before it was ready on a fresh or unusable setup", p.inc, kind)
			case c.Cfg.Engine == "rocksdb" && rocksdbAssertArtifact(string(lg)):
				out.inconclusive = "rocksdb_assert_artifact: stock librocksdb assertion build aborted"
			case kind == "sigkill":
				out.inconclusive = fmt.Sprintf("incarnation %d was killed by something else than the harness or the hook", p.inc)
			default:
				out.violation = fmt.Sprintf("needs manual repair: restarted on the same directory the process exits by itself (%s) before serving", kind)
			}
			return false
		}
		st := "no status"
		if rr.last != nil {
			st = fmt.Sprintf("%+v", *rr.last)
		}
		switch {
		case rr.progress:
			out.inconclusive = "still replaying and making progress after 180 s: " + st
		case r == 0:
			out.inconclusive = "fresh node not ready after 180 s: " + st
		default:
			out.violation = "needs manual repair: restarted on the same directory the node is alive but neither ready nor leading nor progressing after 180 s; status " + st
			// have the Go runtime print every goroutine's stack into the node log before it goes
			p.cmd.Process.Signal(syscall.SIGQUIT)
			waitDead(p, 10*time.Second)
			stuckDump = true
		}
		return false
	}

	// verify returns ok=false with neither violation nor inconclusive set when the incarnation died
	// (at its crash point) before the dump was complete: that is one more crash during recovery.
	verify := func(p *proc) bool {
		if opt.barrier {
			if err := barrierWrite(d.redisAddr(), p.inc); err != nil {
				if waitDead(p, 3*time.Second) {
					return false
				}
				out.inconclusive = "barrier write failed: " + err.Error()
				return false
			}
		}
		lines := readCrashLog(d.crashLog(p.inc))
		cnt := countPoints(lines)
		restored := cnt["start.restored"] > 0
		replayed := cnt["apply.before_entry"] > 0
		if restored {
			out.label("recover:checkpoint_restore")
		}
		if cnt["start.cleaned"] > 0 {
			out.label("recover:clean_engine")
		}
		if replayed {
			out.label("recover:wal_replay")
		}
		if crashNT && restored && replayed {
			out.nontrivial = true
		}
		for i, s := range streams {
			actual, err := dumpNode(d.redisAddr(), pools[i])
			if err != nil {
				if !waitDead(p, 3*time.Second) {
					out.inconclusive = "dump failed: " + err.Error()
				}
				return false
			}
			hadPending := s.pending != nil
			matched, diff := s.resolve(actual, pools[i], loseIdx[i])
			if matched == "" {
				last := "-"
				if n := len(s.applied); n > 0 {
					last = fmt.Sprintf("#%d %q (acked by incarnation %d)", n-1, s.applied[n-1].op.String(), s.applied[n-1].inc)
				}
				pend := "none"
				if s.pending != nil {
					pend = fmt.Sprintf("%q", s.pending.op.String())
				}
				out.violation = fmt.Sprintf("after restart (incarnation %d) stream %s matches neither acked (%d writes) nor acked+in-flight: %s; last acked %s; in-flight %s",
					p.inc, s.id, len(s.applied), diff, last, pend)
				return false
			}
			if strings.HasPrefix(matched, "acked-minus-last-logged") {
				out.excludedKF = true
				out.tracef("stream %s: %s", s.id, matched)
			}
			if hadPending {
				if matched == "acked+inflight" {
					out.label("inflight_applied")
				} else {
					out.label("inflight_not_applied")
				}
			}
			loseIdx[i] = -1
		}
		return true
	}

	prev := [3]int{}
	rounds := append([]Round{}, c.Rounds...)
	rounds = append(rounds, Round{Crash: CrashSpec{Kind: "final"}, Upto: prev})
	for r, rd := range rounds {
		final := rd.Crash.Kind == "final"
		p, err := d.start(rd.Crash.env(), rd.Crash.Stall)
		if err != nil {
			out.inconclusive = "start: " + err.Error()
			return
		}
		cur = p
		if !bringUp(p, r) {
			if out.violation != "" || out.inconclusive != "" {
				return
			}
			if final {
				out.inconclusive = "final incarnation died at a crash point although none was set"
				return
			}
			continue // died at its crash point while starting: next incarnation
		}
		if r > 0 {
			if !verify(p) {
				if out.violation != "" || out.inconclusive != "" {
					return
				}
				// died at its crash point between "ready" and the end of the dump
				lines := readCrashLog(d.crashLog(p.inc))
				out.counts[p.inc] = countPoints(lines)
				if final || hookFired(lines) == "" {
					out.inconclusive = "node died during the dump without a crash point having fired"
					return
				}
				out.tracef("incarnation %d died at %s during the dump", p.inc, hookFired(lines))
				out.label("died_during_dump")
				out.label("double_crash")
				crashes++
				continue
			}
		}
		if final {
			out.counts[p.inc] = countPoints(readCrashLog(d.crashLog(p.inc)))
			p.kill()
			break
		}
		// ---- write phase
		var acks int64
		stop := make(chan struct{})
		results := make([]runResult, nstreams)
		var wg sync.WaitGroup
		for i := range streams {
			wg.Add(1)
			go func(i int) {
				defer wg.Done()
				results[i] = runStream(streams[i], c.Streams[i], rd.Upto[i], d.redisAddr(), p.inc, &acks, stop)
			}(i)
		}
		clientsDone := make(chan struct{})
		go func() { wg.Wait(); close(clientsDone) }()
		harnessKilled := false
		if rd.Crash.Kind == "kill" {
		poll:
			for {
				select {
				case <-clientsDone:
					break poll
				case <-p.done:
					break poll
				default:
				}
				if atomic.LoadInt64(&acks) >= int64(rd.Crash.AfterAcks) {
					if rd.Crash.ExtraUs > 0 {
						time.Sleep(time.Duration(rd.Crash.ExtraUs) * time.Microsecond)
					}
					harnessKilled = true
					p.kill()
					break poll
				}
				time.Sleep(50 * time.Microsecond)
			}
		}
		select {
		case <-clientsDone:
		case <-time.After(90 * time.Second):
			// a client is stuck although every read has a deadline: do not guess
			close(stop)
			p.kill()
			<-clientsDone
			out.inconclusive = "clients did not finish within 90 s"
			return
		}
		for i, res := range results {
			if res.replyDiff != "" {
				out.violation = "acknowledged reply differs from the model: " + res.replyDiff
				return
			}
			if res.errReply != "" {
				out.label("error_reply")
				out.tracef("stream %s got error reply %q (write treated as outcome-unknown)", streams[i].id, res.errReply)
			}
			if res.timeout {
				out.label("client_timeout")
			}
		}
		if !p.dead() {
			if rd.Crash.Kind == "point" {
				// all writes answered; a stalled crash point may still be about to fire
				select {
				case <-p.done:
				case <-time.After(time.Duration(rd.Crash.DelayMs+30) * time.Millisecond):
				}
			}
			if !p.dead() {
				if rd.Crash.Kind == "point" {
					out.label("point_not_reached")
				}
				harnessKilled = true
				p.kill()
			}
		}
		kind := p.exitKind()
		lines := readCrashLog(d.crashLog(p.inc))
		out.counts[p.inc] = countPoints(lines)
		fired := hookFired(lines)
		switch {
		case harnessKilled:
			out.tracef("round %d: kill -9 by the harness after %d acks", r+1, atomic.LoadInt64(&acks))
		case kind == "sigkill" && fired != "":
			out.tracef("round %d: died at %s after %d acks", r+1, rd.Crash.String(), atomic.LoadInt64(&acks))
		default:
			lg, _ := os.ReadFile(d.logPath(p.inc))
			if c.Cfg.Engine == "rocksdb" && rocksdbAssertArtifact(string(lg)) {
				out.inconclusive = "rocksdb_assert_artifact: stock librocksdb assertion build aborted"
				return
			}
			// the process died on its own (panic, fatal): still a death the property quantifies over
			out.label("self_death:" + kind)
			out.tracef("round %d: process died by itself (%s)", r+1, kind)
			fmt.Printf("NOTE c06: node process died by itself (%s) in round %d of %s\n%s\n", kind, r+1, c.summary(), tail(string(lg), 3000))
		}
		crashes++
		if crashes > 1 {
			out.label("crash_after_recovery")
		}
		if opt.skipCkRace && applyDuringCheckpoint(lines) {
			out.excludedKF = true
			out.tracef("round %d: the apply loop worked while a checkpoint was being saved (open finding %s): run not evaluated", r+1, findingCkptRace)
			return
		}
		// non-trivial precondition and known-finding tolerance, both from the hook log
		for inc := 1; inc <= p.inc; inc++ {
			if t := lastTs(readCrashLog(d.crashLog(inc)), "snap.saved"); t > lastSnapSaved {
				lastSnapSaved = t
			}
		}
		inflight := 0
		for i, s := range streams {
			if s.pending != nil {
				inflight++
			}
			if n := len(s.applied); n > 0 {
				if la := s.applied[n-1]; lastSnapSaved > 0 && la.sendTs > lastSnapSaved {
					crashNT = true
				}
				// the last acknowledged write of this incarnation that went through the log: the one
				// write per stream the open finding can lose (later pre-read no-ops never reach the log)
				for j := n - 1; j >= 0 && opt.tolerateKF && s.applied[j].inc == p.inc; j-- {
					if s.applied[j].localNoop {
						continue
					}
					if !walSaveProven(lines, s.applied[j].ackTs) {
						loseIdx[i] = j
					}
					break
				}
			}
		}
		if lastSnapSaved > 0 {
			out.label("snapshot_existed_at_crash")
		}
		out.label(fmt.Sprintf("inflight_at_crash:%d", inflight))
		prev = rd.Upto
	}
	return
}

// ---------------------------------------------------------------- the enumerating test

func engineFromEnv() string {
	if e := os.Getenv("C06_ENGINE"); e != "" {
		return e
	}
	return "pebble"
}

func recFor(engine string) *stats.Recorder {
	if engine == "rocksdb" {
		return recRocksdb
	}
	return recPebble
}

func writeViolation(c *Case, o *outcome) string {
	c.Property = "C06"
	c.Observed = o.violation
	c.Trace = o.trace
	c.LogTail = o.logTail
	c.RaftFiles = o.raftFiles
	b, _ := json.MarshalIndent(c, "", " ")
	wd, _ := os.Getwd()
	fn := filepath.Join(wd, fmt.Sprintf("violation-C06-%016x.json", stats.HashString(c.canonical())))
	os.WriteFile(fn, b, 0644)
	return fn
}

func planLabels(c *Case) []string {
	ls := []string{"engine:" + c.Cfg.Engine}
	if len(c.Rounds) >= 2 {
		cr := c.Rounds[1].Crash
		switch cr.Kind {
		case "point":
			ls = append(ls, "point:"+cr.Point)
			if cr.DelayMs > 0 {
				ls = append(ls, "k:stall")
			} else {
				ls = append(ls, "k:"+cr.KLabel)
			}
		case "kill":
			ls = append(ls, "point:kill-9@instant")
		default:
			ls = append(ls, "point:none(learning run)")
		}
	}
	if len(c.Rounds) >= 3 {
		ls = append(ls, "round3:"+c.Rounds[2].Crash.Kind)
	}
	return ls
}

type sample struct {
	History string   `json:"history"`
	Crash   string   `json:"crash_point"`
	K       string   `json:"k"`
	Outcome []string `json:"outcome"`
}

func mkSample(c *Case, o *outcome) interface{} {
	s := sample{History: c.summary(), Outcome: o.trace}
	if len(c.Rounds) >= 2 {
		s.Crash = c.Rounds[1].Crash.String()
		s.K = c.Rounds[1].Crash.KLabel
	}
	return s
}

type tally struct {
	cases, inconclusive int
}

// account records one executed case; returns false on a violation.
func account(t *testing.T, rec *stats.Recorder, c *Case, o *outcome, tl *tally) bool {
	tl.cases++
	if o.inconclusive != "" {
		tl.inconclusive++
		key := "inconclusive"
		if strings.HasPrefix(o.inconclusive, "rocksdb_assert_artifact") {
			key = "excluded_rocksdb_assert_artifact"
		}
		rec.Count(key, 1)
		fmt.Printf("HARNESS-NOTE c06 inconclusive: %s [%s]\n%s\n", o.inconclusive, c.summary(), tail(o.logTail, 1500))
		return true
	}
	if o.violation != "" {
		fn := writeViolation(c, o)
		t.Errorf("C06 violated: %s\n  case: %s\n  trace:\n    %s\n  replay file: %s\n%s", o.violation, c.summary(), strings.Join(o.trace, "\n    "), fn, tail(o.logTail, 3000))
		return false
	}
	if o.excludedKF {
		rec.Count("excluded_by_known_finding", 1)
		return true
	}
	labels := append(planLabels(c), o.labels...)
	sort.Strings(labels)
	labels = uniq(labels)
	rec.Record(stats.HashString(c.canonical()), o.nontrivial, labels, func() interface{} { return mkSample(c, o) })
	return true
}

func uniq(s []string) []string {
	out := s[:0]
	for i, x := range s {
		if i == 0 || x != s[i-1] {
			out = append(out, x)
		}
	}
	return out
}

func flagInt(name string, def int) int {
	if f := flag.Lookup(name); f != nil {
		if v, err := strconv.Atoi(f.Value.String()); err == nil && v > 0 {
			return v
		}
	}
	return def
}

func envInt(name string, def int) int {
	if v, err := strconv.Atoi(os.Getenv(name)); err == nil {
		return v
	}
	return def
}

func TestCrashEnumeration(t *testing.T) {
	if _, err := nodeBinary(); err != nil {
		fmt.Printf("HARNESS: cannot build verifkv: %v\n", err)
		stats.FlushAll()
		os.Exit(2)
	}
	engine := engineFromEnv()
	rec := recFor(engine)
	shards := envInt("VERIF_SHARDS", 1)
	shard := envInt("VERIF_SHARD_INDEX", 0)
	stride := envInt("C06_STRIDE", shards) // every stride-th plan of the enumeration is run by this shard
	if stride < 1 {
		stride = 1
	}
	active := known.Active(findingAckBeforeWAL)
	opt := defaultOpts()

	// rapid draws the histories: one Example per case, seeded from -rapid.seed (set per shard by
	// the driver). Nothing is executed inside rapid: the process-level runs are not shrinkable,
	// the reproducible unit is the saved (history, crash plan).
	seed, checks := flagInt("rapid.seed", 1), flagInt("rapid.checks", 1)
	gen := rapid.Custom(genHist)
	var hists []genHistory
	for i := 0; i < checks; i++ {
		hists = append(hists, gen.Example(seed*1009+i))
	}
	var tl tally
	reached := map[string]bool{}
	for caseNo, h := range hists {
		h := h
		cfg := defaultCfg(engine)
		cfg.OptFsync = h.OptFsync
		// learning run: rounds 1 and 2 without a named crash, to see which points the second incarnation reaches
		learn := &Case{Cfg: cfg, Streams: h.Streams, Rounds: []Round{h.round1(), {Crash: CrashSpec{Kind: "none"}, Upto: h.upto(1)}}}
		lo := runCase(learn, opt)
		if !account(t, rec, learn, &lo, &tl) {
			return
		}
		counts := lo.counts[2]
		if lo.inconclusive != "" || counts == nil {
			continue
		}
		rec.Count("histories", 1)
		for _, p := range allPoints {
			if counts[p] == 0 {
				rec.Count("history_does_not_reach:"+p, 1)
			} else {
				reached[p] = true
				rec.Count("history_reaches:"+p, 1)
			}
		}
		plans, excluded := enumerate(&h, counts, active)
		if excluded > 0 {
			rec.Count("excluded_by_known_finding", int64(excluded))
		}
		fmt.Printf("c06 history %d (%s): %d plans over %d reached points; this shard runs plans i%%%d==%d; hits %v\n", caseNo, engine, len(plans), len(counts), stride, (shard+caseNo)%stride, fmtCounts(counts))
		for i, pl := range plans {
			if i%stride != (shard+caseNo)%stride {
				continue
			}
			c := &Case{Cfg: cfg, Streams: h.Streams, Rounds: []Round{h.round1(), {Crash: pl, Upto: h.upto(1)}}}
			if r3, ok := h.round3(i, counts); ok {
				c.Rounds = append(c.Rounds, r3)
			}
			o := runCase(c, opt)
			if !account(t, rec, c, &o, &tl) {
				return
			}
		}
	}
	var ur []string
	for _, p := range allPoints {
		if !reached[p] {
			ur = append(ur, p)
		}
	}
	fmt.Printf("c06 %s: %d cases, %d inconclusive; points reached by none of this shard's histories: %v\n", engine, tl.cases, tl.inconclusive, ur)
	if tl.inconclusive > 2 && tl.inconclusive*4 > tl.cases {
		fmt.Printf("HARNESS: %d of %d cases inconclusive\n", tl.inconclusive, tl.cases)
		stats.FlushAll()
		os.Exit(2)
	}
}

func fmtCounts(m map[string]int) string {
	var parts []string
	for _, k := range sortedKeysInt(m) {
		parts = append(parts, fmt.Sprintf("%s=%d", k, m[k]))
	}
	return strings.Join(parts, " ")
}

// ---------------------------------------------------------------- replay of a saved case

func TestReplay(t *testing.T) {
	fn := os.Getenv("VERIF_REPLAY")
	if fn == "" {
		t.Skip("VERIF_REPLAY not set")
	}
	b, err := os.ReadFile(fn)
	if err != nil {
		fmt.Printf("HARNESS: %v\n", err)
		os.Exit(2)
	}
	var c Case
	if err := json.Unmarshal(b, &c); err != nil || c.Property != "C06" {
		t.Skip("not a C06 case file")
	}
	if _, err := nodeBinary(); err != nil {
		fmt.Printf("HARNESS: cannot build verifkv: %v\n", err)
		os.Exit(2)
	}
	// the schedule inside the process is the OS's: the saved (history, crash plan) is re-run several times
	tries := envInt("C06_REPLAY_TRIES", 8)
	opt := defaultOpts()
	for i := 0; i < tries; i++ {
		cc := c
		o := runCase(&cc, opt)
		fmt.Printf("replay try %d: violation=%q inconclusive=%q\n  %s\n", i+1, o.violation, o.inconclusive, strings.Join(o.trace, "\n  "))
		if o.violation != "" {
			t.Fatalf("C06 violated on replay try %d: %s\n  case: %s\n%s", i+1, o.violation, c.summary(), tail(o.logTail, 3000))
		}
	}
}

// ---------------------------------------------------------------- recorded findings

// With one replica, raft hands a proposed entry to the apply loop in the same Ready that
// is to persist it, before the WAL save (node/raft.go processReady: publishEntries, then
// persistRaftState); the apply loop answers the client without waiting for the save. A
// death between the answer and the save loses an acknowledged write. Minimal input: one
// client, INCR only, the raft loop held at ready.before_persist for 60 ms, then death.
func TestKnownAckBeforeWAL(t *testing.T) {
	needBinary()
	known.Probe(t, findingAckBeforeWAL, func() (bool, string) {
		var ops []Op
		for i := 0; i < 40; i++ {
			ops = append(ops, Op{[]string{"incr", table + ":an0"}})
		}
		for try := 0; try < 3; try++ {
			c := &Case{Cfg: defaultCfg("pebble"), Streams: [3][]Op{ops, nil, nil},
				Rounds: []Round{{Crash: CrashSpec{Kind: "point", Point: "ready.before_persist", K: 25, DelayMs: 60}, Upto: [3]int{40, 0, 0}}}}
			o := runCase(c, runOpts{tolerateKF: false, streams: 1})
			recKnown.Record(stats.HashString(c.canonical()), false, []string{"probe:" + findingAckBeforeWAL}, nil)
			if o.violation != "" {
				return true, "single replica, INCR x n, raft loop stalled 60 ms before the WAL save of a Ready, then killed: " + o.violation
			}
		}
		return false, ""
	})
}

func needBinary() {
	if _, err := nodeBinary(); err != nil {
		fmt.Printf("HARNESS: cannot build verifkv: %v\n", err)
		stats.FlushAll()
		os.Exit(2)
	}
}

func simpleOps(n int, mk func(i int) Op) []Op {
	var ops []Op
	for i := 0; i < n; i++ {
		ops = append(ops, mk(i))
	}
	return ops
}

// restoreFromPath (rockredis/rockredis.go) empties the live engine directory and then
// copies the checkpoint in file by file. A death inside the copy loop leaves CURRENT
// without its MANIFEST; the engine is opened by NewKVNode before startRaft would restore the
// checkpoint again, the open fails, and the namespace does not come back until somebody
// removes the engine directory by hand. Minimal input: any history with one snapshot, a
// restart, death at the k-th copied file, another restart.
func TestKnownCrashInCheckpointRestore(t *testing.T) {
	needBinary()
	known.Probe(t, findingRestoreCrash, func() (bool, string) {
		ops := simpleOps(45, func(i int) Op { return Op{[]string{"set", table + ":ak0", fmt.Sprintf("a%d", i)}} })
		for _, eng := range []string{"pebble", "rocksdb"} {
			for k := 1; k <= 9; k++ {
				c := &Case{Cfg: defaultCfg(eng), Streams: [3][]Op{ops, nil, nil},
					Rounds: []Round{
						{Crash: CrashSpec{Kind: "kill", AfterAcks: 45}, Upto: [3]int{45, 0, 0}},
						{Crash: CrashSpec{Kind: "point", Point: "restore.copying", K: k}, Upto: [3]int{45, 0, 0}}}}
				o := runCase(c, runOpts{barrier: true, streams: 1})
				recKnown.Record(stats.HashString(c.canonical()), false, []string{"probe:" + findingRestoreCrash}, nil)
				if o.violation != "" && strings.Contains(o.violation, "needs manual repair") {
					return true, fmt.Sprintf("engine %s, death before copying file #%d of the checkpoint during the restore at start: %s", eng, k, tail(o.violation, 300))
				}
			}
		}
		return false, ""
	})
}

// applyEntries (node/node.go) marks the replay finished when the loop passes the last
// replayed index, before the batch holding the replayed SET/DEL/HMSET... is committed to
// the engine, so IsNsNodeFullReady turns true and the leader answers reads that miss
// acknowledged writes until CommitBatch has run. Minimal input: SET x n, kill, restart
// with the apply loop held at apply.before_commit_batch of the replay batch.
func TestKnownReadyBeforeReplayCommitted(t *testing.T) {
	needBinary()
	known.Probe(t, findingReadyTooEarly, func() (bool, string) {
		ops := simpleOps(30, func(i int) Op { return Op{[]string{"set", table + ":ak0", fmt.Sprintf("a%d", i)}} })
		for try := 0; try < 3; try++ {
			c := &Case{Cfg: defaultCfg("pebble"), Streams: [3][]Op{ops, nil, nil},
				Rounds: []Round{
					{Crash: CrashSpec{Kind: "kill", AfterAcks: 30, ExtraUs: 20000}, Upto: [3]int{30, 0, 0}},
					{Crash: CrashSpec{Kind: "point", Point: "apply.before_commit_batch", K: 1, DelayMs: 1500}, Upto: [3]int{30, 0, 0}}}}
			o := runCase(c, runOpts{barrier: false, streams: 1})
			recKnown.Record(stats.HashString(c.canonical()), false, []string{"probe:" + findingReadyTooEarly}, nil)
			if o.violation != "" && strings.Contains(o.violation, "matches neither") {
				return true, "SET x 30, kill -9, restart with the apply loop held before CommitBatch of the replayed batch; read at full-ready: " + tail(o.violation, 300)
			}
		}
		return false, ""
	})
}

// The apply loop waits for a checkpoint only until a 20 ms timer fires (engine/*_eng.go
// Save: time.AfterFunc(20ms, close(notify)); rockredis BackupInfo.WaitReady), not until the
// engine has taken its consistent cut. If the checkpoint needs longer to reach the cut
// (loaded machine, slow disk), entries applied after the snapshot index are inside the
// checkpoint named by that index; a restart restores it and replays them a second time.
// Minimal input: INCR x n with the engine's Checkpoint call delayed by 35 ms, kill, restart.
func TestKnownCheckpointCutAfterApplyResumed(t *testing.T) {
	needBinary()
	known.Probe(t, findingCkptRace, func() (bool, string) {
		ops := simpleOps(150, func(i int) Op { return Op{[]string{"incr", table + ":an0"}} })
		for _, eng := range []string{"pebble", "rocksdb"} {
			for try := 0; try < 2; try++ {
				c := &Case{Cfg: defaultCfg(eng), Streams: [3][]Op{ops, nil, nil},
					Rounds: []Round{{Crash: CrashSpec{Kind: "kill", AfterAcks: 150, ExtraUs: 150000, Stall: "ckpt.engine_begin:0:35"}, Upto: [3]int{150, 0, 0}}}}
				o := runCase(c, runOpts{barrier: true, tolerateKF: true, streams: 1})
				recKnown.Record(stats.HashString(c.canonical()), false, []string{"probe:" + findingCkptRace}, nil)
				if o.violation != "" && strings.Contains(o.violation, "matches neither") {
					return true, fmt.Sprintf("engine %s, INCR x 150 acknowledged, every engine checkpoint call delayed by 35 ms, kill -9, restart: %s", eng, tail(o.violation, 260))
				}
			}
		}
		return false, ""
	})
}

// The reference model counts HyperLogLog keys as exact sets. That is only right while the
// elements do not collide in the implementation's sparse representation: every element the
// generator can draw (<stream><0..209>) is added here one by one and must be counted exactly.
func TestKnownHLLPoolExact(t *testing.T) {
	sim, err := simkv.New(simkv.Options{Engine: "mem"})
	if err != nil {
		fmt.Printf("HARNESS: %v\n", err)
		os.Exit(2)
	}
	defer sim.Close()
	for _, id := range streamIDs {
		key := nsPrefix + table + ":" + id + "p"
		for i := 0; i < 210; i++ {
			a := sim.Do("pfadd", key, fmt.Sprintf("%s%d", id, i)).One()
			c := sim.Do("pfcount", key).One()
			if a.Kind != 'i' || a.I != 1 || c.Kind != 'i' || c.I != int64(i+1) {
				fmt.Printf("HARNESS: the HyperLogLog element pool is not counted exactly: after %d distinct elements of stream %s PFADD -> %s, PFCOUNT -> %s\n", i+1, id, a.String(), c.String())
				os.Exit(2)
			}
		}
	}
}
