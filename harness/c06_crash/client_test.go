package c06

// Redis-protocol clients, per-stream bookkeeping of acknowledged / in-flight writes, and
// the reference-model oracle for the logical dump after a restart.

import (
	"bufio"
	"fmt"
	"io"
	"net"
	"strconv"
	"strings"
	"sync/atomic"
	"time"

	"verifharness/lib/model"
	"verifharness/lib/resp"
)

const nsPrefix = "default:"
const table = "c06"

// Op is one write command: Args[0] is the lower-case command name, keys are "c06:<key>"
// (the namespace prefix is added on the wire).
type Op struct {
	Args []string `json:"a"`
}

func (o Op) String() string { return strings.Join(o.Args, " ") }

// wire builds the argument vector as sent: namespace prefix on every key argument.
func (o Op) wire() []string {
	out := make([]string, len(o.Args))
	copy(out, o.Args)
	switch o.Args[0] {
	case "del":
		for i := 1; i < len(out); i++ {
			out[i] = nsPrefix + out[i]
		}
	default:
		out[1] = nsPrefix + out[1]
	}
	return out
}

// ---------------------------------------------------------------- RESP

type conn struct {
	c net.Conn
	r *bufio.Reader
}

func dial(addr string) (*conn, error) {
	c, err := net.DialTimeout("tcp", addr, 3*time.Second)
	if err != nil {
		return nil, err
	}
	return &conn{c: c, r: bufio.NewReader(c)}, nil
}

func (c *conn) close() { c.c.Close() }

func (c *conn) send(args []string) error {
	var b strings.Builder
	b.WriteString("*" + strconv.Itoa(len(args)) + "\r\n")
	for _, a := range args {
		b.WriteString("$" + strconv.Itoa(len(a)) + "\r\n" + a + "\r\n")
	}
	c.c.SetWriteDeadline(time.Now().Add(20 * time.Second))
	_, err := io.WriteString(c.c, b.String())
	return err
}

func (c *conn) line() (string, error) {
	l, err := c.r.ReadString('\n')
	if err != nil {
		return "", err
	}
	if len(l) < 2 || l[len(l)-2] != '\r' {
		return "", fmt.Errorf("malformed line %q", l)
	}
	return l[:len(l)-2], nil
}

func (c *conn) recv(timeout time.Duration) (resp.Val, error) {
	c.c.SetReadDeadline(time.Now().Add(timeout))
	return c.value()
}

func (c *conn) value() (resp.Val, error) {
	l, err := c.line()
	if err != nil {
		return resp.Val{}, err
	}
	if l == "" {
		return resp.Val{}, fmt.Errorf("empty reply line")
	}
	switch l[0] {
	case '+':
		return resp.Status(l[1:]), nil
	case '-':
		return resp.Err(l[1:]), nil
	case ':':
		n, err := strconv.ParseInt(l[1:], 10, 64)
		if err != nil {
			return resp.Val{}, err
		}
		return resp.Int(n), nil
	case '$':
		n, err := strconv.Atoi(l[1:])
		if err != nil {
			return resp.Val{}, err
		}
		if n < 0 {
			return resp.Nil(), nil
		}
		buf := make([]byte, n+2)
		if _, err := io.ReadFull(c.r, buf); err != nil {
			return resp.Val{}, err
		}
		return resp.Bulk(string(buf[:n])), nil
	case '*':
		n, err := strconv.Atoi(l[1:])
		if err != nil {
			return resp.Val{}, err
		}
		if n < 0 {
			return resp.Nil(), nil
		}
		a := make([]resp.Val, 0, n)
		for i := 0; i < n; i++ {
			v, err := c.value()
			if err != nil {
				return resp.Val{}, err
			}
			a = append(a, v)
		}
		return resp.Arr(a...), nil
	}
	return resp.Val{}, fmt.Errorf("malformed reply %q", l)
}

// ---------------------------------------------------------------- key pool

// Every stream owns a disjoint, fixed pool of keys; the dump reads every key of the pool
// (written or not), so a key that was never written must read as absent.
type poolKey struct {
	kind string // kv, hash, list, set, zset
	key  string // "c06:<name>"
}

func streamPool(id string) []poolKey {
	var out []poolKey
	for i := 0; i < 4; i++ {
		out = append(out, poolKey{"kv", fmt.Sprintf("%s:%sk%d", table, id, i)})
	}
	for i := 0; i < 2; i++ {
		out = append(out, poolKey{"kv", fmt.Sprintf("%s:%sn%d", table, id, i)}) // counters
		out = append(out, poolKey{"kv", fmt.Sprintf("%s:%sa%d", table, id, i)}) // append targets
		out = append(out, poolKey{"hash", fmt.Sprintf("%s:%sh%d", table, id, i)})
		out = append(out, poolKey{"list", fmt.Sprintf("%s:%sl%d", table, id, i)})
		out = append(out, poolKey{"set", fmt.Sprintf("%s:%ss%d", table, id, i)})
		out = append(out, poolKey{"zset", fmt.Sprintf("%s:%sz%d", table, id, i)})
		out = append(out, poolKey{"hll", fmt.Sprintf("%s:%sp%d", table, id, i)})
	}
	return out
}

func readCmd(k poolKey) []string {
	switch k.kind {
	case "kv":
		return []string{"get", k.key}
	case "hash":
		return []string{"hgetall", k.key}
	case "list":
		return []string{"lrange", k.key, "0", "-1"}
	case "set":
		return []string{"smembers", k.key}
	case "hll":
		return []string{"pfcount", k.key}
	default:
		return []string{"zrange", k.key, "0", "-1", "withscores"}
	}
}

// ---------------------------------------------------------------- streams

type ackedOp struct {
	op     Op
	inc    int   // incarnation that acknowledged it
	sendTs int64 // unix ns just before the command was written
	ackTs  int64 // unix ns just after the reply was read
	// localNoop: answered by the leader's pre-read without entering the log (SADD of a member,
	// SREM/ZREM of a non-member, LPOP of an empty list: node/*.go answer 0/nil without proposing)
	localNoop bool
}

func isLocalNoop(op Op, v resp.Val) bool {
	switch op.Args[0] {
	case "sadd", "srem", "zrem":
		return v.Kind == 'i' && v.I == 0
	case "lpop":
		return v.Kind == 'n'
	}
	return false
}

type stream struct {
	id      string
	applied []ackedOp // acknowledged (or resolved-as-applied) writes, in order
	pending *ackedOp  // sent, outcome unknown (no reply / error reply / timeout); at most one
	live    *model.Model
	next    int // index of the next op of the history to issue
}

func newStream(id string) *stream { return &stream{id: id, live: model.New()} }

func buildModel(ops []ackedOp, extra *ackedOp) *model.Model {
	m := model.New()
	for _, a := range ops {
		m.Apply(a.sendTs, a.sendTs/1e9, a.op.Args)
	}
	if extra != nil {
		m.Apply(extra.sendTs, extra.sendTs/1e9, extra.op.Args)
	}
	return m
}

func dumpModel(m *model.Model, pool []poolKey) []string {
	now := time.Now().Unix()
	out := make([]string, len(pool))
	for i, k := range pool {
		out[i] = m.Apply(0, now, readCmd(k)).String()
	}
	return out
}

// runResult of one stream over one segment.
type runResult struct {
	issued     int
	acked      int
	errReply   string // first error reply (the op becomes pending)
	timeout    bool
	replyDiff  string // acknowledged reply differs from the model's (a violation)
	connFailed bool   // could not even connect (process already dead)
}

// runStream issues ops[s.next:upto] sequentially on one connection until the segment is
// done, the connection breaks (process died) or an op's outcome becomes unknown.
func runStream(s *stream, ops []Op, upto int, addr string, inc int, acks *int64, stop <-chan struct{}) runResult {
	var res runResult
	if s.pending != nil || s.next >= upto {
		return res
	}
	c, err := dial(addr)
	if err != nil {
		res.connFailed = true
		return res
	}
	defer c.close()
	for s.next < upto {
		select {
		case <-stop:
			return res
		default:
		}
		op := ops[s.next]
		rec := ackedOp{op: op, inc: inc, sendTs: time.Now().UnixNano()}
		s.next++
		res.issued++
		if err := c.send(op.wire()); err != nil {
			s.pending = &rec
			return res
		}
		v, err := c.recv(30 * time.Second)
		rec.ackTs = time.Now().UnixNano()
		if err != nil {
			if ne, ok := err.(net.Error); ok && ne.Timeout() {
				res.timeout = true
			}
			s.pending = &rec
			return res
		}
		if v.IsErr() {
			// an error reply to a well-formed write says nothing certain about the log
			res.errReply = v.S
			s.pending = &rec
			return res
		}
		want := s.live.Apply(rec.sendTs, rec.sendTs/1e9, op.Args)
		rec.localNoop = isLocalNoop(op, v)
		s.applied = append(s.applied, rec)
		res.acked++
		atomic.AddInt64(acks, 1)
		// PFADD's reply (did a register change) is not compared: for an element that is already
		// counted the implementation answers 1 or 0 depending on whether its sparse buffer was
		// merged since (flush timing), which no listed property fixes; the resulting count is compared
		if op.Args[0] != "pfadd" && (!resp.Equal(v, want) || v.String() != want.String()) {
			res.replyDiff = fmt.Sprintf("stream %s op #%d %q: reply %s, model %s", s.id, s.next-1, op.String(), v.String(), want.String())
			return res
		}
	}
	return res
}

// dumpNode reads every pool key through the redis API.
func dumpNode(addr string, pool []poolKey) ([]string, error) {
	c, err := dial(addr)
	if err != nil {
		return nil, err
	}
	defer c.close()
	out := make([]string, len(pool))
	for i, k := range pool {
		cmd := readCmd(k)
		w := append([]string{}, cmd...)
		w[1] = nsPrefix + w[1]
		var v resp.Val
		// a read refused with an error (e.g. leadership not yet published to the read path) is retried; it is never data
		for try := 0; ; try++ {
			if err := c.send(w); err != nil {
				return nil, err
			}
			v, err = c.recv(20 * time.Second)
			if err != nil {
				return nil, err
			}
			if !v.IsErr() {
				break
			}
			if try >= 100 {
				return nil, fmt.Errorf("read %v keeps failing: %s", cmd, v.S)
			}
			time.Sleep(50 * time.Millisecond)
		}
		out[i] = v.String()
	}
	return out, nil
}

type candidate struct {
	name string
	ops  []ackedOp
	plus *ackedOp
}

// resolve compares the node's dump of one stream with the admissible states and fixes the
// stream's history to the one that matched. loseIdx >= 0 is the known-finding tolerance: the
// acknowledged write at that index (the last one that went through the log) may be missing.
func (s *stream) resolve(actual []string, pool []poolKey, loseIdx int) (matched string, detail string) {
	var cands []candidate
	if s.pending != nil {
		cands = append(cands, candidate{"acked+inflight", s.applied, s.pending})
	}
	cands = append(cands, candidate{"acked", s.applied, nil})
	if loseIdx >= 0 && loseIdx < len(s.applied) {
		ops := append([]ackedOp{}, s.applied[:loseIdx]...)
		ops = append(ops, s.applied[loseIdx+1:]...)
		cands = append(cands, candidate{"acked-minus-last-logged(known finding)", ops, nil})
	}
	var firstDiff string
	for _, c := range cands {
		want := dumpModel(buildModel(c.ops, c.plus), pool)
		diff := ""
		for i := range want {
			if want[i] != actual[i] {
				diff = fmt.Sprintf("%v: node %s, model(%s) %s", readCmd(pool[i]), actual[i], c.name, want[i])
				break
			}
		}
		if diff == "" {
			ops := append([]ackedOp{}, c.ops...)
			if c.plus != nil {
				ops = append(ops, *c.plus)
			}
			s.applied = ops
			s.pending = nil
			s.live = buildModel(s.applied, nil)
			return c.name, ""
		}
		if c.name == "acked" {
			firstDiff = diff
		}
	}
	return "", firstDiff
}

// barrierWrite has one write acknowledged: the apply loop is sequential, so everything
// logged before it has then reached the engine.
func barrierWrite(addr string, inc int) error {
	c, err := dial(addr)
	if err != nil {
		return err
	}
	defer c.close()
	for try := 0; ; try++ {
		if err := c.send([]string{"set", nsPrefix + table + ":barrier", strconv.Itoa(inc)}); err != nil {
			return err
		}
		v, err := c.recv(30 * time.Second)
		if err != nil {
			return err
		}
		if !v.IsErr() {
			return nil
		}
		if try >= 100 {
			return fmt.Errorf("barrier write keeps failing: %s", v.S)
		}
		time.Sleep(50 * time.Millisecond)
	}
}

func waitDead(p *proc, d time.Duration) bool {
	select {
	case <-p.done:
		return true
	case <-time.After(d):
		return false
	}
}
