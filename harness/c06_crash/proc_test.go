package c06

// Process plumbing for C06: building the verifkv binary from the tree under test,
// exclusive port blocks, starting / killing / polling one data-node process, and reading
// the crash-point log written by internal/verifhook.

import (
	"encoding/json"
	"fmt"
	"hash/fnv"
	"io"
	"net"
	"net/http"
	"os"
	"os/exec"
	"path/filepath"
	"sort"
	"strconv"
	"strings"
	"sync"
	"syscall"
	"time"

	"github.com/youzan/ZanRedisDB/snap"
	"github.com/youzan/ZanRedisDB/wal"
)

// ---------------------------------------------------------------- build

var (
	buildOnce sync.Once
	binPath   string
	buildErr  error
)

func harnessDir() string {
	if r := os.Getenv("VERIF_ROOT"); r != "" {
		return filepath.Join(r, "harness")
	}
	return "/verif/harness"
}

func scratchRoot() string {
	if s := os.Getenv("VERIF_SCRATCH"); s != "" {
		os.MkdirAll(s, 0755)
		return s
	}
	return "/dev/shm"
}

// sharedDir is common to all shards of one ./check invocation (the directory above
// $VERIF_OUT), so the node binary is linked once per invocation, always from the tree
// under test. Outside the driver it is a private directory.
func sharedDir() string {
	if o := os.Getenv("VERIF_OUT"); o != "" {
		return filepath.Dir(o)
	}
	d, _ := os.MkdirTemp(scratchRoot(), "c06-bin-")
	return d
}

func flockFile(path string, nonblock bool) (*os.File, error) {
	f, err := os.OpenFile(path, os.O_CREATE|os.O_RDWR, 0644)
	if err != nil {
		return nil, err
	}
	how := syscall.LOCK_EX
	if nonblock {
		how |= syscall.LOCK_NB
	}
	if err := syscall.Flock(int(f.Fd()), how); err != nil {
		f.Close()
		return nil, err
	}
	return f, nil
}

// nodeBinary builds cmd/verifkv with -tags verif against /repo (or $VERIF_REPO, through a
// -modfile exactly as build() in ../check does for the test binaries).
func nodeBinary() (string, error) {
	buildOnce.Do(func() {
		dir := sharedDir()
		lk, err := flockFile(filepath.Join(dir, "verifkv.lock"), false)
		if err != nil {
			buildErr = err
			return
		}
		defer lk.Close()
		out := filepath.Join(dir, "verifkv")
		if st, err := os.Stat(out); err == nil && st.Size() > 0 {
			binPath = out
			return
		}
		tmp := out + ".tmp"
		args := []string{"build", "-tags", "verif", "-o", tmp}
		repo := os.Getenv("VERIF_REPO")
		if repo != "" {
			if rp, err := filepath.EvalSymlinks(repo); err == nil {
				repo = rp
			}
		}
		if repo != "" && repo != "/repo" {
			mod, err := os.ReadFile(filepath.Join(harnessDir(), "go.mod"))
			if err != nil {
				buildErr = err
				return
			}
			ms := strings.Replace(string(mod), "github.com/youzan/ZanRedisDB => /repo", "github.com/youzan/ZanRedisDB => "+repo, 1)
			mf := filepath.Join(dir, "verifkv.mod")
			if err := os.WriteFile(mf, []byte(ms), 0644); err != nil {
				buildErr = err
				return
			}
			sum, _ := os.ReadFile(filepath.Join(harnessDir(), "go.sum"))
			os.WriteFile(filepath.Join(dir, "verifkv.sum"), sum, 0644)
			args = append(args, "-modfile", mf)
		}
		args = append(args, "./cmd/verifkv")
		cmd := exec.Command("go", args...)
		cmd.Dir = harnessDir()
		cmd.Env = append(os.Environ(), "GOFLAGS=-mod=mod", "GOPROXY=off", "GOSUMDB=off", "GOTOOLCHAIN=local", "CGO_ENABLED=1")
		b, err := cmd.CombinedOutput()
		if err != nil {
			buildErr = fmt.Errorf("go %s: %v\n%s", strings.Join(args, " "), err, tail(string(b), 4000))
			return
		}
		if err := os.Rename(tmp, out); err != nil {
			buildErr = err
			return
		}
		binPath = out
	})
	return binPath, buildErr
}

func tail(s string, n int) string {
	if len(s) <= n {
		return s
	}
	return "..." + s[len(s)-n:]
}

// ---------------------------------------------------------------- ports

// C06 uses loopback ports 26000-31999 (C04 owns 21000-25999; 32768+ is the ephemeral
// range) in blocks of 8. A block is owned through an flock'ed file for the life of the
// test process, and every port is probed before a node is started on it.
const (
	portLo     = 26000
	portBlocks = 750
	portDir    = "/dev/shm/verif-c06-ports"
)

type portBlock struct {
	base int
	lock *os.File
}

func (b *portBlock) release() {
	if b.lock != nil {
		b.lock.Close()
		b.lock = nil
	}
}

func portFree(p int) bool {
	ln, err := net.Listen("tcp", "127.0.0.1:"+strconv.Itoa(p))
	if err != nil {
		return false
	}
	ln.Close()
	ln, err = net.Listen("tcp", ":"+strconv.Itoa(p))
	if err != nil {
		return false
	}
	ln.Close()
	return true
}

func blockFree(base int) bool {
	for i := 0; i < 7; i++ {
		if !portFree(base + i) {
			return false
		}
	}
	return true
}

func allocPorts(salt string) (*portBlock, error) {
	os.MkdirAll(portDir, 0777)
	h := fnv.New32a()
	h.Write([]byte(salt + os.Getenv("VERIF_SHARD") + strconv.Itoa(os.Getpid())))
	start := int(h.Sum32() % portBlocks)
	for n := 0; n < portBlocks; n++ {
		i := (start + n) % portBlocks
		lk, err := flockFile(filepath.Join(portDir, strconv.Itoa(i)+".lock"), true)
		if err != nil {
			continue
		}
		base := portLo + 8*i
		if !blockFree(base) {
			lk.Close()
			continue
		}
		return &portBlock{base: base, lock: lk}, nil
	}
	return nil, fmt.Errorf("no free port block in %d-%d", portLo, portLo+8*portBlocks)
}

// ---------------------------------------------------------------- node process

type nodeCfg struct {
	Engine      string `json:"engine"`
	SnapCount   int    `json:"snap_count"`
	SnapCatchup int    `json:"snap_catchup"`
	KeepWAL     int    `json:"keep_wal"`
	KeepBackup  int    `json:"keep_backup"`
	WALSegment  int64  `json:"wal_segment"`
	OptFsync    bool   `json:"optimized_fsync"` // namespace option optimized_fsync (the default of namespaces created through the placement driver)
}

func defaultCfg(engine string) nodeCfg {
	return nodeCfg{Engine: engine, SnapCount: 20, SnapCatchup: 5, KeepWAL: 2, KeepBackup: 2, WALSegment: 4096}
}

// nodeDir is the world of one (history, crash plan) run: data directory, config, logs.
type nodeDir struct {
	root  string
	ports *portBlock
	cfg   nodeCfg
	inc   int // incarnations started so far
}

func (d *nodeDir) redisAddr() string { return "127.0.0.1:" + strconv.Itoa(d.ports.base) }
func (d *nodeDir) ctlURL() string {
	return "http://127.0.0.1:" + strconv.Itoa(d.ports.base+4) + "/status"
}
func (d *nodeDir) confPath() string { return filepath.Join(d.root, "conf.json") }
func (d *nodeDir) logPath(inc int) string {
	return filepath.Join(d.root, fmt.Sprintf("log-%d.txt", inc))
}
func (d *nodeDir) crashLog(inc int) string {
	return filepath.Join(d.root, fmt.Sprintf("crash-%d.log", inc))
}

func newNodeDir(cfg nodeCfg, ports *portBlock) (*nodeDir, error) {
	root, err := os.MkdirTemp(scratchRoot(), "c06-node-")
	if err != nil {
		return nil, err
	}
	d := &nodeDir{root: root, ports: ports, cfg: cfg}
	data := filepath.Join(root, "data")
	if err := os.MkdirAll(data, 0755); err != nil {
		return nil, err
	}
	// the machine id an etcd-registered node would have stored on first start
	if err := os.WriteFile(filepath.Join(data, "myid"), []byte("1"), 0644); err != nil {
		return nil, err
	}
	b := ports.base
	raft := fmt.Sprintf("http://127.0.0.1:%d", b+3)
	conf := map[string]interface{}{
		"server": map[string]interface{}{
			"cluster_id": "verif-c06", "broadcast_addr": "127.0.0.1",
			"redis_api_port": b, "http_api_port": b + 1, "grpc_api_port": b + 2, "profile_port": -1,
			"metric_addr": fmt.Sprintf("127.0.0.1:%d", b+5), "data_dir": data, "local_raft_addr": raft,
			"election_tick": 5, "tick_ms": 100, "keep_wal": cfg.KeepWAL, "keep_backup": cfg.KeepBackup,
			"rocksdb_opts": map[string]interface{}{"engine_type": cfg.Engine},
		},
		"namespace": map[string]interface{}{
			"name": "default-0", "base_name": "default", "eng_type": "rockredis", "partition_num": 1,
			"snap_count": cfg.SnapCount, "snap_catchup": cfg.SnapCatchup, "replicator": 1, "optimized_fsync": cfg.OptFsync,
			"raft_group_conf": map[string]interface{}{"group_id": 1000,
				"seed_nodes": []interface{}{map[string]interface{}{"node_id": 1, "replica_id": 1, "raft_addr": raft}}},
			"expiration_policy": "wait_compact", "data_version": "value_header_v1",
		},
		"replica_id": 1, "snap_syncs": []interface{}{}, "ctl_port": b + 4, "wal_segment_bytes": cfg.WALSegment,
	}
	js, _ := json.Marshal(conf)
	if err := os.WriteFile(d.confPath(), js, 0644); err != nil {
		return nil, err
	}
	return d, nil
}

func (d *nodeDir) remove() { os.RemoveAll(d.root) }

type proc struct {
	cmd   *exec.Cmd
	done  chan struct{}
	state *os.ProcessState
	inc   int
	dir   *nodeDir
}

// start launches the next incarnation on the same directory. crashEnv is the value of
// VERIF_CRASH ("" = none). Nothing but the process itself touches the data directory.
func (d *nodeDir) start(crashEnv, stallEnv string) (*proc, error) {
	bin, err := nodeBinary()
	if err != nil {
		return nil, err
	}
	deadline := time.Now().Add(5 * time.Second)
	for !blockFree(d.ports.base) {
		if time.Now().After(deadline) {
			return nil, fmt.Errorf("ports %d.. still busy", d.ports.base)
		}
		time.Sleep(20 * time.Millisecond)
	}
	d.inc++
	lf, err := os.OpenFile(d.logPath(d.inc), os.O_CREATE|os.O_WRONLY|os.O_APPEND, 0644)
	if err != nil {
		return nil, err
	}
	cmd := exec.Command(bin, "-config", d.confPath())
	cmd.Stdout, cmd.Stderr = lf, lf
	env := []string{}
	for _, e := range os.Environ() {
		if strings.HasPrefix(e, "VERIF_CRASH") || strings.HasPrefix(e, "VERIF_STALL") {
			continue
		}
		env = append(env, e)
	}
	env = append(env, "VERIF_CRASH_LOG="+d.crashLog(d.inc))
	if crashEnv != "" {
		env = append(env, "VERIF_CRASH="+crashEnv)
	}
	if stallEnv != "" {
		env = append(env, "VERIF_STALL="+stallEnv)
	}
	cmd.Env = env
	cmd.SysProcAttr = &syscall.SysProcAttr{Pdeathsig: syscall.SIGKILL}
	if err := cmd.Start(); err != nil {
		lf.Close()
		return nil, err
	}
	lf.Close()
	p := &proc{cmd: cmd, done: make(chan struct{}), inc: d.inc, dir: d}
	go func() {
		cmd.Wait()
		p.state = cmd.ProcessState
		close(p.done)
	}()
	return p, nil
}

func (p *proc) dead() bool {
	select {
	case <-p.done:
		return true
	default:
		return false
	}
}

func (p *proc) kill() {
	p.cmd.Process.Signal(syscall.SIGKILL)
	<-p.done
}

// exitKind: "sigkill" (hook or harness), "signal:<n>", "exit:<code>"
func (p *proc) exitKind() string {
	<-p.done
	if p.state == nil {
		return "unknown"
	}
	if ws, ok := p.state.Sys().(syscall.WaitStatus); ok {
		if ws.Signaled() {
			if ws.Signal() == syscall.SIGKILL {
				return "sigkill"
			}
			return "signal:" + ws.Signal().String()
		}
		return "exit:" + strconv.Itoa(ws.ExitStatus())
	}
	return "unknown"
}

type nodeStatus struct {
	Ready     bool   `json:"ready"`
	FullReady bool   `json:"full_ready"`
	IsLead    bool   `json:"is_lead"`
	Lead      uint64 `json:"lead"`
	Applied   uint64 `json:"applied"`
	SnapIndex uint64 `json:"snap_index"`
	Pid       int    `json:"pid"`
}

var httpc = &http.Client{Timeout: 2 * time.Second, Transport: &http.Transport{DisableKeepAlives: true}}

func (p *proc) status() (*nodeStatus, error) {
	r, err := httpc.Get(p.dir.ctlURL())
	if err != nil {
		return nil, err
	}
	defer r.Body.Close()
	b, err := io.ReadAll(r.Body)
	if err != nil {
		return nil, err
	}
	var st nodeStatus
	if err := json.Unmarshal(b, &st); err != nil {
		return nil, fmt.Errorf("%v: %q", err, b)
	}
	if st.Pid != p.cmd.Process.Pid {
		return nil, fmt.Errorf("status answered by pid %d, expected %d", st.Pid, p.cmd.Process.Pid)
	}
	return &st, nil
}

type readyResult struct {
	ready    bool
	died     bool
	progress bool // the applied index moved during the last wait window
	last     *nodeStatus
	waited   time.Duration
}

// waitReady polls until the node is started, has replayed its log, and leads.
func (p *proc) waitReady(limit time.Duration) readyResult {
	t0 := time.Now()
	var res readyResult
	var firstApplied uint64
	seen := false
	sleep := 5 * time.Millisecond
	for {
		if p.dead() {
			res.died = true
			break
		}
		st, err := p.status()
		if err == nil {
			if !seen {
				firstApplied, seen = st.Applied, true
			} else if st.Applied != firstApplied {
				res.progress = true
			}
			res.last = st
			if st.Ready && st.FullReady && st.IsLead {
				res.ready = true
				break
			}
		}
		if time.Since(t0) > limit {
			break
		}
		time.Sleep(sleep)
		if sleep < 50*time.Millisecond {
			sleep += 5 * time.Millisecond
		}
	}
	res.waited = time.Since(t0)
	return res
}

// ---------------------------------------------------------------- crash-point log

type hookLine struct {
	ts   int64
	name string
}

func readCrashLog(path string) []hookLine {
	b, err := os.ReadFile(path)
	if err != nil {
		return nil
	}
	var out []hookLine
	for _, l := range strings.Split(string(b), "\n") {
		sp := strings.IndexByte(l, ' ')
		if sp <= 0 {
			continue
		}
		ts, err := strconv.ParseInt(l[:sp], 10, 64)
		if err != nil {
			continue
		}
		out = append(out, hookLine{ts: ts, name: l[sp+1:]})
	}
	return out
}

func countPoints(lines []hookLine) map[string]int {
	m := map[string]int{}
	for _, l := range lines {
		if !strings.HasPrefix(l.name, "!") {
			m[l.name]++
		}
	}
	return m
}

func hookFired(lines []hookLine) string {
	for _, l := range lines {
		if strings.HasPrefix(l.name, "!crash ") {
			return strings.TrimPrefix(l.name, "!crash ")
		}
	}
	return ""
}

func lastTs(lines []hookLine, name string) int64 {
	var t int64
	for _, l := range lines {
		if l.name == name && l.ts > t {
			t = l.ts
		}
	}
	return t
}

// walSaveProven decides, from the order of the hook lines of the incarnation that died,
// whether the raft Ready that carried a write acknowledged at tAck had finished its WAL
// save. The write's entry was handed to the apply loop before its apply.before_entry line,
// which precedes the acknowledgement; that entry belongs to a Ready not later than the one
// following the last ready.before_advance line before it; that Ready's WAL save is complete
// iff a ready.wal_saved line follows.  (Only used while the known finding
// C06-ack-before-wal-single-replica is open.)
func walSaveProven(lines []hookLine, tAck int64) bool {
	l := -1
	for i, x := range lines {
		if x.name == "apply.before_entry" && x.ts < tAck {
			l = i
		}
	}
	if l < 0 {
		return false
	}
	a := -1
	for i := l; i >= 0; i-- {
		if lines[i].name == "ready.before_advance" {
			a = i
			break
		}
	}
	for i := a + 1; i < len(lines); i++ {
		if lines[i].name == "ready.wal_saved" {
			return true
		}
	}
	return false
}

func sortedKeysInt(m map[string]int) []string {
	ks := make([]string, 0, len(m))
	for k := range m {
		ks = append(ks, k)
	}
	sort.Strings(ks)
	return ks
}

// diagnose reads (never writes) the node's raft directories the way startRaft does, for the
// report of a node that did not come back: startRaft returns some of these errors silently.
func diagnose(d *nodeDir) string {
	var sb strings.Builder
	ns := filepath.Join(d.root, "data", "default-0")
	for _, sub := range []string{"wal-1", "snap-1", "rocksdb_backup", d.cfg.Engine} {
		ents, err := os.ReadDir(filepath.Join(ns, sub))
		sb.WriteString(fmt.Sprintf("%s: ", sub))
		if err != nil {
			sb.WriteString(err.Error())
		}
		for _, e := range ents {
			sz := int64(-1)
			if fi, err := e.Info(); err == nil {
				sz = fi.Size()
			}
			sb.WriteString(fmt.Sprintf("%s(%d) ", e.Name(), sz))
		}
		sb.WriteString("\n")
	}
	snaps, err := wal.ValidSnapshotEntries(filepath.Join(ns, "wal-1"))
	sb.WriteString(fmt.Sprintf("wal.ValidSnapshotEntries: %d markers, err=%v\n", len(snaps), err))
	if len(snaps) > 0 {
		sb.WriteString(fmt.Sprintf("  last marker: term %d index %d\n", snaps[len(snaps)-1].Term, snaps[len(snaps)-1].Index))
	}
	if sn, err := snap.New(filepath.Join(ns, "snap-1")).LoadNewestAvailable(snaps); err != nil {
		sb.WriteString(fmt.Sprintf("snap.LoadNewestAvailable: err=%v\n", err))
	} else {
		sb.WriteString(fmt.Sprintf("snap.LoadNewestAvailable: term %d index %d\n", sn.Metadata.Term, sn.Metadata.Index))
	}
	return sb.String()
}

// rocksdbAssertArtifact: the sandbox's stock librocksdb is built with assertions enabled;
// an abort inside it ("Assertion `...' failed") is a property of that library build, not of
// the code under test.
func rocksdbAssertArtifact(logText string) bool {
	return strings.Contains(logText, "Assertion `") && strings.Contains(logText, "failed")
}

// applyDuringCheckpoint reports whether the hook log of one incarnation shows the apply loop
// working between ckpt.before_save and the matching ckpt.after_save, i.e. the raft apply loop
// was released by the 20 ms timer while the engine checkpoint was still being taken.
func applyDuringCheckpoint(lines []hookLine) bool {
	in := false
	for _, l := range lines {
		switch l.name {
		case "ckpt.before_save":
			in = true
		case "ckpt.after_save":
			in = false
		case "apply.before_entry":
			if in {
				return true
			}
		}
	}
	return false
}
