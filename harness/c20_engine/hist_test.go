package c20

import (
	"bytes"
	"encoding/binary"
	"fmt"
	"io"
	"log"
	"os"
	"sort"
	"strings"
	"testing"

	"github.com/youzan/ZanRedisDB/common"
	"github.com/youzan/ZanRedisDB/engine"
	"pgregory.net/rapid"

	"verifharness/lib/known"
	"verifharness/lib/stats"
)

func TestMain(m *testing.M) {
	log.SetOutput(io.Discard) // pebble's event listener logs through the std logger
	engine.SetLogLevel(common.LOG_ERR)
	if v := memVariant(engineNames()); v != "" {
		if _, ok := engine.VerifSetMemType(v); !ok {
			fmt.Fprintf(os.Stderr, "HARNESS: unknown mem variant %q\n", v)
			os.Exit(3)
		}
	}
	stats.Main(m)
}

var recHist = stats.New("engine_histories",
	"rapid-generated histories (write batches of put/delete/delete-range/merge that are committed, cleared or abandoned; point reads; "+
		"range/limit iterators over all bound/type/direction/offset/count combinations; raw cursor walks; snapshot iterators with a commit while open; "+
		"compaction, close+reopen, checkpoint+open) run on every engine named in C20_ENGINES and compared read by read with a sorted-map reference; "+
		"non-trivial = >=1 committed delete-range or merge AND >=1 reverse range iterator with a closed bound equal to a visible key, compared on every engine of the case")

type stepKind int

const (
	skBatch stepKind = iota
	skPoint
	skRange
	skRaw
	skCompact
	skReopen
	skCheckpoint
)

type segment struct {
	ops    []wop
	probes []*step
	fate   int
}

type step struct {
	kind       stepKind
	useDefault bool
	segs       []segment
	pk         pointKind
	keys       [][]byte
	it         *iterSpec
	rawSnap    bool
	rawIgnDel  bool
	raw        []rawOp
	rawTrig    bool     // a SeekForPrev target equals a visible key
	rawNul     bool     // a seek target and a visible key are in the 0x00-extension relation
	want       []string // reference observations, computed when the step is drawn (the model is advanced at the same time)
}

func (st *step) String() string {
	switch st.kind {
	case skBatch:
		var sb strings.Builder
		if st.useDefault {
			sb.WriteString("batch(default)")
		} else {
			sb.WriteString("batch(new)")
		}
		for _, sg := range st.segs {
			sb.WriteString(" {" + fmtOps(sg.ops) + "}")
			for _, p := range sg.probes {
				sb.WriteString(" <while uncommitted: " + p.String() + ">")
			}
			sb.WriteString([]string{" Commit+Clear", " Write+Clear", " Clear", " (abandoned)"}[sg.fate])
		}
		return sb.String()
	case skPoint:
		var ks []string
		for _, k := range st.keys {
			ks = append(ks, hx(k))
		}
		return pointNames[st.pk] + "(" + strings.Join(ks, ",") + ")"
	case skRange:
		return st.it.String()
	case skRaw:
		var os []string
		for _, o := range st.raw {
			os = append(os, o.String())
		}
		return fmt.Sprintf("GetIterator(withSnap=%v ignoreDel=%v): %s", st.rawSnap, st.rawIgnDel, strings.Join(os, " "))
	case skCompact:
		return "CompactAllRange"
	case skReopen:
		return "CloseEng+OpenEng (persistent engines)"
	case skCheckpoint:
		return "NewCheckpoint+Save, open the checkpoint, dump it"
	}
	return "?"
}

type gen struct {
	t         *rapid.T
	prefix    []byte
	pointOnly bool // keys shorter than 3 bytes allowed, no iterators (rocksdb's prefix extractor needs >= 3 bytes)
	noDR      bool // history free of delete-range (IgnoreDel may then be used)
	lowNoise  bool
	highNoise bool
	snapOK    bool
	pool      [][]byte
	ctr       [][]byte
	noise     [][]byte
	short     [][]byte
	isCtr     map[string]bool
	m         *refModel
	universe  map[string]bool
	labels    map[string]bool

	hasDRorMerge bool

	// open known finding on the radix mem index (keys A and A+0x00+... stored together): such pairs are
	// never written while it is open and mem-radix is among the engines
	avoidNulExt  bool
	written      map[string]bool
	excluded     int64
	droppedOps   int64
	poolRejected int64
}

// poolOK keeps the key pool free of 0x00-extension pairs while the radix finding is open, so that the
// exclusion costs few operations (writable() remains as the safety net for keys derived later).
func (g *gen) poolOK(k []byte) bool {
	if !g.avoidNulExt {
		return true
	}
	for _, w := range g.pool {
		if nulExt(string(w), string(k)) || nulExt(string(k), string(w)) {
			g.poolRejected++
			return false
		}
	}
	return true
}

// writable reports whether key k may be written; with the radix finding open it refuses a key that
// extends, or is extended by, an already written key through a 0x00 byte.
func (g *gen) writable(k []byte) bool {
	if !g.avoidNulExt {
		return true
	}
	for w := range g.written {
		if nulExt(w, string(k)) || nulExt(string(k), w) {
			g.excluded++
			return false
		}
	}
	g.written[string(k)] = true
	return true
}

// nulRelated: t and some visible key are in the 0x00-extension relation
func (g *gen) nulRelated(t []byte) bool {
	if t == nil {
		return false
	}
	for k := range g.m.m {
		if nulExt(k, string(t)) || nulExt(string(t), k) {
			return true
		}
	}
	return false
}

// nulExt: b == a + 0x00 + anything
func nulExt(a, b string) bool {
	return len(b) > len(a) && b[:len(a)] == a && b[len(a)] == 0
}

var prefixes = [][]byte{{0, 0, 0}, {0xff, 0xff, 0xff}, {0x15, 'a', 'b'}, []byte("abc"), {0x16, 0, 1}, {0, 0, 0xff}, {0xff, 0, 0}}

var suffixes = [][]byte{{}, {0}, {0, 0}, {1}, {'a'}, {'a', 0}, {'a', 'b'}, {'b'}, {0xff}, {0xff, 0xff}, {0xfe}, {0xfe, 0xff}, {'a', 0xff}, {0, 0xff}, {'1'}, {'2'}, {'3'}, {'4'}}

var alphabet = []byte{0, 1, 'a', 'b', 0xfe, 0xff}

func add3(p []byte, d int) ([]byte, bool) {
	n := int(p[0])<<16 | int(p[1])<<8 | int(p[2])
	n += d
	if n < 0 || n > 0xffffff {
		return nil, false
	}
	return []byte{byte(n >> 16), byte(n >> 8), byte(n)}, true
}

func (g *gen) name(k []byte) []byte {
	g.universe[string(k)] = true
	return k
}

func newGen(t *rapid.T, names []string) *gen {
	g := &gen{t: t, m: newRef(), universe: map[string]bool{}, labels: map[string]bool{}, isCtr: map[string]bool{}, snapOK: true, written: map[string]bool{}}
	for _, n := range names {
		if n == "mem-radix" && known.Active(findRadixNul) {
			g.avoidNulExt = true
		}
		if n == "mem-btree" || n == "mem-skiplist" {
			// btree: Commit takes the engine write lock an open iterator holds for reading (same goroutine: deadlock);
			// skiplist: iterators are live views, not snapshots. Neither variant is selectable by configuration.
			g.snapOK = false
		}
	}
	if rapid.IntRange(0, 9).Draw(t, "prefixclass") < 8 {
		g.prefix = cp(rapid.SampledFrom(prefixes).Draw(t, "prefix"))
	} else {
		g.prefix = rapid.SliceOfN(rapid.Byte(), 3, 3).Draw(t, "prefixbytes")
	}
	g.pointOnly = rapid.IntRange(0, 9).Draw(t, "pointonly") == 0
	g.noDR = rapid.IntRange(0, 9).Draw(t, "nodr") < 3
	// key pool inside the prefix
	seen := map[string]bool{}
	np := rapid.IntRange(1, 9).Draw(t, "npool")
	for i := 0; i < np; i++ {
		var suf []byte
		if rapid.IntRange(0, 3).Draw(t, "sufclass") > 0 {
			suf = rapid.SampledFrom(suffixes).Draw(t, "suf")
		} else {
			suf = rapid.SliceOfN(rapid.SampledFrom(alphabet), 0, 4).Draw(t, "sufbytes")
		}
		k := append(cp(g.prefix), suf...)
		if !seen[string(k)] && g.poolOK(k) {
			seen[string(k)] = true
			g.pool = append(g.pool, k)
		}
	}
	nc := rapid.IntRange(0, 2).Draw(t, "nctr")
	for i := 0; i < nc; i++ {
		tails := [][]byte{{}, {0}, {0xff}}
		if g.avoidNulExt {
			tails = [][]byte{{}, {1}, {0xff}}
		}
		k := append(append(cp(g.prefix), '#'), tails[i]...)
		g.ctr = append(g.ctr, k)
		g.isCtr[string(k)] = true
	}
	if g.pointOnly {
		// 1-2 byte keys. The empty key is not in the domain: no caller can produce it (every encoded key starts
		// with a type byte and a 2-byte table length) and pebble does not survive it (after Put("") a close+reopen
		// fails with "keys must be added in order", CompactAllRange never returns).
		g.short = [][]byte{{0}, {'a'}, {'a', 'b'}, {0xff, 0xff}, {0xff}, {0, 0}}
		if g.avoidNulExt {
			g.short = g.short[:5]
		}
		g.labels["point_only_short_keys"] = true
	} else {
		if lo, ok := add3(g.prefix, -1); ok && rapid.Bool().Draw(t, "lownoise") {
			g.lowNoise = true
			g.noise = append(g.noise, lo, append(cp(lo), 0xff, 0xff, 0xff, 0xff), append(cp(lo), 'a'))
			if lo2, ok := add3(g.prefix, -2); ok {
				g.noise = append(g.noise, append(cp(lo2), 'z'))
			}
		}
		if hi, ok := add3(g.prefix, 1); ok && rapid.Bool().Draw(t, "highnoise") {
			g.highNoise = true
			g.noise = append(g.noise, hi, append(cp(hi), 'a'))
			if !g.avoidNulExt {
				g.noise = append(g.noise, append(cp(hi), 0))
			}
			if hi2, ok := add3(g.prefix, 300); ok {
				g.noise = append(g.noise, append(cp(hi2), 0, 0))
			}
		}
		if g.lowNoise {
			g.labels["foreign_prefix_keys_below"] = true
		}
		if g.highNoise {
			g.labels["foreign_prefix_keys_above"] = true
		}
	}
	if g.noDR {
		g.labels["history_without_delete_range"] = true
	}
	return g
}

// visible keys inside the prefix, sorted
func (g *gen) visible() [][]byte {
	var out [][]byte
	for _, e := range g.m.sorted() {
		if strings.HasPrefix(e.k, string(g.prefix)) {
			out = append(out, []byte(e.k))
		}
	}
	return out
}

func (g *gen) pick(keys [][]byte, label string) []byte {
	return cp(keys[rapid.IntRange(0, len(keys)-1).Draw(g.t, label)])
}

// anyKey: a key for point reads and single-key writes
func (g *gen) anyKey(label string) []byte {
	c := rapid.IntRange(0, 19).Draw(g.t, label+"_kc")
	switch {
	case c < 2 && len(g.ctr) > 0:
		return g.name(g.pick(g.ctr, label))
	case c < 4 && len(g.noise) > 0:
		return g.name(g.pick(g.noise, label))
	case c < 7 && len(g.short) > 0:
		return g.name(g.pick(g.short, label))
	case c < 9:
		// a neighbour of a pool key that is not in the pool
		k := g.pick(g.pool, label)
		if rapid.Bool().Draw(g.t, label+"_ext") || len(k) == 3 {
			if g.avoidNulExt {
				k = append(k, 1)
			} else {
				k = append(k, 0)
			}
		} else {
			k = k[:len(k)-1]
		}
		if g.isCtr[string(k)] {
			k = append(k, 1)
		}
		return g.name(k)
	}
	return g.name(g.pick(g.pool, label))
}

func (g *gen) value(label string) []byte {
	switch rapid.IntRange(0, 11).Draw(g.t, label+"_vc") {
	case 0:
		return nil
	case 1:
		return []byte{}
	case 2:
		return rapid.SliceOfN(rapid.Byte(), 8, 8).Draw(g.t, label)
	case 3:
		return rapid.SliceOfN(rapid.Byte(), 9, 20).Draw(g.t, label)
	case 4:
		b := rapid.Byte().Draw(g.t, label+"_fill")
		return bytes.Repeat([]byte{b}, rapid.SampledFrom([]int{300, 5000}).Draw(g.t, label+"_len"))
	}
	return rapid.SliceOfN(rapid.Byte(), 1, 7).Draw(g.t, label)
}

func (g *gen) counter(label string) []byte {
	var v uint64
	switch rapid.IntRange(0, 3).Draw(g.t, label+"_cc") {
	case 0:
		v = rapid.Uint64Range(0, 3).Draw(g.t, label)
	case 1:
		v = rapid.SampledFrom([]uint64{1 << 32, 1<<63 - 1, 1 << 63, 1<<64 - 1, 1<<64 - 2}).Draw(g.t, label)
	default:
		v = rapid.Uint64().Draw(g.t, label)
	}
	b := make([]byte, 8)
	binary.LittleEndian.PutUint64(b, v)
	return b
}

// bound: a non-nil key inside the prefix for iterator bounds, seek targets and delete-range ends
func (g *gen) bound(label string) []byte {
	if g.pointOnly {
		all := append(append(append([][]byte{}, g.short...), g.pool...), g.ctr...)
		return g.pick(all, label)
	}
	ex := g.visible()
	c := rapid.IntRange(0, 10).Draw(g.t, label+"_bc")
	switch {
	case c <= 3 && len(ex) > 0:
		return g.pick(ex, label)
	case c == 4:
		return g.pick(g.pool, label)
	case c == 5 && len(ex) > 0:
		return append(g.pick(ex, label), 0) // immediately above a visible key
	case c == 6 && len(ex) > 0:
		k := g.pick(ex, label) // just below a visible key
		if len(k) == 3 {
			return k
		}
		if k[len(k)-1] == 0 {
			return k[:len(k)-1]
		}
		k[len(k)-1]--
		return append(k, 0xff)
	case c == 7:
		return cp(g.prefix) // below everything in the prefix (or equal to its smallest possible key)
	case c == 8:
		return append(cp(g.prefix), 0xff, 0xff, 0xff, 0xff, 0xff, 0xff, 0xff) // above everything in the prefix
	}
	return append(cp(g.prefix), rapid.SliceOfN(rapid.SampledFrom(alphabet), 0, 3).Draw(g.t, label+"_rb")...)
}

// ops draws the operations of one batch segment (everything queued between two Commit/Clear calls).
//
// Domain restriction read from the callers (rockredis, raft/rocksdb_storage.go): inside one batch no caller
// queues a DeleteRange over a key it put or merged earlier in the same batch, nor a Merge on a key it deleted
// (Delete or DeleteRange) earlier in the same batch: delete-ranges clear an old collection version before new
// data is put, and the only merge target (the table key counter) is deleted only by DeleteTableRange's own batch.
// The mem-radix batch evaluates DeleteRange and Merge against committed data only and therefore orders exactly
// these two shapes differently from rocksdb/pebble; they are kept out of the generated histories (counted in
// "dropped_op_outside_caller_domain").
func (g *gen) ops(n int, label string) []wop {
	var out []wop
	segPut := map[string]bool{}
	segDel := map[string]bool{}
	var segDR [][2]string
	inDR := func(k string) bool {
		for _, r := range segDR {
			if k >= r[0] && k < r[1] {
				return true
			}
		}
		return false
	}
	for i := 0; i < n; i++ {
		c := rapid.IntRange(0, 99).Draw(g.t, label+"_op")
		switch {
		case c < 45:
			k := g.anyKey(label + "_pk")
			var v []byte
			if g.isCtr[string(k)] {
				v = g.counter(label + "_pv")
			} else {
				v = g.value(label + "_pv")
			}
			if g.writable(k) {
				out = append(out, wop{opPut, k, v})
				segPut[string(k)] = true
			}
		case c < 62:
			k := g.anyKey(label + "_dk")
			out = append(out, wop{opDel, k, nil})
			segDel[string(k)] = true
		case c < 80 && len(g.ctr) > 0:
			k, v := g.name(g.pick(g.ctr, label+"_mk")), g.counter(label+"_mv")
			if segDel[string(k)] || inDR(string(k)) {
				g.droppedOps++
				continue
			}
			if g.writable(k) {
				out = append(out, wop{opMerge, k, v})
				segPut[string(k)] = true
			}
		case c >= 80 && !g.noDR:
			a, b := g.bound(label+"_ds"), g.bound(label+"_de")
			if bytes.Compare(a, b) > 0 {
				a, b = b, a
			}
			covers := false
			for k := range segPut {
				if k >= string(a) && k < string(b) {
					covers = true
				}
			}
			if covers {
				g.droppedOps++
				continue
			}
			out = append(out, wop{opDelRange, a, b})
			segDR = append(segDR, [2]string{string(a), string(b)})
		default:
			k, v := g.name(g.pick(g.pool, label+"_pk2")), g.value(label+"_pv2")
			if g.writable(k) {
				out = append(out, wop{opPut, k, v})
				segPut[string(k)] = true
			}
		}
	}
	return out
}

func (g *gen) genPoint(label string) *step {
	st := &step{kind: skPoint, pk: pointKind(rapid.IntRange(0, int(pkCount)-1).Draw(g.t, label+"_pk"))}
	n := 1
	if st.pk == pkMulti || st.pk == pkMultiAlias {
		n = rapid.IntRange(1, 5).Draw(g.t, label+"_n")
	}
	for i := 0; i < n; i++ {
		st.keys = append(st.keys, g.anyKey(label+"_k"))
	}
	return st
}

func (g *gen) genRange(label string, allowMid bool) *step {
	s := &iterSpec{}
	if !g.lowNoise && rapid.IntRange(0, 7).Draw(g.t, label+"_nilmin") == 0 {
		s.min = nil
	} else {
		s.min = g.bound(label + "_min")
	}
	if !g.highNoise && rapid.IntRange(0, 7).Draw(g.t, label+"_nilmax") == 0 {
		s.max = nil
	} else {
		s.max = g.bound(label + "_max")
	}
	if s.min != nil && s.max != nil && bytes.Compare(s.min, s.max) > 0 {
		if rapid.IntRange(0, 9).Draw(g.t, label+"_inverted") > 0 {
			s.min, s.max = s.max, s.min
		} else {
			g.labels["iter_inverted_bounds"] = true
		}
	}
	s.rtype = rapid.SampledFrom([]uint8{common.RangeClose, common.RangeLOpen, common.RangeROpen, common.RangeOpen}).Draw(g.t, label+"_type")
	s.reverse = rapid.Bool().Draw(g.t, label+"_rev")
	s.limited = rapid.Bool().Draw(g.t, label+"_lim")
	if s.limited {
		n := len(g.m.scan(&iterSpec{min: s.min, max: s.max, rtype: s.rtype}))
		s.offset = rapid.SampledFrom([]int{0, 0, 0, 1, 2, n - 1, n, n + 1, -1, -5}).Draw(g.t, label+"_off")
		if s.offset < -5 {
			s.offset = 0
		}
		if n == 0 && s.offset == n-1 {
			s.offset = 0
		}
		s.count = rapid.SampledFrom([]int{-1, -1, -1, 0, 1, 2, n - 1, n, n + 1, -7}).Draw(g.t, label+"_cnt")
	}
	s.ignoreDel = g.noDR && rapid.Bool().Draw(g.t, label+"_igd")
	s.withSnap = rapid.IntRange(0, 3).Draw(g.t, label+"_snap") == 0
	s.noTs = rapid.SampledFrom([]byte{0, 0, 0, engine.KVType, engine.HashType}).Draw(g.t, label+"_nots")
	s.refKey = rapid.Bool().Draw(g.t, label+"_rk")
	s.refVal = rapid.Bool().Draw(g.t, label+"_rv")
	if allowMid && s.withSnap && g.snapOK && rapid.Bool().Draw(g.t, label+"_mid") {
		s.midWrite = g.ops(rapid.IntRange(1, 3).Draw(g.t, label+"_nmid"), label+"_midop")
	}
	return &step{kind: skRange, it: s}
}

func (g *gen) genRaw(label string) *step {
	st := &step{kind: skRaw}
	st.rawSnap = rapid.IntRange(0, 3).Draw(g.t, label+"_snap") == 0
	st.rawIgnDel = g.noDR && rapid.Bool().Draw(g.t, label+"_igd")
	c := &refCursor{keys: g.m.sorted()}
	n := rapid.IntRange(1, 8).Draw(g.t, label+"_n")
	movable := false
	for i := 0; i < n; i++ {
		hi := 3
		if movable {
			hi = 9
		}
		var o rawOp
		switch k := rapid.IntRange(0, hi).Draw(g.t, label+"_rk"); {
		case k == 0:
			o = rawOp{rkSeek, g.bound(label + "_t")}
			st.rawNul = st.rawNul || g.nulRelated(o.target)
			c.seek(o.target)
		case k == 1:
			o = rawOp{rkSeekForPrev, g.bound(label + "_t")}
			if g.m.has(o.target) {
				st.rawTrig = true
			}
			st.rawNul = st.rawNul || g.nulRelated(o.target)
			c.seekForPrev(o.target)
		case k == 2:
			o = rawOp{kind: rkFirst}
			c.first()
		case k == 3:
			o = rawOp{kind: rkLast}
			c.last()
		case k <= 6:
			o = rawOp{kind: rkNext}
			c.next()
		default:
			o = rawOp{kind: rkPrev}
			c.prev()
		}
		st.raw = append(st.raw, o)
		e, ok := c.cur()
		movable = ok && strings.HasPrefix(e.k, string(g.prefix))
	}
	return st
}

func (g *gen) genProbe(label string) *step {
	if g.pointOnly {
		return g.genPoint(label)
	}
	switch rapid.IntRange(0, 5).Draw(g.t, label+"_probe") {
	case 0, 1, 2:
		return g.genPoint(label)
	case 3, 4:
		return g.genRange(label, false)
	}
	return g.genRaw(label)
}

func (g *gen) genBatch(label string, initial bool) *step {
	st := &step{kind: skBatch, useDefault: rapid.Bool().Draw(g.t, label+"_def")}
	if initial {
		// populate: most pool keys, all foreign-prefix keys, counters
		var ops []wop
		for _, k := range g.pool {
			if rapid.IntRange(0, 3).Draw(g.t, label+"_inpool") > 0 {
				if v := g.value(label + "_iv"); g.writable(k) {
					ops = append(ops, wop{opPut, g.name(cp(k)), v})
				}
			}
		}
		for _, k := range g.noise {
			if v := g.value(label + "_nv"); g.writable(k) {
				ops = append(ops, wop{opPut, g.name(cp(k)), v})
			}
		}
		for _, k := range g.ctr {
			if rapid.Bool().Draw(g.t, label+"_inctr") {
				if v := g.counter(label + "_cv"); g.writable(k) {
					ops = append(ops, wop{opMerge, g.name(cp(k)), v})
				}
			}
		}
		for _, k := range g.short {
			if rapid.Bool().Draw(g.t, label+"_inshort") {
				if v := g.value(label + "_sv"); g.writable(k) {
					ops = append(ops, wop{opPut, g.name(cp(k)), v})
				}
			}
		}
		sg := segment{ops: ops, fate: fateCommit}
		g.settle(st, &sg)
		st.segs = []segment{sg}
		return st
	}
	nseg := rapid.SampledFrom([]int{1, 1, 1, 2, 3}).Draw(g.t, label+"_nseg")
	for i := 0; i < nseg; i++ {
		sg := segment{ops: g.ops(rapid.IntRange(0, 6).Draw(g.t, label+"_nops"), label)}
		np := rapid.SampledFrom([]int{0, 0, 1, 1, 2}).Draw(g.t, label+"_nprobe")
		for j := 0; j < np; j++ {
			p := g.genProbe(label + "_pr")
			p.want = g.expect(p)
			st.want = append(st.want, p.want...)
			g.labels["read_while_batch_uncommitted"] = true
			sg.probes = append(sg.probes, p)
		}
		f := rapid.IntRange(0, 9).Draw(g.t, label+"_fate")
		switch {
		case f < 4:
			sg.fate = fateCommit
		case f < 7:
			sg.fate = fateWrite
		case f < 9 || i < nseg-1:
			sg.fate = fateClear
		default:
			sg.fate = fateNone
		}
		g.settle(st, &sg)
		st.segs = append(st.segs, sg)
	}
	return st
}

// settle advances the model by the fate of a segment and records the segment's own observation.
func (g *gen) settle(st *step, sg *segment) {
	switch sg.fate {
	case fateCommit, fateWrite:
		g.m.apply(sg.ops)
		g.noteCommitted(sg.ops)
	case fateClear:
		if len(sg.ops) > 0 {
			g.labels["batch_cleared"] = true
		}
	case fateNone:
		if len(sg.ops) > 0 {
			g.labels["batch_abandoned"] = true
		}
	}
	st.want = append(st.want, "ok")
}

func (g *gen) noteCommitted(ops []wop) {
	for _, o := range ops {
		switch o.kind {
		case opDelRange:
			g.hasDRorMerge = true
			g.labels["committed_delete_range"] = true
		case opMerge:
			g.hasDRorMerge = true
			g.labels["committed_merge"] = true
		}
	}
	seenPut := map[string]bool{}
	for _, o := range ops {
		switch o.kind {
		case opPut:
			seenPut[string(o.key)] = true
		case opMerge:
			if seenPut[string(o.key)] {
				g.labels["batch_merge_after_put_or_merge_same_key"] = true
			}
			seenPut[string(o.key)] = true
		}
	}
}

// expect computes the reference observations of a step and advances the model.
func (g *gen) expect(st *step) []string {
	switch st.kind {
	case skBatch:
		return st.want // computed segment by segment while the batch was drawn
	case skPoint:
		return []string{expectPoint(g.m, st.pk, st.keys)}
	case skRange:
		s := st.it
		maxHit := s.max != nil && s.rtype&common.RangeROpen == 0 && g.m.has(s.max)
		minHit := s.min != nil && s.rtype&common.RangeLOpen == 0 && g.m.has(s.min)
		s.trigSFP = s.reverse && maxHit
		s.trigNul = g.nulRelated(s.min) || g.nulRelated(s.max)
		s.trigRevNoLE = false
		if s.reverse && s.max != nil {
			s.trigRevNoLE = true
			for k := range g.m.m {
				if k <= string(s.max) {
					s.trigRevNoLE = false
					break
				}
			}
		}
		s.closedHit = s.reverse && (maxHit || minHit)
		res := g.m.scan(s)
		out := fmtKVs(res, s.noTs)
		if len(s.midWrite) > 0 {
			g.m.apply(s.midWrite)
			g.noteCommitted(s.midWrite)
			g.labels["snapshot_iterator_with_commit_while_open"] = true
		}
		g.rangeLabels(s, len(res))
		return []string{out}
	case skRaw:
		g.labels["raw_cursor_walk"] = true
		return []string{expectRaw(g.m, g.prefix, st.raw)}
	case skCompact:
		g.labels["compact"] = true
		return []string{"ok"}
	case skReopen:
		g.labels["close_reopen"] = true
		return []string{"ok"}
	case skCheckpoint:
		g.labels["checkpoint_open"] = true
		return []string{dumpModel(g.m, g.keyList(), g.prefixList())}
	}
	return nil
}

func (g *gen) rangeLabels(s *iterSpec, n int) {
	l := g.labels
	if s.reverse {
		l["iter_reverse"] = true
	} else {
		l["iter_forward"] = true
	}
	l["iter_type_"+map[uint8]string{0: "close", 1: "lopen", 0x10: "ropen", 0x11: "open"}[s.rtype]] = true
	if s.min == nil {
		l["iter_nil_min"] = true
	}
	if s.max == nil {
		l["iter_nil_max"] = true
	}
	if s.limited {
		switch {
		case s.offset < 0:
			l["iter_offset_negative"] = true
		case s.offset > 0:
			l["iter_offset_positive"] = true
		}
		switch {
		case s.count == 0:
			l["iter_count_zero"] = true
		case s.count > 0:
			l["iter_count_positive"] = true
		}
	}
	if n == 0 {
		l["iter_result_empty"] = true
	} else if n > 1 {
		l["iter_result_multiple"] = true
	}
	if s.ignoreDel {
		l["iter_ignore_del"] = true
	}
	if s.withSnap {
		l["iter_with_snap"] = true
	}
	if s.noTs != 0 {
		l["iter_no_timestamp"] = true
	}
	if s.closedHit {
		l["iter_reverse_closed_bound_on_visible_key"] = true
	}
}

func (g *gen) keyList() [][]byte {
	ks := make([]string, 0, len(g.universe))
	for k := range g.universe {
		ks = append(ks, k)
	}
	sort.Strings(ks)
	out := make([][]byte, len(ks))
	for i, k := range ks {
		out[i] = []byte(k)
	}
	return out
}

func (g *gen) prefixList() [][]byte {
	if g.pointOnly {
		return nil
	}
	seen := map[string]bool{string(g.prefix): true}
	out := [][]byte{cp(g.prefix)}
	for _, k := range g.noise {
		p := string(k[:3])
		if !seen[p] {
			seen[p] = true
			out = append(out, []byte(p))
		}
	}
	return out
}

// skipOn: the open known finding on this engine would be triggered by this read
func skipOn(e *eng, st *step) string {
	switch st.kind {
	case skRange:
		switch {
		case e.sfpStrict && st.it.trigSFP:
			return "seekforprev_strict"
		case e.nulBroken && st.it.trigNul:
			return "radix_nul_extension"
		case e.revFallback && st.it.trigRevNoLE:
			return "mem_reverse_fallback"
		}
	case skRaw:
		switch {
		case e.sfpStrict && st.rawTrig:
			return "seekforprev_strict"
		case e.nulBroken && st.rawNul:
			return "radix_nul_extension"
		}
	}
	return ""
}

var debugSteps = os.Getenv("C20_DEBUG") != ""

type runner struct {
	t         *rapid.T
	g         *gen
	engs      []*eng
	excluded  int64
	exclBy    map[string]int64
	spareHit  int64
	revHitAll bool // a reverse closed-bound-on-key iterator was compared on every engine
}

// exec runs a step on one engine; want supplies the observation for reads that are skipped.
func (r *runner) exec(e *eng, st *step, want []string) []string {
	switch st.kind {
	case skBatch:
		var wb engine.WriteBatch
		if st.useDefault {
			wb = e.kv.DefaultWriteBatch()
		} else {
			wb = e.kv.NewWriteBatch()
		}
		var out []string
		for _, sg := range st.segs {
			queue(e, wb, sg.ops)
			for _, p := range sg.probes {
				out = append(out, r.exec(e, p, want[len(out):])...)
			}
			var err error
			switch sg.fate {
			case fateCommit:
				err = wb.Commit()
				wb.Clear()
			case fateWrite:
				err = e.kv.Write(wb)
				wb.Clear()
			case fateClear:
				wb.Clear()
			}
			if err != nil {
				out = append(out, "err:commit:"+err.Error())
			} else {
				out = append(out, "ok")
			}
		}
		if st.useDefault {
			wb.Clear()
		} else {
			wb.Destroy()
		}
		return out
	case skPoint:
		return []string{execPoint(e, st.pk, st.keys)}
	case skRange:
		if why := skipOn(e, st); why != "" {
			r.excluded++
			r.exclBy[why]++
			if len(st.it.midWrite) > 0 {
				// the write still has to happen on this engine
				wb := e.kv.NewWriteBatch()
				queue(e, wb, st.it.midWrite)
				err := wb.Commit()
				wb.Clear()
				wb.Destroy()
				if err != nil {
					return []string{"err:midwrite:" + err.Error()}
				}
			}
			return []string{want[0]}
		}
		o, hit := execRange(e, st.it)
		if hit {
			r.spareHit++
		}
		return []string{o}
	case skRaw:
		if why := skipOn(e, st); why != "" {
			r.excluded++
			r.exclBy[why]++
			return []string{want[0]}
		}
		return []string{execRaw(e, r.g.prefix, st.rawSnap, st.rawIgnDel, st.raw)}
	case skCompact:
		e.kv.CompactAllRange()
		return []string{"ok"}
	case skReopen:
		if err := e.reopen(); err != nil {
			return []string{"err:reopen:" + err.Error()}
		}
		return []string{"ok"}
	case skCheckpoint:
		o, err := e.checkpointDump(r.g.keyList(), r.g.prefixList())
		if err != nil {
			if strings.HasPrefix(err.Error(), "HARNESS:") {
				fmt.Fprintln(os.Stderr, err)
				os.Exit(3)
			}
			return []string{"err:checkpoint:" + err.Error()}
		}
		return []string{o}
	}
	return nil
}

func (r *runner) run(st *step, trace *[]string) {
	*trace = append(*trace, st.String())
	if debugSteps {
		fmt.Fprintf(os.Stderr, "STEP %d: %s\n", len(*trace), clip(st.String()))
	}
	if st.want == nil {
		st.want = r.g.expect(st)
	}
	want := st.want
	anySkipped := false
	for _, e := range r.engs {
		before := r.excluded
		got := r.exec(e, st, want)
		if r.excluded != before {
			anySkipped = true
		}
		if len(got) != len(want) {
			r.t.Fatalf("engine %s: step %d produced %d observations, reference %d\nhistory:\n  %s", e.name, len(*trace), len(got), len(want), strings.Join(*trace, "\n  "))
		}
		for i := range want {
			if got[i] != want[i] {
				r.t.Fatalf("engine %s disagrees with the reference at step %d (observation %d)\n  step: %s\n  engine:    %s\n  reference: %s\nhistory (C20_ENGINES=%s, prefix %x):\n  %s",
					e.name, len(*trace), i, st.String(), clip(got[i]), clip(want[i]), r.envNames(), r.g.prefix, strings.Join(*trace, "\n  "))
			}
		}
	}
	// non-trivial rule bookkeeping: reverse iterators (top level or nested in a batch)
	var visit func(s *step)
	visit = func(s *step) {
		if s.kind == skRange && s.it.closedHit && !anySkipped {
			r.revHitAll = true
		}
		for _, sg := range s.segs {
			for _, p := range sg.probes {
				visit(p)
			}
		}
	}
	visit(st)
}

// envNames: the engine list of this case in the form the C20_ENGINES variable takes (a replay must use the same list:
// export it before ./check C20 --replay <file>)
func (r *runner) envNames() string {
	var ns []string
	for _, e := range r.engs {
		ns = append(ns, e.name)
	}
	return strings.Join(ns, ",")
}

func clip(s string) string {
	if len(s) > 1500 {
		return s[:1500] + fmt.Sprintf("...(%d bytes)", len(s))
	}
	return s
}

func openAll(names []string) (string, []*eng) {
	base, err := os.MkdirTemp(scratchRoot(), "c20-")
	if err != nil {
		fmt.Fprintf(os.Stderr, "HARNESS: scratch dir: %v\n", err)
		os.Exit(3)
	}
	var engs []*eng
	for _, n := range names {
		e, err := openAt(n, base+"/"+n)
		if err != nil {
			fmt.Fprintf(os.Stderr, "HARNESS: cannot open a fresh %s engine in %s: %v\n", n, base, err)
			os.Exit(3)
		}
		engs = append(engs, e)
	}
	return base, engs
}

func TestEngineHistories(t *testing.T) {
	rapid.Check(t, historyProperty(engineNames(), true))
}

// FuzzEngineHistories drives the same property from the bytes of go's native fuzzer (thorough tier only):
// coverage feedback from the engines steers the draws. Statistics are not recorded here (fuzz workers are
// separate processes); a failing input is saved by the fuzzer and replayed through the same property.
func FuzzEngineHistories(f *testing.F) {
	seed := make([]byte, 4096)
	x := uint32(2463534242)
	for _, n := range []int{64, 512, 4096} {
		for i := range seed {
			x ^= x << 13
			x ^= x >> 17
			x ^= x << 5
			seed[i] = byte(x >> 11)
		}
		f.Add(append([]byte{}, seed[:n]...))
	}
	f.Fuzz(rapid.MakeFuzz(historyProperty(engineNames(), false)))
}

func historyProperty(names []string, record bool) func(t *rapid.T) {
	variant := memVariant(names)
	return func(t *rapid.T) {
		if variant != "" {
			engine.VerifSetMemType(variant) // package-level selector: reset at the top of every case
		}
		base, engs := openAll(names)
		defer os.RemoveAll(base)
		defer func() {
			for _, e := range engs {
				e.close()
			}
		}()
		g := newGen(t, names)
		r := &runner{t: t, g: g, engs: engs, exclBy: map[string]int64{}}
		var trace []string
		r.run(g.genBatch("init", true), &trace)
		n := rapid.IntRange(1, 24).Draw(t, "nsteps")
		for i := 0; i < n; i++ {
			var st *step
			c := rapid.IntRange(0, 99).Draw(t, "step")
			switch {
			case c < 34:
				st = g.genBatch("b", false)
			case c < 52:
				st = g.genPoint("p")
			case c < 80 && !g.pointOnly:
				st = g.genRange("r", true)
			case c < 90 && !g.pointOnly:
				st = g.genRaw("w")
			case c < 93 && !g.pointOnly:
				// not with keys shorter than 3 bytes: pebble's Compact(nil, nil) (what CompactAllRange calls) is an
				// empty range unless the empty key is stored, and then never returns in this pebble version; no
				// production key is shorter than 3 bytes
				st = &step{kind: skCompact}
			case c < 96:
				st = &step{kind: skReopen}
			case c < 98:
				st = &step{kind: skCheckpoint}
			default:
				st = g.genPoint("p")
			}
			r.run(st, &trace)
		}
		// final state: every key ever named plus a scan of every prefix in use
		want := dumpModel(g.m, g.keyList(), g.prefixList())
		for _, e := range engs {
			if got := dumpEngine(e, g.keyList(), g.prefixList()); got != want {
				t.Fatalf("engine %s: final state differs from the reference\n  engine:    %s\n  reference: %s\nhistory (C20_ENGINES=%s, prefix %x):\n  %s", e.name, clip(got), clip(want), r.envNames(), g.prefix, strings.Join(trace, "\n  "))
			}
		}
		if !record {
			return
		}
		if r.excluded+g.excluded+g.poolRejected > 0 {
			recHist.Count("excluded_by_known_finding", r.excluded+g.excluded+g.poolRejected)
		}
		for _, why := range []string{"seekforprev_strict", "radix_nul_extension", "mem_reverse_fallback"} {
			if n := r.exclBy[why]; n > 0 {
				recHist.Count("excluded_reads_"+why, n)
			}
		}
		if g.excluded > 0 {
			recHist.Count("excluded_writes_radix_nul_extension", g.excluded)
		}
		if g.poolRejected > 0 {
			recHist.Count("excluded_pool_keys_radix_nul_extension", g.poolRejected)
		}
		if g.droppedOps > 0 {
			recHist.Count("dropped_op_outside_caller_domain", g.droppedOps)
		}
		if r.spareHit > 0 {
			recHist.Count("iterators_that_wrote_into_spare_capacity_of_caller_bound", r.spareHit)
		}
		labels := make([]string, 0, len(g.labels))
		for l := range g.labels {
			labels = append(labels, l)
		}
		sort.Strings(labels)
		canon := strings.Join(trace, "\n")
		recHist.Record(stats.HashString(canon), g.hasDRorMerge && r.revHitAll, labels, func() interface{} {
			tr := trace
			if len(tr) > 30 {
				tr = append(append([]string{}, tr[:30]...), fmt.Sprintf("... %d more steps", len(trace)-30))
			}
			for i := range tr {
				tr[i] = clip(tr[i])
			}
			return map[string]interface{}{"engines": names, "prefix": fmt.Sprintf("%x", g.prefix), "history": tr}
		})
	}
}
