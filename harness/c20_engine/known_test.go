package c20

// Regression probes for the findings recorded on this property (see /verif/known_findings.json).
// Each probe runs the exact minimal input on a fresh engine and compares with the contract.

import (
	"fmt"
	"os"
	"strings"
	"testing"

	"github.com/youzan/ZanRedisDB/common"
	"github.com/youzan/ZanRedisDB/engine"

	"verifharness/lib/known"
)

// withEngine opens one fresh engine (for mem variants the package-level selector is switched for the
// duration of the call), stores keys (value = "v"+key) and runs f.
func withEngine(name string, keys []string, f func(e *eng) string) (out string) {
	if strings.HasPrefix(name, "mem-") {
		prev, _ := engine.VerifSetMemType(name[4:])
		defer engine.VerifSetMemType(prev)
	}
	base, engs := openAll([]string{name})
	defer os.RemoveAll(base)
	e := engs[0]
	defer e.close()
	defer func() {
		if r := recover(); r != nil {
			out = fmt.Sprintf("panic: %v", r)
		}
	}()
	wb := e.kv.NewWriteBatch()
	for _, k := range keys {
		wb.Put([]byte(k), []byte("v"+k))
	}
	err := wb.Commit()
	wb.Clear()
	wb.Destroy()
	if err != nil {
		return "commit: " + err.Error()
	}
	return f(e)
}

func rangeKeys(e *eng, min, max string, rtype uint8, reverse bool) string {
	it, err := engine.NewDBRangeIteratorWithOpts(e.kv, engine.IteratorOpts{Range: engine.Range{Min: []byte(min), Max: []byte(max), Type: rtype}, Reverse: reverse})
	if err != nil {
		return "error: " + err.Error()
	}
	defer it.Close()
	var ks []string
	for ; it.Valid(); it.Next() {
		ks = append(ks, fmt.Sprintf("%q", it.Key()))
	}
	return "[" + strings.Join(ks, " ") + "]"
}

func seekObs(e *eng, forPrev bool, target string) string {
	it, err := e.kv.GetIterator(engine.IteratorOpts{})
	if err != nil {
		return "error: " + err.Error()
	}
	defer it.Close()
	if forPrev {
		it.SeekForPrev([]byte(target))
	} else {
		it.Seek([]byte(target))
	}
	if !it.Valid() {
		return "invalid"
	}
	return fmt.Sprintf("%q", it.Key())
}

type probeCase struct {
	what string
	got  string
	want string
}

func firstViolation(cs []probeCase) (bool, string) {
	for _, c := range cs {
		if c.got != c.want {
			return true, fmt.Sprintf("%s: got %s, contract (and the other engines) %s", c.what, c.got, c.want)
		}
	}
	return false, ""
}

func seekForPrevCases(name string) []probeCase {
	keys := []string{"abc1", "abc2", "abc3", "abc4"}
	return []probeCase{
		{name + ": keys abc1..abc4, reverse range [abc2, abc3] type close",
			withEngine(name, keys, func(e *eng) string { return rangeKeys(e, "abc2", "abc3", common.RangeClose, true) }), `["abc3" "abc2"]`},
		{name + ": keys abc1..abc4, reverse range (abc2, abc3] type lopen",
			withEngine(name, keys, func(e *eng) string { return rangeKeys(e, "abc2", "abc3", common.RangeLOpen, true) }), `["abc3"]`},
		{name + ": keys abc1..abc4, SeekForPrev(abc3)",
			withEngine(name, keys, func(e *eng) string { return seekObs(e, true, "abc3") }), `"abc3"`},
		{name + ": keys abc1..abc4, SeekForPrev(abc9) (nothing >= target)",
			withEngine(name, keys, func(e *eng) string { return seekObs(e, true, "abc9") }), `"abc4"`},
		{name + ": keys abc1..abc4, SeekForPrev(abc0) (nothing <= target)",
			withEngine(name, keys, func(e *eng) string { return seekObs(e, true, "abc0") }), `invalid`},
		{name + ": keys abc1..abc4, SeekForPrev(abc25) (between keys)",
			withEngine(name, keys, func(e *eng) string { return seekObs(e, true, "abc25") }), `"abc2"`},
	}
}

func TestKnownPebbleSeekForPrevStrict(t *testing.T) {
	known.Probe(t, findPebbleSFP, func() (bool, string) { return firstViolation(seekForPrevCases("pebble")) })
}

// The btree variant of the mem engine has the same strict SeekForPrev (biterator.SeekForPrev -> SeekLT). It cannot be
// selected by configuration; it is run as an additional witness in the thorough tier only.
func TestKnownMemBtreeSeekForPrevStrict(t *testing.T) {
	known.Probe(t, findBtreeSFP, func() (bool, string) { return firstViolation(seekForPrevCases("mem-btree")) })
}

func TestKnownMemRadixSeekLowerBoundNul(t *testing.T) {
	known.Probe(t, findRadixNul, func() (bool, string) {
		n := "mem-radix"
		return firstViolation([]probeCase{
			{n + `: keys abc, abc\x00 stored, Seek(abc\x00)`,
				withEngine(n, []string{"abc", "abc\x00"}, func(e *eng) string { return seekObs(e, false, "abc\x00") }), `"abc\x00"`},
			{n + `: keys abc, abc\x00 stored, forward range [abc\x00, abc\xff] type close`,
				withEngine(n, []string{"abc", "abc\x00"}, func(e *eng) string { return rangeKeys(e, "abc\x00", "abc\xff", common.RangeClose, false) }), `["abc\x00"]`},
			{n + `: keys abc, abc\x00 stored, reverse range [abc, abc\xff] type close`,
				withEngine(n, []string{"abc", "abc\x00"}, func(e *eng) string { return rangeKeys(e, "abc", "abc\xff", common.RangeClose, true) }), `["abc\x00" "abc"]`},
			{n + `: key abc stored, SeekForPrev(abc\x00)`,
				withEngine(n, []string{"abb", "abc"}, func(e *eng) string { return seekObs(e, true, "abc\x00") }), `"abc"`},
			{n + `: keys abb, abc\x00x, abc\x00y stored, SeekForPrev(abc)`,
				withEngine(n, []string{"abb", "abc\x00x", "abc\x00y"}, func(e *eng) string { return seekObs(e, true, "abc") }), `"abb"`},
			{n + `: keys abc, abc\x00\x00 stored, batch DeleteRange(abc\x00, abd) then GetBytes(abc\x00\x00)`,
				withEngine(n, []string{"abc", "abc\x00\x00"}, func(e *eng) string {
					wb := e.kv.NewWriteBatch()
					wb.DeleteRange([]byte("abc\x00"), []byte("abd"))
					err := wb.Commit()
					wb.Clear()
					wb.Destroy()
					if err != nil {
						return "commit: " + err.Error()
					}
					v, err := e.kv.GetBytes([]byte("abc\x00\x00"))
					if err != nil {
						return "error: " + err.Error()
					}
					return hx(v)
				}), `<nil>`},
		})
	})
}

func TestKnownMemReverseRangeFallbackFirstKey(t *testing.T) {
	known.Probe(t, findMemRevFB, func() (bool, string) {
		n := "mem-radix"
		return firstViolation([]probeCase{
			{n + ": only key abc2 stored, reverse range [abc0, abc1] type close",
				withEngine(n, []string{"abc2"}, func(e *eng) string { return rangeKeys(e, "abc0", "abc1", common.RangeClose, true) }), `[]`},
			{n + ": keys abc2, abc3 stored, reverse range [abc0, abc1] type open",
				withEngine(n, []string{"abc2", "abc3"}, func(e *eng) string { return rangeKeys(e, "abc0", "abc1", common.RangeOpen, true) }), `[]`},
		})
	})
}

// Controls: the same minimal inputs on the engines that are not affected must give the contract's answer;
// otherwise the probes above would not be probing what they claim.
func TestKnownProbeControls(t *testing.T) {
	for _, n := range []string{"rocksdb", "mem-radix"} {
		if v, d := firstViolation(seekForPrevCases(n)); v {
			t.Errorf("control failed: %s", d)
		}
	}
	for _, n := range []string{"rocksdb", "pebble"} {
		cs := []probeCase{
			{n + `: keys abc, abc\x00 stored, Seek(abc\x00)`,
				withEngine(n, []string{"abc", "abc\x00"}, func(e *eng) string { return seekObs(e, false, "abc\x00") }), `"abc\x00"`},
			{n + `: keys abc, abc\x00 stored, forward range [abc\x00, abc\xff] type close`,
				withEngine(n, []string{"abc", "abc\x00"}, func(e *eng) string { return rangeKeys(e, "abc\x00", "abc\xff", common.RangeClose, false) }), `["abc\x00"]`},
			{n + ": only key abc2 stored, reverse range [abc0, abc1] type close",
				withEngine(n, []string{"abc2"}, func(e *eng) string { return rangeKeys(e, "abc0", "abc1", common.RangeClose, true) }), `[]`},
		}
		cs = append(cs, probeCase{n + `: keys abc, abc\x00 stored, reverse range [abc, abc\xff] type close`,
			withEngine(n, []string{"abc", "abc\x00"}, func(e *eng) string { return rangeKeys(e, "abc", "abc\xff", common.RangeClose, true) }), `["abc\x00" "abc"]`})
		if v, d := firstViolation(cs); v {
			t.Errorf("control failed: %s", d)
		}
	}
}
