package c20

// Reference model for C20: a sorted map written from the contract, not from any engine.
//
//   * write batch: operations take effect in the order they were queued, all at once at
//     commit (engine/writebatch.go WriteBatch: Put/Delete/DeleteRange/Merge/Commit/Clear);
//     DeleteRange(start, end) removes start <= k < end; Merge adds two 8-byte
//     little-endian unsigned counters modulo 2^64, a missing value counting as 0
//     (the "UInt64AddOperator" named in engine/pebble_eng.go and installed by
//     SetUint64AddMergeOperator in engine/rockeng.go).
//   * point reads return the committed value or "absent"; a stored empty value is present.
//   * range / limit iterators: engine/iterator.go. RangeLimitedIterator.Valid gives the
//     bound semantics (Max checked going forward, Min going backward, "open" flags
//     exclude equality), rangeLimitIterator gives the start position (first key >= Min
//     resp. last key <= Max, equality skipped when that side is open), Offset elements
//     are skipped, at most Count (if >= 0) returned, Offset < 0 yields nothing.
//   * raw cursor: Seek = first key >= target, SeekForPrev = last key <= target
//     (comment on the Iterator methods in the engines: "seek to the last key that less
//     than or equal to the target key"), SeekToFirst/SeekToLast/Next/Prev in key order.

import (
	"bytes"
	"encoding/binary"
	"sort"

	"github.com/youzan/ZanRedisDB/common"
)

type opKind int

const (
	opPut opKind = iota
	opDel
	opDelRange // key = start, val = end
	opMerge
)

type wop struct {
	kind opKind
	key  []byte
	val  []byte
}

type kv struct {
	k string
	v []byte
}

type refModel struct {
	m map[string][]byte
}

func newRef() *refModel { return &refModel{m: map[string][]byte{}} }

func (r *refModel) clone() *refModel {
	c := newRef()
	for k, v := range r.m {
		c.m[k] = v
	}
	return c
}

func (r *refModel) apply(ops []wop) {
	for _, o := range ops {
		switch o.kind {
		case opPut:
			r.m[string(o.key)] = append([]byte{}, o.val...)
		case opDel:
			delete(r.m, string(o.key))
		case opDelRange:
			for k := range r.m {
				if k >= string(o.key) && k < string(o.val) {
					delete(r.m, k)
				}
			}
		case opMerge:
			var cur uint64
			if old, ok := r.m[string(o.key)]; ok && len(old) == 8 {
				cur = binary.LittleEndian.Uint64(old)
			}
			nv := make([]byte, 8)
			binary.LittleEndian.PutUint64(nv, cur+binary.LittleEndian.Uint64(o.val))
			r.m[string(o.key)] = nv
		}
	}
}

func (r *refModel) get(k []byte) ([]byte, bool) {
	v, ok := r.m[string(k)]
	return v, ok
}

func (r *refModel) has(k []byte) bool {
	_, ok := r.m[string(k)]
	return ok
}

func (r *refModel) sorted() []kv {
	out := make([]kv, 0, len(r.m))
	for k, v := range r.m {
		out = append(out, kv{k, v})
	}
	sort.Slice(out, func(i, j int) bool { return out[i].k < out[j].k })
	return out
}

type iterSpec struct {
	min, max    []byte // nil = unbounded on that side
	rtype       uint8
	reverse     bool
	limited     bool // NewDBRangeLimitIteratorWithOpts; otherwise Offset/Count are not used
	offset      int
	count       int
	ignoreDel   bool
	withSnap    bool
	noTs        byte // 0, engine.KVType or engine.HashType: NoTimestamp(vt) strips an 8-byte value suffix
	refKey      bool // read keys with RefKey instead of Key
	refVal      bool
	midWrite    []wop // committed after the iterator was created (withSnap only): must stay invisible to it
	trigSFP     bool  // set while computing the expectation: reverse start position is an inclusive Max that is a visible key
	trigNul     bool  // a bound and a visible key are in the 0x00-extension relation (open finding on the radix mem index)
	trigRevNoLE bool  // reverse, Max set, and no visible key at all is <= Max (open finding on the mem engine)
	closedHit   bool  // reverse and a closed bound coincides with a visible key (non-trivial rule)
}

func inRange(k string, s *iterSpec) bool {
	if s.min != nil {
		c := bytes.Compare([]byte(k), s.min)
		if c < 0 || (c == 0 && s.rtype&common.RangeLOpen > 0) {
			return false
		}
	}
	if s.max != nil {
		c := bytes.Compare([]byte(k), s.max)
		if c > 0 || (c == 0 && s.rtype&common.RangeROpen > 0) {
			return false
		}
	}
	return true
}

// scan returns what a range iterator built from s must yield.
func (r *refModel) scan(s *iterSpec) []kv {
	var sel []kv
	for _, e := range r.sorted() {
		if inRange(e.k, s) {
			sel = append(sel, e)
		}
	}
	if s.reverse {
		for i, j := 0, len(sel)-1; i < j; i, j = i+1, j-1 {
			sel[i], sel[j] = sel[j], sel[i]
		}
	}
	off, cnt := 0, -1
	if s.limited {
		off, cnt = s.offset, s.count
	}
	if off < 0 || off >= len(sel) {
		return nil
	}
	sel = sel[off:]
	if cnt >= 0 && cnt < len(sel) {
		sel = sel[:cnt]
	}
	return sel
}

func stripTs(v []byte, vt byte) []byte {
	if vt != 0 && len(v) >= 8 {
		return v[:len(v)-8]
	}
	return v
}

// raw cursor over a frozen key list
type refCursor struct {
	keys  []kv
	pos   int
	valid bool
}

func (c *refCursor) seek(t []byte) {
	c.pos = sort.Search(len(c.keys), func(i int) bool { return c.keys[i].k >= string(t) })
	c.valid = c.pos < len(c.keys)
}

func (c *refCursor) seekForPrev(t []byte) {
	c.pos = sort.Search(len(c.keys), func(i int) bool { return c.keys[i].k > string(t) }) - 1
	c.valid = c.pos >= 0
}

func (c *refCursor) first() { c.pos = 0; c.valid = len(c.keys) > 0 }
func (c *refCursor) last()  { c.pos = len(c.keys) - 1; c.valid = c.pos >= 0 }
func (c *refCursor) next() {
	c.pos++
	c.valid = c.pos < len(c.keys)
}
func (c *refCursor) prev() {
	c.pos--
	c.valid = c.pos >= 0
}
func (c *refCursor) cur() (kv, bool) {
	if !c.valid || c.pos < 0 || c.pos >= len(c.keys) {
		return kv{}, false
	}
	return c.keys[c.pos], true
}
