package c20

import (
	"fmt"
	"os"
	"testing"

	"github.com/youzan/ZanRedisDB/engine"
)

func TestZZProbe(t *testing.T) {
	base, engs := openAll(engineNames())
	defer os.RemoveAll(base)
	for _, e := range engs {
		wb := e.kv.NewWriteBatch()
		wb.Put([]byte("abc"), []byte("1"))
		wb.Put([]byte("abc\x00\x00"), []byte("2"))
		wb.Put([]byte("abd"), []byte("3"))
		fmt.Println(e.name, "commit", wb.Commit())
		wb.Destroy()
		for _, target := range []string{"abc", "abc\x00", "abc\x00\x00", "abc\x00\x00\x00", "abc\x01"} {
			it, _ := e.kv.GetIterator(engine.IteratorOpts{})
			it.Seek([]byte(target))
			if it.Valid() {
				fmt.Printf("%s Seek(%q) -> %q\n", e.name, target, it.Key())
			} else {
				fmt.Printf("%s Seek(%q) -> invalid\n", e.name, target)
			}
			it.SeekForPrev([]byte(target))
			if it.Valid() {
				fmt.Printf("%s SeekForPrev(%q) -> %q\n", e.name, target, it.Key())
			} else {
				fmt.Printf("%s SeekForPrev(%q) -> invalid\n", e.name, target)
			}
			it.Close()
		}
		e.close()
	}
}
