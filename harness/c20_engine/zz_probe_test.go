package c20

import (
	"fmt"
	"testing"

	"github.com/youzan/ZanRedisDB/common"
)

func TestZZProbe(t *testing.T) {
	n := "mem-radix"
	show := func(what string, keys []string, f func(e *eng) string) {
		fmt.Printf("%-70s radix=%-22s rocksdb=%s\n", what, withEngine(n, keys, f), withEngine("rocksdb", keys, f))
	}
	ab := []string{"abc", "abc\x00"}
	show(`{abc,abc\0} Seek(abc\0)`, ab, func(e *eng) string { return seekObs(e, false, "abc\x00") })
	show(`{abc,abc\0} Seek(abc)`, ab, func(e *eng) string { return seekObs(e, false, "abc") })
	show(`{abc,abc\0} SeekForPrev(abc\0)`, ab, func(e *eng) string { return seekObs(e, true, "abc\x00") })
	show(`{abc,abc\0} SeekForPrev(abc\1)`, ab, func(e *eng) string { return seekObs(e, true, "abc\x01") })
	show(`{abc,abc\0} fwd [abc,abc\xff]`, ab, func(e *eng) string { return rangeKeys(e, "abc", "abc\xff", common.RangeClose, false) })
	show(`{abc,abc\0} fwd [abc\0,abc\xff]`, ab, func(e *eng) string { return rangeKeys(e, "abc\x00", "abc\xff", common.RangeClose, false) })
	show(`{abc,abc\0} fwd (abc,abc\xff]`, ab, func(e *eng) string { return rangeKeys(e, "abc", "abc\xff", common.RangeLOpen, false) })
	show(`{abc,abc\0} rev [abc,abc\xff]`, ab, func(e *eng) string { return rangeKeys(e, "abc", "abc\xff", common.RangeClose, true) })
	show(`{abc,abc\0} rev [abc,abc\0]`, ab, func(e *eng) string { return rangeKeys(e, "abc", "abc\x00", common.RangeClose, true) })
	one := []string{"abb", "abc"}
	show(`{abb,abc} Seek(abc\0)`, one, func(e *eng) string { return seekObs(e, false, "abc\x00") })
	show(`{abb,abc} SeekForPrev(abc\0)`, one, func(e *eng) string { return seekObs(e, true, "abc\x00") })
	show(`{abb,abc} SeekForPrev(abc\0zz)`, one, func(e *eng) string { return seekObs(e, true, "abc\x00zz") })
	show(`{abb,abc} rev [abb,abc\0]`, one, func(e *eng) string { return rangeKeys(e, "abb", "abc\x00", common.RangeClose, true) })
	two := []string{"abb", "abc\x00x", "abc\x00y"}
	show(`{abb,abc\0x,abc\0y} SeekForPrev(abc)`, two, func(e *eng) string { return seekObs(e, true, "abc") })
	show(`{abb,abc\0x,abc\0y} Seek(abc)`, two, func(e *eng) string { return seekObs(e, false, "abc") })
	show(`{abb,abc\0x,abc\0y} rev [abb,abc]`, two, func(e *eng) string { return rangeKeys(e, "abb", "abc", common.RangeClose, true) })
	single := []string{"abb", "abc\x00x"}
	show(`{abb,abc\0x} SeekForPrev(abc)`, single, func(e *eng) string { return seekObs(e, true, "abc") })
	show(`{abb,abc\0x} Seek(abc)`, single, func(e *eng) string { return seekObs(e, false, "abc") })
	tz := []string{"abc1", "abc1\x00", "abc2"}
	show(`{abc1,abc1\0,abc2} fwd [abc1\0, abc2]`, tz, func(e *eng) string { return rangeKeys(e, "abc1\x00", "abc2", common.RangeClose, false) })
	show(`{abc1,abc1\0,abc2} fwd [abc1, abc2]`, tz, func(e *eng) string { return rangeKeys(e, "abc1", "abc2", common.RangeClose, false) })
	show(`{abc1,abc1\0,abc2} rev [abc1, abc2]`, tz, func(e *eng) string { return rangeKeys(e, "abc1", "abc2", common.RangeClose, true) })
}
