package c20

import (
	"bytes"
	"fmt"
	"os"
	"path/filepath"
	"strings"

	"github.com/youzan/ZanRedisDB/engine"

	"verifharness/lib/known"
)

const (
	findPebbleSFP = "C20-pebble-seekforprev-strict"
	findBtreeSFP  = "C20-membtree-seekforprev-strict"
	findMemRevFB  = "C20-mem-reverse-range-fallback-first-key"
	findRadixNul  = "C20-mem-radix-seek-lowerbound-nul"
)

// eng is one engine under test.
type eng struct {
	name        string // mem-radix, mem-btree, mem-skiplist, pebble, rocksdb
	typ         string // engine_type value
	base        string
	kv          engine.KVEngine
	persistent  bool // survives close + reopen
	selectable  bool // reachable through configuration (engine_type); the btree/skiplist mem variants are not
	sfpStrict   bool // SeekForPrev known to be strict on this engine (open known finding): trigger excluded
	revFallback bool // mem: reverse range with no key <= Max returns the first key of the store (open known finding)
	nulBroken   bool // radix index: seeks near keys related by a 0x00 extension are wrong (open known finding)
}

func scratchRoot() string {
	if d := os.Getenv("VERIF_SCRATCH"); d != "" {
		if err := os.MkdirAll(d, 0755); err == nil {
			return d
		}
	}
	return "/dev/shm"
}

func engineNames() []string {
	s := os.Getenv("C20_ENGINES")
	if s == "" {
		s = "mem-radix,pebble,rocksdb"
	}
	return strings.Split(s, ",")
}

func memVariant(names []string) string {
	v := ""
	for _, n := range names {
		if strings.HasPrefix(n, "mem-") {
			if v != "" && v != n[4:] {
				panic("HARNESS: only one mem variant per process (package-level selector)")
			}
			v = n[4:]
		}
	}
	return v
}

func newCfg(typ, dir string) *engine.RockEngConfig {
	cfg := engine.NewRockConfig()
	cfg.DataDir = dir
	cfg.EngineType = typ
	cfg.BlockCache = 4 << 20
	cfg.WriteBufferSize = 2 << 20
	cfg.MaxBackgroundCompactions = 2
	cfg.MaxBackgroundFlushes = 1
	return cfg
}

func openAt(name, dir string) (*eng, error) {
	e := &eng{name: name, base: dir, selectable: true}
	switch {
	case name == "pebble":
		e.typ, e.persistent = "pebble", true
		e.sfpStrict = known.Active(findPebbleSFP)
	case name == "rocksdb":
		e.typ, e.persistent = "rocksdb", true
	case strings.HasPrefix(name, "mem-"):
		e.typ = "mem"
		e.selectable = name == "mem-radix"
		e.sfpStrict = name == "mem-btree" && known.Active(findBtreeSFP)
		e.nulBroken = name == "mem-radix" && known.Active(findRadixNul)
		e.revFallback = known.Active(findMemRevFB)
	default:
		return nil, fmt.Errorf("unknown engine %q", name)
	}
	kvE, err := engine.NewKVEng(newCfg(e.typ, dir))
	if err != nil {
		return nil, err
	}
	if err := kvE.OpenEng(); err != nil {
		return nil, err
	}
	e.kv = kvE
	return e, nil
}

func (e *eng) close() {
	if e.kv != nil {
		e.kv.CloseAll()
		e.kv = nil
	}
}

func hx(b []byte) string {
	if b == nil {
		return "<nil>"
	}
	return fmt.Sprintf("x%x", b)
}

// hv renders a value; long constant-fill values are abbreviated exactly.
func hv(b []byte) string {
	if len(b) > 32 {
		same := true
		for _, c := range b {
			if c != b[0] {
				same = false
				break
			}
		}
		if same {
			return fmt.Sprintf("x%02x*%d", b[0], len(b))
		}
	}
	return hx(b)
}

func cp(b []byte) []byte {
	if b == nil {
		return nil
	}
	return append([]byte{}, b...)
}

// spare returns a copy of b with spare capacity filled with a sentinel, so that a callee
// appending to a caller-owned slice writes into memory the harness can inspect.
func spare(b []byte) []byte {
	if b == nil {
		return nil
	}
	buf := make([]byte, len(b)+4)
	copy(buf, b)
	for i := len(b); i < len(buf); i++ {
		buf[i] = 0xAA
	}
	return buf[:len(b):len(buf)]
}

func spareTouched(b []byte) bool {
	if b == nil {
		return false
	}
	full := b[:cap(b)]
	for i := len(b); i < len(full); i++ {
		if full[i] != 0xAA {
			return true
		}
	}
	return false
}

func scribble(b []byte) {
	for i := range b {
		b[i] = 0xEE
	}
}

// ---- write batches -------------------------------------------------------------------

const (
	fateCommit = iota
	fateWrite  // commit through KVEngine.Write(wb)
	fateClear
	fateNone // abandoned: never committed (the batch is destroyed / cleared afterwards)
)

func queue(e *eng, wb engine.WriteBatch, ops []wop) {
	for _, o := range ops {
		k, v := cp(o.key), cp(o.val)
		switch o.kind {
		case opPut:
			wb.Put(k, v)
		case opDel:
			wb.Delete(k)
		case opDelRange:
			wb.DeleteRange(k, v)
		case opMerge:
			wb.Merge(k, v)
		}
		if e.selectable {
			// the callers hand in buffers they reuse (e.g. wb.Delete(it.RefKey())): the batch must not keep them.
			// Exception: the value of a Put on a counter key. No caller puts a counter key at all (they only
			// Merge/Delete it); the mem-radix batch keeps the caller's slice of such a Put for a later Merge in
			// the same batch, which only this harness could observe.
			scribble(k)
			if !(o.kind == opPut && isCounterKey(o.key)) {
				scribble(v)
			}
		}
	}
}

// ---- point reads ---------------------------------------------------------------------

type pointKind int

const (
	pkGet pointKind = iota
	pkGetNoLock
	pkExist
	pkExistNoLock
	pkMulti
	pkMultiAlias // values written into the key list itself, as rockredis PFCOUNT does
	pkRef
	pkRefNoLock
	pkOp
	pkOpNoLock
	pkCount
)

var pointNames = [...]string{"GetBytes", "GetBytesNoLock", "Exist", "ExistNoLock", "MultiGetBytes", "MultiGetBytes(alias)", "GetRef", "GetRefNoLock", "GetValueWithOp", "GetValueWithOpNoLock"}

func refObs(rs engine.RefSlice, err error) string {
	if err != nil {
		return "err:" + err.Error()
	}
	if rs == nil {
		return "<nil>"
	}
	d := rs.Data()
	b := rs.Bytes()
	out := hx(cp(d))
	// absence is signalled by Data() == nil (what the callers test); Bytes() only has to carry the same content
	if !bytes.Equal(d, b) {
		out += fmt.Sprintf("!Bytes()=%s", hx(b))
	}
	rs.Free()
	return out
}

func execPoint(e *eng, pk pointKind, keys [][]byte) string {
	k0 := cp(keys[0])
	switch pk {
	case pkGet, pkGetNoLock:
		var v []byte
		var err error
		if pk == pkGet {
			v, err = e.kv.GetBytes(k0)
		} else {
			v, err = e.kv.GetBytesNoLock(k0)
		}
		if err != nil {
			return "err:" + err.Error()
		}
		return hx(v)
	case pkExist, pkExistNoLock:
		var ok bool
		var err error
		if pk == pkExist {
			ok, err = e.kv.Exist(k0)
		} else {
			ok, err = e.kv.ExistNoLock(k0)
		}
		if err != nil {
			return "err:" + err.Error()
		}
		return fmt.Sprint(ok)
	case pkMulti, pkMultiAlias:
		kl := make([][]byte, len(keys))
		for i := range keys {
			kl[i] = cp(keys[i])
		}
		vals := make([][]byte, len(keys))
		if pk == pkMultiAlias {
			vals = kl
		}
		errs := make([]error, len(keys))
		e.kv.MultiGetBytes(kl, vals, errs)
		var sb strings.Builder
		for i := range keys {
			if errs[i] != nil {
				sb.WriteString("err:" + errs[i].Error())
			} else {
				sb.WriteString(hx(vals[i]))
			}
			sb.WriteByte(' ')
		}
		return sb.String()
	case pkRef:
		return refObs(e.kv.GetRef(k0))
	case pkRefNoLock:
		return refObs(e.kv.GetRefNoLock(k0))
	case pkOp, pkOpNoLock:
		out := "op-not-called"
		op := func(v []byte) error {
			out = hx(cp(v))
			return nil
		}
		var err error
		if pk == pkOp {
			err = e.kv.GetValueWithOp(k0, op)
		} else {
			err = e.kv.GetValueWithOpNoLock(k0, op)
		}
		if err != nil {
			return "err:" + err.Error()
		}
		return out
	}
	return "?"
}

func expectPoint(m *refModel, pk pointKind, keys [][]byte) string {
	val := func(k []byte) string {
		v, ok := m.get(k)
		if !ok {
			return "<nil>"
		}
		return hx(append([]byte{}, v...))
	}
	switch pk {
	case pkExist, pkExistNoLock:
		return fmt.Sprint(m.has(keys[0]))
	case pkMulti, pkMultiAlias:
		var sb strings.Builder
		for _, k := range keys {
			sb.WriteString(val(k))
			sb.WriteByte(' ')
		}
		return sb.String()
	}
	return val(keys[0])
}

// ---- range iterators -----------------------------------------------------------------

func fmtKVs(kvs []kv, vt byte) string {
	var sb strings.Builder
	sb.WriteByte('[')
	for _, e := range kvs {
		fmt.Fprintf(&sb, "%x=%x ", e.k, stripTs(e.v, vt))
	}
	sb.WriteByte(']')
	return sb.String()
}

func (s *iterSpec) opts(min, max []byte) engine.IteratorOpts {
	o := engine.IteratorOpts{Reverse: s.reverse, IgnoreDel: s.ignoreDel, WithSnap: s.withSnap}
	o.Min, o.Max, o.Type = min, max, s.rtype
	o.Offset, o.Count = s.offset, s.count
	return o
}

// execRange builds the iterator the way rockredis does, optionally commits a batch while
// it is open, drains it and returns the rendered result. spareHit reports whether the
// engine wrote into the spare capacity of the caller's bound slices (informational).
func execRange(e *eng, s *iterSpec) (obs string, spareHit bool) {
	min, max := spare(s.min), spare(s.max)
	var it *engine.RangeLimitedIterator
	var err error
	if s.limited {
		it, err = engine.NewDBRangeLimitIteratorWithOpts(e.kv, s.opts(min, max))
	} else {
		it, err = engine.NewDBRangeIteratorWithOpts(e.kv, s.opts(min, max))
	}
	if err != nil {
		return "err:" + err.Error(), false
	}
	closed := false
	defer func() {
		if !closed {
			it.Close()
		}
	}()
	if s.noTs != 0 {
		it.NoTimestamp(s.noTs)
	}
	if len(s.midWrite) > 0 {
		wb := e.kv.NewWriteBatch()
		queue(e, wb, s.midWrite)
		err := wb.Commit()
		wb.Clear()
		wb.Destroy()
		if err != nil {
			return "err:midwrite:" + err.Error(), false
		}
	}
	var sb strings.Builder
	sb.WriteByte('[')
	n := 0
	// Key() and Value() hand out slices the caller owns (the data mapping keeps them while it goes
	// on iterating, e.g. HGETALL); RefKey()/RefValue() are only valid until the iterator moves.
	// So owned slices are kept as they are and only rendered after the iteration is over and the
	// iterator is closed: an implementation that returns its internal buffer shows up here.
	var ks, vs [][]byte
	runaway := false
	for ; it.Valid(); it.Next() {
		var k, v []byte
		if s.refKey {
			k = cp(it.RefKey())
		} else {
			k = it.Key()
		}
		if s.refVal {
			v = cp(it.RefValue())
		} else {
			v = it.Value()
		}
		ks, vs = append(ks, k), append(vs, v)
		n++
		if n > 10000 {
			runaway = true
			break
		}
	}
	it.Close()
	closed = true
	for i := range ks {
		fmt.Fprintf(&sb, "%x=%x ", ks[i], vs[i])
	}
	if runaway {
		sb.WriteString("...runaway")
	}
	sb.WriteByte(']')
	if !bytes.Equal(min, s.min) || !bytes.Equal(max, s.max) {
		sb.WriteString("!caller-bound-modified")
	}
	return sb.String(), spareTouched(min) || spareTouched(max)
}

func (s *iterSpec) String() string {
	fn := "NewDBRangeIteratorWithOpts"
	lim := ""
	if s.limited {
		fn = "NewDBRangeLimitIteratorWithOpts"
		lim = fmt.Sprintf(" offset=%d count=%d", s.offset, s.count)
	}
	ty := map[uint8]string{0: "close", 1: "lopen", 0x10: "ropen", 0x11: "open"}[s.rtype]
	out := fmt.Sprintf("%s min=%s max=%s type=%s reverse=%v%s", fn, hx(s.min), hx(s.max), ty, s.reverse, lim)
	if s.ignoreDel {
		out += " ignoreDel"
	}
	if s.withSnap {
		out += " withSnap"
	}
	if s.noTs != 0 {
		out += fmt.Sprintf(" noTimestamp(%d)", s.noTs)
	}
	if len(s.midWrite) > 0 {
		out += " commit-while-open{" + fmtOps(s.midWrite) + "}"
	}
	return out
}

func fmtOps(ops []wop) string {
	var parts []string
	for _, o := range ops {
		switch o.kind {
		case opPut:
			parts = append(parts, fmt.Sprintf("put(%s,%s)", hx(o.key), hv(o.val)))
		case opDel:
			parts = append(parts, fmt.Sprintf("del(%s)", hx(o.key)))
		case opDelRange:
			parts = append(parts, fmt.Sprintf("delrange(%s,%s)", hx(o.key), hx(o.val)))
		case opMerge:
			parts = append(parts, fmt.Sprintf("merge(%s,%s)", hx(o.key), hx(o.val)))
		}
	}
	return strings.Join(parts, " ")
}

// ---- raw cursor walks ----------------------------------------------------------------

type rawKind int

const (
	rkSeek rawKind = iota
	rkSeekForPrev
	rkFirst
	rkLast
	rkNext
	rkPrev
)

type rawOp struct {
	kind   rawKind
	target []byte
}

func (o rawOp) String() string {
	switch o.kind {
	case rkSeek:
		return "Seek(" + hx(o.target) + ")"
	case rkSeekForPrev:
		return "SeekForPrev(" + hx(o.target) + ")"
	case rkFirst:
		return "SeekToFirst"
	case rkLast:
		return "SeekToLast"
	case rkNext:
		return "Next"
	}
	return "Prev"
}

// A raw walk observes, after every move, the entry under the cursor if the cursor is valid
// and still inside the case's 3-byte prefix, else "none" (rocksdb iterates in prefix mode
// and goes invalid at the prefix boundary, the other engines walk on into foreign keys;
// engine/iterator.go documents that difference). The generator never moves a cursor whose
// observation was "none" with Next/Prev.
func execRaw(e *eng, prefix []byte, withSnap, ignoreDel bool, ops []rawOp) string {
	it, err := e.kv.GetIterator(engine.IteratorOpts{WithSnap: withSnap, IgnoreDel: ignoreDel})
	if err != nil {
		return "err:" + err.Error()
	}
	defer it.Close()
	var sb strings.Builder
	for _, o := range ops {
		switch o.kind {
		case rkSeek:
			it.Seek(cp(o.target))
		case rkSeekForPrev:
			it.SeekForPrev(cp(o.target))
		case rkFirst:
			it.SeekToFirst()
		case rkLast:
			it.SeekToLast()
		case rkNext:
			it.Next()
		case rkPrev:
			it.Prev()
		}
		if it.Valid() && bytes.HasPrefix(it.RefKey(), prefix) {
			fmt.Fprintf(&sb, "%x=%x;", it.Key(), it.Value())
		} else {
			sb.WriteString("none;")
		}
	}
	return sb.String()
}

func expectRaw(m *refModel, prefix []byte, ops []rawOp) string {
	c := &refCursor{keys: m.sorted()}
	var sb strings.Builder
	for _, o := range ops {
		switch o.kind {
		case rkSeek:
			c.seek(o.target)
		case rkSeekForPrev:
			c.seekForPrev(o.target)
		case rkFirst:
			c.first()
		case rkLast:
			c.last()
		case rkNext:
			c.next()
		case rkPrev:
			c.prev()
		}
		if e, ok := c.cur(); ok && strings.HasPrefix(e.k, string(prefix)) {
			fmt.Fprintf(&sb, "%x=%x;", e.k, e.v)
		} else {
			sb.WriteString("none;")
		}
	}
	return sb.String()
}

// ---- whole-store dump ----------------------------------------------------------------

// dump reads every key the case ever named through GetBytes and scans every 3-byte prefix
// in use with a closed forward range (the only engine-independent way to enumerate: a raw
// SeekToFirst walk stops at the first prefix boundary on rocksdb).
func dumpEngine(e *eng, keys [][]byte, prefixes [][]byte) string {
	var sb strings.Builder
	for _, k := range keys {
		v, err := e.kv.GetBytes(cp(k))
		if err != nil {
			fmt.Fprintf(&sb, "%x=err:%v ", k, err)
		} else {
			fmt.Fprintf(&sb, "%x=%s ", k, hx(v))
		}
	}
	for _, p := range prefixes {
		s := prefixScan(p)
		o, _ := execRange(e, s)
		sb.WriteString(o)
	}
	return sb.String()
}

func prefixScan(p []byte) *iterSpec {
	return &iterSpec{min: cp(p), max: append(cp(p), 0xff, 0xff, 0xff, 0xff, 0xff, 0xff, 0xff, 0xff), rtype: 0}
}

func dumpModel(m *refModel, keys [][]byte, prefixes [][]byte) string {
	var sb strings.Builder
	for _, k := range keys {
		v, ok := m.get(k)
		if !ok {
			fmt.Fprintf(&sb, "%x=<nil> ", k)
		} else {
			fmt.Fprintf(&sb, "%x=%s ", k, hx(append([]byte{}, v...)))
		}
	}
	for _, p := range prefixes {
		sb.WriteString(fmtKVs(m.scan(prefixScan(p)), 0))
	}
	return sb.String()
}

// ---- maintenance ---------------------------------------------------------------------

func (e *eng) reopen() error {
	if !e.persistent {
		return nil
	}
	e.kv.CloseEng()
	return e.kv.OpenEng()
}

// checkpoint saves a checkpoint, opens a second engine on it, dumps that and removes it.
func (e *eng) checkpointDump(keys [][]byte, prefixes [][]byte) (string, error) {
	nb, err := os.MkdirTemp(filepath.Dir(e.base), "ckpt-"+e.name+"-")
	if err != nil {
		return "", fmt.Errorf("HARNESS: %v", err)
	}
	defer os.RemoveAll(nb)
	target, err := engine.GetDataDirFromBase(e.typ, nb)
	if err != nil {
		return "", err
	}
	ck, err := e.kv.NewCheckpoint(false)
	if err != nil {
		return "", err
	}
	// the mem engine's checkpoint prints every key to stdout unconditionally
	var saved *os.File
	if e.typ == "mem" {
		if null, err := os.OpenFile(os.DevNull, os.O_WRONLY, 0); err == nil {
			saved = os.Stdout
			os.Stdout = null
			defer null.Close()
		}
	}
	err = ck.Save(target, nil)
	if saved != nil {
		os.Stdout = saved
	}
	if err != nil {
		return "", err
	}
	e2, err := openAt(e.name, nb)
	if err != nil {
		return "", err
	}
	defer e2.close()
	return dumpEngine(e2, keys, prefixes), nil
}

// counter keys are <3-byte prefix>#...: the only keys that receive Merge
func isCounterKey(k []byte) bool { return len(k) >= 4 && k[3] == '#' }
