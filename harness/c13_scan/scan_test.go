package c13

import (
	"encoding/base64"
	"fmt"
	"sort"
	"strings"
	"testing"

	"github.com/gobwas/glob"
	"github.com/youzan/ZanRedisDB/node"
	"pgregory.net/rapid"

	"verifharness/lib/gen"
	"verifharness/lib/known"
	"verifharness/lib/simkv"
	"verifharness/lib/stats"
)

func TestMain(m *testing.M) { stats.Main(m) }

const ns = "default"

const rule = "a generated population of 0-40 non-empty names per (type, table) or per collection (adversarial alphabet: names that are prefixes of each other, contain ':' 0x00 0xff, the table boundary) with populated neighbouring tables / collections / types on both sides, then a scan plan: SCAN / REVSCAN (kv), ADVSCAN / ADVREVSCAN per type, HSCAN / SSCAN / ZSCAN and their rev forms; COUNT in {absent, 1, 2, 3, n-1, n, n+1, 100}; optional MATCH glob; 1, 3 or 4 partitions through the server's merge layer with its composite cursor; optionally writes to OTHER names between pages. Each returned cursor is fed back until the empty cursor (page cap n+5). Oracle: concatenated pages == sorted population (reverse-sorted for rev; per partition when the namespace has several), nothing from neighbours, no duplicates; with MATCH exactly the glob-filtered subset; for collection scans every intermediate cursor used afresh yields exactly the suffix after it. non-trivial = the population has two names one of which is a prefix of the other AND the scan needed >= 2 pages"

var recs = map[string]*stats.Recorder{}

func rec(name string) *stats.Recorder {
	if r, ok := recs[name]; ok {
		return r
	}
	r := stats.New(name, rule)
	recs[name] = r
	return r
}

var names = []string{"a", "b", "ab", "abc", "a\x00", "a\x00b", "\x00", "\x00\x00", "\xff", "\xff\xff", "a:", "a:b", ":", ":a", "k", "kk", "k\x00", "k\xff", "z", "0", "00", "A", " ", "*", "a*", "[a]", "?",
	strings.Repeat("n", 300), "ba", "b\x00a", "c", "d", "e", "f", "g", "h", "i", "j", "aa", "aaa", "aab", "m1", "m2", "m3", "m4", "m5", "m6", "m7", "m8", "m9"}

// revStart is above every generated name.
const revStart = "\xff\xff\xff\xff"

var tables = []string{"t", "t0", "tt", "T", "s", "t\x00"}

var globs = []string{"*", "a*", "*a", "*a*", "?", "??", "a?", "[ab]*", "k*", "*\x00*", "n*", "m[1-5]", "*:*", "\\**", "*:a*", "t*:a", "*:?", "*:??", "*:m[1-5]", "t:*", "*:[ab]*"}

type scanType struct {
	name  string // advscan type word
	fill  func(s *simkv.Sim, key string)
	scanK bool // plain SCAN/REVSCAN usable
}

func fillKV(s *simkv.Sim, key string)   { s.Do("set", ns+":"+key, "v") }
func fillHash(s *simkv.Sim, key string) { s.Do("hset", ns+":"+key, "f", "v") }
func fillList(s *simkv.Sim, key string) { s.Do("rpush", ns+":"+key, "v") }
func fillSet(s *simkv.Sim, key string)  { s.Do("sadd", ns+":"+key, "m") }
func fillZSet(s *simkv.Sim, key string) { s.Do("zadd", ns+":"+key, "1", "m") }

var types = []scanType{{"kv", fillKV, true}, {"hash", fillHash, false}, {"list", fillList, false}, {"set", fillSet, false}, {"zset", fillZSet, false}}

func hasPrefixPair(pop []string) bool {
	for _, a := range pop {
		for _, b := range pop {
			if a != b && strings.HasPrefix(b, a) {
				return true
			}
		}
	}
	return false
}

func drawPopulation(t *rapid.T, nulFree bool, max int) []string {
	n := rapid.IntRange(0, max).Draw(t, "npop")
	perm := rapid.Permutation(names).Draw(t, "names")
	var out []string
	for _, x := range perm {
		if len(out) >= n {
			break
		}
		if nulFree && strings.Contains(x, "\x00") {
			continue
		}
		out = append(out, x)
	}
	sort.Strings(out)
	return out
}

func drawCount(t *rapid.T, n int) (string, int) {
	c := rapid.SampledFrom([]int{0, 1, 2, 3, n - 1, n, n + 1, 100}).Draw(t, "count")
	if c < 0 {
		c = 1
	}
	if c == 0 {
		return "", 0
	}
	return fmt.Sprint(c), c
}

func reversed(in []string) []string {
	out := make([]string, len(in))
	for i, x := range in {
		out[len(in)-1-i] = x
	}
	return out
}

func filterGlob(pop []string, pat string) []string {
	if pat == "" {
		return pop
	}
	g, err := glob.Compile(pat)
	if err != nil {
		return nil
	}
	var out []string
	for _, x := range pop {
		if g.Match(x) {
			out = append(out, x)
		}
	}
	return out
}

// ---------------------------------------------------------------- key scans (SCAN / ADVSCAN)

func runKeyScan(t *rapid.T, engine string, parts int, recName string) {
	nulFree := engine == "mem" && known.Active("C20-mem-radix-seek-lowerbound-nul")
	sim, err := simkv.New(simkv.Options{Engine: engine, Partitions: parts, ExpPolicy: rapid.SampledFrom([]string{"wait_compact", "local_deletion"}).Draw(t, "policy")})
	if err != nil {
		t.Fatalf("HARNESS: %v", err)
	}
	defer sim.Close()
	ty := types[rapid.IntRange(0, len(types)-1).Draw(t, "type")]
	tabs := tables
	if nulFree {
		tabs = tables[:5]
	}
	table := rapid.SampledFrom(tabs).Draw(t, "table")
	pop := drawPopulation(t, nulFree, 40)
	for _, k := range pop {
		ty.fill(sim, table+":"+k)
	}
	// neighbours: other tables with the same names, other types in the same table
	for _, ot := range tabs {
		if ot != table {
			for _, k := range []string{"a", "k", "zz", "\xff", "0"} {
				ty.fill(sim, ot+":"+k)
			}
		}
	}
	for _, oty := range types {
		if oty.name != ty.name {
			for _, k := range []string{"other1", "a", "zzzz"} {
				oty.fill(sim, table+":"+k)
			}
		}
	}
	reverse := rapid.Bool().Draw(t, "reverse")
	if engine == "rocksdb" && reverse {
		// the sandbox's stock librocksdb is built with assertions and aborts in
		// FixedPrefixTransform::Transform (InDomain) when a reverse key scan falls back to
		// SeekToFirst with the 1-byte type prefix as lower bound; a release build does not.
		// Not a ZanRedisDB defect (DESIGN.md §7 item 4): reverse key scans run on mem and pebble.
		reverse = false
		rec(recName).Count("reverse_skipped_on_assert_build_of_rocksdb", 1)
	}
	adv := !ty.scanK || rapid.Bool().Draw(t, "adv")
	countArg, count := drawCount(t, len(pop))
	pat := ""
	if rapid.IntRange(0, 3).Draw(t, "usematch") == 0 {
		pat = rapid.SampledFrom(globs).Draw(t, "glob")
	}
	interleave := rapid.IntRange(0, 3).Draw(t, "interleave") == 0
	cmdName := "scan"
	switch {
	case adv && reverse:
		cmdName = "advrevscan"
	case adv:
		cmdName = "advscan"
	case reverse:
		cmdName = "revscan"
	}
	// for key scans the glob is applied to the stored name "table:key" (rockredis scanGenericUseBuffer;
	// the user guide's example uses *1180*), so that is the string the expected subset is computed on
	var want []string
	if pat == "" {
		want = pop
	} else if g, err := glob.Compile(pat); err == nil {
		for _, x := range pop {
			if g.Match(table + ":" + x) {
				want = append(want, x)
			}
		}
	}
	var got []string
	var trace []string
	cursor := ""
	if reverse {
		// a reverse scan starts below its cursor and the empty cursor is below everything (the
		// repository's own tests assert that it returns nothing), so the client supplies a start
		// above every name: the composite cursor of the merge layer, one entry per partition
		var comp []byte
		for p := 0; p < parts; p++ {
			comp = append(comp, []byte(fmt.Sprintf("%d:%s;", p, base64.StdEncoding.EncodeToString([]byte(revStart))))...)
		}
		cursor = base64.StdEncoding.EncodeToString(comp)
	}
	pages := 0
	for {
		pages++
		if pages > len(pop)+12+parts*2 {
			t.Fatalf("%s over table %q (%s, count %q, match %q, %d partitions) did not terminate after %d pages\npopulation: %q\npages: %s", cmdName, table, ty.name, countArg, pat, parts, pages, pop, strings.Join(trace, "\n  "))
		}
		args := []string{cmdName, ns + ":" + table + ":" + cursor}
		if adv {
			args = append(args, ty.name)
		}
		if pat != "" {
			args = append(args, "match", pat)
		}
		if countArg != "" {
			args = append(args, "count", countArg)
		}
		r := sim.Do(args...).One()
		trace = append(trace, gen.Quote(args)+" -> "+r.String())
		if r.Kind != 'a' || len(r.A) != 2 || r.A[0].Kind != 'b' || r.A[1].Kind != 'a' {
			t.Fatalf("%s: malformed reply %s\npages:\n  %s", cmdName, r, strings.Join(trace, "\n  "))
		}
		for _, e := range r.A[1].A {
			got = append(got, e.S)
		}
		cursor = r.A[0].S
		if cursor == "" {
			break
		}
		if interleave && pages <= 3 {
			// writes to names outside the tracked population (fresh names, larger and smaller than the cursor)
			ty.fill(sim, table+":"+fmt.Sprintf("zzz-extra-%d", pages))
			ty.fill(sim, table+":"+fmt.Sprintf("!extra-%d", pages))
		}
	}
	if interleave {
		// elements that existed throughout must appear exactly once; extras may or may not
		var kept []string
		for _, g := range got {
			if !strings.HasPrefix(g, "zzz-extra-") && !strings.HasPrefix(g, "!extra-") {
				kept = append(kept, g)
			}
		}
		got = kept
	}
	fail := func(msg string) {
		t.Fatalf("%s over table %q type %s (count %q, match %q, %d partitions, reverse=%v): %s\n  population (sorted): %q\n  expected:            %q\n  returned:            %q\npages:\n  %s", cmdName, table, ty.name, countArg, pat, parts, reverse, msg, pop, want, got, strings.Join(trace, "\n  "))
	}
	if parts == 1 {
		exp := want
		if reverse {
			exp = reversed(want)
		}
		if fmt.Sprint(got) != fmt.Sprint(exp) {
			fail("concatenated pages differ from the ordered population")
		}
	} else {
		// order is promised per partition only
		cnt := map[string]int{}
		for _, g := range got {
			cnt[g]++
		}
		for _, w := range want {
			if cnt[w] != 1 {
				fail(fmt.Sprintf("element %q returned %d times", w, cnt[w]))
			}
			delete(cnt, w)
		}
		if len(cnt) != 0 {
			fail(fmt.Sprintf("elements returned that are not in the population: %v", cnt))
		}
		last := map[int]string{}
		seen := map[int]bool{}
		for _, g := range got {
			pid := node.GetHashedPartitionID([]byte(table+":"+g), parts)
			if seen[pid] {
				if (!reverse && g <= last[pid]) || (reverse && g >= last[pid]) {
					fail(fmt.Sprintf("partition %d returned %q after %q (wrong order)", pid, g, last[pid]))
				}
			}
			seen[pid], last[pid] = true, g
		}
	}
	var labels []string
	if pages >= 2 {
		labels = append(labels, "multi_page")
	}
	if pat != "" {
		labels = append(labels, "match")
	}
	if reverse {
		labels = append(labels, "reverse")
	}
	if interleave {
		labels = append(labels, "interleaved_writes")
	}
	labels = append(labels, cmdName)
	rc := rec(recName)
	if nulFree {
		rc.Count("excluded_by_known_finding", 1)
	}
	canon := fmt.Sprintf("%s|%s|%s|%q|%s|%s|%d|%v", cmdName, ty.name, table, pop, countArg, pat, parts, interleave)
	rc.Record(stats.HashString(canon), hasPrefixPair(pop) && pages >= 2, labels, func() interface{} {
		tr := trace
		if len(tr) > 12 {
			tr = tr[:12]
		}
		return map[string]interface{}{"engine": engine, "partitions": parts, "type": ty.name, "table": table, "population": pop, "count": count, "match": pat, "pages": tr}
	})
}

// ---------------------------------------------------------------- collection scans (HSCAN / SSCAN / ZSCAN)

func runCollScan(t *rapid.T, engine string, recName string) {
	nulFree := engine == "mem" && known.Active("C20-mem-radix-seek-lowerbound-nul")
	sim, err := simkv.New(simkv.Options{Engine: engine, ExpPolicy: rapid.SampledFrom([]string{"wait_compact", "local_deletion"}).Draw(t, "policy")})
	if err != nil {
		t.Fatalf("HARNESS: %v", err)
	}
	defer sim.Close()
	kind := rapid.SampledFrom([]string{"h", "s", "z"}).Draw(t, "kind")
	key := "t:" + rapid.SampledFrom([]string{"c", "c:", "cc", "c\xff"}).Draw(t, "key")
	pop := drawPopulation(t, nulFree, 30)
	add := func(k string, m string) {
		switch kind {
		case "h":
			sim.Do("hset", ns+":"+k, m, "v"+m)
		case "s":
			sim.Do("sadd", ns+":"+k, m)
		default:
			sim.Do("zadd", ns+":"+k, fmt.Sprint(len(m)), m)
		}
	}
	for _, m := range pop {
		add(key, m)
	}
	// neighbouring collections (names adjacent in key order) and the other collection types under the same key
	for _, nk := range []string{"t:b", "t:c", "t:c:", "t:cc", "t:c\xff", "t:d", "t:c\x00", "t0:c"} {
		if nk != key && !(nulFree && strings.Contains(nk, "\x00")) {
			add(nk, "neighbour")
			add(nk, "a")
		}
	}
	for _, c := range [][]string{{"hset", ns + ":" + key, "otherkind-h", "v"}, {"sadd", ns + ":" + key, "otherkind-s"}, {"zadd", ns + ":" + key, "1", "otherkind-z"}} {
		if c[0][0] != kind[0] {
			sim.Do(c...)
		}
	}
	reverse := rapid.Bool().Draw(t, "reverse")
	cmdName := kind + "scan"
	if reverse {
		cmdName = kind + "revscan"
	}
	countArg, count := drawCount(t, len(pop))
	pat := ""
	if rapid.IntRange(0, 3).Draw(t, "usematch") == 0 {
		pat = rapid.SampledFrom(globs).Draw(t, "glob")
	}
	want := filterGlob(pop, pat)
	if reverse {
		want = reversed(want)
	}
	var trace []string
	scanFrom := func(cursor string) ([]string, []string) {
		var got, cursors []string
		pages := 0
		for {
			pages++
			if pages > len(pop)+5 {
				t.Fatalf("%s %q (count %q match %q) did not terminate after %d pages\npopulation %q\npages:\n  %s", cmdName, key, countArg, pat, pages, pop, strings.Join(trace, "\n  "))
			}
			args := []string{cmdName, ns + ":" + key, cursor}
			if pat != "" {
				args = append(args, "match", pat)
			}
			if countArg != "" {
				args = append(args, "count", countArg)
			}
			r := sim.Do(args...).One()
			trace = append(trace, gen.Quote(args)+" -> "+r.String())
			if r.Kind != 'a' || len(r.A) != 2 || r.A[0].Kind != 'b' || r.A[1].Kind != 'a' {
				t.Fatalf("%s: malformed reply %s", cmdName, r)
			}
			el := r.A[1].A
			step := 1
			if kind != "s" {
				step = 2
				if len(el)%2 != 0 {
					t.Fatalf("%s: odd number of elements in a page of pairs: %s", cmdName, r)
				}
			}
			for i := 0; i < len(el); i += step {
				got = append(got, el[i].S)
				if kind == "h" && el[i+1].S != "v"+el[i].S {
					t.Fatalf("%s %q: field %q returned with value %q, stored %q", cmdName, key, el[i].S, el[i+1].S, "v"+el[i].S)
				}
				if kind == "z" && el[i+1].S != fmt.Sprint(len(el[i].S)) {
					t.Fatalf("%s %q: member %q returned with score %q, stored %d", cmdName, key, el[i].S, el[i+1].S, len(el[i].S))
				}
			}
			cursor = r.A[0].S
			if cursor == "" {
				return got, cursors
			}
			cursors = append(cursors, cursor)
		}
	}
	start := ""
	if reverse {
		start = revStart // see runKeyScan
	}
	got, cursors := scanFrom(start)
	fail := func(msg string) {
		t.Fatalf("%s %q (count %q, match %q): %s\n  population (sorted): %q\n  expected: %q\n  returned: %q\npages:\n  %s", cmdName, key, countArg, pat, msg, pop, want, got, strings.Join(trace, "\n  "))
	}
	if fmt.Sprint(got) != fmt.Sprint(want) {
		fail("concatenated pages differ from the ordered collection")
	}
	// every intermediate cursor, used as a fresh starting point, yields exactly the suffix after it
	if len(cursors) > 0 {
		c := cursors[rapid.IntRange(0, len(cursors)-1).Draw(t, "resume")]
		var suffix []string
		for _, w := range want {
			if (!reverse && w > c) || (reverse && w < c) {
				suffix = append(suffix, w)
			}
		}
		again, _ := scanFrom(c)
		if fmt.Sprint(again) != fmt.Sprint(suffix) {
			t.Fatalf("%s %q resumed at cursor %q (count %q, match %q) returned %q, expected the suffix %q\npopulation %q", cmdName, key, c, countArg, pat, again, suffix, pop)
		}
	}
	labels := []string{cmdName}
	if len(cursors) > 0 {
		labels = append(labels, "multi_page")
	}
	if pat != "" {
		labels = append(labels, "match")
	}
	rc := rec(recName)
	if nulFree {
		rc.Count("excluded_by_known_finding", 1)
	}
	canon := fmt.Sprintf("%s|%s|%q|%s|%s", cmdName, key, pop, countArg, pat)
	rc.Record(stats.HashString(canon), hasPrefixPair(pop) && len(cursors) > 0, labels, func() interface{} {
		tr := trace
		if len(tr) > 12 {
			tr = tr[:12]
		}
		return map[string]interface{}{"engine": engine, "command": cmdName, "key": key, "population": pop, "count": count, "match": pat, "pages": tr}
	})
}

func TestKeyScanMem(t *testing.T) {
	rapid.Check(t, func(t *rapid.T) { runKeyScan(t, "mem", 1, "keyscan_mem") })
}
func TestKeyScanPebble(t *testing.T) {
	rapid.Check(t, func(t *rapid.T) { runKeyScan(t, "pebble", 1, "keyscan_pebble") })
}
func TestKeyScanRocksdb(t *testing.T) {
	rapid.Check(t, func(t *rapid.T) { runKeyScan(t, "rocksdb", 1, "keyscan_rocksdb") })
}
func TestKeyScanMultiPartition(t *testing.T) {
	rapid.Check(t, func(t *rapid.T) {
		runKeyScan(t, rapid.SampledFrom([]string{"mem", "pebble"}).Draw(t, "engine"), rapid.SampledFrom([]int{3, 4}).Draw(t, "parts"), "keyscan_multi_partition")
	})
}
func TestCollScanMem(t *testing.T) {
	rapid.Check(t, func(t *rapid.T) { runCollScan(t, "mem", "collscan_mem") })
}
func TestCollScanPebble(t *testing.T) {
	rapid.Check(t, func(t *rapid.T) { runCollScan(t, "pebble", "collscan_pebble") })
}
func TestCollScanRocksdb(t *testing.T) {
	rapid.Check(t, func(t *rapid.T) { runCollScan(t, "rocksdb", "collscan_rocksdb") })
}

func scanAllKV(sim *simkv.Sim, table string, cmd string, start string, extra ...string) ([]string, bool) {
	var got []string
	cursor := start
	for page := 0; page < 20; page++ {
		args := append([]string{cmd, ns + ":" + table + ":" + cursor}, extra...)
		r := sim.Do(args...).One()
		if r.Kind != 'a' || len(r.A) != 2 {
			return got, false
		}
		for _, e := range r.A[1].A {
			got = append(got, e.S)
		}
		cursor = r.A[0].S
		if cursor == "" {
			return got, true
		}
	}
	return got, false
}

func TestKnownScanCursorDoublesTable(t *testing.T) {
	known.Probe(t, "C13-scan-cursor-doubles-table", func() (bool, string) {
		sim, err := simkv.New(simkv.Options{Engine: "pebble"})
		if err != nil {
			return false, "HARNESS: " + err.Error()
		}
		defer sim.Close()
		for _, k := range []string{"a", "b", "zzz"} {
			fillKV(sim, "t:"+k)
		}
		got, done := scanAllKV(sim, "t", "scan", "", "count", "1")
		if !done || fmt.Sprint(got) != "[a b zzz]" {
			return true, fmt.Sprintf("keys a, b, zzz in table t; SCAN ns:t: COUNT 1 iterated to the end returns %q (terminated=%v)", got, done)
		}
		return false, ""
	})
}

func TestKnownRevScanWithoutCount(t *testing.T) {
	known.Probe(t, "C13-revscan-without-count-runs-forward", func() (bool, string) {
		sim, err := simkv.New(simkv.Options{Engine: "pebble"})
		if err != nil {
			return false, "HARNESS: " + err.Error()
		}
		defer sim.Close()
		for _, k := range []string{"a", "b"} {
			fillHash(sim, "t:"+k)
		}
		start := base64.StdEncoding.EncodeToString([]byte("0:" + base64.StdEncoding.EncodeToString([]byte(revStart)) + ";"))
		got, done := scanAllKV(sim, "t", "advrevscan", start, "hash")
		if !done || fmt.Sprint(got) != "[b a]" {
			return true, fmt.Sprintf("hashes a, b in table t; ADVREVSCAN from above without COUNT returns %q", got)
		}
		return false, ""
	})
}
