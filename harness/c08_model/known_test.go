package c08

import (
	"fmt"
	"testing"

	"verifharness/lib/known"
	"verifharness/lib/simkv"
)

type step struct {
	cmd  []string
	want string // expected reply in Val.String() form; "" = do not compare
}

func script(engine string, steps []step) (bool, string) {
	s, err := simkv.New(simkv.Options{Engine: engine})
	if err != nil {
		return false, "HARNESS: " + err.Error()
	}
	defer s.Close()
	for _, st := range steps {
		got := s.Do(st.cmd...).String()
		if st.want != "" && got != st.want {
			return true, fmt.Sprintf("%q -> %s, want %s", st.cmd, got, st.want)
		}
	}
	return false, ""
}

func TestKnownDuplicateArguments(t *testing.T) {
	known.Probe(t, "C08-duplicate-argument-counted-twice", func() (bool, string) {
		return script("pebble", []step{
			{[]string{"hmset", "default:t:h", "f", "1", "f", "2", "g", "3"}, "+OK"},
			{[]string{"hlen", "default:t:h"}, ":2"},
			{[]string{"hget", "default:t:h", "f"}, `"2"`},
			{[]string{"sadd", "default:t:s", "a", "a", "b"}, ":2"},
			{[]string{"scard", "default:t:s"}, ":2"},
			{[]string{"zadd", "default:t:z", "1", "a", "2", "a"}, ":1"},
			{[]string{"zrange", "default:t:z", "0", "-1", "withscores"}, `["a" "2"]`},
			{[]string{"hset", "default:t:h2", "f", "v"}, ":1"},
			{[]string{"hsetnx", "default:t:h2", "g", "v"}, ":1"},
			{[]string{"hdel", "default:t:h2", "f", "f"}, ":1"},
			{[]string{"hlen", "default:t:h2"}, ":1"},
			{[]string{"hgetall", "default:t:h2"}, `["g" "v"]`},
			{[]string{"sadd", "default:t:s2", "a", "b"}, ":2"},
			{[]string{"srem", "default:t:s2", "a", "a"}, ":1"},
			{[]string{"smembers", "default:t:s2"}, `["b"]`},
			{[]string{"scard", "default:t:s2"}, ":1"},
			{[]string{"zadd", "default:t:z2", "1", "a", "2", "b"}, ":2"},
			{[]string{"zrem", "default:t:z2", "a", "a"}, ":1"},
			{[]string{"zcard", "default:t:z2"}, ":1"},
			{[]string{"set", "default:t:k", "v"}, "+OK"},
			{[]string{"del", "default:t:k", "default:t:k"}, ":1"},
		})
	})
}

func TestKnownZincrbyUnchangedScore(t *testing.T) {
	known.Probe(t, "C08-zincrby-unchanged-score-loses-member", func() (bool, string) {
		return script("pebble", []step{
			{[]string{"zadd", "default:t:z", "1", "b"}, ":1"},
			{[]string{"zincrby", "default:t:z", "0", "b"}, `"1"`},
			{[]string{"zrange", "default:t:z", "0", "-1", "withscores"}, `["b" "1"]`},
			{[]string{"zrank", "default:t:z", "b"}, ":0"},
		})
	})
}

func TestKnownExclusiveScoreBound(t *testing.T) {
	known.Probe(t, "C08-exclusive-score-bound-integer-step", func() (bool, string) {
		return script("pebble", []step{
			{[]string{"zadd", "default:t:z", "1", "a", "1.5", "b", "2", "c", "1e308", "d"}, ":4"},
			{[]string{"zrangebyscore", "default:t:z", "(1", "2"}, `["b" "c"]`},
			{[]string{"zrangebyscore", "default:t:z", "1", "(2"}, `["a" "b"]`},
			{[]string{"zcount", "default:t:z", "-inf", "(1e308"}, ":3"},
		})
	})
}

func TestKnownLtrimBelowMinusLen(t *testing.T) {
	known.Probe(t, "C08-ltrim-below-minus-len", func() (bool, string) {
		return script("pebble", []step{
			{[]string{"lpush", "default:t:l", "x"}, ":1"},
			{[]string{"ltrim", "default:t:l", "-5", "-5"}, "+OK"},
			{[]string{"llen", "default:t:l"}, ":0"},
		})
	})
}

func TestKnownNegativeZeroScoreSign(t *testing.T) {
	known.Probe(t, "C08-negative-zero-score-sign", func() (bool, string) {
		return script("pebble", []step{
			{[]string{"zadd", "default:t:z", "-0", "m"}, ":1"},
			{[]string{"zscore", "default:t:z", "m"}, `"-0"`},
			{[]string{"zrange", "default:t:z", "0", "-1", "withscores"}, `["m" "-0"]`},
			{[]string{"zincrby", "default:t:z", "-0", "q"}, `"-0"`},
		})
	})
}

func TestKnownInfiniteScoreSpelling(t *testing.T) {
	known.Probe(t, "C08-infinite-score-spelled-go-style", func() (bool, string) {
		return script("pebble", []step{
			{[]string{"zadd", "default:t:z", "inf", "m", "-inf", "n"}, ":2"},
			{[]string{"zscore", "default:t:z", "m"}, `"inf"`},
			{[]string{"zrange", "default:t:z", "0", "-1", "withscores"}, `["n" "-inf" "m" "inf"]`},
		})
	})
}

func TestKnownInfiniteRangeBoundSides(t *testing.T) {
	known.Probe(t, "C08-infinite-range-bound-only-on-its-own-side", func() (bool, string) {
		return script("pebble", []step{
			{[]string{"zadd", "default:t:z", "1", "a", "inf", "m"}, ":2"},
			{[]string{"zrangebyscore", "default:t:z", "+inf", "-inf"}, `[]`},
			{[]string{"zcount", "default:t:z", "inf", "+inf"}, ":1"},
			{[]string{"zrangebyscore", "default:t:z", "-inf", "inf"}, `["a" "m"]`},
			{[]string{"zrangebylex", "default:t:z", "+", "-"}, `[]`},
			{[]string{"zlexcount", "default:t:z", "+", "-"}, ":0"},
		})
	})
}

func TestKnownNaNScore(t *testing.T) {
	known.Probe(t, "C08-nan-score-accepted", func() (bool, string) {
		s, err := simkv.New(simkv.Options{Engine: "pebble"})
		if err != nil {
			return false, "HARNESS: " + err.Error()
		}
		defer s.Close()
		for _, c := range [][]string{
			{"zadd", "default:t:z", "nan", "e"},
			{"zadd", "default:t:z", "1", "a", "NaN", "e"},
			{"zincrby", "default:t:z", "nan", "e"},
			{"zrangebyscore", "default:t:z", "nan", "1"},
			{"zcount", "default:t:z", "0", "nan"},
		} {
			if r := s.Do(c...).One(); r.Kind != 'e' {
				return true, fmt.Sprintf("%q -> %s, want an error (not a valid float)", c, r.String())
			}
		}
		for _, st := range []step{
			{[]string{"zcard", "default:t:z"}, ":0"},
			{[]string{"zadd", "default:t:z", "inf", "m"}, ":1"},
		} {
			if got := s.Do(st.cmd...).String(); got != st.want {
				return true, fmt.Sprintf("%q -> %s, want %s", st.cmd, got, st.want)
			}
		}
		if r := s.Do("zincrby", "default:t:z", "-inf", "m").One(); r.Kind != 'e' {
			return true, fmt.Sprintf("zincrby -inf on a score of inf -> %s, want an error (the result is not a number)", r.String())
		}
		if r := s.Do("zrange", "default:t:z", "0", "-1"); r.String() != `["m"]` {
			return true, "after the refused ZINCRBY: zrange -> " + r.String()
		}
		if r := s.Do("zcount", "default:t:z", "-inf", "+inf"); r.String() != ":1" {
			return true, "after the refused ZINCRBY: zcount -inf +inf -> " + r.String()
		}
		return false, ""
	})
}

func TestKnownIncrOverflow(t *testing.T) {
	known.Probe(t, "C08-incr-wraps-on-overflow", func() (bool, string) {
		s, err := simkv.New(simkv.Options{Engine: "pebble"})
		if err != nil {
			return false, "HARNESS: " + err.Error()
		}
		defer s.Close()
		s.Do("set", "default:t:k", "9223372036854775807")
		s.Do("hset", "default:t:h", "f", "-9223372036854775808")
		for _, c := range [][]string{
			{"incr", "default:t:k"},
			{"incrby", "default:t:k", "1"},
			{"incrby", "default:t:k", "9223372036854775807"},
			{"hincrby", "default:t:h", "f", "-1"},
		} {
			if r := s.Do(c...).One(); r.Kind != 'e' {
				return true, fmt.Sprintf("%q on a value at the end of the int64 range -> %s, want an error (increment or decrement would overflow)", c, r.String())
			}
		}
		for _, st := range []step{
			{[]string{"get", "default:t:k"}, `"9223372036854775807"`},
			{[]string{"hget", "default:t:h", "f"}, `"-9223372036854775808"`},
			{[]string{"incrby", "default:t:k", "-1"}, ":9223372036854775806"},
			{[]string{"hincrby", "default:t:h", "f", "1"}, ":-9223372036854775807"},
		} {
			if got := s.Do(st.cmd...).String(); got != st.want {
				return true, fmt.Sprintf("%q -> %s, want %s", st.cmd, got, st.want)
			}
		}
		return false, ""
	})
}

func scriptPolicy(engine, policy string, steps []step) (bool, string) {
	s, err := simkv.New(simkv.Options{Engine: engine, ExpPolicy: policy})
	if err != nil {
		return false, "HARNESS: " + err.Error()
	}
	defer s.Close()
	for _, st := range steps {
		got := s.Do(st.cmd...).String()
		if st.want != "" && got != st.want {
			return true, fmt.Sprintf("%q -> %s, want %s", st.cmd, got, st.want)
		}
	}
	return false, ""
}

func TestKnownTTLOfMissingKey(t *testing.T) {
	known.Probe(t, "C08-ttl-of-missing-key-is-minus-one", func() (bool, string) {
		return scriptPolicy("pebble", "wait_compact", []step{
			{[]string{"set", "default:t:k", "v"}, "+OK"},
			{[]string{"ttl", "default:t:k"}, ":-1"},
			{[]string{"ttl", "default:t:missing"}, ":-2"},
			{[]string{"httl", "default:t:missing"}, ":-2"},
		})
	})
}

func TestKnownPersistWithoutExpiry(t *testing.T) {
	known.Probe(t, "C08-persist-answers-one-without-expiry", func() (bool, string) {
		return scriptPolicy("pebble", "wait_compact", []step{
			{[]string{"set", "default:t:k", "v"}, "+OK"},
			{[]string{"persist", "default:t:k"}, ":0"},
			{[]string{"persist", "default:t:missing"}, ":0"},
		})
	})
}

func TestKnownDocumentedCommandsNotRegistered(t *testing.T) {
	known.Probe(t, "C08-documented-commands-not-registered", func() (bool, string) {
		return script("pebble", []step{
			{[]string{"set", "default:t:k", "10"}, "+OK"},
			{[]string{"decr", "default:t:k"}, ":9"},
			{[]string{"decrby", "default:t:k", "3"}, ":6"},
			{[]string{"get", "default:t:k"}, `"6"`},
			{[]string{"sadd", "default:t:s", "a"}, ":1"},
			{[]string{"smclear", "default:t:s"}, ":1"},
			{[]string{"scard", "default:t:s"}, ":0"},
		})
	})
}
