package c08

import (
	"fmt"
	"os"
	"strconv"
	"strings"
	"testing"
	"time"

	"verifharness/lib/gen"
	"verifharness/lib/model"
	"verifharness/lib/resp"
	"verifharness/lib/simkv"
	"verifharness/lib/stats"
)

// alphabet of the bounded-exhaustive sub-run: 48 concrete commands over 2 keys x 2 members
var exhAlphabet = func() [][]string {
	var a [][]string
	for _, k := range []string{"t:k", "t:kk"} {
		a = append(a,
			[]string{"set", k, "1"}, []string{"incr", k}, []string{"del", k, k}, []string{"getset", k, "x"},
			[]string{"hset", k, "a", "1"}, []string{"hmset", k, "a", "1", "a", "2", "b", "3"}, []string{"hdel", k, "a", "a"}, []string{"hdel", k, "b"}, []string{"hclear", k}, []string{"hincrby", k, "a", "2"},
			[]string{"lpush", k, "a", "b"}, []string{"rpop", k}, []string{"ltrim", k, "1", "-1"}, []string{"ltrim", k, "-5", "-5"}, []string{"lset", k, "-1", "z"},
			[]string{"sadd", k, "a", "a", "b"}, []string{"srem", k, "a", "a"}, []string{"spop", k}, []string{"sclear", k},
			[]string{"zadd", k, "1", "a", "2", "a", "1", "b"}, []string{"zincrby", k, "0", "a"}, []string{"zrem", k, "a", "a"}, []string{"zremrangebyscore", k, "(1", "2"}, []string{"zremrangebyrank", k, "0", "0"},
		)
	}
	return a
}()

var recExh = stats.New("exhaustive_len3", "ALL sequences of length 1..3 over a 48-command alphabet (2 keys x 2 members; every family incl. repeated arguments, negative indexes, exclusive bounds, clears) on the mem engine, each on a fresh store, compared reply by reply and by a full read-back with lib/model; complete enumeration of that scope (exhaustive=true for this sub-run only; the space is split over the shards); non-trivial = sequence of length 3 that touches one key with >= 2 commands")

func TestExhaustiveSmallScope(t *testing.T) {
	shard, _ := strconv.Atoi(os.Getenv("VERIF_SHARD_INDEX"))
	shards, _ := strconv.Atoi(os.Getenv("VERIF_SHARDS"))
	if shards < 1 {
		shards = 1
	}
	n := len(exhAlphabet)
	total := n + n*n + n*n*n
	for id := shard; id < total; id += shards {
		var seq []int
		switch {
		case id < n:
			seq = []int{id}
		case id < n+n*n:
			x := id - n
			seq = []int{x / n, x % n}
		default:
			x := id - n - n*n
			seq = []int{x / (n * n), (x / n) % n, x % n}
		}
		sim, err := simkv.New(simkv.Options{Engine: "mem"})
		if err != nil {
			t.Fatalf("HARNESS: %v", err)
		}
		m := model.New()
		var trace []string
		perKey := map[string]int{}
		for _, ci := range seq {
			c := exhAlphabet[ci]
			perKey[c[1]]++
			now := time.Now()
			got := sim.Do(gen.WithNS(ns, c)...).One()
			want := m.Apply(now.UnixNano(), now.Unix(), c)
			trace = append(trace, gen.Quote(c)+" -> "+got.String())
			if !resp.Equal(got, want) {
				sim.Close()
				t.Fatalf("sequence %d: reply differs from the reference model\n  command: %s\n  got:  %s\n  want: %s\nsequence:\n  %s", id, gen.Quote(c), got, want, strings.Join(trace, "\n  "))
			}
		}
		for _, k := range []string{"t:k", "t:kk"} {
			for _, rb := range readBacks(k) {
				got := sim.Do(gen.WithNS(ns, rb)...).One()
				want := m.Apply(0, time.Now().Unix(), rb)
				if !resp.Equal(got, want) {
					sim.Close()
					t.Fatalf("sequence %d: read-back %s: got %s, model %s\nsequence:\n  %s", id, gen.Quote(rb), got, want, strings.Join(trace, "\n  "))
				}
			}
		}
		sim.Close()
		nt := false
		for _, c := range perKey {
			nt = nt || (len(seq) == 3 && c >= 2)
		}
		recExh.Record(stats.HashString(fmt.Sprint(seq)), nt, nil, func() interface{} { return map[string]interface{}{"sequence": trace} })
	}
	recExh.Exhaustive(true)
}
