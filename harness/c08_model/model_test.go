package c08

import (
	"fmt"
	"os"
	"strconv"
	"strings"
	"testing"
	"time"

	"pgregory.net/rapid"

	"verifharness/lib/gen"
	"verifharness/lib/known"
	"verifharness/lib/model"
	"verifharness/lib/resp"
	"verifharness/lib/simkv"
	"verifharness/lib/stats"
)

func TestMain(m *testing.M) { stats.Main(m) }

const ns = "default"

const ntRule = "command sequence (1-60 commands over a per-case pool of 1-6 keys, 2-5 members, 2-5 values, drawn from adversarial vocabularies) sent through the server's redis entry point and compared reply by reply, plus read-back of the touched key after every command and of the whole pool at the end, against lib/model; non-trivial = a collection was emptied and later re-created, OR a command repeats a member/field/key, OR a negative/out-of-range index hit a non-empty list/zset"

var recs = map[string]*stats.Recorder{}

func rec(name string) *stats.Recorder {
	if r, ok := recs[name]; ok {
		return r
	}
	r := stats.New(name, ntRule)
	recs[name] = r
	return r
}

// families of read-back commands per key type
func readBacks(key string) [][]string {
	return [][]string{
		{"get", key}, {"hgetall", key}, {"hlen", key}, {"lrange", key, "0", "-1"}, {"llen", key},
		{"smembers", key}, {"scard", key}, {"zrange", key, "0", "-1", "withscores"}, {"zcard", key},
	}
}

func famOf(name string) byte {
	switch name[0] {
	case 'h':
		return 'h'
	case 'l', 'r':
		return 'l'
	case 's':
		switch name {
		case "set", "setex", "setnx", "strlen":
			return 'k'
		}
		return 's'
	case 'z':
		return 'z'
	}
	return 'k'
}

func readBackFor(c []string) [][]string {
	key := c[1]
	switch famOf(c[0]) {
	case 'h':
		return [][]string{{"hgetall", key}, {"hlen", key}, {"hkeyexist", key}}
	case 'l':
		return [][]string{{"lrange", key, "0", "-1"}, {"llen", key}, {"lkeyexist", key}}
	case 's':
		return [][]string{{"smembers", key}, {"scard", key}, {"skeyexist", key}}
	case 'z':
		return [][]string{{"zrange", key, "0", "-1", "withscores"}, {"zcard", key}, {"zkeyexist", key}}
	}
	return [][]string{{"get", key}}
}

type runner struct {
	t     *rapid.T
	sim   *simkv.Sim
	m     *model.Model
	trace []string
	now   int64
	// replies accepted only because of known finding C08-negative-zero-score-sign
	zeroSign int
}

const findingNegZero = "C08-negative-zero-score-sign"
const findingInfSpelling = "C08-infinite-score-spelled-go-style"

// scoreSpelling rewrites the bulk strings of a sorted-set reply that a recorded finding
// says are spelled differently (scores only: no member of the vocabulary has these names).
func scoreSpelling(v resp.Val, zero, inf bool) resp.Val {
	switch v.Kind {
	case 'b':
		switch {
		case zero && v.S == "-0":
			v.S = "0"
		case inf && v.S == "+Inf":
			v.S = "inf"
		case inf && v.S == "-Inf":
			v.S = "-inf"
		}
	case 'a':
		a := make([]resp.Val, len(v.A))
		for i := range v.A {
			a[i] = scoreSpelling(v.A[i], zero, inf)
		}
		v.A = a
	}
	return v
}

func (r *runner) exec(c []string) (resp.Val, resp.Val) {
	rep := r.sim.Do(gen.WithNS(ns, c)...)
	now := time.Now()
	want := r.m.Apply(now.UnixNano(), now.Unix(), c)
	var got resp.Val
	if c[0] == "plset" {
		// one reply per pair on the wire
		got = resp.Status("OK")
		for _, v := range rep.Vals {
			if v.Kind != 's' {
				got = v
			}
		}
		if rep.Malformed != "" || len(rep.Vals) != (len(c)-1)/2 {
			got = resp.Err("plset reply shape: " + rep.String())
		}
	} else {
		got = rep.One()
	}
	r.trace = append(r.trace, fmt.Sprintf("%s -> %s", gen.Quote(c), got))
	return got, want
}

func (r *runner) check(c []string, what string) {
	got, want := r.exec(c)
	if rep := got; rep.Kind == 'e' && strings.HasPrefix(rep.S, "HARNESS-SHAPE") {
		r.t.Fatalf("%s: %s\ntrace:\n%s", what, rep.S, r.dump())
	}
	if !resp.Equal(got, want) && strings.HasPrefix(c[0], "z") {
		// recorded findings: the sign of a zero score and the spelling of an infinite one are not
		// reported the way Redis reports them (everything else of the reply - members, order,
		// counts, every other score - is compared as usual)
		zero, inf := known.Active(findingNegZero), known.Active(findingInfSpelling)
		if (zero || inf) && resp.Equal(scoreSpelling(got, zero, inf), scoreSpelling(want, zero, inf)) {
			r.zeroSign++
			return
		}
	}
	if !resp.Equal(got, want) {
		r.t.Fatalf("%s: reply differs from the reference model\n  command: %s\n  got:  %s\n  want: %s\ntrace (command -> implementation reply):\n%s", what, gen.Quote(c), got, want, r.dump())
	}
}

func (r *runner) dump() string {
	tr := r.trace
	if len(tr) > 80 {
		tr = tr[len(tr)-80:]
	}
	return "  " + strings.Join(tr, "\n  ")
}

type opts struct {
	engine string
	policy string
	parts  int
	rec    string
}

func hasDup(c []string) bool {
	var items []string
	switch c[0] {
	case "del", "exists", "mget", "sadd", "srem", "hdel", "hmget", "zrem":
		items = c[1:]
		if c[0] != "del" && c[0] != "exists" && c[0] != "mget" {
			items = c[2:]
		}
	case "hmset":
		for i := 2; i < len(c); i += 2 {
			items = append(items, c[i])
		}
	case "zadd":
		for i := 3; i < len(c); i += 2 {
			items = append(items, c[i])
		}
	}
	seen := map[string]bool{}
	for _, x := range items {
		if seen[x] {
			return true
		}
		seen[x] = true
	}
	return false
}

func collLen(m *model.Model, fam byte, key string) int {
	now := time.Now().Unix()
	var v resp.Val
	switch fam {
	case 'h':
		v = m.Apply(0, now, []string{"hlen", key})
	case 'l':
		v = m.Apply(0, now, []string{"llen", key})
	case 's':
		v = m.Apply(0, now, []string{"scard", key})
	case 'z':
		v = m.Apply(0, now, []string{"zcard", key})
	default:
		return -1
	}
	return int(v.I)
}

func oddIndex(c []string, n int) bool {
	var idx []string
	switch c[0] {
	case "lindex":
		idx = c[2:3]
	case "lset":
		idx = c[2:3]
	case "lrange", "ltrim", "zrange", "zrevrange", "zremrangebyrank":
		idx = c[2:4]
	default:
		return false
	}
	if n <= 0 {
		return false
	}
	for _, s := range idx {
		i, err := strconv.ParseInt(s, 10, 64)
		if err == nil && (i < 0 || i >= int64(n)) {
			return true
		}
	}
	return false
}

func runCase(t *rapid.T, o opts) {
	excluded := 0
	nulFree := o.engine == "mem" && known.Active("C20-mem-radix-seek-lowerbound-nul")
	pool := gen.DrawPool(t, nulFree)
	if nulFree {
		excluded++
	}
	pool.Excluded = &excluded
	pool.NoDupArgs = known.Active("C08-duplicate-argument-counted-twice")
	pool.NoFrac = known.Active("C08-exclusive-score-bound-integer-step")
	negZero := rapid.IntRange(0, 3).Draw(t, "negzero") == 0
	if negZero {
		pool.Scores[0] = "-0" // the same number as 0 with another spelling: ties, by-score bounds, ZINCRBY by nothing
	}
	// scores at the edge of the number line: infinities (valid scores in Redis) and NaN (refused)
	exotic := rapid.IntRange(0, 7).Draw(t, "exotic")
	last := len(pool.Scores) - 1
	switch exotic {
	case 0:
		pool.Scores[last] = "inf"
	case 1:
		pool.Scores[last] = "-inf"
		if last > 1 {
			pool.Scores[last-1] = "+inf" // ZINCRBY of one onto the other has no number as a result
		}
	case 2:
		pool.Scores[last] = "nan"
	}
	g := gen.NewGrammar(gen.FamKV|gen.FamHash|gen.FamList|gen.FamSet|gen.FamZSet, gen.FarDurations)
	n := rapid.IntRange(1, 60).Draw(t, "ncmds")
	sim, err := simkv.New(simkv.Options{Engine: o.engine, ExpPolicy: o.policy, Partitions: o.parts})
	if err != nil {
		t.Fatalf("HARNESS: cannot create node: %v", err)
	}
	defer sim.Close()
	r := &runner{t: t, sim: sim, m: model.New()}
	emptied := map[string]bool{}
	recreated, dup, odd := false, false, false
	var canon []string
	for i := 0; i < n; i++ {
		c := g.Command(t, pool)
		if c[0] == "mget" && o.parts > 1 && len(c) > 2 && known.Active("C15-mget-cross-partition") {
			c = c[:2] // exclusion by construction: MGET across partitions is a recorded finding
			excluded++
		}
		canon = append(canon, strings.Join(c, "\x1f"))
		fam := famOf(c[0])
		before := collLen(r.m, fam, c[1])
		if hasDup(c) {
			dup = true
		}
		if oddIndex(c, before) {
			odd = true
		}
		r.check(c, fmt.Sprintf("step %d", i))
		after := collLen(r.m, fam, c[1])
		ck := string(fam) + c[1]
		if before > 0 && after == 0 {
			emptied[ck] = true
		}
		if before == 0 && after > 0 && emptied[ck] {
			recreated = true
		}
		if model.IsWrite(c[0]) {
			for _, rb := range readBackFor(c) {
				r.check(rb, fmt.Sprintf("read-back after step %d", i))
			}
		}
	}
	for _, k := range pool.Keys {
		for _, rb := range readBacks(k) {
			r.check(rb, "final read-back")
		}
	}
	var labels []string
	if recreated {
		labels = append(labels, "collection_emptied_and_recreated")
	}
	if dup {
		labels = append(labels, "repeated_argument")
	}
	if odd {
		labels = append(labels, "odd_index_on_nonempty")
	}
	rc := rec(o.rec)
	excluded += r.zeroSign
	if negZero {
		labels = append(labels, "negative_zero_in_score_pool")
	}
	if exotic <= 1 {
		labels = append(labels, "infinite_score_in_pool")
	}
	if exotic == 2 {
		labels = append(labels, "nan_in_score_pool")
	}
	if excluded > 0 {
		rc.Count("excluded_by_known_finding", int64(excluded))
	}
	rc.Record(stats.HashString(strings.Join(canon, "\x1e")), recreated || dup || odd, labels, func() interface{} {
		tr := r.trace
		if len(tr) > 40 {
			tr = tr[:40]
		}
		return map[string]interface{}{"engine": o.engine, "policy": o.policy, "partitions": o.parts, "commands_and_replies": tr}
	})
}

func TestModelMem(t *testing.T) {
	rapid.Check(t, func(t *rapid.T) { runCase(t, opts{engine: "mem", policy: "wait_compact", parts: 1, rec: "model_mem"}) })
}
func TestModelPebble(t *testing.T) {
	rapid.Check(t, func(t *rapid.T) { runCase(t, opts{engine: "pebble", policy: "wait_compact", parts: 1, rec: "model_pebble"}) })
}
func TestModelRocksdb(t *testing.T) {
	rapid.Check(t, func(t *rapid.T) { runCase(t, opts{engine: "rocksdb", policy: "wait_compact", parts: 1, rec: "model_rocksdb"}) })
}
func TestModelLocalDeletion(t *testing.T) {
	rapid.Check(t, func(t *rapid.T) {
		eng := rapid.SampledFrom([]string{"mem", "pebble"}).Draw(t, "engine")
		runCase(t, opts{engine: eng, policy: "local_deletion", parts: 1, rec: "model_local_deletion"})
	})
}
func TestModelMultiPartition(t *testing.T) {
	rapid.Check(t, func(t *rapid.T) {
		runCase(t, opts{engine: "mem", policy: "wait_compact", parts: rapid.SampledFrom([]int{2, 3, 4}).Draw(t, "parts"), rec: "model_multi_partition"})
	})
}

var _ = os.Getenv
