package c07

import (
	"fmt"
	"sort"
	"strconv"
	"strings"
	"testing"
	"time"

	pb "github.com/youzan/ZanRedisDB/raft/raftpb"
	"pgregory.net/rapid"

	"verifharness/lib/gen"
	"verifharness/lib/known"
	"verifharness/lib/model"
	"verifharness/lib/simkv"
	"verifharness/lib/stats"
)

func TestMain(m *testing.M) { stats.Main(m) }

const ns = "default"

const rule = "a generated committed log (5-80 entries of write commands of the KV, hash, list, set, zset, bitmap, HyperLogLog and JSON families incl. all EXPIRE/PERSIST variants, over a small colliding key pool, with adversarially spaced log timestamps: equal, +1ns, across second boundaries, at/around expiry instants) is applied to the node's real applyEntries under two execution plans that differ in engine (mem/pebble/rocksdb), partition of the log into apply batches, replay cut (entries applied as 'replaying'), leader vs follower role (waiters registered or not); replies per request id and a full logical dump through the read handlers must be equal. A third run applies the same log shifted by a whole number of seconds from 'every expiry long past' to 'every expiry in the future' of the wall clock: all write replies must be identical. non-trivial = the log has two adjacent batchable writes on one key AND a read-modify-write on a key that carries an expiry AND the two plans differ in >= 2 dimensions"

var recs = map[string]*stats.Recorder{}

func rec(name string) *stats.Recorder {
	if r, ok := recs[name]; ok {
		return r
	}
	r := stats.New(name, rule)
	recs[name] = r
	return r
}

type logEntry struct {
	off  int64 // ns offset from the anchor
	cmds []simkv.LogCmd
}

type plan struct {
	engine string
	sizes  []int
	replay uint64
	leader bool
	// restartAt > 0: after entry restartAt the replica takes a checkpoint and restarts from it
	// (engine closed and reopened from the checkpoint, every cache gone), then goes on with the log
	restartAt int
}

func (p plan) String() string {
	return fmt.Sprintf("{engine=%s batches=%v replayUpTo=%d leader=%v restartFromCheckpointAfterEntry=%d}", p.engine, p.sizes, p.replay, p.leader, p.restartAt)
}

// splitSizes cuts the apply batches at entry r.
func splitSizes(sizes []int, n, r int) (a, b []int) {
	done := 0
	for _, k := range sizes {
		if done >= n {
			break
		}
		if k <= 0 || done+k > n {
			k = n - done
		}
		switch {
		case done+k <= r:
			a = append(a, k)
		case done >= r:
			b = append(b, k)
		default:
			a = append(a, r-done)
			b = append(b, done+k-r)
		}
		done += k
	}
	if done < n { // remaining entries form one last batch
		if done < r {
			a = append(a, r-done)
			b = append(b, n-r)
		} else {
			b = append(b, n-done)
		}
	}
	return a, b
}

// extra write commands outside the C08 grammar
func extraCommand(t *rapid.T, p *gen.Pool) []string {
	k := rapid.SampledFrom(p.Keys).Draw(t, "xkey")
	m := func() string { return rapid.SampledFrom(p.Members).Draw(t, "xm") }
	v := func() string { return rapid.SampledFrom(p.Values).Draw(t, "xv") }
	switch rapid.IntRange(0, 11).Draw(t, "extra") {
	case 0:
		if known.Active(findingHLLKVMix) {
			// exclusion by construction: HyperLogLog writes go to names no KV command touches
			if p.Excluded != nil {
				*p.Excluded++
			}
			return []string{"pfadd", k + hllSuffix, m(), m()}
		}
		return []string{"pfadd", k, m(), m()}
	case 1:
		return []string{"setbit", k, rapid.SampledFrom([]string{"0", "7", "8", "100", "8191", "8192"}).Draw(t, "bitoff"), rapid.SampledFrom([]string{"0", "1"}).Draw(t, "bit")}
	case 2:
		return []string{"setbitv2", k, rapid.SampledFrom([]string{"0", "7", "8", "100", "8191", "8192"}).Draw(t, "bitoff"), rapid.SampledFrom([]string{"0", "1"}).Draw(t, "bit")}
	case 3:
		return []string{"bitclear", k}
	case 4:
		return []string{"json.set", k, ".", rapid.SampledFrom([]string{`{"a":[1],"b":"x"}`, `{"a":2}`, `[1,2]`, `"s"`, `notjson`}).Draw(t, "json")}
	case 5:
		return []string{"json.set", k, "a", rapid.SampledFrom([]string{`2`, `[1]`, `"x"`}).Draw(t, "json")}
	case 6:
		return []string{"json.arrappend", k, "a", "3", "4"}
	case 7:
		return []string{"json.del", k, rapid.SampledFrom([]string{"a", "b", "."}).Draw(t, "jpath")}
	case 8:
		return []string{"json.arrpop", k, "a"}
	case 9:
		return []string{"delifeq", k, v()}
	case 10:
		return []string{"setifeq", k, v(), v()}
	default:
		return []string{"bexpire", k, rapid.SampledFrom([]string{"1", "3", "2000000"}).Draw(t, "bdur")}
	}
}

// expiryScenario returns a short command series that puts a read-modify-write of one family on a
// value that carries a short expiry: the place where a handler that consults the wall clock
// instead of the log timestamp answers differently depending on when the log is applied.
func expiryScenario(t *rapid.T, p *gen.Pool) [][]string {
	k := rapid.SampledFrom(p.Keys).Draw(t, "skey")
	m := func() string { return rapid.SampledFrom(p.Members).Draw(t, "sm") }
	d := rapid.SampledFrom([]string{"2", "3", "5"}).Draw(t, "sdur")
	var create, expire []string
	var rmw [][]string
	switch rapid.IntRange(0, 5).Draw(t, "sfam") {
	case 0:
		create, expire = []string{"hmset", k, m(), "1", m(), "2"}, []string{"hexpire", k, d}
		rmw = [][]string{{"hclear", k}, {"hdel", k, m()}, {"hincrby", k, m(), "1"}, {"hsetnx", k, m(), "v"}, {"hset", k, m(), "v"}}
	case 1:
		create, expire = []string{"rpush", k, "a", "b", "c"}, []string{"lexpire", k, d}
		rmw = [][]string{{"lpop", k}, {"rpop", k}, {"lclear", k}, {"ltrim", k, "1", "-1"}, {"lset", k, "0", "z"}, {"lpush", k, "y"}}
	case 2:
		create, expire = []string{"sadd", k, m(), m(), "zz"}, []string{"sexpire", k, d}
		rmw = [][]string{{"spop", k}, {"spop", k, "2"}, {"srem", k, m()}, {"sclear", k}, {"sadd", k, m()}}
	case 3:
		create, expire = []string{"zadd", k, "1", m(), "2", "zz"}, []string{"zexpire", k, d}
		rmw = [][]string{{"zrem", k, m()}, {"zclear", k}, {"zincrby", k, "1", m()}, {"zremrangebyrank", k, "0", "0"}, {"zremrangebyscore", k, "-inf", "+inf"}, {"zadd", k, "3", m()}}
	case 4:
		create, expire = []string{"set", k, "10"}, []string{"expire", k, d}
		rmw = [][]string{{"incr", k}, {"append", k, "x"}, {"getset", k, "n"}, {"setnx", k, "n"}, {"set", k, "n", "nx"}, {"set", k, "n", "xx"}, {"setrange", k, "1", "y"}, {"del", k}, {"persist", k}, {"delifeq", k, "10"}, {"setifeq", k, "10", "11"}}
	default:
		create, expire = []string{"setbitv2", k, "9", "1"}, []string{"bexpire", k, d}
		rmw = [][]string{{"setbitv2", k, "3", "1"}, {"bitclear", k}, {"setbit", k, "9", "0"}}
	}
	out := [][]string{create, expire}
	for i := rapid.IntRange(1, 3).Draw(t, "nrmw"); i > 0; i-- {
		out = append(out, rmw[rapid.IntRange(0, len(rmw)-1).Draw(t, "srmw")])
	}
	return out
}

func isBatchable(name string) bool {
	switch name {
	case "set", "setex", "del", "hmset", "hset", "hdel", "incr":
		return true
	}
	return false
}

const findingHLLKVMix = "C07-kv-commands-on-hll-key-depend-on-cache-flush"
const hllSuffix = "-pf"

func dumpCmds(key string) [][]string {
	return [][]string{{"pfcount", key + hllSuffix}, {"get", key}, {"exists", key}, {"ttl", key}, {"hgetall", key}, {"hlen", key}, {"httl", key}, {"lrange", key, "0", "-1"}, {"lttl", key},
		{"smembers", key}, {"scard", key}, {"sttl", key}, {"zrange", key, "0", "-1", "withscores"}, {"zcard", key}, {"zttl", key},
		{"pfcount", key}, {"bitcount", key}, {"bttl", key}, {"json.get", key, "."}, {"strlen", key},
		{"hkeyexist", key}, {"lkeyexist", key}, {"skeyexist", key}, {"zkeyexist", key}, {"bkeyexist", key}}
}

type result struct {
	replies map[uint64]string
	dump    []string
}

func execPlan(t *rapid.T, policy string, log []logEntry, anchor int64, p plan, keys []string) result {
	sim, err := simkv.New(simkv.Options{Engine: p.engine, ExpPolicy: policy})
	if err != nil {
		t.Fatalf("HARNESS: %v", err)
	}
	defer sim.Close()
	part := sim.Parts[0]
	var ents []pb.Entry
	waiters := map[uint64]simkv.Waiter{}
	for i, le := range log {
		ents = append(ents, simkv.BuildEntry(uint64(i+1), anchor+le.off, le.cmds))
		if p.leader {
			for _, c := range le.cmds {
				waiters[c.ID] = part.RegisterWaiter(c.ID)
			}
		}
	}
	if p.restartAt > 0 && p.restartAt < len(ents) {
		r := p.restartAt
		a, b := splitSizes(p.sizes, len(ents), r)
		part.ApplyLog(ents[:r], a, p.replay)
		db := part.Store().RockDB
		bi := db.Backup(1, uint64(r))
		for try := 0; bi == nil && try < 400; try++ {
			time.Sleep(5 * time.Millisecond)
			bi = db.Backup(1, uint64(r))
		}
		if bi == nil {
			t.Fatalf("HARNESS: the backup goroutine never accepted the request")
		}
		if _, err := bi.GetResult(); err != nil {
			t.Fatalf("checkpoint after entry %d failed: %v", r, err)
		}
		var rerr error
		for try := 0; try < 200; try++ {
			if rerr = db.Restore(1, uint64(r)); rerr == nil {
				break
			}
			time.Sleep(5 * time.Millisecond)
		}
		if rerr != nil {
			t.Fatalf("restart from the checkpoint after entry %d failed: %v", r, rerr)
		}
		part.ApplyLog(ents[r:], b, p.replay)
	} else {
		part.ApplyLog(ents, append([]int(nil), p.sizes...), p.replay)
	}
	res := result{replies: map[uint64]string{}}
	for id, w := range waiters {
		res.replies[id] = simkv.ReplyOf(w).String()
	}
	for _, k := range keys {
		for _, dc := range dumpCmds(k) {
			r := sim.Do(gen.WithNS(ns, dc)...)
			res.dump = append(res.dump, gen.Quote(dc)+" -> "+r.String())
		}
	}
	return res
}

func isTTLLine(l string) bool {
	return strings.HasPrefix(l, `"ttl"`) || strings.HasPrefix(l, `"httl"`) || strings.HasPrefix(l, `"lttl"`) || strings.HasPrefix(l, `"sttl"`) || strings.HasPrefix(l, `"zttl"`) || strings.HasPrefix(l, `"bttl"`)
}

func sameDumpLine(a, b string) bool {
	if a == b {
		return true
	}
	if isTTLLine(a) && isTTLLine(b) {
		ia, ib := strings.LastIndex(a, ":"), strings.LastIndex(b, ":")
		if ia > 0 && ib > 0 && a[:ia] == b[:ib] {
			x, e1 := strconv.ParseInt(a[ia+1:], 10, 64)
			y, e2 := strconv.ParseInt(b[ib+1:], 10, 64)
			if e1 == nil && e2 == nil && x > 0 && y > 0 && x-y <= 2 && y-x <= 2 {
				return true
			}
		}
	}
	return false
}

func describeLog(log []logEntry) []string {
	var out []string
	for i, le := range log {
		var cs []string
		for _, c := range le.cmds {
			cs = append(cs, fmt.Sprintf("#%d %s", c.ID, gen.Quote(c.Args)))
		}
		out = append(out, fmt.Sprintf("entry %d @anchor%+dns: %s", i+1, le.off, strings.Join(cs, " ; ")))
	}
	return out
}

func drawPlan(t *rapid.T, n int, label string, engines []string) plan {
	p := plan{engine: rapid.SampledFrom(engines).Draw(t, label+"engine"), leader: rapid.IntRange(0, 3).Draw(t, label+"leader") > 0}
	switch rapid.IntRange(0, 2).Draw(t, label+"batching") {
	case 0: // singletons
		p.sizes = make([]int, n)
		for i := range p.sizes {
			p.sizes[i] = 1
		}
	case 1: // random cuts
		for left := n; left > 0; {
			k := rapid.IntRange(1, 8).Draw(t, label+"cut")
			p.sizes = append(p.sizes, k)
			left -= k
		}
	default: // one maximal batch
	}
	if rapid.Bool().Draw(t, label+"replaying") {
		p.replay = uint64(rapid.IntRange(1, n).Draw(t, label+"replaycut"))
	}
	if n > 1 && rapid.IntRange(0, 3).Draw(t, label+"restart") == 0 {
		p.restartAt = rapid.IntRange(1, n-1).Draw(t, label+"restartat")
	}
	return p
}

func planDiff(a, b plan) int {
	d := 0
	if a.engine != b.engine {
		d++
	}
	if fmt.Sprint(a.sizes) != fmt.Sprint(b.sizes) {
		d++
	}
	if a.replay != b.replay {
		d++
	}
	if a.leader != b.leader {
		d++
	}
	if a.restartAt != b.restartAt {
		d++
	}
	return d
}

func runCase(t *rapid.T, engines []string, recName string) {
	policy := rapid.SampledFrom([]string{"wait_compact", "wait_compact", "local_deletion"}).Draw(t, "policy")
	nulFree := known.Active("C20-mem-radix-seek-lowerbound-nul")
	pool := gen.DrawPool(t, nulFree)
	excluded := 0
	pool.Excluded = &excluded
	durs := []string{"1", "2", "3", "5", "2000000"}
	g := gen.NewGrammar(gen.FamKV|gen.FamHash|gen.FamList|gen.FamSet|gen.FamZSet|gen.FamTTL|gen.FamExtra, durs)
	strict := known.Active("C10-clear-recreate-same-timestamp")
	n := rapid.IntRange(5, 80).Draw(t, "nentries")
	var log []logEntry
	var off int64
	id := uint64(100)
	adjacentBatchable, rmwOnExpiring := false, false
	lastKeyBatchable := ""
	hasExp := map[string]bool{}
	var instants []int64 // ns offsets of expiry instants (anchor is a whole second)
	var queued [][]string // commands of an expiry scenario still to be emitted, one per entry
	for len(log) < n {
		if len(queued) == 0 && rapid.IntRange(0, 11).Draw(t, "scenario") == 0 {
			queued = expiryScenario(t, pool)
		}
		if len(queued) > 0 {
			// stay inside the expiry window: sub-second or one-second steps
			switch rapid.IntRange(0, 3).Draw(t, "stick") {
			case 0:
				off += 4
			case 1:
				off += int64(rapid.IntRange(1, 999999999).Draw(t, "sns"))
			case 2:
				off += 1e9
			default:
				off += 2e9
			}
			if strict && len(log) > 0 && off < log[len(log)-1].off+4 {
				off = log[len(log)-1].off + 4
			}
			c := queued[0]
			queued = queued[1:]
			id++
			log = append(log, logEntry{off: off, cmds: []simkv.LogCmd{{ID: id, Args: c}}})
			fk := famKey(c)
			if hasExp[fk] && isRMW(c[0]) {
				rmwOnExpiring = true
			}
			if d := durationOf(c); d > 0 {
				hasExp[fk] = true
				instants = append(instants, (off/1e9+d)*1e9)
			}
			lastKeyBatchable = ""
			continue
		}
		switch rapid.IntRange(0, 9).Draw(t, "tick") {
		case 0, 1, 2:
		case 3:
			off++
		case 4:
			off += int64(rapid.IntRange(1, 999999999).Draw(t, "ns"))
		case 5:
			off += 1e9
		case 6:
			off += 2e9
		default:
			if len(instants) > 0 {
				e := instants[rapid.IntRange(0, len(instants)-1).Draw(t, "inst")] + int64(rapid.SampledFrom([]int{-1000000000, -1, 0, 1, 1000000000}).Draw(t, "around"))
				if e >= off {
					off = e
				}
			}
		}
		if strict && len(log) > 0 && off < log[len(log)-1].off+4 {
			off = log[len(log)-1].off + 4
		}
		ncmd := 1
		if !strict && rapid.IntRange(0, 9).Draw(t, "multi") == 0 {
			ncmd = rapid.IntRange(2, 3).Draw(t, "nreq")
		}
		var le logEntry
		le.off = off
		for j := 0; j < ncmd; j++ {
			var c []string
			for try := 0; ; try++ {
				if rapid.IntRange(0, 9).Draw(t, "src") < 2 {
					c = extraCommand(t, pool)
				} else {
					c = g.Command(t, pool)
				}
				if model.IsWrite(c[0]) || !isReadOnly(c[0]) {
					break
				}
				if try > 20 {
					c = []string{"set", pool.Keys[0], "x"}
					break
				}
			}
			id++
			le.cmds = append(le.cmds, simkv.LogCmd{ID: id, Args: c})
			if isBatchable(c[0]) {
				if lastKeyBatchable == c[1] {
					adjacentBatchable = true
				}
				lastKeyBatchable = c[1]
			} else {
				lastKeyBatchable = ""
			}
			fk := famKey(c)
			if hasExp[fk] && isRMW(c[0]) {
				rmwOnExpiring = true
			}
			if d := durationOf(c); d > 0 {
				hasExp[fk] = true
				if d < 100 {
					instants = append(instants, (off/1e9+d)*1e9)
				}
			}
		}
		log = append(log, le)
	}
	p1 := drawPlan(t, n, "p1", engines)
	p2 := drawPlan(t, n, "p2", engines)
	p1.leader = true
	t0 := time.Now().Unix()
	past := (t0 - 2000) * 1e9
	future := (t0 + 2000000) * 1e9
	r1 := execPlan(t, policy, log, past, p1, pool.Keys)
	r2 := execPlan(t, policy, log, past, p2, pool.Keys)
	fail := func(format string, a ...interface{}) {
		t.Fatalf("%s\npolicy=%s\nplan 1: %s\nplan 2: %s\nlog:\n  %s", fmt.Sprintf(format, a...), policy, p1, p2, strings.Join(describeLog(log), "\n  "))
	}
	for id, a := range r1.replies {
		if b, ok := r2.replies[id]; ok && a != b {
			fail("reply to request #%d differs between two executions of the same log: plan 1 -> %s, plan 2 -> %s", id, a, b)
		}
	}
	if len(r1.dump) != len(r2.dump) {
		fail("HARNESS: dump length differs")
	}
	for i := range r1.dump {
		if !sameDumpLine(r1.dump[i], r2.dump[i]) {
			fail("data differs after applying the same log:\n  plan 1: %s\n  plan 2: %s", r1.dump[i], r2.dump[i])
		}
	}
	// wall-clock independence: same log, shifted by a whole number of seconds into the future
	p3 := p1
	r3 := execPlan(t, policy, log, future, p3, nil)
	for id, a := range r1.replies {
		// the shifted log is a different log (other timestamps), so error TEXTS may legitimately
		// differ (e.g. a decoder choking on bytes that embed the timestamp); the class must not
		if b := r3.replies[id]; a != b && !(strings.HasPrefix(a, "(err ") && strings.HasPrefix(b, "(err ")) {
			fail("reply to request #%d depends on where the log sits relative to the replica's wall clock: log anchored at T0-2000s -> %s, same log anchored at T0+2000000s -> %s (T0=%d)", id, a, b, t0)
		}
	}
	var canon []string
	for _, le := range log {
		for _, c := range le.cmds {
			canon = append(canon, fmt.Sprintf("%d:%s", le.off, strings.Join(c.Args, "\x1f")))
		}
	}
	canon = append(canon, policy, p1.String(), p2.String())
	var labels []string
	if adjacentBatchable {
		labels = append(labels, "adjacent_batchable_writes_one_key")
	}
	if rmwOnExpiring {
		labels = append(labels, "rmw_on_key_with_expiry")
	}
	labels = append(labels, fmt.Sprintf("plan_dimensions_differing_%d", planDiff(p1, p2)), "policy_"+policy)
	if !p2.leader {
		labels = append(labels, "follower_plan")
	}
	sort.Strings(labels)
	rc := rec(recName)
	if excluded > 0 || strict || nulFree {
		rc.Count("excluded_by_known_finding", 1)
	}
	rc.Record(stats.HashString(strings.Join(canon, "\x1e")), adjacentBatchable && rmwOnExpiring && planDiff(p1, p2) >= 2, labels, func() interface{} {
		d := describeLog(log)
		if len(d) > 30 {
			d = d[:30]
		}
		return map[string]interface{}{"policy": policy, "plan1": p1.String(), "plan2": p2.String(), "log": d}
	})
}

func isReadOnly(name string) bool {
	switch name {
	case "pfadd", "setbit", "setbitv2", "bitclear", "json.set", "json.arrappend", "json.del", "json.arrpop", "delifeq", "setifeq", "bexpire", "setrange":
		return false
	}
	return !model.IsWrite(name)
}

func famKey(c []string) string {
	f := "k"
	switch c[0][0] {
	case 'h':
		f = "h"
	case 'l', 'r':
		f = "l"
	case 'z':
		f = "z"
	case 's':
		switch c[0] {
		case "set", "setex", "setnx", "setrange", "setbit", "setbitv2", "setifeq":
		default:
			f = "s"
		}
	}
	return f + c[1]
}

func isRMW(name string) bool {
	switch name {
	case "set", "setex", "del", "hclear", "lclear", "sclear", "zclear", "plset":
		return false
	}
	return true
}

func durationOf(c []string) int64 {
	var d string
	switch c[0] {
	case "setex", "expire", "hexpire", "lexpire", "sexpire", "zexpire", "bexpire":
		d = c[2]
	case "set":
		for j := 3; j+1 < len(c); j++ {
			if strings.ToLower(c[j]) == "ex" {
				d = c[j+1]
			}
		}
	}
	if d == "" {
		return 0
	}
	v, err := strconv.ParseInt(d, 10, 64)
	if err != nil {
		return 0
	}
	return v
}

func TestDeterminismMemPebble(t *testing.T) {
	rapid.Check(t, func(t *rapid.T) { runCase(t, []string{"mem", "pebble"}, "mem_pebble") })
}

func TestDeterminismAllEngines(t *testing.T) {
	rapid.Check(t, func(t *rapid.T) { runCase(t, []string{"mem", "pebble", "rocksdb"}, "all_engines") })
}

// A HyperLogLog lives in the KV keyspace behind a write-back cache that is flushed by every
// backup and by eviction - moments that each replica chooses for itself. KV commands on such a
// key read the STORED bytes: before the flush the key does not exist for them, after it it
// holds the raw sketch. The same log therefore gives different replies and different data on a
// replica that took a checkpoint (or restarted) in between and one that did not.
func TestKnownKVCommandsOnHLLKey(t *testing.T) {
	known.Probe(t, findingHLLKVMix, func() (bool, string) {
		run := func(flush bool) (string, string) {
			sim, err := simkv.New(simkv.Options{Engine: "pebble"})
			if err != nil {
				return "HARNESS: " + err.Error(), ""
			}
			defer sim.Close()
			sim.Do("pfadd", "default:t:k", "a", "b")
			if flush {
				db := sim.Parts[0].Store().RockDB
				bi := db.Backup(1, 1)
				for try := 0; bi == nil && try < 400; try++ {
					time.Sleep(5 * time.Millisecond)
					bi = db.Backup(1, 1)
				}
				if bi != nil {
					bi.GetResult()
				}
			}
			r := sim.Do("setrange", "default:t:k", "3", "0").String()
			return r, sim.Do("strlen", "default:t:k").String()
		}
		r1, l1 := run(false)
		r2, l2 := run(true)
		if r1 != r2 || l1 != l2 {
			return true, fmt.Sprintf("PFADD k a b; SETRANGE k 3 0 -> %s (STRLEN %s) on a replica that never flushed its HyperLogLog cache, %s (STRLEN %s) on one that took a checkpoint in between", r1, l1, r2, l2)
		}
		return false, ""
	})
}

// A batchable write (SET, SETEX, single-key DEL, HMSET) that is refused when it is applied
// aborts the whole open engine write batch: the batchable writes of OTHER requests that one
// call of applyEntries had put into it before are answered with the error and dropped. Which
// entries share a call is decided by how raft hands out committed entries - timing, size
// limits, restarts - on each replica for itself. The same log therefore leaves `a` set on a
// replica that applied the two entries in separate calls and unset on one that applied them
// together.
func TestKnownBatchAbortDropsCoBatchedWrites(t *testing.T) {
	known.Probe(t, findingBatchAbort, func() (bool, string) {
		run := func(sizes []int) string {
			sim, err := simkv.New(simkv.Options{Engine: "mem"})
			if err != nil {
				return "HARNESS: " + err.Error()
			}
			defer sim.Close()
			ents := []pb.Entry{
				simkv.BuildEntry(1, 1700000000e9, []simkv.LogCmd{{ID: 101, Args: []string{"set", "t:a", "1"}}}),
				simkv.BuildEntry(2, 1700000000e9+4, []simkv.LogCmd{{ID: 102, Args: []string{"set", "keywithouttable", "x"}}}),
			}
			sim.Parts[0].ApplyLog(ents, sizes, 0)
			return sim.Do("get", "default:t:a").String()
		}
		together, apart := run(nil), run([]int{1, 1})
		if together != apart {
			return true, fmt.Sprintf("log [SET t:a 1][SET keywithouttable x]: GET t:a -> %s on a replica that applied both entries in one call, %s on one that applied them in two", together, apart)
		}
		return false, ""
	})
}

const findingBatchAbort = "C07-batch-abort-drops-cobatched-writes"
