package c10

import (
	"fmt"
	"sort"
	"strconv"
	"strings"
	"testing"
	"time"

	"github.com/youzan/ZanRedisDB/rockredis"
	"pgregory.net/rapid"

	"verifharness/lib/gen"
	"verifharness/lib/known"
	"verifharness/lib/model"
	"verifharness/lib/resp"
	"verifharness/lib/simkv"
	"verifharness/lib/stats"
)

func TestMain(m *testing.M) { stats.Main(m) }

const ns = "default"

var recWC = map[string]*stats.Recorder{}

const ruleWC = "value-header (wait_compact) policy: command sequences mixing the C08 grammar (+APPEND/STRLEN) with SETEX / SET EX / EXPIRE / PERSIST / TTL of every type. The harness owns the log timestamp of every entry: log time starts at T0-2000s, advances by 0 / 1ns / <1s / 1-2s per step or jumps to E-1ns, exactly E, E+1ns of an expiry instant E created earlier (durations 1-5s => every such E <= T0-995s, so reads at the wall clock see it expired), while future-class durations (>= 2*10^6 s) stay alive for every reader; no instant falls into [T0-900s, T0+10^6s], so every read has one defined answer. Replies of writes are predicted at log time, reads at the wall clock, by lib/model with per-key expiry; compaction rounds are injected and must be invisible. non-trivial = a read-modify-write executed within +-1s (log time) of the expiry instant of the value it touches, OR a collection re-created after expiry/clear and then read"

func rec(m map[string]*stats.Recorder, name, rule string) *stats.Recorder {
	if r, ok := m[name]; ok {
		return r
	}
	r := stats.New(name, rule)
	m[name] = r
	return r
}

var pastDur = []string{"1", "2", "3", "5"}
var futureDur = []string{"2000000", "3000000"}

func famOf(name string) byte {
	switch name {
	case "set", "setex", "setnx", "strlen", "get", "getset", "incr", "incrby", "append", "del", "exists", "mget", "expire", "persist", "ttl":
		return 'k'
	}
	switch name[0] {
	case 'h':
		return 'h'
	case 'l', 'r':
		return 'l'
	case 's':
		return 's'
	case 'z':
		return 'z'
	}
	return 'k'
}

func readBackFor(c []string) [][]string {
	key := c[1]
	switch famOf(c[0]) {
	case 'h':
		return [][]string{{"hgetall", key}, {"hlen", key}, {"hkeyexist", key}, {"httl", key}}
	case 'l':
		return [][]string{{"lrange", key, "0", "-1"}, {"llen", key}, {"lkeyexist", key}, {"lttl", key}}
	case 's':
		return [][]string{{"smembers", key}, {"scard", key}, {"skeyexist", key}, {"sttl", key}}
	case 'z':
		return [][]string{{"zrange", key, "0", "-1", "withscores"}, {"zcard", key}, {"zkeyexist", key}, {"zttl", key}}
	}
	return [][]string{{"get", key}, {"exists", key}, {"ttl", key}}
}

func allReads(key string) [][]string {
	return [][]string{{"get", key}, {"exists", key}, {"ttl", key}, {"hgetall", key}, {"hlen", key}, {"httl", key}, {"lrange", key, "0", "-1"}, {"lttl", key},
		{"smembers", key}, {"sttl", key}, {"zrange", key, "0", "-1", "withscores"}, {"zttl", key}, {"hkeyexist", key}, {"lkeyexist", key}, {"skeyexist", key}, {"zkeyexist", key}}
}

// preShort models the leader-side pre-read of the two-stage write commands: they read the
// leader's local store at the WALL clock and answer without proposing when the command would
// be a no-op there (node/keys.go setnxCommand, node/list.go preCheckListLength, node/set.go, node/zset.go).
func preShort(m *model.Model, now int64, c []string) (bool, resp.Val) {
	rd := func(a ...string) resp.Val { return m.Apply(0, now, a) }
	switch c[0] {
	case "setnx":
		if rd("exists", c[1]).I == 1 {
			return true, resp.Int(0)
		}
	case "lpop", "rpop":
		if rd("llen", c[1]).I == 0 {
			return true, resp.Nil()
		}
	case "ltrim":
		if len(c) == 4 {
			if _, err := strconv.ParseInt(c[2], 10, 64); err != nil {
				return false, resp.Val{}
			}
			if _, err := strconv.ParseInt(c[3], 10, 64); err != nil {
				return false, resp.Val{}
			}
			if rd("llen", c[1]).I == 0 {
				return true, resp.Status("OK")
			}
		}
	case "spop":
		if len(c) == 3 {
			if n, err := strconv.Atoi(c[2]); err != nil || n < 1 {
				return false, resp.Val{}
			}
		}
		if rd("scard", c[1]).I == 0 {
			if len(c) == 3 {
				return true, resp.Arr()
			}
			return true, resp.Nil()
		}
	case "sadd":
		for _, x := range c[2:] {
			if rd("sismember", c[1], x).I == 0 {
				return false, resp.Val{}
			}
		}
		return true, resp.Int(0)
	case "srem":
		for _, x := range c[2:] {
			if rd("sismember", c[1], x).I == 1 {
				return false, resp.Val{}
			}
		}
		return true, resp.Int(0)
	case "zrem":
		for _, x := range c[2:] {
			if rd("zscore", c[1], x).Kind == 'b' {
				return false, resp.Val{}
			}
		}
		return true, resp.Int(0)
	}
	return false, resp.Val{}
}

func isRMW(name string) bool {
	switch name {
	case "append", "incr", "incrby", "getset", "setnx", "hset", "hsetnx", "hmset", "hincrby", "hdel", "lpush", "rpush", "lpop", "rpop", "lset", "ltrim",
		"sadd", "srem", "spop", "zadd", "zincrby", "zrem", "zremrangebyrank", "zremrangebyscore", "zremrangebylex", "expire", "hexpire", "lexpire", "sexpire", "zexpire",
		"persist", "hpersist", "lpersist", "spersist", "zpersist":
		return true
	}
	return name == "set" // with nx/xx
}

type runner struct {
	t       *rapid.T
	sim     *simkv.Sim
	m       *model.Model
	trace   []string
	t0      int64 // wall clock at case start (s)
	cur     int64 // log time (ns)
	started time.Time
	excluded int
}

func (r *runner) fail(format string, a ...interface{}) {
	var tr []string
	for _, l := range r.trace {
		if !strings.HasPrefix(l, "  ") {
			tr = append(tr, l)
		}
	}
	if len(tr) > 70 {
		tr = tr[len(tr)-70:]
	}
	last := r.trace
	if len(last) > 6 {
		last = last[len(last)-6:]
	}
	r.t.Fatalf("%s\nT0=%d (wall clock, s). steps ([log time relative to T0] command -> implementation reply; read-backs omitted):\n  %s\nlast reads:\n  %s", fmt.Sprintf(format, a...), r.t0, strings.Join(tr, "\n  "), strings.Join(last, "\n  "))
}

func isTTLCmd(n string) bool {
	return n == "ttl" || n == "httl" || n == "lttl" || n == "sttl" || n == "zttl"
}

func (r *runner) check(c []string, what string) {
	rep := r.sim.Do(gen.WithNS(ns, c)...)
	got := rep.One()
	var want resp.Val
	short := false
	if model.IsWrite(c[0]) {
		short, want = preShort(r.m, r.t0, c)
	}
	skipReply := false
	if c[0] == "del" && known.Active("C10-del-counts-expired-key") {
		for _, k := range c[1:] {
			if r.m.KVExpiredPresent(k, r.cur/1e9) {
				skipReply = true // exclusion keyed to the recorded finding; the state is still compared by the read-backs
			}
		}
		if skipReply {
			r.excluded++
		}
	}
	if !short {
		want = r.m.Apply(r.cur, r.t0, c)
	}
	if skipReply {
		got = want
	}
	rel := float64(r.cur-r.t0*1e9) / 1e9
	indent := ""
	if !strings.HasPrefix(what, "step") {
		indent = "  "
	}
	r.trace = append(r.trace, fmt.Sprintf("%s[%+.9fs] %s -> %s", indent, rel, gen.Quote(c), got))
	if isTTLCmd(c[0]) && want.Kind == 'i' && got.Kind == 'i' {
		if want.I > 0 {
			el := int64(time.Since(r.started)/time.Second) + 2
			if got.I > want.I || got.I < want.I-el {
				r.fail("%s: %s returns %d, expected a value in [%d, %d] (remaining whole seconds)", what, gen.Quote(c), got.I, want.I-el, want.I)
			}
			return
		}
		// no expiry, or absent/expired: the statement fixes TTL only before expiry; -1 for a live key without expiry
		if got.I >= 0 {
			r.fail("%s: %s returns %d for a key that is absent, expired or has no expiry (model: %d)", what, gen.Quote(c), got.I, want.I)
		}
		return
	}
	if !resp.Equal(got, want) {
		r.fail("%s: reply differs from the reference model\n  command: %s\n  got:  %s\n  want: %s", what, gen.Quote(c), got, want)
	}
}

// expiredScenario is a short series that creates a value with known members, gives it a
// short expiry and then modifies or removes exactly those members while the log time passes
// the expiry instant: the shape "expire -> time passes -> partial removal of a stored member,
// no write in between" is too rare in the free grammar (it took the thorough tier to meet it).
func expiredScenario(t *rapid.T, p *gen.Pool) [][]string {
	k := rapid.SampledFrom(p.Keys).Draw(t, "skey")
	m1 := rapid.SampledFrom(p.Members).Draw(t, "sm1")
	m2 := rapid.SampledFrom(p.Members).Draw(t, "sm2")
	if m2 == m1 {
		m2 = m1 + "2"
	}
	d := rapid.SampledFrom([]string{"1", "2", "3"}).Draw(t, "sdur")
	var create, expire []string
	var mod [][]string
	switch rapid.IntRange(0, 4).Draw(t, "sfam") {
	case 0:
		create, expire = []string{"hmset", k, m1, "1", m2, "2"}, []string{"hexpire", k, d}
		mod = [][]string{{"hdel", k, m1}, {"hdel", k, m2, m1}, {"hincrby", k, m1, "1"}, {"hsetnx", k, m1, "v"}, {"hset", k, m2, "v"}, {"hclear", k}, {"hpersist", k}, {"hexpire", k, "50"}}
	case 1:
		create, expire = []string{"rpush", k, m1, m2, "c"}, []string{"lexpire", k, d}
		mod = [][]string{{"lpop", k}, {"rpop", k}, {"ltrim", k, "1", "-1"}, {"ltrim", k, "0", "0"}, {"lset", k, "0", "z"}, {"lpush", k, "y"}, {"lclear", k}, {"lpersist", k}}
	case 2:
		create, expire = []string{"sadd", k, m1, m2}, []string{"sexpire", k, d}
		mod = [][]string{{"srem", k, m1}, {"spop", k}, {"sadd", k, m1}, {"sclear", k}, {"spersist", k}}
	case 3:
		create, expire = []string{"zadd", k, "1", m1, "2", m2, "3", "zz"}, []string{"zexpire", k, d}
		mod = [][]string{{"zrem", k, m1}, {"zremrangebyscore", k, "1.5", "+inf"}, {"zremrangebyscore", k, "-inf", "+inf"}, {"zremrangebyrank", k, "0", "0"}, {"zremrangebyrank", k, "1", "-1"},
			{"zremrangebylex", k, "[" + m1, "+"}, {"zremrangebylex", k, "-", "[" + m2}, {"zincrby", k, "1", m1}, {"zadd", k, "5", m2}, {"zclear", k}, {"zpersist", k}}
	default:
		create, expire = []string{"set", k, "10"}, []string{"expire", k, d}
		mod = [][]string{{"incr", k}, {"append", k, "x"}, {"getset", k, "n"}, {"setnx", k, "n"}, {"setrange", k, "1", "y"}, {"persist", k}, {"expire", k, "50"}}
	}
	out := [][]string{create, expire}
	for i := rapid.IntRange(1, 3).Draw(t, "nmod"); i > 0; i-- {
		out = append(out, mod[rapid.IntRange(0, len(mod)-1).Draw(t, "smod")])
	}
	return out
}

func runWaitCompact(t *rapid.T, engine string) {
	nulFree := engine == "mem" && known.Active("C20-mem-radix-seek-lowerbound-nul")
	pool := gen.DrawPool(t, nulFree)
	excluded := 0
	pool.Excluded = &excluded
	pool.NoDupArgs = known.Active("C08-duplicate-argument-counted-twice")
	durs := append(append([]string{}, pastDur...), pastDur...)
	durs = append(durs, futureDur...)
	g := gen.NewGrammar(gen.FamKV|gen.FamHash|gen.FamList|gen.FamSet|gen.FamZSet|gen.FamTTL|gen.FamExtra, durs)
	sim, err := simkv.New(simkv.Options{Engine: engine, ExpPolicy: "wait_compact"})
	if err != nil {
		t.Fatalf("HARNESS: %v", err)
	}
	defer sim.Close()
	now := time.Now()
	r := &runner{t: t, sim: sim, m: model.New(), t0: now.Unix(), started: now}
	r.cur = (r.t0 - 2000) * 1e9
	limit := (r.t0 - 1000) * 1e9
	part := sim.Parts[0]
	part.Raft.Stamp = func() int64 { return r.cur }
	strictTime := known.Active("C10-clear-recreate-same-timestamp")
	lastTs := int64(0)
	if strictTime {
		excluded++
	}
	var instants []int64 // past-class expiry instants (s)
	expOf := map[string]int64{}
	nearRMW, recreated := false, false
	gone := map[string]bool{}
	labels := map[string]bool{}
	var canon []string
	n := rapid.IntRange(1, 50).Draw(t, "nsteps")
	var queued [][]string
	for i := 0; i < n; i++ {
		if len(queued) == 0 && rapid.IntRange(0, 14).Draw(t, "scenario") == 0 {
			queued = expiredScenario(t, pool)
			labels["scenario_modify_stored_member_around_expiry"] = true
		}
		// advance log time
		tick := rapid.IntRange(0, 9).Draw(t, "tick")
		if len(queued) > 0 {
			// stay around the expiry instant of the scenario: small steps
			tick = rapid.SampledFrom([]int{0, 3, 4, 5, 5, 6, 6}).Draw(t, "stick")
		}
		switch tick {
		case 0, 1, 2:
		case 3:
			r.cur++
		case 4:
			r.cur += int64(rapid.IntRange(1, 999999999).Draw(t, "ns"))
		case 5:
			r.cur += 1e9
		case 6:
			r.cur += 2e9
		default:
			if len(instants) > 0 {
				e := instants[rapid.IntRange(0, len(instants)-1).Draw(t, "inst")]
				target := e*1e9 + int64(rapid.SampledFrom([]int{-1000000000, -1, 0, 1, 1000000000}).Draw(t, "around"))
				if target >= r.cur {
					r.cur = target
					labels["log_time_placed_at_expiry_instant"] = true
				}
			}
		}
		if r.cur > limit {
			r.cur = limit
		}
		if strictTime {
			// exclusion by construction for known finding C10-clear-recreate-same-timestamp:
			// no two log entries share a timestamp (each command gets 4 ns of room for its own entries)
			if r.cur < lastTs+4 {
				r.cur = lastTs + 4
			}
			lastTs = r.cur
		}
		if len(queued) == 0 && rapid.IntRange(0, 19).Draw(t, "bg") == 0 {
			part.KV.OptimizeDB("")
			labels["compaction_round"] = true
			canon = append(canon, "compact")
			for _, k := range pool.Keys {
				for _, rb := range allReads(k) {
					r.check(rb, "after compaction")
				}
			}
			continue
		}
		var c []string
		if len(queued) > 0 {
			c, queued = queued[0], queued[1:]
		} else {
			c = g.Command(t, pool)
		}
		canon = append(canon, fmt.Sprintf("%d:%s", r.cur-(r.t0-2000)*1e9, strings.Join(c, "\x1f")))
		ck := string(famOf(c[0])) + c[1]
		sec := r.cur / 1e9
		if e, ok := expOf[ck]; ok && isRMW(c[0]) && sec >= e-1 && sec <= e+1 {
			nearRMW = true
			labels["rmw_within_1s_of_expiry"] = true
		}
		r.check(c, fmt.Sprintf("step %d", i))
		// bookkeeping of instants for the time generator and the non-trivial rule
		var d string
		switch c[0] {
		case "setex":
			d = c[2]
		case "expire", "hexpire", "lexpire", "sexpire", "zexpire":
			d = c[2]
		case "set":
			for j := 3; j+1 < len(c); j++ {
				if strings.ToLower(c[j]) == "ex" {
					d = c[j+1]
				}
			}
		}
		if d != "" {
			if dv, err := strconv.ParseInt(d, 10, 64); err == nil && dv > 0 && dv < 100 {
				instants = append(instants, sec+dv)
				expOf[ck] = sec + dv
			}
		}
		if model.IsWrite(c[0]) {
			for _, rb := range readBackFor(c) {
				r.check(rb, fmt.Sprintf("read-back after step %d", i))
			}
			// emptied / expired then re-created
			ex := r.m.Apply(0, r.cur/1e9, existsCmd(c)).I
			if ex == 0 {
				gone[ck] = true
			} else if gone[ck] {
				recreated = true
				labels["recreated_after_expiry_or_clear"] = true
				delete(gone, ck)
			}
		}
	}
	for _, k := range pool.Keys {
		for _, rb := range allReads(k) {
			r.check(rb, "final read-back")
		}
	}
	var ls []string
	for l := range labels {
		ls = append(ls, l)
	}
	sort.Strings(ls)
	rc := rec(recWC, "wait_compact_"+engine, ruleWC)
	excluded += r.excluded
	if excluded > 0 || nulFree {
		rc.Count("excluded_by_known_finding", int64(excluded)+1)
	}
	rc.Record(stats.HashString(strings.Join(canon, "\x1e")), nearRMW || recreated, ls, func() interface{} {
		tr := r.trace
		if len(tr) > 40 {
			tr = tr[:40]
		}
		return map[string]interface{}{"engine": engine, "T0": r.t0, "trace": tr}
	})
}

func existsCmd(c []string) []string {
	switch famOf(c[0]) {
	case 'h':
		return []string{"hkeyexist", c[1]}
	case 'l':
		return []string{"lkeyexist", c[1]}
	case 's':
		return []string{"skeyexist", c[1]}
	case 'z':
		return []string{"zkeyexist", c[1]}
	}
	return []string{"exists", c[1]}
}

func TestWaitCompactMem(t *testing.T) {
	rapid.Check(t, func(t *rapid.T) { runWaitCompact(t, "mem") })
}
func TestWaitCompactPebble(t *testing.T) {
	rapid.Check(t, func(t *rapid.T) { runWaitCompact(t, "pebble") })
}
func TestWaitCompactRocksdb(t *testing.T) {
	rapid.Check(t, func(t *rapid.T) { runWaitCompact(t, "rocksdb") })
}

// ---------------------------------------------------------------------------------------
// local-deletion policy: background deletion never removes a key before the time it was given

var recLD = map[string]*stats.Recorder{}

const ruleLD = "local_deletion policy: command sequences (C08 grammar + SETEX / SET EX / *EXPIRE with durations of 10-50 minutes and >= 2*10^6 s, log time = wall clock) interleaved with synchronous runs of the background expiry pass (the real TTLChecker scan + batched delete, hook VerifRunLocalExpire) and compaction rounds; no expiry instant is reached during the run, so every read must equal the reference model with expiry ignored: nothing may be removed. non-trivial = >= 1 background pass ran while >= 1 key carried an expiry instant"

func runLocalDeletion(t *rapid.T, engine string) {
	nulFree := engine == "mem" && known.Active("C20-mem-radix-seek-lowerbound-nul")
	pool := gen.DrawPool(t, nulFree)
	excluded := 0
	pool.Excluded = &excluded
	pool.NoDupArgs = known.Active("C08-duplicate-argument-counted-twice")
	g := gen.NewGrammar(gen.FamKV|gen.FamHash|gen.FamList|gen.FamSet|gen.FamZSet|gen.FamTTL|gen.FamExtra, []string{"600", "1800", "3000", "2000000", "3601", "3599"})
	sim, err := simkv.New(simkv.Options{Engine: engine, ExpPolicy: "local_deletion"})
	if err != nil {
		t.Fatalf("HARNESS: %v", err)
	}
	defer sim.Close()
	now := time.Now()
	m := model.New()
	m.Dev.LocalDeletion = true
	r := &runner{t: t, sim: sim, m: m, t0: now.Unix(), started: now}
	part := sim.Parts[0]
	withTTL, passes, ntHit := 0, 0, false
	var canon []string
	n := rapid.IntRange(1, 40).Draw(t, "nsteps")
	for i := 0; i < n; i++ {
		r.cur = time.Now().UnixNano()
		r.t0 = r.cur / 1e9
		if rapid.IntRange(0, 7).Draw(t, "bg") == 0 {
			if rapid.Bool().Draw(t, "compact") {
				part.KV.OptimizeDB("")
				canon = append(canon, "compact")
			}
			ran, err := rockredis.VerifRunLocalExpire(part.Store().RockDB)
			if !ran || err != nil {
				t.Fatalf("HARNESS: local expire pass: ran=%v err=%v", ran, err)
			}
			canon = append(canon, "expire-pass")
			r.trace = append(r.trace, "-- background expiry pass --")
			passes++
			if withTTL > 0 {
				ntHit = true
			}
			for _, k := range pool.Keys {
				for _, rb := range allReads(k) {
					if !isTTLCmd(rb[0]) {
						r.check(rb, "after background expiry pass")
					}
				}
			}
			continue
		}
		c := g.Command(t, pool)
		// TTL and PERSIST are documented as unsupported under this policy
		if isTTLCmd(c[0]) || strings.HasSuffix(c[0], "persist") {
			c = existsCmd(c)
		}
		canon = append(canon, strings.Join(c, "\x1f"))
		rep := r.sim.Do(gen.WithNS(ns, c)...).One()
		switch c[0] {
		case "setex", "expire", "hexpire", "lexpire", "sexpire", "zexpire":
			if rep.Kind != 'e' && !(rep.Kind == 'i' && rep.I == 0) {
				withTTL++
			}
		}
		want := m.Apply(r.cur, r.t0, c)
		r.trace = append(r.trace, fmt.Sprintf("%s -> %s", gen.Quote(c), rep))
		if !resp.Equal(rep, want) {
			r.fail("step %d: reply differs from the reference model (expiry ignored)\n  command: %s\n  got:  %s\n  want: %s", i, gen.Quote(c), rep, want)
		}
	}
	for _, k := range pool.Keys {
		for _, rb := range allReads(k) {
			if !isTTLCmd(rb[0]) {
				r.check(rb, "final read-back")
			}
		}
	}
	rc := rec(recLD, "local_deletion_"+engine, ruleLD)
	if excluded > 0 || nulFree {
		rc.Count("excluded_by_known_finding", int64(excluded)+1)
	}
	var ls []string
	if passes > 0 {
		ls = append(ls, "background_pass")
	}
	rc.Record(stats.HashString(strings.Join(canon, "\x1e")), ntHit, ls, func() interface{} {
		tr := r.trace
		if len(tr) > 40 {
			tr = tr[:40]
		}
		return map[string]interface{}{"engine": engine, "trace": tr}
	})
}

func TestLocalDeletionMem(t *testing.T) {
	rapid.Check(t, func(t *rapid.T) { runLocalDeletion(t, "mem") })
}
func TestLocalDeletionPebble(t *testing.T) {
	rapid.Check(t, func(t *rapid.T) { runLocalDeletion(t, "pebble") })
}

func TestKnownDelCountsExpiredKey(t *testing.T) {
	known.Probe(t, "C10-del-counts-expired-key", func() (bool, string) {
		sim, err := simkv.New(simkv.Options{Engine: "pebble"})
		if err != nil {
			return false, "HARNESS: " + err.Error()
		}
		defer sim.Close()
		cur := (time.Now().Unix() - 2000) * 1e9
		sim.Parts[0].Raft.Stamp = func() int64 { return cur }
		sim.Do("setex", "default:t:k", "1", "v")
		cur += 2e9
		if v := sim.Do("del", "default:t:k").One(); v.Kind != 'i' || v.I != 0 {
			return true, "SETEX k 1 v; (log time +2s) DEL k -> " + v.String() + ", expected :0"
		}
		return false, ""
	})
}

func TestKnownClearRecreateSameTimestamp(t *testing.T) {
	known.Probe(t, "C10-clear-recreate-same-timestamp", func() (bool, string) {
		sim, err := simkv.New(simkv.Options{Engine: "pebble"})
		if err != nil {
			return false, "HARNESS: " + err.Error()
		}
		defer sim.Close()
		cur := (time.Now().Unix() - 10) * 1e9
		sim.Parts[0].Raft.Stamp = func() int64 { return cur }
		sim.Do("hset", "default:t:h", "x", "v")
		sim.Do("hclear", "default:t:h")
		sim.Do("hmset", "default:t:h", "a", "v")
		if v := sim.Do("hgetall", "default:t:h").One(); v.String() != `["a" "v"]` {
			return true, "HSET h x v; HCLEAR h; HMSET h a v (one log timestamp); HGETALL h -> " + v.String()
		}
		return false, ""
	})
}

func TestKnownAppendOnExpiredKey(t *testing.T) {
	known.Probe(t, "C10-append-setrange-on-expired-key", func() (bool, string) {
		sim, err := simkv.New(simkv.Options{Engine: "pebble"})
		if err != nil {
			return false, "HARNESS: " + err.Error()
		}
		defer sim.Close()
		cur := (time.Now().Unix() - 2000) * 1e9
		sim.Parts[0].Raft.Stamp = func() int64 { return cur }
		sim.Do("setex", "default:t:k", "1", "ab")
		sim.Do("setex", "default:t:r", "1", "abcdef")
		cur += 2e9
		if v := sim.Do("append", "default:t:k", "c").One(); v.Kind != 'i' || v.I != 1 {
			return true, "SETEX k 1 ab; (log time +2s) APPEND k c -> " + v.String() + ", expected :1"
		}
		if v := sim.Do("setrange", "default:t:r", "0", "x").One(); v.Kind != 'i' || v.I != 1 {
			return true, "SETEX r 1 abcdef; (log time +2s) SETRANGE r 0 x -> " + v.String() + ", expected :1"
		}
		return false, ""
	})
}

func TestKnownPartialRemovalOnExpired(t *testing.T) {
	known.Probe(t, "C10-partial-removal-counts-expired-members", func() (bool, string) {
		sim, err := simkv.New(simkv.Options{Engine: "pebble"})
		if err != nil {
			return false, "HARNESS: " + err.Error()
		}
		defer sim.Close()
		cur := (time.Now().Unix() - 2000) * 1e9
		sim.Parts[0].Raft.Stamp = func() int64 { return cur }
		sim.Do("hmset", "default:t:h", "a", "1", "b", "2")
		sim.Do("zadd", "default:t:z", "1", "a", "2", "b", "3", "c")
		sim.Do("hexpire", "default:t:h", "3")
		sim.Do("zexpire", "default:t:z", "3")
		cur += 5e9
		for _, c := range [][]string{{"hdel", "default:t:h", "a"}, {"zremrangebyscore", "default:t:z", "1.5", "+inf"}, {"zremrangebyrank", "default:t:z", "0", "0"}, {"zremrangebylex", "default:t:z", "[b", "+"}} {
			if v := sim.Do(c...).One(); v.Kind != 'i' || v.I != 0 {
				return true, "collection with 3 s expiry; (log time +5s) " + gen.Quote(c) + " -> " + v.String() + ", expected :0"
			}
		}
		return false, ""
	})
}
