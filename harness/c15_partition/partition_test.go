package c15

import (
	"fmt"
	"sort"
	"strings"
	"testing"
	"time"

	"github.com/youzan/ZanRedisDB/common"
	"github.com/youzan/ZanRedisDB/node"
	"github.com/youzan/ZanRedisDB/server"
	zanredisdb "github.com/youzan/go-zanredisdb"
	"pgregory.net/rapid"

	"verifharness/lib/gen"
	"verifharness/lib/known"
	"verifharness/lib/model"
	"verifharness/lib/resp"
	"verifharness/lib/simkv"
	"verifharness/lib/stats"
)

func TestMain(m *testing.M) { stats.Main(m) }

var recHash = stats.New("hash_agreement", "generated (namespace, set, key) triples (valid namespace names, set and key byte strings from the adversarial alphabet incl. ':' 0x00 0xff and random bytes), each checked for EVERY partition count 1..1024 (complete in the partition count): node.GetHashedPartitionID, the SDK's zanredisdb.GetHashedPartitionID on NewPKey(ns,set,key).ShardingKey(), and server.GetPKAndHashSum on the raw key the SDK sends must agree and lie in [0,n); non-trivial = set or key contains ':' or a non-printable byte")

var recRoute = stats.New("routing", "command sequences (C08 grammar + PLSET + multi-key DEL / EXISTS with duplicates) on a namespace of 1, 3, 4 or 8 single-replica partitions, all hosted or with one partition not hosted by this server. After every write only the store of partition hash(pk) mod n may hold the key (read at node level on every hosted partition); replies and data equal lib/model run as ONE store; a command on a key whose partition is not hosted is rejected and changes nothing anywhere; a multi-key command touching a non-hosted partition is rejected. non-trivial = a multi-key command whose keys map to >= 2 partitions and contain a duplicate, OR a command addressed to a non-hosted partition after >= 1 successful write")

const ns = "default"

var nsNames = []string{"default", "a", "ns_1", "X9", "yz_cp_simple", strings.Repeat("n", 255)}
var setNames = []string{"t", "tt", "T", "t\x00", "se:t", ":", "a:b:c", "\xff", "0", "test5", strings.Repeat("s", 255)}

func TestHashAgreement(t *testing.T) {
	rapid.Check(t, func(t *rapid.T) {
		nsn := rapid.SampledFrom(nsNames).Draw(t, "ns")
		if !common.IsValidNamespaceName(nsn) {
			t.Fatalf("HARNESS: namespace %q is not valid", nsn)
		}
		set := rapid.SampledFrom(setNames).Draw(t, "set")
		var key []byte
		if rapid.Bool().Draw(t, "randkey") {
			key = rapid.SliceOfN(rapid.Byte(), 1, 64).Draw(t, "key")
		} else {
			key = []byte(rapid.SampledFrom(gen.Keys).Draw(t, "poolkey"))
		}
		pk := zanredisdb.NewPKey(nsn, set, key)
		raw := pk.RawKey
		cmd := common.BuildCommand([][]byte{[]byte("get"), raw})
		gotNs, spk, sum, err := server.GetPKAndHashSum("get", cmd)
		if err != nil {
			t.Fatalf("server rejects the raw key %q the SDK builds: %v", raw, err)
		}
		if gotNs != nsn || string(spk) != string(pk.ShardingKey()) {
			t.Fatalf("server splits raw key %q into namespace %q + primary key %q, the SDK shards on %q in namespace %q", raw, gotNs, spk, pk.ShardingKey(), nsn)
		}
		for n := 1; n <= 1024; n++ {
			a := node.GetHashedPartitionID(spk, n)
			b := zanredisdb.GetHashedPartitionID(pk.ShardingKey(), n)
			c := sum % n
			if a != b || a != c || a < 0 || a >= n {
				t.Fatalf("raw key %q, %d partitions: node.GetHashedPartitionID=%d SDK=%d server hash sum %% n=%d", raw, n, a, b, c)
			}
		}
		odd := strings.Contains(set, ":") || strings.ContainsAny(string(key), ":\x00\xff") || strings.ContainsAny(set, "\x00\xff")
		recHash.Record(stats.Hash(raw), odd, nil, func() interface{} {
			return map[string]interface{}{"namespace": nsn, "set": fmt.Sprintf("%q", set), "key": fmt.Sprintf("%q", key), "partition_of_3": node.GetHashedPartitionID(spk, 3), "partition_of_1024": node.GetHashedPartitionID(spk, 1024)}
		})
	})
}

func partOf(key string, n int) int { return node.GetHashedPartitionID([]byte(key), n) }

func presence(p *simkv.Part, key string) []string {
	var out []string
	for _, c := range [][]string{{"get", key}, {"hlen", key}, {"llen", key}, {"scard", key}, {"zcard", key}} {
		r := p.NodeExec(simkv.CmdS(c[0], ns+":"+c[1])).One()
		switch {
		case r.Kind == 'n', r.Kind == 'i' && r.I == 0:
		default:
			out = append(out, fmt.Sprintf("%s -> %s", c[0], r))
		}
	}
	return out
}

func dumpAll(s *simkv.Sim, keys []string) string {
	var b strings.Builder
	for _, p := range s.Parts {
		for _, k := range keys {
			for _, c := range []string{"get", "hgetall", "smembers"} {
				fmt.Fprintf(&b, "p%d %s %q=%s\n", p.ID, c, k, p.NodeExec(simkv.CmdS(c, ns+":"+k)).String())
			}
			for _, c := range [][]string{{"lrange", "0", "-1"}, {"zrange", "0", "-1"}} {
				fmt.Fprintf(&b, "p%d %s %q=%s\n", p.ID, c[0], k, p.NodeExec(simkv.CmdS(c[0], ns+":"+k, c[1], c[2])).String())
			}
		}
	}
	return b.String()
}

func TestRouting(t *testing.T) {
	rapid.Check(t, func(t *rapid.T) {
		engine := rapid.SampledFrom([]string{"mem", "pebble"}).Draw(t, "engine")
		// any partition count of the documented range: the server's routing (NamespaceMgr.
		// GetNamespaceNodeWithPrimaryKeySum on the namespace meta) is exercised, not a copy of its formula
		n := rapid.SampledFrom([]int{1, 2, 3, 4, 8, 5, 6, 7, 10, 12, 24, 100, 1000, 1024}).Draw(t, "partitions")
		// which partitions of the namespace this server hosts: all, all but one, or any non-empty
		// subset (down to exactly one partition of many, as on a node of a spread-out cluster)
		notHosted := map[int]bool{}
		var hosted []int
		if n > 8 {
			// a node hosts a few partitions of a large namespace
			for i := 0; i < n; i++ {
				notHosted[i] = true
			}
			for j := rapid.IntRange(1, 3).Draw(t, "nhosted"); j > 0; j-- {
				delete(notHosted, rapid.IntRange(0, n-1).Draw(t, "hostedpid"))
			}
			for i := 0; i < n; i++ {
				if !notHosted[i] {
					hosted = append(hosted, i)
				}
			}
		} else if n > 1 {
			switch rapid.IntRange(0, 2).Draw(t, "hostall") {
			case 0:
				notHosted[rapid.IntRange(0, n-1).Draw(t, "missing")] = true
			case 1:
				keep := rapid.IntRange(0, n-1).Draw(t, "keepone")
				for i := 0; i < n; i++ {
					if i != keep && rapid.Bool().Draw(t, "drop") {
						notHosted[i] = true
					}
				}
			}
			if len(notHosted) > 0 {
				for i := 0; i < n; i++ {
					if !notHosted[i] {
						hosted = append(hosted, i)
					}
				}
			}
		}
		missing := keysOf(notHosted)
		// namespace life cycle: the name may have been used before with another partition count
		stale := 0
		if rapid.IntRange(0, 3).Draw(t, "recreated") == 0 {
			stale = rapid.SampledFrom([]int{1, 2, 3, 4, 5, 8, 16}).Filter(func(x int) bool { return x != n }).Draw(t, "stale_partitions")
		}
		sim, err := simkv.New(simkv.Options{Engine: engine, Partitions: n, Hosted: hosted, StaleCreate: stale, ExpPolicy: rapid.SampledFrom([]string{"wait_compact", "local_deletion"}).Draw(t, "policy")})
		if err != nil {
			t.Fatalf("HARNESS: %v", err)
		}
		defer sim.Close()
		pool := gen.DrawPool(t, false)
		for len(pool.Keys) < 4 {
			pool.Keys = append(pool.Keys, fmt.Sprintf("t:extra%d", len(pool.Keys)))
		}
		g := gen.NewGrammar(gen.FamKV|gen.FamHash|gen.FamList|gen.FamSet|gen.FamZSet, gen.FarDurations)
		m := model.New()
		var trace []string
		fail := func(format string, a ...interface{}) {
			tr := trace
			if len(tr) > 50 {
				tr = tr[len(tr)-50:]
			}
			t.Fatalf("%s\n%d partitions, not hosted here: %v\ntrace:\n  %s", fmt.Sprintf(format, a...), n, missing, strings.Join(tr, "\n  "))
		}
		nt := false
		wrote := false
		labels := map[string]bool{}
		var canon []string
		steps := rapid.IntRange(1, 40).Draw(t, "nsteps")
		for i := 0; i < steps; i++ {
			var c []string
			switch rapid.IntRange(0, 9).Draw(t, "kind") {
			case 0:
				c = []string{"plset"}
				for j := rapid.IntRange(1, 4).Draw(t, "npairs"); j > 0; j-- {
					c = append(c, rapid.SampledFrom(pool.Keys).Draw(t, "pk"), rapid.SampledFrom(pool.Values).Draw(t, "pv"))
				}
			case 1:
				c = []string{rapid.SampledFrom([]string{"del", "exists"}).Draw(t, "mk")}
				for j := rapid.IntRange(2, 5).Draw(t, "nkeys"); j > 0; j-- {
					c = append(c, rapid.SampledFrom(pool.Keys).Draw(t, "dk"))
				}
			default:
				c = g.Command(t, pool)
			}
			if c[0] == "mget" && len(c) > 2 && known.Active("C15-mget-cross-partition") {
				c = c[:2]
				recRoute.Count("excluded_by_known_finding", 1)
			}
			canon = append(canon, strings.Join(c, "\x1f"))
			keyIdx := gen.KeyArgs(c)
			partsTouched := map[int]bool{}
			dup := false
			seen := map[string]bool{}
			for _, ki := range keyIdx {
				partsTouched[partOf(c[ki], n)] = true
				dup = dup || seen[c[ki]]
				seen[c[ki]] = true
			}
			touchesMissing := false
			for p := range partsTouched {
				touchesMissing = touchesMissing || notHosted[p]
			}
			if len(keyIdx) > 1 && len(partsTouched) >= 2 && dup {
				nt = true
				labels["multi_key_cross_partition_with_duplicate"] = true
			}
			before := ""
			if touchesMissing {
				before = dumpAll(sim, pool.Keys)
			}
			rep := sim.Do(gen.WithNS(ns, c)...)
			trace = append(trace, fmt.Sprintf("%s -> %s   (key partitions %v)", gen.Quote(c), rep, keysOf(partsTouched)))
			if touchesMissing {
				if wrote {
					nt = true
				}
				labels["addressed_non_hosted_partition"] = true
				isErr := rep.Malformed != "" || len(rep.Vals) == 0
				for _, v := range rep.Vals {
					isErr = isErr || v.Kind == 'e'
				}
				if !isErr {
					fail("command %s names a key of a partition this server does not host (not hosted: %v), and was answered %s instead of being rejected", gen.Quote(c), missing, rep)
				}
				if after := dumpAll(sim, pool.Keys); after != before {
					fail("rejected command %s changed data on a hosted partition", gen.Quote(c))
				}
				continue
			}
			now := time.Now()
			want := m.Apply(now.UnixNano(), now.Unix(), c)
			var got resp.Val
			if c[0] == "plset" {
				got = resp.Status("OK")
				for _, v := range rep.Vals {
					if v.Kind != 's' {
						got = v
					}
				}
				if len(rep.Vals) != (len(c)-1)/2 {
					got = resp.Err("plset reply shape " + rep.String())
				}
			} else {
				got = rep.One()
			}
			if !resp.Equal(got, want) {
				fail("reply differs from the one-store reference model\n  command: %s\n  got:  %s\n  want: %s", gen.Quote(c), got, want)
			}
			if model.IsWrite(c[0]) && got.Kind != 'e' {
				wrote = true
			}
			// ownership: only the partition the key hashes to may hold it
			for _, ki := range keyIdx {
				owner := partOf(c[ki], n)
				for _, p := range sim.Parts {
					if p.ID == owner {
						continue
					}
					if held := presence(p, c[ki]); len(held) > 0 {
						fail("key %q hashes to partition %d of %d but partition %d holds data for it: %v", c[ki], owner, n, p.ID, held)
					}
				}
			}
		}
		// final: every key's data lives only on its owner and equals the model
		for _, k := range pool.Keys {
			owner := partOf(k, n)
			for _, p := range sim.Parts {
				if p.ID != owner {
					if held := presence(p, k); len(held) > 0 {
						fail("final state: key %q (owner %d) present on partition %d: %v", k, owner, p.ID, held)
					}
				}
			}
			if notHosted[owner] {
				continue
			}
			for _, rc := range [][]string{{"get", k}, {"hgetall", k}, {"lrange", k, "0", "-1"}, {"smembers", k}, {"zrange", k, "0", "-1", "withscores"}} {
				got := sim.Do(gen.WithNS(ns, rc)...).One()
				want := m.Apply(0, time.Now().Unix(), rc)
				if !resp.Equal(got, want) {
					fail("final read-back %s: got %s, one-store model %s", gen.Quote(rc), got, want)
				}
			}
		}
		var ls []string
		for l := range labels {
			ls = append(ls, l)
		}
		sort.Strings(ls)
		ls = append(ls, fmt.Sprintf("partitions_%d", n))
		if len(hosted) == 1 {
			ls = append(ls, "server_hosts_exactly_one_partition_of_many")
		}
		if stale > 0 {
			ls = append(ls, "name_used_before_with_other_partition_count")
		}
		recRoute.Record(stats.HashString(fmt.Sprintf("%d|%v|%d|%s", n, missing, stale, strings.Join(canon, "\x1e"))), nt, ls, func() interface{} {
			tr := trace
			if len(tr) > 30 {
				tr = tr[:30]
			}
			return map[string]interface{}{"engine": engine, "partitions": n, "not_hosted": missing, "failed_earlier_creation_with_partitions": stale, "trace": tr}
		})
	})
}

func keysOf(m map[int]bool) []int {
	var out []int
	for k := range m {
		out = append(out, k)
	}
	sort.Ints(out)
	return out
}

func TestKnownMgetCrossPartition(t *testing.T) {
	known.Probe(t, "C15-mget-cross-partition", func() (bool, string) {
		sim, err := simkv.New(simkv.Options{Engine: "pebble", Partitions: 3})
		if err != nil {
			return false, "HARNESS: " + err.Error()
		}
		defer sim.Close()
		// two keys on different partitions
		k1, k2 := "", ""
		for i := 0; i < 100 && k2 == ""; i++ {
			k := fmt.Sprintf("t:k%d", i)
			if k1 == "" {
				k1 = k
			} else if partOf(k, 3) != partOf(k1, 3) {
				k2 = k
			}
		}
		sim.Do("set", ns+":"+k1, "v1")
		sim.Do("set", ns+":"+k2, "v2")
		r := sim.Do("mget", ns+":"+k1, ns+":"+k2).One()
		if r.IsErr() || r.String() == `["v1" "v2"]` {
			return false, ""
		}
		return true, fmt.Sprintf("3 partitions, SET %s v1 (partition %d), SET %s v2 (partition %d); MGET %s %s -> %s", k1, partOf(k1, 3), k2, partOf(k2, 3), k1, k2, r)
	})
}
