package c01

// C01 - at most one raft leader per term; learners never lead or vote.
// Engine A (lib/raftsim): generated schedules over real raft.Node replicas.
// Oracle (history invariant, black-box, checked while the schedule runs):
//   leader(i,t) := replica i emitted a Ready with SoftState.RaftState == StateLeader while its
//                  last emitted HardState.Term == t, or a MsgApp/MsgHeartbeat/MsgSnap/MsgTimeoutNow
//                  with Term == t.
//   (1) leader(i,t) and leader(j,t) imply i == j (incarnations of one id are one replica);
//   (2) a replica that is a learner in its own applied configuration never satisfies leader
//       and never emits MsgVoteResp/MsgPreVoteResp with Reject == false;
//   (3) per (replica, term) at most one distinct vote: among the vote messages that entered
//       the network, among the hard states that reached the durable record, and between the
//       two across restarts (a vote is durable before it is answered).

import (
	"fmt"
	"sort"
	"strings"
	"testing"

	"github.com/youzan/ZanRedisDB/raft"
	pb "github.com/youzan/ZanRedisDB/raft/raftpb"
	"pgregory.net/rapid"

	"verifharness/lib/known"
	"verifharness/lib/raftsim"
	"verifharness/lib/stats"
)

func TestMain(m *testing.M) { stats.Main(m) }

const ntRule = "non-trivial = >=2 distinct terms with an observed leader AND at least one of {crash/restart, dropped or duplicated vote message, applied membership change, partition}"

var (
	recL1   = stats.New("l1_uniform", "L1: 30-400 uniformly weighted atomic actions (tick, deliver/drop/dup, propose, conf change, campaign, transfer, step with flags, crash at a stage/restart, snapshot+compact, partition/heal, reports) on 1-5 replicas; "+ntRule)
	recL2   = stats.New("l2_swarm", "L2: as L1 but every case draws its own action weights, step lag, FIFO bias and fault rates, plus 6% macros (normal rounds, stop-at-leadership election, crash-all, snapshot catch-up); "+ntRule)
	recConf = stats.New("l2_membership_macro", "L2 with the membership macro in most cases: back-to-back conf changes proposed as soon as the leader applied the previous one, commit-carrying messages withheld from one voter/learner, leader isolated, both sides campaign; "+ntRule)
	recL3   = stats.New("l3_phases", "L3: 2-8 election phases (candidate + quorum, others cut off, campaign, stop at the instant it leads, propose 0-2, deliver 0-16 in-quorum messages, crash or keep); "+ntRule)
)

var profL1 = raftsim.Profile{Name: "c01-l1", Layer: 1, MinSteps: 30, MaxSteps: 400, StorageW: [4]int{1, 0, 0, 0},
	CrashPct: []int{0, 0, 1, 3}, MacroPct: 0, MacroW: [7]int{1, 0, 0, 0, 0, 0, 0}, MembershipPct: 45}

var profL2 = raftsim.Profile{Name: "c01-l2", Layer: 2, MinSteps: 30, MaxSteps: 400, StorageW: [4]int{1, 0, 0, 0},
	CrashPct: []int{0, 0, 1, 3, 8}, MacroPct: 6, MacroW: [7]int{6, 5, 1, 1, 1, 1, 2}, MembershipPct: 55}

var profConf = raftsim.Profile{Name: "c01-conf", Layer: 2, MinSteps: 20, MaxSteps: 200, StorageW: [4]int{1, 0, 0, 0},
	CrashPct: []int{0, 0, 1, 3}, MacroPct: 5, MacroW: [7]int{4, 2, 10, 0, 1, 1, 1}, MembershipPct: 100}

var profL3 = raftsim.Profile{Name: "c01-l3", Layer: 3, StorageW: [4]int{1, 0, 0, 0}, CrashPct: []int{0}, MacroPct: 8,
	MacroW: [7]int{4, 0, 3, 1, 1, 0, 1}, MembershipPct: 40, MinPhases: 2, MaxPhases: 8}

type voteKey struct{ id, term uint64 }

type oracle struct {
	raftsim.NopObserver
	leaderOf    map[uint64]uint64 // term -> replica
	sentVote    map[voteKey]uint64
	durVote     map[voteKey]uint64
	scanned     map[uint64]int // per replica: durable records already looked at
	confIdx     map[uint64]bool
	learnerSeen bool
	learnerStep int // Readys emitted by replicas that were learners
	bootN       int
}

func newOracle() *oracle {
	return &oracle{leaderOf: map[uint64]uint64{}, sentVote: map[voteKey]uint64{}, durVote: map[voteKey]uint64{},
		scanned: map[uint64]int{}, confIdx: map[uint64]bool{}}
}

func (o *oracle) Ready(s *raftsim.Sim, r *raftsim.Replica, rd *raft.Ready, before raft.VerifPeekState) {
	learner := before.IsLearner
	if learner {
		o.learnerSeen = true
		o.learnerStep++
	}
	for _, t := range raftsim.LeaderTermsIn(r, rd) {
		if learner {
			s.Fail("C01 learner clause: replica %d is a learner in its own applied configuration (voters %v, learners %v) and acts as leader of term %d",
				r.ID, before.Voters, before.Learners, t)
		}
		if old, ok := o.leaderOf[t]; ok && old != r.ID {
			s.Fail("C01 election safety: two leaders in term %d: replica %d and replica %d", t, old, r.ID)
		}
		o.leaderOf[t] = r.ID
	}
	if learner {
		for i := range rd.Messages {
			m := &rd.Messages[i]
			if (m.Type == pb.MsgVoteResp || m.Type == pb.MsgPreVoteResp) && !m.Reject {
				s.Fail("C01 learner clause: replica %d is a learner in its own applied configuration (voters %v, learners %v) and grants %s to %d for term %d",
					r.ID, before.Voters, before.Learners, m.Type, m.To, m.Term)
			}
		}
	}
}

func (o *oracle) Sent(s *raftsim.Sim, r *raftsim.Replica, msgs []pb.Message) {
	for i := range msgs {
		m := &msgs[i]
		var who uint64
		switch {
		case m.Type == pb.MsgVote:
			who = r.ID
		case m.Type == pb.MsgVoteResp && !m.Reject:
			who = m.To
		default:
			continue
		}
		k := voteKey{r.ID, m.Term}
		if old, ok := o.sentVote[k]; ok && old != who {
			s.Fail("C01 one vote per term: replica %d voted for %d and for %d in term %d (vote messages that entered the network)", r.ID, old, who, m.Term)
		}
		if dv, ok := o.durVote[k]; ok && dv != who {
			s.Fail("C01 one vote per term: replica %d has vote %d for term %d in its durable record and sends a vote for %d", r.ID, dv, m.Term, who)
		}
		o.sentVote[k] = who
	}
}

func (o *oracle) scan(s *raftsim.Sim, r *raftsim.Replica) {
	d := &r.Disk
	from := o.scanned[r.ID]
	if from > d.Synced {
		from = d.Synced // a crash cut unsynced records; they were never looked at (only synced ones are)
	}
	for i := from; i < d.Synced; i++ {
		rec := &d.Recs[i]
		if rec.Kind != raftsim.RecState || rec.HS.Vote == 0 {
			continue
		}
		k := voteKey{r.ID, rec.HS.Term}
		if old, ok := o.durVote[k]; ok && old != rec.HS.Vote {
			s.Fail("C01 one vote per term: the durable record of replica %d holds vote %d and vote %d for term %d", r.ID, old, rec.HS.Vote, rec.HS.Term)
		}
		o.durVote[k] = rec.HS.Vote
	}
	o.scanned[r.ID] = d.Synced
}

func (o *oracle) Persisted(s *raftsim.Sim, r *raftsim.Replica, recs []raftsim.WalRec, synced bool) {
	o.scan(s, r)
}

func (o *oracle) Crashed(s *raftsim.Sim, r *raftsim.Replica, p raftsim.CrashPoint, lost []raftsim.WalRec) {
	o.scan(s, r)
}

func (o *oracle) StorageRebuilt(s *raftsim.Sim, r *raftsim.Replica, sn pb.Snapshot, hs pb.HardState, ents []pb.Entry) {
	// a vote that was answered must have been durable: the restarted replica may not
	// be behind its own answered votes
	for k, who := range o.sentVote {
		if k.id != r.ID {
			continue
		}
		if k.term > hs.Term {
			s.Fail("C01 vote durable before answered: replica %d sent a vote for %d in term %d but restarts with term %d", r.ID, who, k.term, hs.Term)
		}
		if k.term == hs.Term && hs.Vote != who {
			s.Fail("C01 vote durable before answered: replica %d sent a vote for %d in term %d but restarts with vote %d", r.ID, who, k.term, hs.Vote)
		}
	}
}

func (o *oracle) ConfApplied(s *raftsim.Sim, r *raftsim.Replica, e pb.Entry, cc pb.ConfChange, cs pb.ConfState) {
	if e.Index > uint64(s.P.N) {
		o.confIdx[e.Index] = true
	}
}

// A raft panic is C02's business (there it is a violation); here the replica is just dead.

func labelsOf(c *raftsim.Case, o *oracle) (labels []string, nontrivial bool) {
	st := &c.S.St
	add := func(cond bool, l string) {
		if cond {
			labels = append(labels, l)
		}
	}
	add(st.Crashes > 0, "has_crash")
	add(st.Restarts > 0, "has_restart")
	add(len(o.confIdx) > 0, "membership_change_applied")
	add(st.ConfProposals > 0, "membership_change_proposed")
	add(st.Partitions > 0, "has_partition")
	add(st.SnapshotsInstalled > 0, "snapshot_install")
	add(len(o.leaderOf) >= 2, "leader_change")
	add(len(o.leaderOf) >= 4, "leader_terms_ge4")
	add(len(o.leaderOf) == 0, "no_leader_at_all")
	add(o.learnerSeen, "learner_present")
	add(st.Promotions > 0 || promoted(c), "learner_promoted")
	add(st.ConfApplied[pb.ConfChangeRemoveNode] > 0, "member_removed")
	add(st.VoteMsgLost > 0, "vote_msg_dropped_or_dupped")
	add(st.Dropped > 0, "has_drop")
	add(st.Dupped > 0, "has_dup")
	add(st.Transfers > 0, "has_transfer")
	add(st.TornLoss > 0, "torn_tail_loss")
	add(st.RaftPanics > 0, "raft_panic_seen")
	add(st.SelfRemoved > 0, "self_removed")
	add(st.AsyncConf > 0, "conf_applied_via_next_stepnode")
	add(c.S.P.PreVote, "prevote")
	add(c.S.P.CheckQuorum, "checkquorum")
	add(c.G.MacroCounts[2] > 0, "membership_macro")
	labels = append(labels, fmt.Sprintf("n%d", c.S.P.N))
	fault := st.Crashes > 0 || st.Restarts > 0 || st.VoteMsgLost > 0 || len(o.confIdx) > 0 || st.Partitions > 0
	return labels, len(o.leaderOf) >= 2 && fault
}

func promoted(c *raftsim.Case) bool {
	// a learner start flag and a voter now
	for _, r := range c.S.Reps {
		if r.Learner && r.Up {
			if p := c.S.Peek(r); !p.IsLearner && len(p.Voters) > 0 {
				for _, v := range p.Voters {
					if v == r.ID {
						return true
					}
				}
			}
		}
	}
	return false
}

func sample(c *raftsim.Case, o *oracle) interface{} {
	terms := make([]string, 0, len(o.leaderOf))
	ks := make([]uint64, 0, len(o.leaderOf))
	for t := range o.leaderOf {
		ks = append(ks, t)
	}
	sort.Slice(ks, func(i, j int) bool { return ks[i] < ks[j] })
	for _, t := range ks {
		terms = append(terms, fmt.Sprintf("t%d:r%d", t, o.leaderOf[t]))
	}
	st := c.S.St
	return map[string]interface{}{
		"params":  c.S.P.String(),
		"leaders": strings.Join(terms, " "),
		"counts": fmt.Sprintf("steps=%d readies=%d ticks=%d delivered=%d dropped=%d dupped=%d proposals=%d confProposals=%d crashes=%d restarts=%d partitions=%d snapshots=%d/%d replicas=%d",
			st.Steps, st.Readies, st.Ticks, st.Delivered, st.Dropped, st.Dupped, st.Proposals, st.ConfProposals, st.Crashes, st.Restarts, st.Partitions, st.SnapshotsCreated, st.SnapshotsInstalled, len(c.S.Reps)),
	}
}

func knownSet() map[string]bool {
	m := map[string]bool{}
	for _, id := range raftsim.KnownIDs {
		if known.Active(id) {
			m[id] = true
		}
	}
	return m
}

func run(t *testing.T, prof raftsim.Profile, rec *stats.Recorder) {
	ks := knownSet()
	rapid.Check(t, func(t *rapid.T) {
		var o *oracle
		raftsim.RunCase(t, prof, raftsim.CaseFuncs{
			Observers: func() []raftsim.Observer { o = newOracle(); return []raftsim.Observer{o} },
			Known:     ks,
			Finish: func(c *raftsim.Case) {
				labels, nt := labelsOf(c, o)
				if c.S.St.ExcludedKnown > 0 {
					rec.Count("excluded_by_known_finding", int64(c.S.St.ExcludedKnown))
				}
				rec.Count("sum_steps", int64(c.S.St.Steps))
				rec.Count("sum_readies", int64(c.S.St.Readies))
				rec.Count("sum_crashes", int64(c.S.St.Crashes))
				rec.Count("sum_restarts", int64(c.S.St.Restarts))
				rec.Record(c.S.TraceHash(), nt, labels, func() interface{} { return sample(c, o) })
			},
		})
	})
}

func TestLeaderL1(t *testing.T)         { run(t, profL1, recL1) }
func TestLeaderL2(t *testing.T)         { run(t, profL2, recL2) }
func TestLeaderMembership(t *testing.T) { run(t, profConf, recConf) }
func TestLeaderL3(t *testing.T)         { run(t, profL3, recL3) }

// ---- regression probe of the finding recorded for this property ----

// TestKnownPartialBootstrap replays the minimal schedule of
// C01-partial-bootstrap-self-election: replica 1 of a bootstrap group {1,2,3} dies before
// the Ready that carries the bootstrap entries reaches its WAL, comes back empty
// (startRaft finds the WAL directory and calls RestartNode), is re-fed the log one
// entry per message (MaxSizePerMsg = 0), applies "add node 1" with commit index 1 and,
// knowing only itself, elects itself in the term in which replicas 2 and 3 elect 3.
func TestKnownPartialBootstrap(t *testing.T) {
	known.Probe(t, raftsim.KnownPartialBootstrap, func() (bool, string) {
		msg := raftsim.Scripted(func(ct *raftsim.CollectT) {
			p := raftsim.Params{N: 3, ElectionTick: 3, HeartbeatTick: 1, MaxSizePerMsg: 0, MaxCommittedSize: 1 << 40, MaxInflight: 8,
				Storage: raftsim.StoreMem, Seed: 1, KeepLastAppResp: true, RealCtor: true}
			s := raftsim.New(ct, p, newOracle())
			defer s.Close()
			r1, r2, r3 := s.Rep(1), s.Rep(2), s.Rep(3)
			s.Step(r1, true, false, raftsim.CrashReadyLost, nil) // nothing of the bootstrap Ready is durable
			s.FullStep(r2)
			s.FullStep(r3)
			s.Campaign(r2)
			s.FullStep(r2)
			s.Settle(50, nil, nil) // 2 leads term 2 with 3's vote
			s.Restart(r1, false)   // empty WAL: no entries, no hard state, no configuration
			s.FullStep(r1)
			// the leader probes 1 and re-sends the log, one entry per message; stop as soon
			// as 1 has applied entry 1 ("add node 1") with commit index 1
			for i := 0; i < 40 && r1.App.Applied < 1; i++ {
				s.Tick(r2)
				s.FullStep(r2)
				s.Settle(50, nil, func() bool { return r1.App.Applied >= 1 })
			}
			if r1.App.Applied != 1 {
				ct.Fatalf("HARNESS: probe could not bring replica 1 to applied index 1 (is %d)", r1.App.Applied)
			}
			s.SetSides([]int{1, 0, 0})
			for i := 0; i < 2*p.ElectionTick+1; i++ { // 1 times out, campaigns, wins its own vote: leader of term 3
				s.Tick(r1)
				s.FullStep(r1)
			}
			s.DropAll(nil)
			s.Campaign(r3) // term 3 as well; 2 grants
			s.FullStep(r3)
			s.Settle(50, nil, nil)
		})
		if strings.HasPrefix(msg, "HARNESS:") {
			t.Fatalf("%s", msg)
		}
		if msg != "" {
			return true, firstLine(msg)
		}
		return false, ""
	})
}

func firstLine(s string) string {
	if i := strings.IndexByte(s, '\n'); i >= 0 {
		return s[:i]
	}
	return s
}
