package c04

// Engine D: a cluster of real data-node processes (cmd/verifkvc), one namespace, one
// partition. This file owns everything about the processes: building the binary from the
// tree under test, port blocks, config files, start / kill / stop / pause, the control
// endpoint and the per-replica logical dump.

import (
	"encoding/json"
	"fmt"
	"io"
	"net"
	"net/http"
	"os"
	"os/exec"
	"path/filepath"
	"regexp"
	"runtime"
	"sort"
	"strconv"
	"strings"
	"sync"
	"syscall"
	"time"
)

const (
	nsBase   = "default"
	nsFull   = "default-0"
	tblName  = "c04"
	portsPer = 8 // per node: redis http grpc raft ctl metric (+2 spare)
)

func envInt(name string, def int) int {
	if v := os.Getenv(name); v != "" {
		if n, err := strconv.Atoi(v); err == nil {
			return n
		}
	}
	return def
}

func scratchRoot() string {
	if d := os.Getenv("VERIF_SCRATCH"); d != "" {
		os.MkdirAll(d, 0755)
		return d
	}
	return "/dev/shm"
}

// ---------------------------------------------------------------- building the node binary

var (
	buildOnce sync.Once
	builtBin  string
	buildErr  error
)

// nodeBinary builds cmd/verifkvc from the tree under test (/repo, or $VERIF_REPO through
// a -modfile copy of go.mod, the way build() in /verif/check does) into the scratch dir.
func nodeBinary() (string, error) {
	buildOnce.Do(func() {
		root := os.Getenv("VERIF_ROOT")
		if root == "" {
			root = "/verif"
		}
		harness := filepath.Join(root, "harness")
		dir, err := os.MkdirTemp(scratchRoot(), "c04bin-")
		if err != nil {
			buildErr = err
			return
		}
		out := filepath.Join(dir, "verifkvc")
		args := []string{"build", "-tags", "verif", "-o", out}
		if repo := os.Getenv("VERIF_REPO"); repo != "" {
			real, err := filepath.EvalSymlinks(repo)
			if err == nil && real != "/repo" {
				mod, err := os.ReadFile(filepath.Join(harness, "go.mod"))
				if err != nil {
					buildErr = err
					return
				}
				alt := strings.Replace(string(mod), "github.com/youzan/ZanRedisDB => /repo", "github.com/youzan/ZanRedisDB => "+real, 1)
				mf := filepath.Join(dir, "alt.mod")
				if err := os.WriteFile(mf, []byte(alt), 0644); err != nil {
					buildErr = err
					return
				}
				sum, _ := os.ReadFile(filepath.Join(harness, "go.sum"))
				os.WriteFile(filepath.Join(dir, "alt.sum"), sum, 0644)
				args = append(args, "-modfile", mf)
			}
		}
		args = append(args, "./cmd/verifkvc")
		cmd := exec.Command("go", args...)
		cmd.Dir = harness
		cmd.Env = append(os.Environ(), "GOFLAGS=-mod=mod", "GOPROXY=off", "GOSUMDB=off", "GOTOOLCHAIN=local", "CGO_ENABLED=1")
		b, err := cmd.CombinedOutput()
		if err != nil {
			buildErr = fmt.Errorf("go build verifkvc: %v\n%s", err, tail(string(b), 4000))
			return
		}
		builtBin = out
	})
	return builtBin, buildErr
}

func tail(s string, n int) string {
	if len(s) > n {
		return s[len(s)-n:]
	}
	return s
}

// ---------------------------------------------------------------- process spawning

// All children are started from one goroutine that is locked to its OS thread for the
// life of the test process: Pdeathsig is tied to the *thread* that forked, and the Go
// runtime may retire other threads at any time.
var (
	spawnOnce sync.Once
	spawnC    chan func()
)

func spawn(f func()) {
	spawnOnce.Do(func() {
		spawnC = make(chan func())
		go func() {
			runtime.LockOSThread()
			for g := range spawnC {
				g()
			}
		}()
	})
	done := make(chan struct{})
	spawnC <- func() { f(); close(done) }
	<-done
}

// ---------------------------------------------------------------- ports

type nodePorts struct{ redis, http, grpc, raft, ctl, metric int }

func portFree(p int) bool {
	ln, err := net.Listen("tcp", "127.0.0.1:"+strconv.Itoa(p))
	if err != nil {
		return false
	}
	ln.Close()
	// the redis / grpc listeners bind the wildcard address
	ln, err = net.Listen("tcp", ":"+strconv.Itoa(p))
	if err != nil {
		return false
	}
	ln.Close()
	return true
}

var portRound int

// allocPorts picks a block of n*portsPer consecutive free ports out of this shard's range
// (C04_PORT_BASE + shard*400 ...+399), rotating through the range from history to history.
func allocPorts(n int) ([]nodePorts, error) {
	base := envInt("C04_PORT_BASE", 21000) + envInt("VERIF_SHARD_INDEX", 0)*400
	blk := n * portsPer
	nblk := 400 / blk
	for try := 0; try < nblk; try++ {
		b := base + ((portRound+try)%nblk)*blk
		ok := true
		for p := b; p < b+blk; p++ {
			if !portFree(p) {
				ok = false
				break
			}
		}
		if ok {
			portRound = (portRound + try + 1) % nblk
			ps := make([]nodePorts, n)
			for i := range ps {
				o := b + i*portsPer
				ps[i] = nodePorts{redis: o, http: o + 1, grpc: o + 2, raft: o + 3, ctl: o + 4, metric: o + 5}
			}
			return ps, nil
		}
	}
	return nil, fmt.Errorf("no free block of %d ports in [%d,%d)", blk, base, base+400)
}

// ---------------------------------------------------------------- cluster

type nodeState int

const (
	stDown nodeState = iota
	stUp
	stPaused
	stTerming // SIGTERM sent, process still exiting
)

type nodeProc struct {
	idx     int
	id      uint64
	ports   nodePorts
	dir     string
	conf    string
	logPath string

	mu      sync.Mutex
	cmd     *exec.Cmd
	state   nodeState
	exited  chan struct{} // closed when the current process has been reaped
	exitErr error
	starts  int
}

type clusterOpts struct {
	N           int
	Engine      string
	SnapCount   int
	SnapCatchup int
	TickMs      int
	ElectTick   int
	KeepWAL     int
	UseRocksWAL bool
	WALSegment  int64 // wal.SegmentSizeBytes of the node processes; 0 = production default (64 MiB)
	// Stall, if set, is the VERIF_STALL value (internal/verifhook: "<point>:<k>:<ms>") of node StallNode:
	// the goroutine reaching that point for the k-th time is descheduled for ms - a schedule, nothing dies
	Stall     string `json:",omitempty"`
	StallNode int    `json:",omitempty"`
}

type cluster struct {
	bin   string
	root  string
	opts  clusterOpts
	nodes []*nodeProc
	hc    *http.Client
}

type nodeStatus struct {
	ID          uint64 `json:"id"`
	Ready       bool   `json:"ready"`
	IsLead      bool   `json:"is_lead"`
	Lead        uint64 `json:"lead"`
	RaftLead    uint64 `json:"raft_lead"`
	Term        uint64 `json:"term"`
	Commit      uint64 `json:"commit"`
	Applied     uint64 `json:"applied"`
	RaftApplied uint64 `json:"raft_applied"`
	Snap        uint64 `json:"snap"`
	State       string `json:"state"`
	WriteReady  bool   `json:"write_ready"`
}

func newCluster(bin string, opts clusterOpts) (*cluster, error) {
	root, err := os.MkdirTemp(scratchRoot(), "c04cl-")
	if err != nil {
		return nil, err
	}
	ports, err := allocPorts(opts.N)
	if err != nil {
		os.RemoveAll(root)
		return nil, err
	}
	c := &cluster{bin: bin, root: root, opts: opts, hc: &http.Client{Timeout: 400 * time.Millisecond,
		Transport: &http.Transport{DisableKeepAlives: true}}}
	type seed struct {
		NodeID    uint64 `json:"node_id"`
		ReplicaID uint64 `json:"replica_id"`
		RaftAddr  string `json:"raft_addr"`
	}
	var seeds []seed
	var syncs []map[string]interface{}
	for i := 0; i < opts.N; i++ {
		id := uint64(i + 1)
		dir := filepath.Join(root, "n"+strconv.Itoa(i))
		seeds = append(seeds, seed{NodeID: id, ReplicaID: id, RaftAddr: "http://127.0.0.1:" + strconv.Itoa(ports[i].raft)})
		syncs = append(syncs, map[string]interface{}{"ReplicaID": id, "NodeID": id, "RemoteAddr": "127.0.0.1",
			"HttpAPIPort": strconv.Itoa(ports[i].http), "DataRoot": dir, "RsyncModule": "verif"})
	}
	for i := 0; i < opts.N; i++ {
		id := uint64(i + 1)
		p := ports[i]
		dir := filepath.Join(root, "n"+strconv.Itoa(i))
		if err := os.MkdirAll(dir, 0755); err != nil {
			return nil, err
		}
		// the machine id file, as server_test.go's local cluster writes it
		os.WriteFile(filepath.Join(dir, "myid"), []byte(strconv.Itoa(i+1)), 0644)
		cf := map[string]interface{}{
			"server": map[string]interface{}{
				"cluster_id": "verif-c04", "broadcast_addr": "127.0.0.1",
				"redis_api_port": p.redis, "http_api_port": p.http, "grpc_api_port": p.grpc, "profile_port": -1,
				"metric_addr": "127.0.0.1:" + strconv.Itoa(p.metric), "data_dir": dir,
				"local_raft_addr": "http://127.0.0.1:" + strconv.Itoa(p.raft),
				"election_tick":   opts.ElectTick, "tick_ms": opts.TickMs, "keep_wal": opts.KeepWAL, "keep_backup": 2,
				"use_rocks_wal": opts.UseRocksWAL, "shared_rocks_wal": opts.UseRocksWAL,
				"rocksdb_opts":     map[string]interface{}{"engine_type": opts.Engine},
				"wal_rocksdb_opts": map[string]interface{}{"engine_type": opts.Engine},
			},
			"namespace": map[string]interface{}{
				"name": nsFull, "base_name": nsBase, "eng_type": "rockredis", "partition_num": 1,
				"snap_count": opts.SnapCount, "snap_catchup": opts.SnapCatchup, "replicator": opts.N, "optimized_fsync": false,
				"raft_group_conf":   map[string]interface{}{"group_id": 1000, "seed_nodes": seeds},
				"expiration_policy": "wait_compact", "data_version": "value_header_v1",
			},
			"replica_id": id, "snap_syncs": syncs, "ctl_port": p.ctl, "wal_segment_bytes": opts.WALSegment,
		}
		b, _ := json.MarshalIndent(cf, "", " ")
		conf := filepath.Join(root, fmt.Sprintf("n%d.json", i))
		if err := os.WriteFile(conf, b, 0644); err != nil {
			return nil, err
		}
		c.nodes = append(c.nodes, &nodeProc{idx: i, id: id, ports: p, dir: dir, conf: conf,
			logPath: filepath.Join(root, fmt.Sprintf("n%d.log", i))})
	}
	return c, nil
}

func (c *cluster) start(i int) error {
	n := c.nodes[i]
	n.mu.Lock()
	defer n.mu.Unlock()
	if n.state != stDown {
		return fmt.Errorf("node %d not down", i)
	}
	logf, err := os.OpenFile(n.logPath, os.O_CREATE|os.O_APPEND|os.O_WRONLY, 0644)
	if err != nil {
		return err
	}
	fmt.Fprintf(logf, "\n===== start #%d at %s =====\n", n.starts+1, time.Now().Format("15:04:05.000"))
	cmd := exec.Command(c.bin, "-config", n.conf)
	cmd.Stdout, cmd.Stderr = logf, logf
	cmd.Dir = c.root
	if c.opts.Stall != "" && i == c.opts.StallNode {
		cmd.Env = append(os.Environ(), "VERIF_STALL="+c.opts.Stall)
	}
	cmd.SysProcAttr = &syscall.SysProcAttr{Pdeathsig: syscall.SIGKILL}
	var serr error
	spawn(func() { serr = cmd.Start() })
	logf.Close()
	if serr != nil {
		return serr
	}
	n.cmd = cmd
	n.state = stUp
	n.starts++
	ex := make(chan struct{})
	n.exited = ex
	go func() {
		err := cmd.Wait()
		n.mu.Lock()
		if n.cmd == cmd {
			n.exitErr = err
		}
		n.mu.Unlock()
		close(ex)
	}()
	return nil
}

func (n *nodeProc) getState() nodeState {
	n.mu.Lock()
	defer n.mu.Unlock()
	return n.state
}

// alive reports whether the current process has not been reaped yet.
func (n *nodeProc) alive() bool {
	n.mu.Lock()
	ex := n.exited
	n.mu.Unlock()
	if ex == nil {
		return false
	}
	select {
	case <-ex:
		return false
	default:
		return true
	}
}

func (n *nodeProc) signal(sig syscall.Signal) {
	n.mu.Lock()
	cmd := n.cmd
	n.mu.Unlock()
	if cmd != nil && cmd.Process != nil {
		cmd.Process.Signal(sig)
	}
}

// kill9 sends SIGKILL and reaps the process.
func (c *cluster) kill9(i int) {
	n := c.nodes[i]
	n.mu.Lock()
	n.state = stDown // before the signal: the monitor must not take this for a death of its own
	ex := n.exited
	n.mu.Unlock()
	n.signal(syscall.SIGKILL)
	if ex != nil {
		<-ex
	}
}

func (c *cluster) sigterm(i int) {
	n := c.nodes[i]
	n.mu.Lock()
	n.state = stTerming
	n.mu.Unlock()
	n.signal(syscall.SIGTERM)
}

// reap waits for a SIGTERMed process to exit; after the limit it is killed (returns false).
func (c *cluster) reap(i int, limit time.Duration) bool {
	n := c.nodes[i]
	n.mu.Lock()
	ex := n.exited
	n.mu.Unlock()
	graceful := true
	if ex != nil {
		select {
		case <-ex:
		case <-time.After(limit):
			graceful = false
			n.signal(syscall.SIGKILL)
			<-ex
		}
	}
	n.mu.Lock()
	n.state = stDown
	n.mu.Unlock()
	return graceful
}

func (c *cluster) pause(i int) {
	n := c.nodes[i]
	n.signal(syscall.SIGSTOP)
	n.mu.Lock()
	n.state = stPaused
	n.mu.Unlock()
}

func (c *cluster) resume(i int) {
	n := c.nodes[i]
	n.signal(syscall.SIGCONT)
	n.mu.Lock()
	if n.state == stPaused {
		n.state = stUp
	}
	n.mu.Unlock()
}

func (c *cluster) destroy() {
	for i, n := range c.nodes {
		if n.alive() {
			n.signal(syscall.SIGCONT)
			c.kill9(i)
		}
	}
	if os.Getenv("C04_KEEP") != "" {
		fmt.Printf("C04-NOTE kept cluster directory %s\n", c.root)
		return
	}
	os.RemoveAll(c.root)
}

func (c *cluster) status(i int) (nodeStatus, bool) {
	var st nodeStatus
	rsp, err := c.hc.Get("http://127.0.0.1:" + strconv.Itoa(c.nodes[i].ports.ctl) + "/status")
	if err != nil {
		return st, false
	}
	defer rsp.Body.Close()
	if rsp.StatusCode != 200 {
		io.Copy(io.Discard, rsp.Body)
		return st, false
	}
	b, err := io.ReadAll(rsp.Body)
	if err != nil || json.Unmarshal(b, &st) != nil {
		return st, false
	}
	return st, true
}

// leader returns the index of the node that claims leadership with the highest term
// among the nodes that answer, or -1.
func (c *cluster) leader() int {
	best, bestTerm := -1, uint64(0)
	for i, n := range c.nodes {
		if n.getState() != stUp {
			continue
		}
		st, ok := c.status(i)
		if ok && st.IsLead && st.Ready && st.Term >= bestTerm {
			best, bestTerm = i, st.Term
		}
	}
	return best
}

func (c *cluster) transfer(from, to int) (string, error) {
	hc := &http.Client{Timeout: 4 * time.Second, Transport: &http.Transport{DisableKeepAlives: true}}
	rsp, err := hc.Get(fmt.Sprintf("http://127.0.0.1:%d/transfer?to=%d", c.nodes[from].ports.ctl, c.nodes[to].id))
	if err != nil {
		return "", err
	}
	defer rsp.Body.Close()
	b, _ := io.ReadAll(rsp.Body)
	return string(b), nil
}

// setStaleRead flips the production HTTP switch POST /staleread?allow=true|false.
func (c *cluster) setStaleRead(i int, allow bool) error {
	hc := &http.Client{Timeout: 2 * time.Second, Transport: &http.Transport{DisableKeepAlives: true}}
	rsp, err := hc.Post(fmt.Sprintf("http://127.0.0.1:%d/staleread?allow=%v", c.nodes[i].ports.http, allow), "text/plain", nil)
	if err != nil {
		return err
	}
	defer rsp.Body.Close()
	io.Copy(io.Discard, rsp.Body)
	if rsp.StatusCode != 200 {
		return fmt.Errorf("staleread: http %d", rsp.StatusCode)
	}
	return nil
}

// logStats greps the node logs for the events the evidence labels report.
func (c *cluster) logStats() map[string]int {
	out := map[string]int{}
	pats := map[string]string{
		"log_snapshot_started":   "start snapshot [applied index",
		"log_snapshot_installed": "applying snapshot at index",
		"log_replay_finished":    "replay finished at index",
		"log_panic":              "panic:",
		"log_rocksdb_assertion":  "Assertion",
		"log_became_leader":      "became leader at term",
		"log_wal_compacted":      "compacted log at index",
		"log_restore_checkpoint": "begin restore from checkpoint",
	}
	for _, n := range c.nodes {
		b, err := os.ReadFile(n.logPath)
		if err != nil {
			continue
		}
		s := string(b)
		for k, p := range pats {
			out[k] += strings.Count(s, p)
		}
	}
	return out
}

// checkpointEvidence extracts from the node logs what is needed to tell whether a
// checkpoint that was later restored had been reported "frozen" before it was finished:
// every backup with its duration, every restore, every snapshot installation and WAL replay.
var reLogLine = regexp.MustCompile(`"ts":"([^"]*)".*"msg":"(.*)"\}\s*$`)

func (c *cluster) checkpointEvidence() (lines []string, slowBackups map[string]time.Duration, restored map[string]bool) {
	slowBackups, restored = map[string]time.Duration{}, map[string]bool{}
	reCost := regexp.MustCompile(`backup done \(cost ([^)]*)\), check point to: (\S+?)(\\n)?$`)
	reName := regexp.MustCompile(`[0-9a-f]{16}-[0-9a-f]{16}`)
	for i, n := range c.nodes {
		b, err := os.ReadFile(n.logPath)
		if err != nil {
			continue
		}
		for _, l := range strings.Split(string(b), "\n") {
			if !(strings.Contains(l, "backup done (cost") || strings.Contains(l, "begin restore from checkpoint") ||
				strings.Contains(l, "applying snapshot at index") || strings.Contains(l, "loading snapshot at term") ||
				strings.Contains(l, "replaying WAL") || strings.Contains(l, "===== start #")) {
				continue
			}
			ts, msg := "", l
			if m := reLogLine.FindStringSubmatch(l); m != nil {
				ts, msg = m[1], m[2]
			}
			if len(msg) > 260 {
				msg = msg[:260]
			}
			if m := reCost.FindStringSubmatch(msg); m != nil {
				if d, err := time.ParseDuration(m[1]); err == nil && d > 20*time.Millisecond {
					if nm := reName.FindString(m[2]); nm != "" {
						slowBackups[nm] = d
					}
				} else if err == nil && d <= 20*time.Millisecond {
					continue // a checkpoint that finished before the "frozen" timer fired is of no interest
				}
			}
			if strings.Contains(msg, "begin restore from checkpoint") {
				if nm := reName.FindString(msg); nm != "" {
					restored[nm] = true
				}
			}
			lines = append(lines, fmt.Sprintf("n%d %s %s", i, ts, msg))
		}
	}
	return
}

func (c *cluster) logTail(i int, nbytes int) string {
	b, err := os.ReadFile(c.nodes[i].logPath)
	if err != nil {
		return ""
	}
	return tail(string(b), nbytes)
}

// ---------------------------------------------------------------- logical dump of one replica

func fullKey(name string) string { return nsBase + ":" + tblName + ":" + name }

// dumpReplica reads every key of the history from one replica over the redis protocol
// (the replica serves it locally: stale reads have been allowed through the HTTP API).
// The result maps key name -> canonical final value (see canonFinal).
func (c *cluster) dumpReplica(i int, keys []keySpec) (map[string][]string, error) {
	cl := &respConn{addr: "127.0.0.1:" + strconv.Itoa(c.nodes[i].ports.redis)}
	defer cl.close()
	out := map[string][]string{}
	for _, k := range keys {
		var cmd []string
		switch k.Type {
		case ktCnt, ktReg, ktSreg, ktApp:
			cmd = []string{"get", fullKey(k.Name)}
		case ktHash:
			cmd = []string{"hgetall", fullKey(k.Name)}
		case ktList:
			cmd = []string{"lrange", fullKey(k.Name), "0", "-1"}
		case ktSet:
			cmd = []string{"smembers", fullKey(k.Name)}
		case ktZset:
			cmd = []string{"zrange", fullKey(k.Name), "0", "-1", "withscores"}
		}
		v, err := cl.do(cmd, 3*time.Second)
		if err != nil {
			return nil, fmt.Errorf("dump %v on node %d: %v", cmd, i, err)
		}
		if v.T == "e" {
			return nil, fmt.Errorf("dump %v on node %d: error reply %q", cmd, i, v.S)
		}
		cf, err := canonFinal(k.Type, v)
		if err != nil {
			return nil, fmt.Errorf("dump %v on node %d: %v", cmd, i, err)
		}
		out[k.Name] = cf
	}
	return out, nil
}

func sortedKeys(m map[string][]string) []string {
	var ks []string
	for k := range m {
		ks = append(ks, k)
	}
	sort.Strings(ks)
	return ks
}
