package c04

// Deterministic self-test of the checker on hand-written histories: the verdict on a
// recorded history must be right in both directions before any live history is trusted.

import (
	"fmt"
	"strings"
	"testing"
	"time"
)

type hb struct {
	h  history
	id int
}

func newHB(keys ...keySpec) *hb {
	return &hb{h: history{Version: 1, Keys: keys, Clients: 4, Opts: clusterOpts{N: 3}}}
}

func (b *hb) op(client int, key, kind, field, arg string, delta int64, inv, ret int64, outcome string, reply *rv) *hb {
	b.h.Ops = append(b.h.Ops, opRec{ID: b.id, Client: client, Key: key, Kind: kind, Field: field, Arg: arg, Delta: delta,
		Invoke: inv, Return: ret, Outcome: outcome, Reply: reply})
	b.id++
	return b
}

func (b *hb) final(dumps ...map[string][]string) *history {
	b.h.Final = &finalState{T: 1 << 40, Dumps: dumps}
	for range dumps {
		b.h.Final.Applied = append(b.h.Final.Applied, 100)
	}
	return &b.h
}

func ri(n int64) *rv  { return &rv{T: "i", I: n} }
func rb(s string) *rv { return &rv{T: "b", S: s} }
func rn() *rv         { return &rv{T: "n"} }

func same3(d map[string][]string) []map[string][]string {
	return []map[string][]string{d, d, d}
}

func TestCheckerSelfTest(t *testing.T) {
	cnt := keySpec{Name: "cnt", Type: ktCnt}
	lst := keySpec{Name: "list", Type: ktList}
	set := keySpec{Name: "set", Type: ktSet}
	app := keySpec{Name: "app", Type: ktApp}
	reg := keySpec{Name: "reg", Type: ktReg}
	hsh := keySpec{Name: "hash", Type: ktHash}
	zs := keySpec{Name: "zset", Type: ktZset}
	sr := keySpec{Name: "sreg", Type: ktSreg}
	rs := func(s string) *rv { return &rv{T: "s", S: s} }

	cases := []struct {
		name string
		h    *history
		want string // "" = must pass; otherwise a substring of some violation
	}{
		{"sequential counter", newHB(cnt).
			op(0, "cnt", "incr", "", "", 0, 10, 20, "ok", ri(1)).
			op(1, "cnt", "incrby", "", "", 4, 30, 40, "ok", ri(5)).
			final(same3(map[string][]string{"cnt": {"5"}})...), ""},
		{"concurrent counter, either order", newHB(cnt).
			op(0, "cnt", "incr", "", "", 0, 10, 50, "ok", ri(5)).
			op(1, "cnt", "incrby", "", "", 4, 20, 40, "ok", ri(4)).
			final(same3(map[string][]string{"cnt": {"5"}})...), ""},
		{"acknowledged increment lost", newHB(cnt).
			op(0, "cnt", "incr", "", "", 0, 10, 20, "ok", ri(1)).
			op(1, "cnt", "incrby", "", "", 4, 30, 40, "ok", ri(5)).
			final(same3(map[string][]string{"cnt": {"1"}})...), "lost"},
		{"increment applied twice", newHB(cnt).
			op(0, "cnt", "incr", "", "", 0, 10, 20, "ok", ri(1)).
			op(1, "cnt", "incrby", "", "", 4, 30, 40, "ok", ri(5)).
			final(same3(map[string][]string{"cnt": {"9"}})...), "more than once"},
		{"stale reply: second increment did not see the first", newHB(cnt).
			op(0, "cnt", "incr", "", "", 0, 10, 20, "ok", ri(1)).
			op(1, "cnt", "incr", "", "", 0, 30, 40, "ok", ri(1)).
			final(same3(map[string][]string{"cnt": {"2"}})...), "not linearizable"},
		{"unknown increment took effect", newHB(cnt).
			op(0, "cnt", "incr", "", "", 0, 10, 20, "ok", ri(1)).
			op(1, "cnt", "incrby", "", "", 8, 30, 35, "unknown", nil).
			op(2, "cnt", "incr", "", "", 0, 50, 60, "ok", ri(10)).
			final(same3(map[string][]string{"cnt": {"10"}})...), ""},
		{"unknown increment never took effect", newHB(cnt).
			op(0, "cnt", "incr", "", "", 0, 10, 20, "ok", ri(1)).
			op(1, "cnt", "incrby", "", "", 8, 30, 35, "unknown", nil).
			op(2, "cnt", "incr", "", "", 0, 50, 60, "ok", ri(2)).
			final(same3(map[string][]string{"cnt": {"2"}})...), ""},
		{"unknown increment took effect late, after a later acknowledged one", newHB(cnt).
			op(1, "cnt", "incrby", "", "", 8, 30, 35, "unknown", nil).
			op(2, "cnt", "incr", "", "", 0, 50, 60, "ok", ri(1)).
			final(same3(map[string][]string{"cnt": {"9"}})...), ""},
		{"unknown increment took effect twice", newHB(cnt).
			op(1, "cnt", "incrby", "", "", 8, 30, 35, "unknown", nil).
			op(2, "cnt", "incr", "", "", 0, 50, 60, "ok", ri(1)).
			final(same3(map[string][]string{"cnt": {"17"}})...), "more than once"},
		{"failed increment took effect", newHB(cnt).
			op(1, "cnt", "incrby", "", "", 8, 30, 35, "fail", nil).
			op(2, "cnt", "incr", "", "", 0, 50, 60, "ok", ri(9)).
			final(same3(map[string][]string{"cnt": {"9"}})...), "not linearizable"},
		{"increment took effect before it was invoked", newHB(cnt).
			op(0, "cnt", "incr", "", "", 0, 10, 20, "ok", ri(5)).
			op(1, "cnt", "incrby", "", "", 4, 30, 40, "ok", ri(4)).
			final(same3(map[string][]string{"cnt": {"5"}})...), "not linearizable"},
		{"replicas differ", newHB(cnt).
			op(0, "cnt", "incr", "", "", 0, 10, 20, "ok", ri(1)).
			final(map[string][]string{"cnt": {"1"}}, map[string][]string{"cnt": {"1"}}, map[string][]string{"cnt": {}}), "replicas differ"},
		{"list push/pop", newHB(lst).
			op(0, "list", "lpush", "", "ea", 0, 10, 20, "ok", ri(1)).
			op(1, "list", "lpush", "", "eb", 0, 30, 40, "ok", ri(2)).
			op(0, "list", "rpop", "", "", 0, 50, 60, "ok", rb("ea")).
			op(1, "list", "lpop", "", "", 0, 70, 80, "ok", rb("eb")).
			op(1, "list", "lpop", "", "", 0, 90, 95, "ok", rn()).
			final(same3(map[string][]string{"list": {}})...), ""},
		{"local negative reply from a stale leader is not held against the history", newHB(lst).
			op(0, "list", "lpush", "", "ea", 0, 10, 20, "ok", ri(1)).
			op(1, "list", "lpop", "", "", 0, 30, 40, "ok", rn()).
			final(same3(map[string][]string{"list": {"ea"}})...), ""},
		{"element popped twice", newHB(lst).
			op(0, "list", "lpush", "", "ea", 0, 10, 20, "ok", ri(1)).
			op(0, "list", "rpop", "", "", 0, 50, 60, "ok", rb("ea")).
			op(1, "list", "lpop", "", "", 0, 70, 80, "ok", rb("ea")).
			final(same3(map[string][]string{"list": {}})...), "popped twice"},
		{"acknowledged element lost", newHB(lst).
			op(0, "list", "lpush", "", "ea", 0, 10, 20, "ok", ri(1)).
			op(1, "list", "lpush", "", "eb", 0, 30, 40, "ok", ri(2)).
			final(same3(map[string][]string{"list": {"eb"}})...), "lost"},
		{"element lost to a pop of unknown outcome", newHB(lst).
			op(0, "list", "lpush", "", "ea", 0, 10, 20, "ok", ri(1)).
			op(1, "list", "lpush", "", "eb", 0, 30, 40, "ok", ri(2)).
			op(2, "list", "rpop", "", "", 0, 50, 55, "unknown", nil).
			final(same3(map[string][]string{"list": {"eb"}})...), ""},
		{"pushed element duplicated by a replay", newHB(lst).
			op(0, "list", "lpush", "", "ea", 0, 10, 20, "ok", ri(1)).
			final(same3(map[string][]string{"list": {"ea", "ea"}})...), "more than once"},
		{"set pops in member order", newHB(set).
			op(0, "set", "sadd", "", "50-x", 0, 10, 20, "ok", ri(1)).
			op(1, "set", "sadd", "", "10-y", 0, 30, 40, "ok", ri(1)).
			op(0, "set", "spop", "", "", 0, 50, 60, "ok", rb("10-y")).
			final(same3(map[string][]string{"set": {"50-x"}})...), ""},
		{"set member lost", newHB(set).
			op(0, "set", "sadd", "", "50-x", 0, 10, 20, "ok", ri(1)).
			op(1, "set", "sadd", "", "10-y", 0, 30, 40, "ok", ri(1)).
			final(same3(map[string][]string{"set": {"50-x"}})...), "lost"},
		{"append tokens", newHB(app).
			op(0, "app", "append", "", "<c0-1>", 0, 10, 20, "ok", ri(6)).
			op(1, "app", "append", "", "<c1-1>", 0, 30, 40, "ok", ri(12)).
			final(same3(map[string][]string{"app": {"<c0-1><c1-1>"}})...), ""},
		{"append token duplicated", newHB(app).
			op(0, "app", "append", "", "<c0-1>", 0, 10, 20, "ok", ri(6)).
			final(same3(map[string][]string{"app": {"<c0-1><c0-1>"}})...), "more than once"},
		{"append lost", newHB(app).
			op(0, "app", "append", "", "<c0-1>", 0, 10, 20, "ok", ri(6)).
			op(1, "app", "append", "", "<c1-1>", 0, 30, 40, "ok", ri(12)).
			final(same3(map[string][]string{"app": {"<c0-1>"}})...), "appears 0 times"},
		{"append of unknown outcome took effect between two acknowledged ones", newHB(app).
			op(0, "app", "append", "", "<c0-1>", 0, 10, 20, "ok", ri(6)).
			op(2, "app", "append", "", "<c2-1>", 0, 21, 25, "unknown", nil).
			op(3, "app", "append", "", "<c3-1>", 0, 22, 26, "unknown", nil).
			op(1, "app", "append", "", "<c1-1>", 0, 30, 40, "ok", ri(18)).
			final(same3(map[string][]string{"app": {"<c0-1><c2-1><c1-1>"}})...), ""},
		{"append of unknown outcome took effect after the last acknowledged one", newHB(app).
			op(0, "app", "append", "", "<c0-1>", 0, 10, 20, "ok", ri(6)).
			op(2, "app", "append", "", "<c2-1>", 0, 21, 25, "unknown", nil).
			op(1, "app", "append", "", "<c1-1>", 0, 30, 40, "ok", ri(12)).
			final(same3(map[string][]string{"app": {"<c0-1><c1-1><c2-1>"}})...), ""},
		{"append of unknown outcome is in the value before it was invoked", newHB(app).
			op(0, "app", "append", "", "<c0-1>", 0, 10, 20, "ok", ri(12)).
			op(2, "app", "append", "", "<c2-1>", 0, 21, 25, "unknown", nil).
			final(same3(map[string][]string{"app": {"<c2-1><c0-1>"}})...), "not linearizable"},
		{"push of unknown outcome seen by a pop", newHB(lst).
			op(0, "list", "lpush", "", "ea", 0, 10, 20, "ok", ri(1)).
			op(1, "list", "lpush", "", "eb", 0, 21, 25, "unknown", nil).
			op(2, "list", "lpush", "", "ec", 0, 22, 26, "unknown", nil).
			op(0, "list", "lpop", "", "", 0, 30, 40, "ok", rb("eb")).
			final(same3(map[string][]string{"list": {"ea"}})...), ""},
		{"pop returned an element before it was pushed", newHB(lst).
			op(0, "list", "lpush", "", "ea", 0, 10, 20, "ok", ri(1)).
			op(0, "list", "lpop", "", "", 0, 30, 40, "ok", rb("eb")).
			op(1, "list", "lpush", "", "eb", 0, 50, 55, "unknown", nil).
			final(same3(map[string][]string{"list": {"ea"}})...), "not linearizable"},
		{"hsetnx of unknown outcome won the field", newHB(hsh).
			op(1, "hash", "hsetnx", "s0", "<c1-1>", 0, 30, 35, "unknown", nil).
			op(2, "hash", "hsetnx", "s0", "<c2-1>", 0, 50, 60, "ok", ri(0)).
			final(same3(map[string][]string{"hash": {"s0=<c1-1>"}})...), ""},
		{"hsetnx acknowledged with 0 on a field nobody had set", newHB(hsh).
			op(2, "hash", "hsetnx", "s0", "<c2-1>", 0, 50, 60, "ok", ri(0)).
			op(1, "hash", "hsetnx", "s0", "<c1-1>", 0, 70, 75, "unknown", nil).
			final(same3(map[string][]string{"hash": {"s0=<c1-1>"}})...), "not linearizable"},
		{"getset chain", newHB(reg).
			op(0, "reg", "getset", "", "<c0-1>", 0, 10, 20, "ok", rn()).
			op(1, "reg", "getset", "", "<c1-1>", 0, 30, 40, "ok", rb("<c0-1>")).
			op(2, "reg", "setnx", "", "<c2-1>", 0, 50, 60, "ok", ri(0)).
			op(2, "reg", "append", "", "<c2-2>", 0, 70, 80, "ok", ri(12)).
			final(same3(map[string][]string{"reg": {"<c1-1><c2-2>"}})...), ""},
		{"getset saw a value that was already overwritten", newHB(reg).
			op(0, "reg", "getset", "", "<c0-1>", 0, 10, 20, "ok", rn()).
			op(1, "reg", "getset", "", "<c1-1>", 0, 30, 40, "ok", rb("<c0-1>")).
			op(2, "reg", "getset", "", "<c2-1>", 0, 50, 60, "ok", rb("<c0-1>")).
			final(same3(map[string][]string{"reg": {"<c2-1>"}})...), "not linearizable"},
		{"set then read on the same connection", newHB(sr).
			op(0, "sreg", "set", "", "<c0-1>", 0, 10, 20, "ok", rs("OK")).
			op(1, "sreg", "set", "", "<c1-1>", 0, 30, 40, "ok", rs("OK")).
			op(1, "sreg", "read", "", "", 0, 41, 45, "ok", rb("<c1-1>")).
			final(same3(map[string][]string{"sreg": {"<c1-1>"}})...), ""},
		{"read on the same connection may see a concurrent later write", newHB(sr).
			op(1, "sreg", "set", "", "<c1-1>", 0, 30, 40, "ok", rs("OK")).
			op(0, "sreg", "set", "", "<c0-1>", 0, 35, 60, "ok", rs("OK")).
			op(1, "sreg", "read", "", "", 0, 41, 45, "ok", rb("<c0-1>")).
			final(same3(map[string][]string{"sreg": {"<c0-1>"}})...), ""},
		{"acknowledged set not visible on the connection that acknowledged it", newHB(sr).
			op(0, "sreg", "set", "", "<c0-1>", 0, 10, 20, "ok", rs("OK")).
			op(1, "sreg", "set", "", "<c1-1>", 0, 30, 40, "ok", rs("OK")).
			op(1, "sreg", "read", "", "", 0, 41, 45, "ok", rb("<c0-1>")).
			final(same3(map[string][]string{"sreg": {"<c1-1>"}})...), "had not taken effect"},
		{"acknowledged set, key absent on the same connection", newHB(sr).
			op(1, "sreg", "set", "", "<c1-1>", 0, 30, 40, "ok", rs("OK")).
			op(1, "sreg", "read", "", "", 0, 41, 45, "ok", rn()).
			final(same3(map[string][]string{"sreg": {"<c1-1>"}})...), "found the key absent"},
		{"stale read from another client is not held against the history", newHB(sr).
			op(0, "sreg", "set", "", "<c0-1>", 0, 10, 20, "ok", rs("OK")).
			op(1, "sreg", "set", "", "<c1-1>", 0, 30, 40, "ok", rs("OK")).
			op(2, "sreg", "read", "", "", 0, 41, 45, "ok", rb("<c0-1>")).
			final(same3(map[string][]string{"sreg": {"<c1-1>"}})...), ""},
		{"acknowledged set lost", newHB(sr).
			op(0, "sreg", "set", "", "<c0-1>", 0, 10, 20, "ok", rs("OK")).
			op(1, "sreg", "set", "", "<c1-1>", 0, 30, 40, "ok", rs("OK")).
			final(same3(map[string][]string{"sreg": {"<c0-1>"}})...), "not linearizable"},
		{"getset answered nil although the key was set", newHB(sr).
			op(0, "sreg", "set", "", "<c0-1>", 0, 10, 20, "ok", rs("OK")).
			op(1, "sreg", "getset", "", "<c1-1>", 0, 30, 40, "ok", rn()).
			final(same3(map[string][]string{"sreg": {"<c1-1>"}})...), "not linearizable"},
		{"hash counters and hsetnx", newHB(hsh).
			op(0, "hash", "hincrby", "c0", "", 2, 10, 20, "ok", ri(2)).
			op(1, "hash", "hsetnx", "s0", "<c1-1>", 0, 30, 40, "ok", ri(1)).
			op(2, "hash", "hsetnx", "s0", "<c2-1>", 0, 50, 60, "ok", ri(0)).
			final(same3(map[string][]string{"hash": {"c0=2", "s0=<c1-1>"}})...), ""},
		{"hsetnx acknowledged twice", newHB(hsh).
			op(1, "hash", "hsetnx", "s0", "<c1-1>", 0, 30, 40, "ok", ri(1)).
			op(2, "hash", "hsetnx", "s0", "<c2-1>", 0, 50, 60, "ok", ri(1)).
			final(same3(map[string][]string{"hash": {"s0=<c2-1>"}})...), "more than once"},
		{"zset scores", newHB(zs).
			op(0, "zset", "zincrby", "z0", "", 1<<30, 10, 20, "ok", rb("1.073741824e+09")).
			op(1, "zset", "zincrby", "z0", "", 1, 30, 40, "ok", rb("1.073741825e+09")).
			final(same3(map[string][]string{"zset": {"z0=1.073741825e+09"}})...), ""},
		{"zset increment lost", newHB(zs).
			op(0, "zset", "zincrby", "z0", "", 4, 10, 20, "ok", rb("4")).
			op(1, "zset", "zincrby", "z0", "", 1, 30, 40, "ok", rb("5")).
			final(same3(map[string][]string{"zset": {"z0=4"}})...), "lost"},
	}
	for _, c := range cases {
		v := checkHistory(c.h, time.Minute)
		if len(v.Inconclusive) > 0 {
			t.Errorf("HARNESS: self-test %q inconclusive: %v", c.name, v.Inconclusive)
			continue
		}
		all := strings.Join(v.Violations, " | ")
		switch {
		case c.want == "" && len(v.Violations) > 0:
			t.Errorf("HARNESS: self-test %q: a correct history was rejected: %s", c.name, all)
		case c.want != "" && !strings.Contains(all, c.want):
			t.Errorf("HARNESS: self-test %q: expected a violation mentioning %q, got %q", c.name, c.want, all)
		}
	}
	// many operations of unknown outcome must not make the search explode
	{
		b := newHB(cnt, sr, lst)
		t0 := int64(10)
		total := int64(0)
		for i := 0; i < 300; i++ {
			if i%5 == 0 { // never took effect
				b.op(i%7, "cnt", "incrby", "", "", int64(1)<<uint(i%30), t0, t0+5, "unknown", nil)
				b.op(i%7, "sreg", "set", "", fmt.Sprintf("<u-%d>", i), 0, t0, t0+5, "unknown", nil)
				b.op(i%7, "list", "lpush", "", fmt.Sprintf("eu-%d", i), 0, t0, t0+5, "unknown", nil)
			} else {
				total += 3
				b.op(i%7, "cnt", "incrby", "", "", 3, t0, t0+5, "ok", ri(total))
				b.op(i%7, "sreg", "set", "", fmt.Sprintf("<k-%d>", i), 0, t0, t0+5, "ok", &rv{T: "s", S: "OK"})
				b.op(i%7, "list", "lpush", "", fmt.Sprintf("ek-%d", i), 0, t0, t0+5, "ok", ri(total/3))
			}
			t0 += 10
		}
		var l []string
		for i := 299; i >= 0; i-- {
			if i%5 != 0 {
				l = append(l, fmt.Sprintf("ek-%d", i))
			}
		}
		h := b.final(same3(map[string][]string{"cnt": {fmt.Sprint(total)}, "sreg": {"<k-299>"}, "list": l})...)
		start := time.Now()
		v := checkHistory(h, 20*time.Second)
		if len(v.Violations) > 0 || len(v.Inconclusive) > 0 {
			t.Errorf("HARNESS: self-test with 60 unknown operations per key: violations %v inconclusive %v", v.Violations, v.Inconclusive)
		}
		if d := time.Since(start); d > 5*time.Second {
			t.Errorf("HARNESS: self-test with 60 unknown operations per key took %v", d)
		}
	}
	// a write answered with a pre-propose error that nevertheless took effect: outside what
	// C04 forbids (at most once), noted but not a violation; twice is a violation
	{
		h := newHB(cnt).
			op(0, "cnt", "incr", "", "", 0, 10, 20, "ok", ri(1)).
			op(1, "cnt", "incrby", "", "", 8, 30, 35, "fail", &rv{T: "e", S: "ERR_CLUSTER_CHANGED: the raft is not ready for write"}).
			op(2, "cnt", "incr", "", "", 0, 50, 60, "ok", ri(10)).
			final(same3(map[string][]string{"cnt": {"10"}})...)
		v := checkHistory(h, time.Minute)
		if len(v.Violations) > 0 || v.Counts["rejected_write_took_effect"] != 1 {
			t.Errorf("HARNESS: self-test rejected-write-took-effect-once: %v %v", v.Violations, v.Counts)
		}
		h = newHB(cnt).
			op(0, "cnt", "incr", "", "", 0, 10, 20, "ok", ri(1)).
			op(1, "cnt", "incrby", "", "", 8, 30, 35, "fail", &rv{T: "e", S: "ERR_CLUSTER_CHANGED: the raft is not ready for write"}).
			op(2, "cnt", "incr", "", "", 0, 50, 60, "ok", ri(18)).
			final(same3(map[string][]string{"cnt": {"18"}})...)
		v = checkHistory(h, time.Minute)
		if len(v.Violations) == 0 {
			t.Errorf("HARNESS: self-test rejected-write-took-effect-twice was accepted")
		}
		// never sent at all (dial failure): no second pass
		h = newHB(cnt).
			op(0, "cnt", "incr", "", "", 0, 10, 20, "ok", ri(1)).
			op(1, "cnt", "incrby", "", "", 8, 30, 35, "fail", nil).
			op(2, "cnt", "incr", "", "", 0, 50, 60, "ok", ri(10)).
			final(same3(map[string][]string{"cnt": {"10"}})...)
		v = checkHistory(h, time.Minute)
		if len(v.Violations) == 0 {
			t.Errorf("HARNESS: self-test effect-of-a-write-that-was-never-sent was accepted")
		}
	}
	// verdicts are a function of the history
	h := cases[8].h
	a := strings.Join(checkHistory(h, time.Minute).Violations, "|")
	b := strings.Join(checkHistory(h, time.Minute).Violations, "|")
	if a != b {
		t.Errorf("HARNESS: checker is not deterministic: %q vs %q", a, b)
	}
}
