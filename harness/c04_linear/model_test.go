package c04

// The recorded history, the sequential model of the command set, and the deterministic
// checker (replica equality, exactly-once tokens, per-key linearizability with porcupine).
// Nothing in this file talks to a process: TestReplay re-runs checkHistory on a saved
// history.

import (
	"fmt"
	"sort"
	"strconv"
	"strings"
	"time"

	"github.com/anishathalye/porcupine"
)

type keyType string

const (
	ktCnt  keyType = "cnt"  // string holding an integer: INCR, INCRBY
	ktReg  keyType = "reg"  // string register: GETSET, SETNX, APPEND
	ktSreg keyType = "sreg" // string register holding one token: SET, GETSET
	ktApp  keyType = "app"  // append-only string: APPEND, SETNX
	ktHash keyType = "hash" // HINCRBY on fields c0,c1; HSETNX on fields s0..s3
	ktList keyType = "list" // LPUSH, LPOP, RPOP
	ktSet  keyType = "set"  // SADD, SPOP
	ktZset keyType = "zset" // ZINCRBY on members z0,z1
)

type keySpec struct {
	Name string  `json:"name"`
	Type keyType `json:"type"`
}

// opRec is one client operation as recorded. Stamps are nanoseconds of the test
// process's monotonic clock since the start of the history.
type opRec struct {
	ID      int    `json:"id"`
	Client  int    `json:"c"`
	Key     string `json:"k"`
	Conn    int    `json:"conn"` // serial number of the client's TCP connection the operation used
	Kind    string `json:"op"`   // incr incrby set getset setnx append hincrby hsetnx lpush lpop rpop sadd spop zincrby read
	Field   string `json:"f,omitempty"`
	Arg     string `json:"a,omitempty"`
	Delta   int64  `json:"d,omitempty"`
	Node    int    `json:"node"`
	Invoke  int64  `json:"inv"`
	Return  int64  `json:"ret,omitempty"`
	Outcome string `json:"out"` // ok | fail (definitely not executed) | unknown
	Reply   *rv    `json:"reply,omitempty"`
	Err     string `json:"err,omitempty"`
}

type nemEvent struct {
	T      int64  `json:"t"`     // just before the action
	TEnd   int64  `json:"t_end"` // just after the action returned
	Kind   string `json:"kind"`
	Node   int    `json:"node"`
	Detail string `json:"detail,omitempty"`
}

type leaderObs struct {
	T    int64  `json:"t"`
	Node int    `json:"node"`
	Term uint64 `json:"term"`
}

type finalState struct {
	T       int64                 `json:"t"`
	Applied []uint64              `json:"applied"`
	Dumps   []map[string][]string `json:"dumps"` // per replica: key name -> canonical value
}

type history struct {
	Version  int            `json:"version"`
	PlanHash string         `json:"plan_hash"`
	Opts     clusterOpts    `json:"opts"`
	Keys     []keySpec      `json:"keys"`
	Clients  int            `json:"clients"`
	Ops      []opRec        `json:"ops"`
	Nemesis  []nemEvent     `json:"nemesis"`
	Leaders  []leaderObs    `json:"leaders"`
	SnapObs  int            `json:"snapshots_observed"`
	LogStats map[string]int `json:"log_stats,omitempty"`
	// Checkpoints that took longer than the 20 ms after which the engine wrapper reports
	// them frozen and that some replica restored afterwards (term-index names), and the log
	// lines that show it; see known_test.go.
	SlowRestoredCheckpoints []string    `json:"slow_restored_checkpoints,omitempty"`
	CheckpointLog           []string    `json:"checkpoint_log,omitempty"`
	Final                   *finalState `json:"final"`
	Verdict                 []string    `json:"verdict,omitempty"`
}

// ---------------------------------------------------------------- canonical final values

func canonFinal(t keyType, v rv) ([]string, error) {
	switch t {
	case ktCnt, ktReg, ktSreg, ktApp:
		switch v.T {
		case "n":
			return []string{}, nil
		case "b":
			return []string{v.S}, nil
		}
	case ktList:
		if v.T == "a" {
			out := []string{}
			for _, x := range v.A {
				if x.T != "b" {
					return nil, fmt.Errorf("unexpected element %v", x)
				}
				out = append(out, x.S)
			}
			return out, nil
		}
	case ktSet:
		if v.T == "a" {
			out := []string{}
			for _, x := range v.A {
				if x.T != "b" {
					return nil, fmt.Errorf("unexpected element %v", x)
				}
				out = append(out, x.S)
			}
			sort.Strings(out)
			return out, nil
		}
	case ktHash, ktZset:
		if v.T == "a" && len(v.A)%2 == 0 {
			out := []string{}
			for i := 0; i < len(v.A); i += 2 {
				if v.A[i].T != "b" || v.A[i+1].T != "b" {
					return nil, fmt.Errorf("unexpected pair %v %v", v.A[i], v.A[i+1])
				}
				val := v.A[i+1].S
				if t == ktZset {
					f, err := strconv.ParseFloat(val, 64)
					if err != nil {
						return nil, fmt.Errorf("score %q: %v", val, err)
					}
					val = fmtScore(f)
				}
				out = append(out, v.A[i].S+"="+val)
			}
			sort.Strings(out)
			return out, nil
		}
	}
	return nil, fmt.Errorf("unexpected reply %v for a %s key", v, t)
}

func fmtScore(f float64) string { return strconv.FormatFloat(f, 'g', -1, 64) }

func sameStrings(a, b []string) bool {
	if len(a) != len(b) {
		return false
	}
	for i := range a {
		if a[i] != b[i] {
			return false
		}
	}
	return true
}

// ---------------------------------------------------------------- sequential model

type mIn struct {
	Type  keyType
	Kind  string
	Field string
	Arg   string
	Delta int64
}

type mOut struct {
	Unknown bool
	V       rv
	Final   []string
}

const sep = "\x1f"

func splitState(st string) []string {
	if st == "" {
		return nil
	}
	return strings.Split(st, sep)
}

func isInt(v rv, n int64) bool   { return v.T == "i" && v.I == n }
func isBulk(v rv, s string) bool { return v.T == "b" && v.S == s }

// step is the sequential specification. The state is a string (so == is equality):
//
//	cnt/reg/app  "" = key absent, "=" + value otherwise
//	hash         sorted field=value joined by sep;  zset  sorted member=score joined by sep
//	list         elements head first joined by sep;  set   sorted members joined by sep
//
// With out.Unknown the reply is not constrained. Negative replies of the two-stage
// commands never reach the model (they are answered from a replica's local state).
func step(st string, in mIn, out mOut) (bool, string) {
	if in.Kind == "final" {
		var cur []string
		switch in.Type {
		case ktCnt, ktReg, ktSreg, ktApp:
			cur = []string{}
			if st != "" {
				cur = []string{st[1:]}
			}
		default:
			cur = splitState(st)
			if cur == nil {
				cur = []string{}
			}
		}
		return sameStrings(cur, out.Final), st
	}
	switch in.Type {
	case ktCnt, ktReg, ktSreg, ktApp:
		present := st != ""
		val := ""
		if present {
			val = st[1:]
		}
		switch in.Kind {
		case "incr", "incrby":
			cur := int64(0)
			if present {
				n, err := strconv.ParseInt(val, 10, 64)
				if err != nil {
					return false, st
				}
				cur = n
			}
			d := in.Delta
			if in.Kind == "incr" {
				d = 1
			}
			nv := cur + d
			return out.Unknown || isInt(out.V, nv), "=" + strconv.FormatInt(nv, 10)
		case "set":
			return out.Unknown || (out.V.T == "s" && out.V.S == "OK"), "=" + in.Arg
		case "getset":
			ok := out.Unknown || (present && isBulk(out.V, val)) || (!present && out.V.T == "n")
			return ok, "=" + in.Arg
		case "setnx":
			if present {
				return out.Unknown || isInt(out.V, 0), st
			}
			return out.Unknown || isInt(out.V, 1), "=" + in.Arg
		case "append":
			nv := val + in.Arg
			return out.Unknown || isInt(out.V, int64(len(nv))), "=" + nv
		}
	case ktHash:
		fs := splitState(st)
		idx := -1
		cur := ""
		for i, fv := range fs {
			if strings.HasPrefix(fv, in.Field+"=") {
				idx, cur = i, fv[len(in.Field)+1:]
			}
		}
		put := func(v string) string {
			n := append([]string{}, fs...)
			if idx >= 0 {
				n[idx] = in.Field + "=" + v
			} else {
				n = append(n, in.Field+"="+v)
				sort.Strings(n)
			}
			return strings.Join(n, sep)
		}
		switch in.Kind {
		case "hincrby":
			c := int64(0)
			if idx >= 0 {
				n, err := strconv.ParseInt(cur, 10, 64)
				if err != nil {
					return false, st
				}
				c = n
			}
			nv := c + in.Delta
			return out.Unknown || isInt(out.V, nv), put(strconv.FormatInt(nv, 10))
		case "hsetnx":
			if idx >= 0 {
				return out.Unknown || isInt(out.V, 0), st
			}
			return out.Unknown || isInt(out.V, 1), put(in.Arg)
		}
	case ktZset:
		fs := splitState(st)
		idx := -1
		cur := float64(0)
		for i, fv := range fs {
			if strings.HasPrefix(fv, in.Field+"=") {
				idx = i
				cur, _ = strconv.ParseFloat(fv[len(in.Field)+1:], 64)
			}
		}
		if in.Kind == "zincrby" {
			nv := cur + float64(in.Delta)
			n := append([]string{}, fs...)
			if idx >= 0 {
				n[idx] = in.Field + "=" + fmtScore(nv)
			} else {
				n = append(n, in.Field+"="+fmtScore(nv))
				sort.Strings(n)
			}
			ok := out.Unknown
			if !ok && out.V.T == "b" {
				f, err := strconv.ParseFloat(out.V.S, 64)
				ok = err == nil && f == nv
			}
			return ok, strings.Join(n, sep)
		}
	case ktList:
		es := splitState(st)
		switch in.Kind {
		case "lpush":
			n := append([]string{in.Arg}, es...)
			return out.Unknown || isInt(out.V, int64(len(n))), strings.Join(n, sep)
		case "lpop":
			if len(es) == 0 {
				return out.Unknown || out.V.T == "n", st
			}
			return out.Unknown || isBulk(out.V, es[0]), strings.Join(es[1:], sep)
		case "rpop":
			if len(es) == 0 {
				return out.Unknown || out.V.T == "n", st
			}
			return out.Unknown || isBulk(out.V, es[len(es)-1]), strings.Join(es[:len(es)-1], sep)
		}
	case ktSet:
		ms := splitState(st)
		switch in.Kind {
		case "sadd":
			i := sort.SearchStrings(ms, in.Arg)
			if i < len(ms) && ms[i] == in.Arg {
				return out.Unknown || isInt(out.V, 0), st
			}
			n := append([]string{}, ms[:i]...)
			n = append(n, in.Arg)
			n = append(n, ms[i:]...)
			return out.Unknown || isInt(out.V, 1), strings.Join(n, sep)
		case "spop":
			// SPOP removes in member order (doc/user-guide.md, rockredis sMembersN)
			if len(ms) == 0 {
				return out.Unknown || out.V.T == "n", st
			}
			return out.Unknown || isBulk(out.V, ms[0]), strings.Join(ms[1:], sep)
		}
	}
	return false, st
}

var c04Model = porcupine.Model{
	Init: func() interface{} { return "" },
	Step: func(state, input, output interface{}) (bool, interface{}) {
		ok, ns := step(state.(string), input.(mIn), output.(mOut))
		return ok, ns
	},
	Equal: func(a, b interface{}) bool { return a.(string) == b.(string) },
	DescribeOperation: func(input, output interface{}) string {
		in, out := input.(mIn), output.(mOut)
		o := out.V.String()
		if out.Unknown {
			o = "?"
		}
		if in.Kind == "final" {
			o = fmt.Sprint(out.Final)
		}
		return fmt.Sprintf("%s %s %s %d -> %s", in.Kind, in.Field, in.Arg, in.Delta, o)
	},
}

// localNegative: replies the leader-side handler may have produced from the local store
// without going through raft (node/keys.go setnxCommand, node/list.go preCheckListLength,
// node/set.go spopCommand / saddCommand). A client cannot tell them from the state
// machine's own negative reply, so every such reply is kept out of the linearizability check.
func localNegative(o *opRec) bool {
	if o.Outcome != "ok" || o.Reply == nil {
		return false
	}
	switch o.Kind {
	case "setnx", "sadd":
		return o.Reply.T == "i" && o.Reply.I == 0
	case "lpop", "rpop", "spop":
		return o.Reply.T == "n"
	}
	return false
}

// ---------------------------------------------------------------- the checker

type verdict struct {
	Violations   []string
	Inconclusive []string
	Notes        []string
	Counts       map[string]int
}

func (v *verdict) violate(format string, a ...interface{}) {
	v.Violations = append(v.Violations, fmt.Sprintf(format, a...))
}

// checkHistory is deterministic in the history (porcupine's timeout aside, which can
// only turn a verdict into "inconclusive").
//
// A write that was answered with one of the errors that are returned before anything is
// proposed (outcome "fail" with an error reply) cannot have taken effect, and the first
// pass holds the history to that: such writes are left out, which also keeps the search
// small. The property itself only says that a write that got an error takes effect at
// most once. So a history that fails the first pass is examined again with those writes
// as operations of unknown outcome, and only what still fails then is a violation; if the
// second pass is clean, an error-answered write visibly took effect, which is noted
// (counter rejected_write_took_effect) but is not what C04 forbids.
func checkHistory(h *history, linTimeout time.Duration) *verdict {
	v := checkHistoryPass(h, linTimeout)
	if len(v.Violations) == 0 {
		return v
	}
	rejected := 0
	h2 := *h
	h2.Ops = append([]opRec{}, h.Ops...)
	for i := range h2.Ops {
		o := &h2.Ops[i]
		if o.Kind != "read" && o.Outcome == "fail" && o.Reply != nil {
			o.Outcome = "unknown"
			rejected++
		}
	}
	if rejected == 0 {
		return v
	}
	v2 := checkHistoryPass(&h2, linTimeout)
	v2.Counts["second_pass_with_rejected_as_unknown"] = 1
	if len(v2.Violations) == 0 && len(v2.Inconclusive) == 0 {
		v2.Counts["rejected_write_took_effect"] = 1
		v2.Notes = append(v2.Notes, "a write answered with a pre-propose error took effect; first-pass findings: "+strings.Join(v.Violations, " | "))
	}
	for k, n := range v.Counts {
		if _, ok := v2.Counts[k]; !ok {
			v2.Counts[k] = n
		}
	}
	return v2
}

func checkHistoryPass(h *history, linTimeout time.Duration) *verdict {
	v := &verdict{Counts: map[string]int{}}
	if h.Final == nil || len(h.Final.Dumps) == 0 {
		v.Inconclusive = append(v.Inconclusive, "no final state recorded")
		return v
	}
	// (3) every replica returns the same data
	ref := h.Final.Dumps[0]
	for i := 1; i < len(h.Final.Dumps); i++ {
		d := h.Final.Dumps[i]
		for _, k := range h.Keys {
			if !sameStrings(ref[k.Name], d[k.Name]) {
				v.violate("replicas differ after settle (applied %v): key %s: replica 0 has %v, replica %d has %v",
					h.Final.Applied, k.Name, abbrev(ref[k.Name]), i, abbrev(d[k.Name]))
			}
		}
	}
	byKey := map[string][]*opRec{}
	for i := range h.Ops {
		o := &h.Ops[i]
		byKey[o.Key] = append(byKey[o.Key], o)
		switch {
		case o.Kind == "read":
			v.Counts["reads_excluded"]++
		case o.Outcome == "ok" && localNegative(o):
			v.Counts["local_negative_excluded"]++
		case o.Outcome == "ok":
			v.Counts["acked_writes"]++
		case o.Outcome == "unknown":
			v.Counts["unknown_writes"]++
		case o.Outcome == "fail":
			v.Counts["failed_writes"]++
		}
	}
	if len(v.Violations) > 0 {
		return v // the other checks need one agreed final state
	}
	// (2) exactly-once on identifiable effects
	for _, k := range h.Keys {
		checkTokens(v, k, byKey[k.Name], ref[k.Name])
	}
	// (4) an acknowledged write is visible to a later read on the same connection
	for _, k := range h.Keys {
		if k.Type == ktSreg {
			checkSessions(v, k, byKey[k.Name])
		}
	}
	// (1) per-key linearizability, the final value being one more (read) operation
	tf := int64(0)
	for i := range h.Ops {
		if h.Ops[i].Invoke > tf {
			tf = h.Ops[i].Invoke
		}
		if h.Ops[i].Return > tf {
			tf = h.Ops[i].Return
		}
	}
	tf++
	for _, k := range h.Keys {
		// Optimistic pass first: leave out every operation of unknown outcome whose effect
		// nothing attests (its token is in no reply and not in the final value). If what
		// remains linearizes, so does the whole history - the operations left out go after
		// the final read, which their open-ended interval allows. Only if this pass fails
		// is the full search (exponential in the worst case) needed.
		obs := observedTokens(byKey[k.Name], ref[k.Name])
		opt := buildPorcupineOpts(k, byKey[k.Name], ref[k.Name], tf, -1, obs)
		t0 := time.Now()
		res := porcupine.CheckOperationsTimeout(c04Model, opt, linTimeout)
		if res != porcupine.Ok {
			v.Counts["full_search_needed"]++
			ops := buildPorcupine(k, byKey[k.Name], ref[k.Name], tf)
			res = porcupine.CheckOperationsTimeout(c04Model, ops, linTimeout)
			opt = ops
		}
		v.Counts["porcupine_ms"] += int(time.Since(t0).Milliseconds())
		switch res {
		case porcupine.Ok:
		case porcupine.Unknown:
			v.Inconclusive = append(v.Inconclusive, fmt.Sprintf("porcupine timed out on key %s (%d operations)", k.Name, len(opt)))
		case porcupine.Illegal:
			v.violate("history of key %s (%s, %d operations incl. final value %v) is not linearizable; %s",
				k.Name, k.Type, len(opt), abbrev(ref[k.Name]), culprit(k, byKey[k.Name], ref[k.Name], tf, linTimeout))
		}
	}
	return v
}

// observedTokens: every unique argument that shows up in a reply (reads included: a stale
// read returns an old value, never a future one) or in the final value.
func observedTokens(ops []*opRec, final []string) map[string]bool {
	obs := map[string]bool{}
	add := func(s string) {
		obs[s] = true
		parts := []string{s}
		if i := strings.IndexByte(s, '='); i >= 0 { // hash field=value in the final value
			parts = append(parts, s[i+1:])
			obs[s[i+1:]] = true
		}
		for _, p := range parts {
			toks, _ := tokens(p)
			for _, t := range toks {
				obs[t] = true
			}
		}
	}
	var walk func(v *rv)
	walk = func(v *rv) {
		if v == nil {
			return
		}
		if v.T == "b" {
			add(v.S)
		}
		for i := range v.A {
			walk(&v.A[i])
		}
	}
	for _, o := range ops {
		if o.Outcome == "ok" {
			walk(o.Reply)
		}
	}
	for _, f := range final {
		add(f)
	}
	return obs
}

func abbrev(s []string) string {
	if len(s) <= 12 {
		return fmt.Sprintf("%q", s)
	}
	return fmt.Sprintf("%q ... (%d elements) ... %q", s[:6], len(s), s[len(s)-4:])
}

func buildPorcupine(k keySpec, ops []*opRec, final []string, tf int64) []porcupine.Operation {
	return buildPorcupineUpTo(k, ops, final, tf, -1)
}

// buildPorcupineUpTo builds the history as it stood at time cut (cut < 0: complete, with
// the final value): operations that returned by then are complete, operations invoked by
// then are pending (open-ended, reply unconstrained).
func buildPorcupineUpTo(k keySpec, ops []*opRec, final []string, tf int64, cut int64) []porcupine.Operation {
	return buildPorcupineOpts(k, ops, final, tf, cut, nil)
}

// With observed != nil (optimistic pass) operations of unknown outcome that carry a unique
// argument which was never observed are left out.
func buildPorcupineOpts(k keySpec, ops []*opRec, final []string, tf int64, cut int64, observed map[string]bool) []porcupine.Operation {
	inf := tf + 2
	var res map[*opRec]resolved
	if cut < 0 {
		res = resolveUnknown(k, ops, final, tf)
	}
	var out []porcupine.Operation
	for _, o := range ops {
		if o.Kind == "read" || o.Outcome == "fail" || localNegative(o) {
			continue
		}
		if cut >= 0 && o.Invoke > cut {
			continue
		}
		in := mIn{Type: k.Type, Kind: o.Kind, Field: o.Field, Arg: o.Arg, Delta: o.Delta}
		if o.Outcome == "ok" && (cut < 0 || o.Return <= cut) {
			out = append(out, porcupine.Operation{ClientId: o.Client, Input: in, Call: o.Invoke, Output: mOut{V: *o.Reply}, Return: o.Return})
			continue
		}
		if observed != nil && o.Arg != "" && !observed[o.Arg] {
			continue
		}
		op := porcupine.Operation{ClientId: o.Client, Input: in, Call: o.Invoke, Output: mOut{Unknown: true}, Return: inf}
		if r, ok := res[o]; ok {
			if r.drop {
				continue
			}
			if r.before > o.Invoke {
				op.Return = r.before
			}
			if r.out != nil {
				op.Output = mOut{V: *r.out}
			}
		}
		out = append(out, op)
	}
	if cut < 0 {
		out = append(out, porcupine.Operation{ClientId: 1 << 20, Input: mIn{Type: k.Type, Kind: "final"}, Call: tf, Output: mOut{Final: final}, Return: tf + 1})
	}
	return out
}

// resolved says what the rest of the history and the final value prove about an
// operation of unknown outcome. Every rule below only discards linearizations that the
// model itself rules out, so a history that linearizes keeps linearizing; the point is to
// spare porcupine an exponential search over choices that are already decided.
//
//	drop    the operation had no effect before the final value was read (its unique token is
//	        in no reply and not in the final value, and nothing could have erased it unseen):
//	        it is placed after the final read, i.e. left out
//	before  the operation took effect before this instant (its token was seen in a reply
//	        that returned then, or is in the final value)
//	out     the reply it must have produced (append-only key: the position of the token in
//	        the final value is the length the APPEND returned)
type resolved struct {
	drop   bool
	before int64
	out    *rv
}

func resolveUnknown(k keySpec, ops []*opRec, final []string, tf int64) map[*opRec]resolved {
	res := map[*opRec]resolved{}
	switch k.Type {
	case ktApp:
		val := ""
		if len(final) == 1 {
			val = final[0]
		}
		toks, ok := tokens(val)
		if !ok {
			return res
		}
		end := map[string]int{}
		dup := false
		n := 0
		for _, t := range toks {
			n += len(t)
			if _, seen := end[t]; seen {
				dup = true
			}
			end[t] = n
		}
		if dup {
			return res // reported by the token check; no inference from a corrupt value
		}
		for _, o := range ops {
			if o.Outcome != "unknown" {
				continue
			}
			e, present := end[o.Arg]
			switch {
			case !present:
				res[o] = resolved{drop: true}
			case o.Kind == "append":
				res[o] = resolved{before: tf + 1, out: &rv{T: "i", I: int64(e)}}
			case o.Kind == "setnx" && e == len(o.Arg): // the token opens the value: this SETNX created the key
				res[o] = resolved{before: tf + 1, out: &rv{T: "i", I: 1}}
			}
		}
	case ktHash:
		fin := map[string]string{}
		for _, fv := range final {
			i := strings.IndexByte(fv, '=')
			fin[fv[:i]] = fv[i+1:]
		}
		for _, o := range ops {
			if o.Outcome != "unknown" || o.Kind != "hsetnx" {
				continue
			}
			if fin[o.Field] == o.Arg {
				res[o] = resolved{before: tf + 1, out: &rv{T: "i", I: 1}}
			} else {
				res[o] = resolved{drop: true} // not executed, or executed as a no-op on a field already set
			}
		}
		resolveCounters(k, ops, final, tf, res)
	case ktCnt, ktZset:
		resolveCounters(k, ops, final, tf, res)
	case ktList, ktSet:
		seen := map[string]int64{}
		for _, e := range final {
			seen[e] = tf + 1
		}
		unknownPops := 0
		for _, o := range ops {
			switch o.Kind {
			case "lpop", "rpop", "spop":
				if o.Outcome == "unknown" {
					unknownPops++
				} else if o.Outcome == "ok" && o.Reply != nil && o.Reply.T == "b" {
					if t, ok := seen[o.Reply.S]; !ok || o.Return < t {
						seen[o.Reply.S] = o.Return
					}
				}
			}
		}
		for _, o := range ops {
			if o.Outcome != "unknown" || (o.Kind != "lpush" && o.Kind != "sadd") {
				continue
			}
			if t, ok := seen[o.Arg]; ok {
				res[o] = resolved{before: t}
			} else if unknownPops == 0 {
				res[o] = resolved{drop: true}
			}
		}
	}
	return res
}

// culprit locates, by bisection over time (linearizability is prefix-closed), the first
// reply after which the history of the key can no longer be linearized.
func culprit(k keySpec, ops []*opRec, final []string, tf int64, timeout time.Duration) string {
	if timeout > 5*time.Second {
		timeout = 5 * time.Second // a diagnostic, not a verdict: a search that times out counts as "still fine"
	}
	var rets []*opRec
	for _, o := range ops {
		if o.Kind != "read" && o.Outcome == "ok" && !localNegative(o) {
			rets = append(rets, o)
		}
	}
	sort.Slice(rets, func(i, j int) bool { return rets[i].Return < rets[j].Return })
	bad := func(i int) bool { // history cut right after the i-th reply
		res := porcupine.CheckOperationsTimeout(c04Model, buildPorcupineUpTo(k, ops, final, tf, rets[i].Return), timeout)
		return res == porcupine.Illegal
	}
	if len(rets) == 0 || !bad(len(rets)-1) {
		return "every prefix of replies is linearizable: the final value is not reachable from the acknowledged writes"
	}
	lo, hi := 0, len(rets)-1 // invariant: bad(hi)
	for lo < hi {
		mid := (lo + hi) / 2
		if bad(mid) {
			hi = mid
		} else {
			lo = mid + 1
		}
	}
	o := rets[hi]
	return fmt.Sprintf("first reply that cannot be explained: op #%d client %d node %d %s %s %s %d -> %v at [%d,%d]ns",
		o.ID, o.Client, o.Node, o.Kind, o.Field, o.Arg, o.Delta, o.Reply, o.Invoke, o.Return)
}

// ---------------------------------------------------------------- exactly-once tokens

// subsetSumHas reports whether target is the sum of a sub-multiset of xs (all > 0).
// ok=false means the search space was too large to decide.
func subsetSumHas(xs []int64, target int64) (has bool, ok bool) {
	if target == 0 {
		return true, true
	}
	if target < 0 {
		return false, true
	}
	sums := map[int64]struct{}{0: {}}
	for _, x := range xs {
		add := make([]int64, 0, len(sums))
		for s := range sums {
			if s+x <= target {
				add = append(add, s+x)
			}
		}
		for _, s := range add {
			sums[s] = struct{}{}
		}
		if len(sums) > 1<<18 {
			return false, false
		}
	}
	_, has = sums[target]
	return has, true
}

func checkCounter(v *verdict, what string, final int64, okSum int64, unk []int64, failedAny bool) {
	rest := final - okSum
	if rest < 0 {
		v.violate("%s: final value %d is less than the sum %d of the acknowledged increments: an acknowledged write was lost", what, final, okSum)
		return
	}
	has, decided := subsetSumHas(unk, rest)
	if !decided {
		v.Counts["token_check_skipped_too_many_unknown"]++
		tot := int64(0)
		for _, x := range unk {
			tot += x
		}
		has = rest <= tot
	}
	if !has {
		v.violate("%s: final value %d = acknowledged sum %d + %d, and %d is not a sum of increments with unknown outcome %v: some increment took effect more than once (or one that failed took effect)",
			what, final, okSum, rest, rest, unk)
	}
}

// tokens splits a value built from tokens of the form <c3-17>.
func tokens(s string) ([]string, bool) {
	var out []string
	for len(s) > 0 {
		if s[0] != '<' {
			return out, false
		}
		j := strings.IndexByte(s, '>')
		if j < 0 {
			return out, false
		}
		out = append(out, s[:j+1])
		s = s[j+1:]
	}
	return out, true
}

func checkTokens(v *verdict, k keySpec, ops []*opRec, final []string) {
	switch k.Type {
	case ktCnt:
		f := int64(0)
		if len(final) == 1 {
			n, err := strconv.ParseInt(final[0], 10, 64)
			if err != nil {
				v.violate("key %s: final value %q is not an integer", k.Name, final[0])
				return
			}
			f = n
		}
		var okSum int64
		var unk []int64
		for _, o := range ops {
			d := o.Delta
			if o.Kind == "incr" {
				d = 1
			} else if o.Kind != "incrby" {
				continue
			}
			switch o.Outcome {
			case "ok":
				okSum += d
			case "unknown":
				unk = append(unk, d)
			}
		}
		checkCounter(v, "counter "+k.Name, f, okSum, unk, false)
	case ktHash, ktZset:
		fin := map[string]string{}
		for _, fv := range final {
			i := strings.IndexByte(fv, '=')
			fin[fv[:i]] = fv[i+1:]
		}
		okSum := map[string]int64{}
		unk := map[string][]int64{}
		setters := map[string][]*opRec{}
		unkSet := map[string]map[string]bool{}
		fields := map[string]bool{}
		for _, o := range ops {
			switch o.Kind {
			case "hincrby", "zincrby":
				fields[o.Field] = true
				if o.Outcome == "ok" {
					okSum[o.Field] += o.Delta
				} else if o.Outcome == "unknown" {
					unk[o.Field] = append(unk[o.Field], o.Delta)
				}
			case "hsetnx":
				if o.Outcome == "ok" && o.Reply != nil && o.Reply.T == "i" && o.Reply.I == 1 {
					setters[o.Field] = append(setters[o.Field], o)
				} else if o.Outcome == "unknown" {
					if unkSet[o.Field] == nil {
						unkSet[o.Field] = map[string]bool{}
					}
					unkSet[o.Field][o.Arg] = true
				}
			}
		}
		for f := range fields {
			fv := int64(0)
			if s, ok := fin[f]; ok {
				x, err := strconv.ParseFloat(s, 64)
				if err != nil || x != float64(int64(x)) {
					v.violate("key %s field %s: final value %q is not an integer", k.Name, f, s)
					continue
				}
				fv = int64(x)
			}
			checkCounter(v, fmt.Sprintf("counter %s[%s]", k.Name, f), fv, okSum[f], unk[f], false)
		}
		for f, val := range fin {
			if fields[f] {
				continue
			}
			ss := setters[f]
			switch {
			case len(ss) > 1:
				v.violate("key %s field %s: HSETNX was acknowledged with 1 more than once (ops #%d and #%d)", k.Name, f, ss[0].ID, ss[1].ID)
			case len(ss) == 1 && ss[0].Arg != val:
				v.violate("key %s field %s: op #%d HSETNX %s was acknowledged with 1 but the final value is %q", k.Name, f, ss[0].ID, ss[0].Arg, val)
			case len(ss) == 0 && !unkSet[f][val]:
				v.violate("key %s field %s: final value %q was written by no acknowledged or unknown-outcome HSETNX", k.Name, f, val)
			}
		}
		for f, ss := range setters {
			if _, ok := fin[f]; !ok {
				v.violate("key %s field %s: op #%d HSETNX %s was acknowledged with 1 but the field is absent in the final state", k.Name, f, ss[0].ID, ss[0].Arg)
			}
		}
	case ktApp, ktReg, ktSreg:
		val := ""
		if len(final) == 1 {
			val = final[0]
		}
		toks, wellFormed := tokens(val)
		if !wellFormed {
			v.violate("key %s: final value %q is not a sequence of written tokens", k.Name, val)
			return
		}
		cnt := map[string]int{}
		for _, t := range toks {
			cnt[t]++
		}
		origin := map[string]*opRec{}
		for _, o := range ops {
			if o.Arg != "" {
				origin[o.Arg] = o
			}
		}
		for t, n := range cnt {
			o := origin[t]
			switch {
			case o == nil:
				v.violate("key %s: final value contains %s which no client wrote", k.Name, t)
			case o.Outcome == "fail":
				v.violate("key %s: final value contains %s of op #%d, which failed before it was proposed", k.Name, t, o.ID)
			case n > 1:
				v.violate("key %s: token %s of op #%d (%s, outcome %s) appears %d times in the final value: it took effect more than once", k.Name, t, o.ID, o.Kind, o.Outcome, n)
			}
		}
		if k.Type == ktApp {
			// nothing ever overwrites an app key: every acknowledged token is still there
			for _, o := range ops {
				if o.Outcome != "ok" || localNegative(o) || o.Arg == "" {
					continue
				}
				if cnt[o.Arg] != 1 {
					v.violate("key %s: op #%d %s %s was acknowledged (%v) but its token appears %d times in the final value %s", k.Name, o.ID, o.Kind, o.Arg, o.Reply, cnt[o.Arg], abbrev(toks))
				}
			}
		}
	case ktList, ktSet:
		cnt := map[string]int{}
		for _, e := range final {
			cnt[e]++
		}
		unknownPops := 0
		pushed := map[string]*opRec{}
		for _, o := range ops {
			switch o.Kind {
			case "lpush", "sadd":
				pushed[o.Arg] = o
			case "lpop", "rpop", "spop":
				if o.Outcome == "ok" && o.Reply != nil && o.Reply.T == "b" {
					cnt[o.Reply.S]++
				} else if o.Outcome == "unknown" {
					unknownPops++
				}
			}
		}
		for e, n := range cnt {
			o := pushed[e]
			switch {
			case o == nil:
				v.violate("key %s: element %q (in the final value or returned by a pop) was added by no client", k.Name, e)
			case o.Outcome == "fail":
				v.violate("key %s: element %q of op #%d, which failed before it was proposed, is present", k.Name, e, o.ID)
			case n > 1:
				v.violate("key %s: element %q of op #%d (outcome %s) is accounted for %d times (final value + acknowledged pops): it took effect more than once or was popped twice", k.Name, e, o.ID, o.Outcome, n)
			}
		}
		var missing []string
		for e, o := range pushed {
			if o.Outcome == "ok" && !localNegative(o) && cnt[e] == 0 {
				missing = append(missing, fmt.Sprintf("#%d:%s", o.ID, e))
			}
		}
		sort.Strings(missing)
		if len(missing) > unknownPops {
			v.violate("key %s: %d acknowledged elements are neither in the final value nor returned by an acknowledged pop, but only %d pops have an unknown outcome: lost %v",
				k.Name, len(missing), unknownPops, missing)
		}
	}
}

// checkSessions: a reply to a write is produced by the serving process's state machine
// after the write is in its store, and one process's store only moves forward in the log.
// So a read that follows an acknowledged write W on the same TCP connection (same
// process) returns the value at a log position at or after W: the token of W itself or of
// a write that is not ordered before W. It can be neither "absent" nor the token of a write
// that had already returned before W was invoked (that one precedes W in the log). This
// holds for a deposed or resumed leader as well, which is why it does not need the
// exclusion that plain reads get in the linearizability check.
func checkSessions(v *verdict, k keySpec, ops []*opRec) {
	writer := map[string]*opRec{}
	for _, o := range ops {
		if o.Arg != "" {
			writer[o.Arg] = o
		}
	}
	last := map[[2]int]*opRec{}
	for _, o := range ops { // ops are in invocation order; one client is sequential
		sk := [2]int{o.Client, o.Conn}
		if o.Kind != "read" {
			if o.Outcome == "ok" && !localNegative(o) {
				last[sk] = o
			}
			continue
		}
		w := last[sk]
		if w == nil || o.Outcome != "ok" || o.Reply == nil {
			continue
		}
		v.Counts["session_reads_checked"]++
		switch o.Reply.T {
		case "n":
			v.violate("key %s: op #%d (client %d, node %d) %s %s was acknowledged at %dns, but read #%d on the same connection, invoked at %dns, found the key absent",
				k.Name, w.ID, w.Client, w.Node, w.Kind, w.Arg, w.Return, o.ID, o.Invoke)
		case "b":
			y := writer[o.Reply.S]
			switch {
			case y == nil:
				v.violate("key %s: read #%d returned %q which no client wrote", k.Name, o.ID, o.Reply.S)
			case y.Outcome == "fail":
				v.violate("key %s: read #%d returned %q of op #%d, which failed before it was proposed", k.Name, o.ID, o.Reply.S, y.ID)
			case y != w && y.Outcome == "ok" && y.Return < w.Invoke:
				v.violate("key %s: op #%d (client %d, node %d) %s %s was acknowledged at %dns, but read #%d on the same connection, invoked at %dns, still returned %q of op #%d, which had completed at %dns before op #%d was invoked at %dns: the acknowledged write had not taken effect when it was acknowledged",
					k.Name, w.ID, w.Client, w.Node, w.Kind, w.Arg, w.Return, o.ID, o.Invoke, o.Reply.S, y.ID, y.Return, w.ID, w.Invoke)
			}
		}
	}
}

// resolveCounters: the final value of a counter minus the acknowledged increments is the
// sum of the increments of unknown outcome that took effect. Increments are powers of
// two, so that sum usually has exactly one decomposition over the distinct amounts; where
// it says "none of the increments by d" those are left out, where it says "all of them"
// they are known to precede the final read.
func resolveCounters(k keySpec, ops []*opRec, final []string, tf int64, res map[*opRec]resolved) {
	fin := map[string]int64{}
	switch k.Type {
	case ktCnt:
		if len(final) == 1 {
			n, err := strconv.ParseInt(final[0], 10, 64)
			if err != nil {
				return
			}
			fin[""] = n
		}
	default:
		for _, fv := range final {
			i := strings.IndexByte(fv, '=')
			x, err := strconv.ParseFloat(fv[i+1:], 64)
			if err != nil || x != float64(int64(x)) {
				continue // not a counter field
			}
			fin[fv[:i]] = int64(x)
		}
	}
	okSum := map[string]int64{}
	unk := map[string]map[int64][]*opRec{}
	for _, o := range ops {
		d := o.Delta
		switch o.Kind {
		case "incr":
			d = 1
		case "incrby", "hincrby", "zincrby":
		default:
			continue
		}
		switch o.Outcome {
		case "ok":
			okSum[o.Field] += d
		case "unknown":
			if unk[o.Field] == nil {
				unk[o.Field] = map[int64][]*opRec{}
			}
			unk[o.Field][d] = append(unk[o.Field][d], o)
		}
	}
	for f, groups := range unk {
		rest := fin[f] - okSum[f]
		if rest < 0 {
			continue
		}
		var vals []int64
		for d := range groups {
			vals = append(vals, d)
		}
		sort.Slice(vals, func(i, j int) bool { return vals[i] > vals[j] })
		cnts := make([]int, len(vals))
		suffix := make([]int64, len(vals)+1)
		for i := len(vals) - 1; i >= 0; i-- {
			cnts[i] = len(groups[vals[i]])
			suffix[i] = suffix[i+1] + vals[i]*int64(cnts[i])
		}
		var sol, cur []int
		cur = make([]int, len(vals))
		nsol, budget := 0, 200000
		var dfs func(i int, rest int64)
		dfs = func(i int, rest int64) {
			if nsol > 1 || budget <= 0 {
				return
			}
			budget--
			if i == len(vals) {
				if rest == 0 {
					nsol++
					sol = append([]int{}, cur...)
				}
				return
			}
			if rest > suffix[i] {
				return
			}
			for n := 0; n <= cnts[i] && int64(n)*vals[i] <= rest; n++ {
				cur[i] = n
				dfs(i+1, rest-int64(n)*vals[i])
			}
			cur[i] = 0
		}
		dfs(0, rest)
		if nsol != 1 || budget <= 0 {
			continue
		}
		for i, d := range vals {
			for _, o := range groups[d] {
				switch sol[i] {
				case 0:
					res[o] = resolved{drop: true}
				case cnts[i]:
					res[o] = resolved{before: tf + 1}
				}
			}
		}
	}
}
