package c04

// A minimal RESP client with explicit deadlines. It distinguishes "nothing was sent"
// (dial failure: the command definitely had no effect) from every other transport error
// (the command may or may not have been executed).

import (
	"bufio"
	"errors"
	"fmt"
	"io"
	"net"
	"strconv"
	"time"
)

// rv is one RESP value in a JSON-friendly form.
type rv struct {
	T string `json:"t"`           // i integer, b bulk, n nil, s status, e error, a array
	I int64  `json:"i,omitempty"` // integer
	S string `json:"s,omitempty"` // bulk / status / error text
	A []rv   `json:"a,omitempty"`
}

func (v rv) String() string {
	switch v.T {
	case "i":
		return fmt.Sprintf(":%d", v.I)
	case "b":
		return fmt.Sprintf("%q", v.S)
	case "n":
		return "nil"
	case "s":
		return "+" + v.S
	case "e":
		return "(err " + v.S + ")"
	case "a":
		s := "["
		for i, x := range v.A {
			if i > 0 {
				s += " "
			}
			s += x.String()
		}
		return s + "]"
	}
	return "?"
}

var errNotSent = errors.New("not sent")

type respConn struct {
	addr string
	c    net.Conn
	r    *bufio.Reader
}

func (rc *respConn) close() {
	if rc.c != nil {
		rc.c.Close()
		rc.c, rc.r = nil, nil
	}
}

// do sends one command and reads one reply. err == errNotSent (wrapped) means no byte
// left this process; any other error means the outcome is unknown. The connection is
// closed on every error.
func (rc *respConn) do(args []string, timeout time.Duration) (rv, error) {
	if rc.c == nil {
		c, err := net.DialTimeout("tcp", rc.addr, 500*time.Millisecond)
		if err != nil {
			return rv{}, fmt.Errorf("%w: %v", errNotSent, err)
		}
		rc.c, rc.r = c, bufio.NewReader(c)
	}
	buf := make([]byte, 0, 128)
	buf = append(buf, '*')
	buf = strconv.AppendInt(buf, int64(len(args)), 10)
	buf = append(buf, '\r', '\n')
	for _, a := range args {
		buf = append(buf, '$')
		buf = strconv.AppendInt(buf, int64(len(a)), 10)
		buf = append(buf, '\r', '\n')
		buf = append(buf, a...)
		buf = append(buf, '\r', '\n')
	}
	rc.c.SetDeadline(time.Now().Add(timeout))
	if _, err := rc.c.Write(buf); err != nil {
		rc.close()
		return rv{}, err
	}
	v, err := readRV(rc.r, 0)
	if err != nil {
		rc.close()
		return rv{}, err
	}
	return v, nil
}

func readLine(r *bufio.Reader) (string, error) {
	l, err := r.ReadString('\n')
	if err != nil {
		return "", err
	}
	if len(l) < 2 || l[len(l)-2] != '\r' {
		return "", fmt.Errorf("malformed line %q", l)
	}
	return l[:len(l)-2], nil
}

func readRV(r *bufio.Reader, depth int) (rv, error) {
	if depth > 4 {
		return rv{}, errors.New("reply nested too deep")
	}
	l, err := readLine(r)
	if err != nil {
		return rv{}, err
	}
	if l == "" {
		return rv{}, errors.New("empty reply line")
	}
	switch l[0] {
	case '+':
		return rv{T: "s", S: l[1:]}, nil
	case '-':
		return rv{T: "e", S: l[1:]}, nil
	case ':':
		n, err := strconv.ParseInt(l[1:], 10, 64)
		if err != nil {
			return rv{}, err
		}
		return rv{T: "i", I: n}, nil
	case '$':
		n, err := strconv.Atoi(l[1:])
		if err != nil {
			return rv{}, err
		}
		if n < 0 {
			return rv{T: "n"}, nil
		}
		if n > 64<<20 {
			return rv{}, errors.New("bulk too large")
		}
		b := make([]byte, n+2)
		if _, err := io.ReadFull(r, b); err != nil {
			return rv{}, err
		}
		return rv{T: "b", S: string(b[:n])}, nil
	case '*':
		n, err := strconv.Atoi(l[1:])
		if err != nil {
			return rv{}, err
		}
		if n < 0 {
			return rv{T: "n"}, nil
		}
		if n > 1<<20 {
			return rv{}, errors.New("array too large")
		}
		v := rv{T: "a", A: make([]rv, 0, n)}
		for i := 0; i < n; i++ {
			x, err := readRV(r, depth+1)
			if err != nil {
				return rv{}, err
			}
			v.A = append(v.A, x)
		}
		return v, nil
	}
	return rv{}, fmt.Errorf("malformed reply %q", l)
}
