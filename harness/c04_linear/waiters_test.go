package c04

// The pending request table (C04 anchor state "request id -> waiter that is triggered with the
// apply result"; mechanism "propose then wait for the apply of exactly this request id") as a
// state-machine property of its own, on the real KVNode proposal path (RedisProposeAsync ->
// queueRequest -> ProposeInternal -> wait registry -> applyEntries -> Trigger) behind a fake raft
// that owns the schedule: it queues proposals, cancels them the way raft does when it drops pending
// proposals (the cancel function raft is handed), lets cancelled entries commit later or never,
// and commits in drawn batches. The process-level histories reach "a proposal fails and its entry
// commits later" too, but cannot place the next request on the pooled wait object at that instant.

import (
	"fmt"
	"sort"
	"strings"
	"testing"

	"github.com/youzan/ZanRedisDB/common"
	"github.com/youzan/ZanRedisDB/node"
	"pgregory.net/rapid"

	"verifharness/lib/model"
	"verifharness/lib/resp"
	"verifharness/lib/simkv"
	"verifharness/lib/stats"
)

var recWait = stats.New("waiters", "stateful rapid sequences on one real KVNode behind a schedule-owning fake raft: submit (GETSET / INCR / INCRBY / SETNX / LPUSH / DEL / HSET on 5 keys, asynchronously, up to 12 in flight), cancel a queued proposal through the cancel function raft holds (the request must fail at once with the proposal-cancelled error), drop a cancelled entry for good or let it commit later, commit the next 1-6 queued entries as one apply batch. Oracle: every request that was not cancelled is answered with exactly the reference model's reply for its command at its place in the commit order, and only once its own entry has been applied (an apply-path panic such as 'done chan is full' fails the case); after the last step no request id is left in the pending table and the data equals the model over the committed entries (cancelled-but-committed ones included). non-trivial = a cancelled entry was committed while a later request was in flight")

var oversize = strings.Repeat("x", common.MaxValueSize+1)

type wreq struct {
	id        uint64
	args      []string
	fut       *node.FutureRsp
	cancelled bool
	applied   bool
	collected bool
	dropped   bool
}

func TestPendingTable(t *testing.T) {
	rapid.Check(t, func(t *rapid.T) {
		sim, err := simkv.New(simkv.Options{Engine: "mem"})
		if err != nil {
			t.Fatalf("HARNESS: %v", err)
		}
		defer sim.Close()
		part := sim.Parts[0]
		part.Raft.Immediate = false
		ts := int64(1700000000) * 1e9
		part.Raft.Stamp = func() int64 { ts += 1000; return ts }
		m := model.New()
		var reqs []*wreq  // in submission order
		var queue []*wreq // submitted and neither committed nor dropped, in log order
		var trace []string
		nt := false
		labels := map[string]bool{}
		fail := func(format string, a ...interface{}) {
			t.Fatalf("%s\nsteps:\n  %s", fmt.Sprintf(format, a...), strings.Join(trace, "\n  "))
		}
		collect := func(r *wreq, want resp.Val) {
			v, err := r.fut.WaitRsp()
			r.collected = true
			got := simkv.FromWriteRsp(v, err).One()
			if (r.args[0] == "set" || r.args[0] == "hmset") && !got.IsErr() && !want.IsErr() {
				got = want // the apply-level value of SET / HMSET is not the client reply; only success vs error is compared
			}
			if !resp.Equal(got, want) {
				fail("request #%d %q was answered %s; the reference model, at its place in the commit order, says %s", r.id, short(r.args), got, want)
			}
		}
		// applyModel is the reference for ONE call of applyEntries (node/state_machine.go): SET, SETEX,
		// single-key DEL and HMSET whose key has no write in the open batch yet are executed into one
		// engine write batch and answered when it is committed - before the next command that cannot
		// join, or at the end of the call; if one of them fails when applied, the open batch is aborted and
		// everything batched before it is answered with that error and has no effect.
		applyModel := func(batch []*wreq) {
			var open []*wreq
			dup := map[string]bool{}
			commit := func() {
				for _, o := range open {
					want := m.Apply(0, 1700000000, o.args)
					if !o.cancelled {
						collect(o, want)
					}
				}
				open, dup = nil, map[string]bool{}
			}
			for _, r := range batch {
				r.applied = true
				name, pk := r.args[0], r.args[1]
				batchable := (name == "set" || name == "setex" || name == "hmset" || (name == "del" && len(r.args) == 2)) && !dup[pk]
				refused := pk == "keywithouttable" || (name == "hmset" && len(r.args) == 6 && len(r.args[5]) > 1024)
				if !batchable {
					commit()
					want := resp.Err("refused when applied")
					if !refused {
						want = m.Apply(0, 1700000000, r.args)
					}
					if !r.cancelled {
						collect(r, want)
					}
					continue
				}
				dup[pk] = true
				if refused {
					labels["batchable_write_refused_at_apply"] = true
					if len(open) > 0 {
						labels["open_batch_aborted_with_earlier_writes"] = true
						nt = true
					}
					for _, o := range append(open, r) {
						if !o.cancelled {
							collect(o, resp.Err("aborted"))
						}
					}
					open, dup = nil, map[string]bool{}
					continue
				}
				open = append(open, r)
			}
			commit()
		}
		seq := 0
		n := rapid.IntRange(3, 40).Draw(t, "nsteps")
		for step := 0; step < n; step++ {
			act := rapid.IntRange(0, 9).Draw(t, "act")
			switch {
			case act <= 4 && len(queue) < 12: // submit
				seq++
				key := "t:k" + fmt.Sprint(rapid.IntRange(0, 1).Draw(t, "key"))
				var args []string
				switch rapid.IntRange(0, 13).Draw(t, "cmd") {
				case 6, 7:
					// single-key DEL, SET and HMSET join the engine write batch of an apply call (kvbatchOperator)
					args = []string{"del", key}
				case 8:
					args = []string{"hset", "t:h", fmt.Sprintf("f%d", seq%3), fmt.Sprintf("h%d", seq)}
				case 9, 10:
					args = []string{"set", key, fmt.Sprintf("w%d", seq)}
				case 11:
					args = []string{"hmset", "t:hm" + fmt.Sprint(seq%2), fmt.Sprintf("f%d", seq%3), fmt.Sprintf("m%d", seq)}
				case 13:
					if rapid.IntRange(0, 5).Draw(t, "oversize") > 0 {
						args = []string{"getset", key, fmt.Sprintf("v%d", seq)}
						break
					}
					// the second value is over the size limit: the command fails while it is applied, after
					// its first pair went into the shared write batch
					args = []string{"hmset", "t:hm" + fmt.Sprint(seq%2), "big1", "ok", "big2", oversize}
				case 12:
					// passes the leader's validation, is refused when applied (no table in the key):
					// the open engine write batch is aborted with everything batched before it
					args = []string{"set", "keywithouttable", fmt.Sprintf("x%d", seq)}
				case 0, 1:
					args = []string{"getset", key, fmt.Sprintf("v%d", seq)}
				case 2:
					args = []string{"incr", "t:n"}
				case 3:
					args = []string{"setnx", key, fmt.Sprintf("s%d", seq)}
				case 4:
					args = []string{"lpush", "t:l", fmt.Sprintf("e%d", seq)}
				default:
					// (SET's apply-level value is not its client reply; the handlers' reply rewriting is not under test here)
					args = []string{"incrby", "t:n", fmt.Sprint(seq)}
				}
				b := make([][]byte, len(args))
				for i, a := range args {
					b[i] = []byte(a)
				}
				before := len(part.Raft.Pending)
				fut, err := part.KV.RedisProposeAsync(common.BuildCommand(b).Raw)
				if err != nil {
					fail("HARNESS: propose %v: %v", args, err)
				}
				if len(part.Raft.Pending) != before+1 {
					fail("HARNESS: the proposal did not reach the fake raft")
				}
				var rl node.BatchInternalRaftRequest
				if err := rl.Unmarshal(part.Raft.Pending[before].Data); err != nil || len(rl.Reqs) != 1 {
					fail("HARNESS: cannot read the proposed entry: %v", err)
				}
				r := &wreq{id: rl.Reqs[0].Header.ID, args: args, fut: fut}
				reqs = append(reqs, r)
				queue = append(queue, r)
				trace = append(trace, fmt.Sprintf("submit #%d %s", r.id, short(args)))
			case act <= 6: // raft cancels a queued proposal
				var cand []int
				for i, r := range queue {
					if !r.cancelled {
						cand = append(cand, i)
					}
				}
				if len(cand) == 0 {
					continue
				}
				i := cand[rapid.IntRange(0, len(cand)-1).Draw(t, "which")]
				r := queue[i]
				if part.Raft.Cancels[i] == nil {
					fail("HARNESS: no cancel function for queued proposal %d", i)
				}
				part.Raft.Cancels[i]()
				r.cancelled = true
				v, err := r.fut.WaitRsp()
				r.collected = true
				if err == nil {
					fail("request #%d was cancelled by raft before its entry was committed, yet it was answered with %v", r.id, v)
				}
				trace = append(trace, fmt.Sprintf("raft cancels #%d -> %v", r.id, err))
				labels["cancelled"] = true
				if rapid.IntRange(0, 2).Draw(t, "drop") == 0 {
					// the entry is truncated by a new leader: it never commits
					part.DropPending(i)
					queue = append(queue[:i:i], queue[i+1:]...)
					r.dropped = true
					trace = append(trace, fmt.Sprintf("  entry of #%d never commits", r.id))
					labels["cancelled_entry_never_commits"] = true
				}
			default: // commit the next k queued entries as one apply batch
				if len(queue) == 0 {
					continue
				}
				k := rapid.IntRange(1, 6).Draw(t, "batch")
				if k > len(queue) {
					k = len(queue)
				}
				batch := queue[:k]
				queue = queue[k:]
				var ids []string
				for _, r := range batch {
					ids = append(ids, fmt.Sprintf("#%d", r.id))
					if r.cancelled && len(queue) > 0 {
						nt = true
						labels["cancelled_entry_commits_with_later_request_in_flight"] = true
					}
				}
				part.FlushN(k)
				trace = append(trace, "commit+apply "+strings.Join(ids, " "))
				if part.Poisoned {
					fail("the apply path panicked while applying %s", strings.Join(ids, " "))
				}
				applyModel(batch)
			}
		}
		// drain
		for len(queue) > 0 {
			r := queue[0]
			queue = queue[1:]
			part.FlushN(1)
			if part.Poisoned {
				fail("the apply path panicked while applying #%d", r.id)
			}
			applyModel([]*wreq{r})
		}
		for _, r := range reqs {
			if part.KV.VerifWaitRegistered(r.id) {
				fail("request #%d (%s; cancelled=%v committed=%v) is finished but its id is still in the pending request table", r.id, short(r.args), r.cancelled, r.applied)
			}
		}
		for _, rc := range [][]string{{"get", "t:k0"}, {"get", "t:k1"}, {"get", "t:n"}, {"lrange", "t:l", "0", "-1"}, {"hgetall", "t:h"}, {"hgetall", "t:hm0"}, {"hgetall", "t:hm1"}} {
			got := sim.Do(append([]string{rc[0], "default:" + rc[1]}, rc[2:]...)...).One()
			want := m.Apply(0, 1700000000, rc)
			if !resp.Equal(got, want) {
				fail("final data: %s -> %s, the model over the committed entries says %s", strings.Join(rc, " "), got, want)
			}
		}
		var ls []string
		for l := range labels {
			ls = append(ls, l)
		}
		sort.Strings(ls)
		recWait.Record(stats.HashString(strings.Join(trace, "|")), nt, ls, func() interface{} {
			tr := trace
			if len(tr) > 30 {
				tr = tr[:30]
			}
			return map[string]interface{}{"steps": tr}
		})
	})
}

func short(args []string) string {
	var out []string
	for _, a := range args {
		if len(a) > 64 {
			a = fmt.Sprintf("%s...(%d bytes)", a[:8], len(a))
		}
		out = append(out, a)
	}
	return strings.Join(out, " ")
}
