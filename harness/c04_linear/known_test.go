package c04

// Regression probe for the defect the cluster histories surfaced on the unchanged tree
// (replicas that restored one particular checkpoint had a run of consecutive log entries
// applied twice; recorded histories under replays/C04).
//
// Mechanism, read from the code: a raft snapshot at index i is a checkpoint of the data
// engine. The apply loop calls KVStore.Backup and blocks in WaitReady until the engine
// reports that the checkpoint's content is frozen; then it goes on applying entries
// i+1, i+2 ... while the files are still being linked / copied in the background
// (rockredis backupLoop: "before close rsp.done or rsp.started, the raft loop will block,
// after the chan closed, the raft loop continue"). Both engine wrappers report "frozen"
// from a 20 ms timer started before the engine's checkpoint call (engine/pebble_eng.go
// pebbleEngCheckpoint.Save, engine/rockeng.go rockEngCheckpoint.Save), not from the
// engine. pebble's Checkpoint captures its file list at once but copies the live WAL file
// last, up to its end at the time of the copy; whenever that copy happens later than
// 20 ms after the start (a loaded machine, many files to link, a large WAL), writes the
// apply loop made after the "frozen" signal are inside the checkpoint. A replica that
// restores this checkpoint - at restart, or as a follower installing the leader's
// snapshot - then replays from index i+1 and applies those entries a second time.
//
// The probe plays the apply loop against the real engine wrapper: checkpoint, wait for
// the frozen signal, write one key, and look for that key in the finished checkpoint.

import (
	"fmt"
	"os"
	"path/filepath"
	"testing"
	"time"

	"github.com/youzan/ZanRedisDB/engine"

	"verifharness/lib/known"
)

const findCheckpointLeak = "C04-checkpoint-not-frozen"

func probeCheckpointLeak(engType string, walMB int) (bool, string) {
	dir, err := os.MkdirTemp(scratchRoot(), "c04known-")
	if err != nil {
		return false, "HARNESS: " + err.Error()
	}
	defer os.RemoveAll(dir)
	open := func(d string) (engine.KVEngine, error) {
		cfg := engine.NewRockConfig()
		cfg.DataDir = d
		cfg.EngineType = engType
		cfg.BlockCache = 4 << 20
		cfg.WriteBufferSize = (walMB + 64) << 20 // everything written below stays in the engine's write-ahead log
		kv, err := engine.NewKVEng(cfg)
		if err != nil {
			return nil, err
		}
		if err := kv.OpenEng(); err != nil {
			return nil, err
		}
		return kv, nil
	}
	live := filepath.Join(dir, "live")
	os.MkdirAll(live, 0755)
	kv, err := open(live)
	if err != nil {
		return false, "HARNESS: open: " + err.Error()
	}
	defer kv.CloseEng()
	// data that is still in the write-ahead log of the engine (default 64 MiB memtable)
	val := make([]byte, 1<<20)
	for i := range val {
		val[i] = byte(i*7 + 1)
	}
	for i := 0; i < walMB; i++ {
		wb := kv.NewWriteBatch()
		wb.Put([]byte(fmt.Sprintf("bulk-%04d", i)), val)
		if err := kv.Write(wb); err != nil {
			return false, "HARNESS: write: " + err.Error()
		}
		wb.Destroy()
	}
	ck, err := kv.NewCheckpoint(false)
	if err != nil {
		return false, "HARNESS: NewCheckpoint: " + err.Error()
	}
	// engines keep their files in <DataDir>/<engine type>
	ckBase := filepath.Join(dir, "ckpt")
	os.MkdirAll(ckBase, 0755)
	ckDir, err := engine.GetDataDirFromBase(engType, ckBase)
	if err != nil {
		return false, "HARNESS: " + err.Error()
	}
	frozen := make(chan struct{})
	done := make(chan error, 1)
	t0 := time.Now()
	var saveCost time.Duration
	go func() { err := ck.Save(ckDir, frozen); saveCost = time.Since(t0); done <- err }()
	<-frozen
	frozenAt := time.Since(t0)
	// what the apply loop does next: the entry after the snapshot index
	wb := kv.NewWriteBatch()
	wb.Put([]byte("entry-after-snapshot-index"), []byte("1"))
	if err := kv.Write(wb); err != nil {
		return false, "HARNESS: write: " + err.Error()
	}
	wb.Destroy()
	if err := <-done; err != nil {
		return false, "HARNESS: checkpoint: " + err.Error()
	}
	ckv, err := open(ckBase)
	if err != nil {
		return false, "HARNESS: open checkpoint: " + err.Error()
	}
	defer ckv.CloseEng()
	if b, err := ckv.GetBytes([]byte("bulk-0000")); err != nil || b == nil {
		return false, fmt.Sprintf("HARNESS: the checkpoint does not contain the data written before it (%v)", err)
	}
	v, err := ckv.GetBytes([]byte("entry-after-snapshot-index"))
	if err != nil {
		return false, "HARNESS: read checkpoint: " + err.Error()
	}
	if v != nil {
		return true, fmt.Sprintf("engine %s, %d MiB in the engine's write-ahead log: a key written after the engine wrapper reported the checkpoint frozen (after %v; the checkpoint took %v) is inside the checkpoint", engType, walMB, frozenAt.Round(time.Millisecond), saveCost.Round(time.Millisecond))
	}
	return false, fmt.Sprintf("frozen reported after %v, checkpoint took %v", frozenAt.Round(time.Millisecond), saveCost.Round(time.Millisecond))
}

func TestKnownCheckpointNotFrozen(t *testing.T) {
	known.Probe(t, findCheckpointLeak, func() (bool, string) {
		return probeCheckpointLeak("pebble", 128)
	})
}
