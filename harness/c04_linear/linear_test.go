package c04

// C04 — acknowledged writes are totally ordered and never lost in a cluster.
//
// One rapid case = one history: a fresh cluster of verifkvc processes, 4-8 client
// goroutines issuing value-returning writes with unique arguments on 3-5 typed keys, a
// nemesis (kill -9 / SIGTERM / restart / leader transfer / SIGSTOP+SIGCONT, a majority
// always left alone), a settle phase and a logical dump of every replica. Everything that
// is *chosen* (cluster parameters, keys, every client's operation list and pacing, the
// nemesis plan) is drawn from rapid; the interleaving with real time is the operating
// system's. The reproducible unit is therefore the recorded history: a violating one is
// written to violation-<shard>-<n>.json and TestReplay re-runs the (deterministic) checker
// on it. Timeouts, slow elections, a cluster that does not come up or does not settle are
// never violations: they become operations with unknown outcome or an inconclusive,
// counted, skipped history.

import (
	"encoding/json"
	"errors"
	"fmt"
	"os"
	"path/filepath"
	"sort"
	"strconv"
	"strings"
	"sync"
	"sync/atomic"
	"testing"
	"time"

	"pgregory.net/rapid"

	"verifharness/lib/known"
	"verifharness/lib/stats"
)

func TestMain(m *testing.M) {
	code := m.Run()
	if builtBin != "" {
		os.RemoveAll(filepath.Dir(builtBin))
	}
	stats.FlushAll()
	os.Exit(code)
}

var rec = stats.New("histories",
	"one case = one recorded client history against a fresh cluster of real data-node processes under a drawn nemesis plan; "+
		"non-trivial = at least 30 acknowledged writes, at least one kill -9 while a write was in flight, and at least one observed change of leader between the first and the last acknowledged write")

const (
	maxOpsPerClient = 4000
	opTimeout       = 5500 * time.Millisecond // > the server's 4 s propose timeout
	linTimeout      = 25 * time.Second
)

// ---------------------------------------------------------------- the drawn plan

type opSpec struct {
	Key     int    `json:"k"`
	Kind    string `json:"op"`
	Field   string `json:"f,omitempty"`
	Arg     string `json:"a,omitempty"`
	Delta   int64  `json:"d,omitempty"`
	DelayUs int    `json:"w"`
	Refresh bool   `json:"r,omitempty"` // re-read the leader from the control endpoints before this op
	Probe   bool   `json:"p,omitempty"` // SET only: read the key back on the same connection right after the reply
}

type nemStep struct {
	Kind    string `json:"kind"`
	Pick    int    `json:"pick"`
	DelayMs int    `json:"delay_ms"`
	DurMs   int    `json:"dur_ms"`
}

type plan struct {
	Opts    clusterOpts `json:"opts"`
	Keys    []keySpec   `json:"keys"`
	Clients [][]opSpec  `json:"clients"`
	Nemesis []nemStep   `json:"nemesis"`
	TailMs  int         `json:"tail_ms"`
}

var allTypes = []keyType{ktCnt, ktReg, ktSreg, ktApp, ktHash, ktList, ktSet, ktZset}

func pickWeighted(t *rapid.T, label string, names []string, weights []int) string {
	tot := 0
	for _, w := range weights {
		tot += w
	}
	x := rapid.IntRange(0, tot-1).Draw(t, label)
	for i, w := range weights {
		if x < w {
			return names[i]
		}
		x -= w
	}
	return names[len(names)-1]
}

func drawPlan(t *rapid.T) plan {
	var p plan
	p.Opts = clusterOpts{
		N:           envInt("C04_NODES", 3),
		Engine:      "pebble",
		SnapCount:   rapid.IntRange(40, 200).Draw(t, "snap_count"),
		SnapCatchup: rapid.IntRange(5, 30).Draw(t, "snap_catchup"),
		TickMs:      100, // NewServer clamps to >= 100
		ElectTick:   5,
		KeepWAL:     rapid.IntRange(1, 3).Draw(t, "keep_wal"),
		UseRocksWAL: os.Getenv("C04_ROCKSWAL") == "1",
		WALSegment:  []int64{0, 64 << 10, 256 << 10, 1 << 20}[rapid.IntRange(0, 3).Draw(t, "wal_segment")],
	}
	if rapid.IntRange(0, 3).Draw(t, "apply_stall") == 0 {
		// the apply loop of one replica is descheduled once for longer than the 4 s proposal deadline
		// (every incarnation of that replica: at its k-th applied entry)
		p.Opts.StallNode = rapid.IntRange(0, p.Opts.N-1).Draw(t, "stall_node")
		p.Opts.Stall = fmt.Sprintf("apply.before_entry:%d:%d", rapid.IntRange(50, 1200).Draw(t, "stall_k"), rapid.IntRange(4200, 5200).Draw(t, "stall_ms"))
	}
	if e := os.Getenv("C04_ENGINE"); e != "" {
		p.Opts.Engine = e
	}
	// 3-5 keys of distinct types. The SET/GETSET register is always one of them: SET is the
	// only command of the set whose reply is produced through the apply batch, and its key
	// is the one the same-connection visibility rule is checked on.
	nk := rapid.IntRange(3, 5).Draw(t, "nkeys")
	types := []keyType{ktSreg}
	for _, ty := range allTypes {
		if ty != ktSreg {
			types = append(types, ty)
		}
	}
	p.Keys = append(p.Keys, keySpec{Name: string(ktSreg), Type: ktSreg})
	for i := 1; i < nk; i++ {
		j := rapid.IntRange(i, len(types)-1).Draw(t, "keytype")
		types[i], types[j] = types[j], types[i]
		p.Keys = append(p.Keys, keySpec{Name: string(types[i]), Type: types[i]})
	}
	nc := rapid.IntRange(4, 8).Draw(t, "nclients")
	opsPer := envInt("C04_OPS_PER_CLIENT", 300)
	for c := 0; c < nc; c++ {
		// pacing profile of this client
		lo, hi := 1000, 12000
		switch rapid.IntRange(0, 2).Draw(t, "pace") {
		case 1:
			lo, hi = 5000, 50000
		case 2:
			lo, hi = 20000, 90000
		}
		var ops []opSpec
		for i := 0; i < opsPer; i++ {
			ki := rapid.IntRange(0, nk-1).Draw(t, "key")
			o := opSpec{Key: ki, DelayUs: rapid.IntRange(lo, hi).Draw(t, "delay"), Refresh: rapid.IntRange(0, 24).Draw(t, "refresh") == 0}
			tok := fmt.Sprintf("c%d-%d", c, i)
			switch p.Keys[ki].Type {
			case ktCnt:
				o.Kind = pickWeighted(t, "op", []string{"incr", "incrby", "read"}, []int{40, 45, 15})
			case ktReg:
				o.Kind = pickWeighted(t, "op", []string{"getset", "setnx", "append", "read"}, []int{40, 10, 35, 15})
			case ktSreg:
				o.Kind = pickWeighted(t, "op", []string{"set", "getset", "read"}, []int{40, 30, 30})
			case ktApp:
				o.Kind = pickWeighted(t, "op", []string{"append", "setnx", "read"}, []int{75, 10, 15})
			case ktHash:
				o.Kind = pickWeighted(t, "op", []string{"hincrby", "hsetnx", "read"}, []int{55, 30, 15})
			case ktList:
				o.Kind = pickWeighted(t, "op", []string{"lpush", "lpop", "rpop", "read"}, []int{45, 20, 20, 15})
			case ktSet:
				o.Kind = pickWeighted(t, "op", []string{"sadd", "spop", "read"}, []int{50, 35, 15})
			case ktZset:
				o.Kind = pickWeighted(t, "op", []string{"zincrby", "read"}, []int{85, 15})
			}
			switch o.Kind {
			case "incrby":
				o.Delta = int64(1) << uint(rapid.IntRange(0, 36).Draw(t, "shift"))
			case "hincrby":
				o.Field = "c" + strconv.Itoa(rapid.IntRange(0, 1).Draw(t, "field"))
				o.Delta = int64(1) << uint(rapid.IntRange(0, 36).Draw(t, "shift"))
			case "zincrby":
				o.Field = "z" + strconv.Itoa(rapid.IntRange(0, 1).Draw(t, "member"))
				o.Delta = int64(1) << uint(rapid.IntRange(0, 36).Draw(t, "shift"))
			case "hsetnx":
				o.Field = "s" + strconv.Itoa(rapid.IntRange(0, 3).Draw(t, "field"))
				o.Arg = "<" + tok + ">"
			case "set":
				o.Arg = "<" + tok + ">"
				o.Probe = rapid.IntRange(0, 1).Draw(t, "probe") == 0
			case "getset", "setnx", "append":
				o.Arg = "<" + tok + ">"
			case "lpush":
				o.Arg = "e" + tok
			case "sadd":
				// SPOP removes in member order: a drawn prefix decides where the member sorts
				o.Arg = fmt.Sprintf("%02d-%s", rapid.IntRange(0, 99).Draw(t, "rank"), tok)
			case "read":
				switch p.Keys[ki].Type {
				case ktHash:
					o.Field = "c" + strconv.Itoa(rapid.IntRange(0, 1).Draw(t, "field"))
				case ktZset:
					o.Field = "z" + strconv.Itoa(rapid.IntRange(0, 1).Draw(t, "member"))
				}
			}
			ops = append(ops, o)
		}
		p.Clients = append(p.Clients, ops)
	}
	nn := rapid.IntRange(5, 12).Draw(t, "nnemesis")
	for i := 0; i < nn; i++ {
		p.Nemesis = append(p.Nemesis, nemStep{
			Kind: pickWeighted(t, "nemesis", []string{"kill_leader", "kill_random", "term_random", "restart", "transfer", "pause_leader", "pause_random", "pause_followers"},
				[]int{4, 2, 1, 3, 3, 3, 1, 2}),
			Pick:    rapid.IntRange(0, 1<<20).Draw(t, "pick"),
			DelayMs: rapid.IntRange(100, 1500).Draw(t, "nem_delay"),
			DurMs:   rapid.IntRange(300, 3500).Draw(t, "nem_dur"),
		})
	}
	p.TailMs = rapid.IntRange(600, 1500).Draw(t, "tail")
	return p
}

func (o opSpec) command(k keySpec) []string {
	key := fullKey(k.Name)
	switch o.Kind {
	case "incr":
		return []string{"incr", key}
	case "incrby":
		return []string{"incrby", key, strconv.FormatInt(o.Delta, 10)}
	case "set", "getset", "setnx", "append", "lpush", "sadd":
		return []string{o.Kind, key, o.Arg}
	case "hincrby":
		return []string{"hincrby", key, o.Field, strconv.FormatInt(o.Delta, 10)}
	case "hsetnx":
		return []string{"hsetnx", key, o.Field, o.Arg}
	case "lpop", "rpop", "spop":
		return []string{o.Kind, key}
	case "zincrby":
		return []string{"zincrby", key, strconv.FormatInt(o.Delta, 10), o.Field}
	case "read":
		switch k.Type {
		case ktCnt, ktReg, ktSreg:
			return []string{"get", key}
		case ktApp:
			return []string{"strlen", key}
		case ktHash:
			return []string{"hget", key, o.Field}
		case ktList:
			return []string{"llen", key}
		case ktSet:
			return []string{"scard", key}
		case ktZset:
			return []string{"zscore", key, o.Field}
		}
	}
	panic("HARNESS: no command for " + o.Kind)
}

// ---------------------------------------------------------------- running one history

// Errors that are returned before anything is proposed (node/node.go queueRequest,
// node/namespace.go lookup, server/server.go handleRedisWrite / GetHandler): the command
// definitely had no effect. Every other error reply is an unknown outcome.
var definiteErrors = []string{
	"ERR_CLUSTER_CHANGED: the raft is not ready for write",
	"ERR_CLUSTER_CHANGED: partition of the node has no leader",
	"ERR_CLUSTER_CHANGED: partition of the namespace is not leader on the node",
	"ERR_CLUSTER_CHANGED: namespace is not found",
	"ERR_CLUSTER_CHANGED: partition of the namespace is not found",
	"ERR_CLUSTER_CHANGED: raft group not ready",
	"refused by slow limiter",
	// ErrProposalCanceled: the context of a proposal is cancelled only by raft's drop
	// callback (raft/node.go handleProposal: Step returned errMsgDropped - no leader, leader
	// transfer in progress, not a member), i.e. the entry was neither appended nor forwarded
	"ERR_CLUSTER_CHANGED: raft proposal context canceled",
}

func classify(reply rv, err error) string {
	if err != nil {
		if errors.Is(err, errNotSent) {
			return "fail"
		}
		return "unknown"
	}
	if reply.T == "e" {
		for _, d := range definiteErrors {
			if strings.HasPrefix(reply.S, d) {
				return "fail"
			}
		}
		return "unknown"
	}
	return "ok"
}

type runner struct {
	p        plan
	cl       *cluster
	t0       time.Time
	stop     int32
	planHash string
	leader   int32   // monitor's current view, -1 unknown
	inflight []int32 // writes sent to node i and not yet answered

	mu       sync.Mutex
	nem      []nemEvent
	leaders  []leaderObs
	seenLead map[[2]uint64]bool
	lastSnap []uint64
	snapObs  int
	died     int
	notes    []string
}

func (r *runner) now() int64 { return int64(time.Since(r.t0)) }

func (r *runner) note(format string, a ...interface{}) {
	r.mu.Lock()
	r.notes = append(r.notes, fmt.Sprintf("%.3fs ", float64(r.now())/1e9)+fmt.Sprintf(format, a...))
	r.mu.Unlock()
}

func (r *runner) event(kind string, node int, t, tend int64, detail string) {
	r.mu.Lock()
	r.nem = append(r.nem, nemEvent{T: t, TEnd: tend, Kind: kind, Node: node, Detail: detail})
	r.mu.Unlock()
}

// monitor polls the control endpoints: leader view for the clients, leader observations
// and snapshot indexes for the labels, unexpected process deaths.
func (r *runner) monitor(done <-chan struct{}, wg *sync.WaitGroup) {
	defer wg.Done()
	for {
		select {
		case <-done:
			return
		case <-time.After(80 * time.Millisecond):
		}
		best, bestTerm := -1, uint64(0)
		for i, n := range r.cl.nodes {
			if n.getState() != stUp {
				continue
			}
			if !n.alive() {
				n.mu.Lock()
				if n.state == stUp {
					n.state = stDown
					r.died++
				}
				n.mu.Unlock()
				r.event("died", i, r.now(), r.now(), "process exited on its own")
				diag("history with plan %s: replica %d exited on its own (%v); log tail:\n%s", r.planHash, i, n.exitErr, r.cl.logTail(i, 6000))
				continue
			}
			st, ok := r.cl.status(i)
			if !ok {
				continue
			}
			t := r.now()
			r.mu.Lock()
			if st.IsLead {
				k := [2]uint64{st.Term, uint64(i)}
				if !r.seenLead[k] {
					r.seenLead[k] = true
					r.leaders = append(r.leaders, leaderObs{T: t, Node: i, Term: st.Term})
				}
			}
			if st.Snap > r.lastSnap[i] {
				if r.lastSnap[i] > 0 || st.Snap > 0 {
					r.snapObs++
				}
				r.lastSnap[i] = st.Snap
			}
			r.mu.Unlock()
			if st.IsLead && st.Ready && st.Term >= bestTerm {
				best, bestTerm = i, st.Term
			}
		}
		atomic.StoreInt32(&r.leader, int32(best))
	}
}

func (r *runner) client(ci int, out *[]opRec, wg *sync.WaitGroup) {
	defer wg.Done()
	target := -1
	connSerial := 0
	var conn *respConn
	defer func() {
		if conn != nil {
			conn.close()
		}
	}()
	retarget := func() {
		if conn != nil {
			conn.close()
			conn = nil
		}
		target = -1
	}
	// The drawn list is walked round after round until the run is stopped; the round
	// number goes into every token, so arguments stay unique.
	specs := r.p.Clients[ci]
	for n := 0; n < maxOpsPerClient; n++ {
		spec := specs[n%len(specs)]
		if lap := n / len(specs); lap > 0 && spec.Arg != "" {
			spec.Arg = strings.Replace(spec.Arg, fmt.Sprintf("c%d-", ci), fmt.Sprintf("c%d-L%d-", ci, lap), 1)
		}
		if atomic.LoadInt32(&r.stop) != 0 {
			return
		}
		time.Sleep(time.Duration(spec.DelayUs) * time.Microsecond)
		if spec.Refresh {
			if l := int(atomic.LoadInt32(&r.leader)); l >= 0 && l != target {
				retarget()
			}
		}
		for target < 0 {
			if atomic.LoadInt32(&r.stop) != 0 {
				return
			}
			if l := int(atomic.LoadInt32(&r.leader)); l >= 0 {
				target = l
				conn = &respConn{addr: "127.0.0.1:" + strconv.Itoa(r.cl.nodes[l].ports.redis)}
				connSerial++
				break
			}
			time.Sleep(40 * time.Millisecond)
		}
		k := r.p.Keys[spec.Key]
		cmd := spec.command(k)
		o := opRec{Client: ci, Conn: connSerial, Key: k.Name, Kind: spec.Kind, Field: spec.Field, Arg: spec.Arg, Delta: spec.Delta, Node: target}
		if spec.Kind != "read" {
			atomic.AddInt32(&r.inflight[target], 1)
		}
		o.Invoke = r.now()
		reply, err := conn.do(cmd, opTimeout)
		end := r.now()
		if spec.Kind != "read" {
			atomic.AddInt32(&r.inflight[target], -1)
		}
		o.Outcome = classify(reply, err)
		o.Return = end // for unknown / failed operations: when the client gave up
		if err != nil {
			o.Err = err.Error()
		} else {
			rp := reply
			o.Reply = &rp
		}
		*out = append(*out, o)
		if o.Outcome == "ok" && spec.Probe {
			// read-back on the same connection, as fast as a client can
			pr := opRec{Client: ci, Conn: connSerial, Key: k.Name, Kind: "read", Node: target}
			pr.Invoke = r.now()
			reply, err := conn.do([]string{"get", fullKey(k.Name)}, opTimeout)
			pr.Return = r.now()
			pr.Outcome = classify(reply, err)
			if err != nil {
				pr.Err = err.Error()
			} else {
				rp := reply
				pr.Reply = &rp
			}
			*out = append(*out, pr)
			if pr.Outcome != "ok" {
				o.Outcome = pr.Outcome // only for the retarget decision below
			}
		}
		if o.Outcome != "ok" {
			// half of the clients keep their connection after an error REPLY that does not speak of
			// leadership (a timed-out proposal, say) and go on at once, as a pooled SDK connection does;
			// the others reconnect to whoever leads now
			keep := ci%2 == 1 && err == nil && reply.T == "e" && !strings.Contains(strings.ToLower(reply.S), "leader")
			if !keep {
				retarget()
				time.Sleep(30 * time.Millisecond)
			}
		}
	}
}

// up / unavailable bookkeeping for the nemesis
func (r *runner) nodesIn(states ...nodeState) []int {
	var out []int
	for i, n := range r.cl.nodes {
		s := n.getState()
		for _, w := range states {
			if s == w {
				out = append(out, i)
			}
		}
	}
	return out
}

func (r *runner) nemesis() {
	c := r.cl
	maxUnavail := (c.opts.N - 1) / 2
	resumeAt := map[int]time.Time{}
	resumeDue := func(force bool) {
		for i, due := range resumeAt {
			if force || !time.Now().Before(due) {
				t := r.now()
				c.resume(i)
				r.event("resume", i, t, r.now(), "")
				delete(resumeAt, i)
			}
		}
	}
	sleepUntil := func(d time.Duration) {
		end := time.Now().Add(d)
		for time.Now().Before(end) {
			resumeDue(false)
			time.Sleep(20 * time.Millisecond)
		}
		resumeDue(false)
	}
	restart := func(i int) {
		t := r.now()
		detail := ""
		if c.nodes[i].getState() == stTerming {
			if !c.reap(i, 15*time.Second) {
				detail = "graceful stop took more than 15 s, killed"
			}
		}
		if err := c.start(i); err != nil {
			detail += " start: " + err.Error()
		}
		r.event("restart", i, t, r.now(), detail)
	}
	for _, s := range r.p.Nemesis {
		sleepUntil(time.Duration(s.DelayMs) * time.Millisecond)
		up := r.nodesIn(stUp)
		unavailable := c.opts.N - len(up)
		kind := s.Kind
		needsVictim := kind == "kill_leader" || kind == "kill_random" || kind == "term_random" || kind == "pause_leader" || kind == "pause_random"
		if needsVictim && unavailable >= maxUnavail {
			kind = "restart"
		}
		if kind == "restart" && len(r.nodesIn(stDown, stTerming)) == 0 {
			kind = "transfer" // nothing to restart
		}
		if kind == "pause_followers" && (unavailable > 0 || c.leader() < 0) {
			kind = "pause_leader"
			if unavailable >= maxUnavail {
				kind = "restart"
			}
		}
		switch kind {
		case "pause_followers":
			// a schedule, not a fault: every follower is descheduled (SIGSTOP) for longer than the
			// 4 s proposal deadline while the leader keeps taking writes; the leader's proposals time
			// out with their entries still in its log, and commit and apply after the followers resume
			l := c.leader()
			t := r.now()
			dur := time.Duration(4200+s.DurMs%1800) * time.Millisecond
			for _, i := range up {
				if i != l {
					c.pause(i)
					resumeAt[i] = time.Now().Add(dur)
				}
			}
			r.event(kind, l, t, r.now(), fmt.Sprintf("all followers of leader %d paused for %v", l, dur))
		case "restart":
			down := r.nodesIn(stDown, stTerming)
			if len(down) == 0 {
				r.event("noop", -1, r.now(), r.now(), "restart: nothing is down")
				continue
			}
			restart(down[s.Pick%len(down)])
		case "kill_leader", "kill_random", "term_random", "pause_leader", "pause_random":
			v := up[s.Pick%len(up)]
			if strings.HasSuffix(kind, "_leader") {
				if l := c.leader(); l >= 0 {
					v = l
				}
			}
			if strings.HasPrefix(kind, "kill") {
				// aim: wait (bounded) until a write is in flight - on the victim if possible -
				// then let a drawn number of microseconds pass so that the kill lands anywhere
				// in the life of that write
				aim := time.Now().Add(600 * time.Millisecond)
				for time.Now().Before(aim) {
					if atomic.LoadInt32(&r.inflight[v]) > 0 {
						break
					}
					if time.Until(aim) < 400*time.Millisecond {
						any := false
						for i := range r.inflight {
							any = any || atomic.LoadInt32(&r.inflight[i]) > 0
						}
						if any {
							break
						}
					}
					time.Sleep(20 * time.Microsecond)
				}
				if d := (s.DurMs * 37) % 500; d >= 60 {
					time.Sleep(time.Duration(d) * time.Microsecond)
				}
			}
			t := r.now()
			switch {
			case strings.HasPrefix(kind, "kill"):
				c.kill9(v)
			case strings.HasPrefix(kind, "term"):
				c.sigterm(v)
			default:
				c.pause(v)
				d := s.DurMs
				if s.Pick%3 == 0 {
					d += 3000 // sometimes longer than the 4 s proposal deadline
				}
				resumeAt[v] = time.Now().Add(time.Duration(d) * time.Millisecond)
			}
			r.event(kind, v, t, r.now(), "")
		case "transfer":
			l := c.leader()
			if l < 0 {
				r.event("noop", -1, r.now(), r.now(), "transfer: no leader")
				continue
			}
			var cands []int
			for _, i := range up {
				if i != l {
					cands = append(cands, i)
				}
			}
			if len(cands) == 0 {
				continue
			}
			to := cands[s.Pick%len(cands)]
			t := r.now()
			res, err := c.transfer(l, to)
			if err != nil {
				res = "http: " + err.Error()
			}
			r.event("transfer", l, t, r.now(), fmt.Sprintf("to node %d: %s", to, res))
		}
	}
	// end of the plan: everything comes back
	resumeDue(true)
	for _, i := range r.nodesIn(stDown, stTerming) {
		restart(i)
	}
}

// settle waits until every replica is up, one leader serves, a barrier write has been
// applied everywhere and the applied indexes agree and stay put; then dumps every replica
// and verifies that no index moved while dumping. Returns nil if the cluster did not get
// there in time (inconclusive, never a violation).
func (r *runner) settle(limit time.Duration) (*finalState, string) {
	c := r.cl
	deadline := time.Now().Add(limit)
	why := ""
	restarts, stuckRestarts := 0, 0
	lastAnswer := make([]time.Time, c.opts.N)
	for i := range lastAnswer {
		lastAnswer[i] = time.Now()
	}
	defer func() {
		if stuckRestarts > 0 {
			rec.Count("settle_restarted_replica_without_namespace", int64(stuckRestarts))
		}
	}()
	for time.Now().Before(deadline) {
		time.Sleep(100 * time.Millisecond)
		for i, n := range c.nodes {
			if !n.alive() {
				n.mu.Lock()
				n.state = stDown
				n.mu.Unlock()
				if restarts >= 2*c.opts.N {
					return nil, fmt.Sprintf("node %d keeps exiting", i)
				}
				restarts++
				r.note("settle: node %d is not running, starting it", i)
				c.start(i)
			}
		}
		all := true
		for i := range c.nodes {
			st, ok := c.status(i)
			if ok {
				lastAnswer[i] = time.Now()
			} else if time.Since(lastAnswer[i]) > 4*time.Second && restarts < 2*c.opts.N {
				// The process runs but its namespace is gone: a replica whose snapshot restore
				// failed (the leader had already purged the checkpoint it asked for) stops its
				// namespace and waits for the cluster coordinator to re-create it. There is no
				// coordinator here, so the harness does what an operator would: restart it.
				restarts++
				stuckRestarts++
				r.note("settle: node %d runs but does not serve its namespace, restarting it", i)
				diag("history with plan %s: replica %d was running without its namespace at settle time and was restarted; filtered log tail:\n%s", r.planHash, i, filteredTail(c, i))
				c.kill9(i)
				c.start(i)
				lastAnswer[i] = time.Now()
			}
			if !ok || !st.Ready {
				all = false
				why = fmt.Sprintf("node %d not ready (%+v)", i, st)
				break
			}
		}
		if !all {
			continue
		}
		l := c.leader()
		if l < 0 {
			why = "no leader"
			continue
		}
		// barrier: two writes through the leader on a key outside the history
		bc := &respConn{addr: "127.0.0.1:" + strconv.Itoa(c.nodes[l].ports.redis)}
		okb := true
		for j := 0; j < 2; j++ {
			v, err := bc.do([]string{"incr", fullKey("barrier")}, opTimeout)
			if err != nil || v.T != "i" {
				okb = false
				why = fmt.Sprintf("barrier write on node %d: %v %v", l, v, err)
				break
			}
		}
		bc.close()
		if !okb {
			continue
		}
		agree := func() (uint64, bool) {
			var a uint64
			for i := range c.nodes {
				st, ok := c.status(i)
				if !ok || !st.Ready {
					why = fmt.Sprintf("node %d not ready", i)
					return 0, false
				}
				if i == 0 {
					a = st.Applied
				}
				if st.Applied != a || st.Commit != a {
					why = fmt.Sprintf("applied/commit indexes differ: node %d applied %d commit %d, node 0 applied %d", i, st.Applied, st.Commit, a)
					return 0, false
				}
			}
			return a, true
		}
		a1, ok := agree()
		if !ok {
			continue
		}
		time.Sleep(250 * time.Millisecond)
		a2, ok := agree()
		if !ok || a2 != a1 {
			why = "applied index still moving"
			continue
		}
		fs := &finalState{T: r.now()}
		bad := false
		for i := range c.nodes {
			if err := c.setStaleRead(i, true); err != nil {
				why = fmt.Sprintf("staleread switch on node %d: %v", i, err)
				bad = true
				break
			}
			d, err := c.dumpReplica(i, r.p.Keys)
			if err != nil {
				why = err.Error()
				bad = true
				break
			}
			fs.Dumps = append(fs.Dumps, d)
			fs.Applied = append(fs.Applied, a2)
		}
		if bad {
			continue
		}
		a3, ok := agree()
		if !ok || a3 != a2 {
			why = "applied index moved while dumping"
			continue
		}
		return fs, ""
	}
	return nil, why
}

var (
	violMu     sync.Mutex
	violations []string
	violN      int
)

// filteredTail: the end of a node's log without the per-message noise of a replica that
// no longer has its namespace.
func filteredTail(c *cluster, i int) string {
	b, err := os.ReadFile(c.nodes[i].logPath)
	if err != nil {
		return ""
	}
	var keep []string
	for _, l := range strings.Split(string(b), "\n") {
		if strings.Contains(l, "kv namespace not found") || strings.Contains(l, "failed to process raft message") ||
			strings.Contains(l, "\"msg\":\"copy ") || strings.Contains(l, "snapshot data") || strings.Contains(l, "create snapshot with conf") {
			continue
		}
		if len(l) > 400 {
			l = l[:400]
		}
		keep = append(keep, l)
	}
	if len(keep) > 40 {
		keep = keep[len(keep)-40:]
	}
	return strings.Join(keep, "\n")
}

func bucket(n int, edges ...int) string {
	for _, e := range edges {
		if n <= e {
			return "<=" + strconv.Itoa(e)
		}
	}
	return ">" + strconv.Itoa(edges[len(edges)-1])
}

func inconclusive(reason string, detail string) {
	rec.Count("inconclusive", 1)
	rec.Count("inconclusive_"+reason, 1)
	diag("inconclusive history (%s): %s", reason, detail)
}

// diag keeps what a maintainer needs to look into histories that were skipped (or into a
// replica that exited on its own): stdout, and replays/C04/notes-<tier>-<shard>-seed<n>.log,
// because the driver keeps the output of failing shards only.
var diagOnce sync.Once

func diag(format string, a ...interface{}) {
	msg := fmt.Sprintf(format, a...)
	fmt.Printf("C04-NOTE %s\n", msg)
	root := os.Getenv("VERIF_ROOT")
	if root == "" || os.Getenv("VERIF_SHARD") == "" {
		return
	}
	fn := filepath.Join(root, "replays", "C04", fmt.Sprintf("notes-%s-%s-seed%s.log", os.Getenv("VERIF_TIER"), os.Getenv("VERIF_SHARD"), os.Getenv("VERIF_SEED")))
	flags := os.O_CREATE | os.O_WRONLY | os.O_APPEND
	diagOnce.Do(func() { flags = os.O_CREATE | os.O_WRONLY | os.O_TRUNC })
	if f, err := os.OpenFile(fn, flags, 0644); err == nil {
		fmt.Fprintf(f, "%s %s\n\n", time.Now().Format("15:04:05"), msg)
		f.Close()
	}
}

func runHistory(t *rapid.T, outer *testing.T) {
	p := drawPlan(t)
	violMu.Lock()
	stopNow := len(violations) > 0
	violMu.Unlock()
	if stopNow {
		return // a violation has been recorded; the run ends without generating more load
	}
	pj, _ := json.Marshal(p)
	planHash := stats.Hash(pj)

	bin, err := nodeBinary()
	if err != nil {
		fmt.Printf("HARNESS: %v\n", err)
		os.Exit(2)
	}
	cl, err := newCluster(bin, p.Opts)
	if err != nil {
		inconclusive("setup", err.Error())
		return
	}
	defer cl.destroy()
	for i := range cl.nodes {
		if err := cl.start(i); err != nil {
			inconclusive("setup", err.Error())
			return
		}
	}
	// wait for a leader and for every node to be ready (polled, bounded)
	startDeadline := time.Now().Add(40 * time.Second)
	for {
		ready := 0
		for i := range cl.nodes {
			if st, ok := cl.status(i); ok && st.Ready && st.Lead != 0 {
				ready++
			}
		}
		if ready == p.Opts.N && cl.leader() >= 0 {
			break
		}
		if time.Now().After(startDeadline) {
			d := ""
			for i := range cl.nodes {
				d += fmt.Sprintf("\n--- node %d alive=%v log tail:\n%s", i, cl.nodes[i].alive(), cl.logTail(i, 1500))
			}
			inconclusive("start", "cluster did not come up in 40 s"+d)
			return
		}
		time.Sleep(50 * time.Millisecond)
	}

	r := &runner{p: p, cl: cl, t0: time.Now(), planHash: fmt.Sprintf("%016x", planHash), leader: -1, inflight: make([]int32, p.Opts.N), seenLead: map[[2]uint64]bool{}, lastSnap: make([]uint64, p.Opts.N)}
	monDone := make(chan struct{})
	var monWG sync.WaitGroup
	monWG.Add(1)
	go r.monitor(monDone, &monWG)

	recs := make([][]opRec, len(p.Clients))
	var cwg sync.WaitGroup
	for ci := range p.Clients {
		cwg.Add(1)
		go r.client(ci, &recs[ci], &cwg)
	}
	r.nemesis()
	// tail: everything is (being) restarted; let the clients get acknowledged writes again
	tailDeadline := time.Now().Add(20 * time.Second)
	for time.Now().Before(tailDeadline) {
		if atomic.LoadInt32(&r.leader) >= 0 {
			break
		}
		time.Sleep(50 * time.Millisecond)
	}
	time.Sleep(time.Duration(p.TailMs) * time.Millisecond)
	atomic.StoreInt32(&r.stop, 1)
	cwg.Wait()

	final, why := r.settle(60 * time.Second)
	close(monDone)
	monWG.Wait()

	h := &history{Version: 1, PlanHash: fmt.Sprintf("%016x", planHash), Opts: p.Opts, Keys: p.Keys, Clients: len(p.Clients),
		Nemesis: r.nem, Leaders: r.leaders, SnapObs: r.snapObs, LogStats: cl.logStats(), Final: final}
	ckLines, slow, restored := cl.checkpointEvidence()
	for nm := range slow {
		if restored[nm] {
			h.SlowRestoredCheckpoints = append(h.SlowRestoredCheckpoints, fmt.Sprintf("%s (%v)", nm, slow[nm]))
		}
	}
	sort.Strings(h.SlowRestoredCheckpoints)
	if len(h.SlowRestoredCheckpoints) > 0 {
		rec.Count("histories_restoring_a_checkpoint_slower_than_its_frozen_signal", 1)
	}
	for _, rs := range recs {
		h.Ops = append(h.Ops, rs...)
	}
	sort.SliceStable(h.Ops, func(i, j int) bool { return h.Ops[i].Invoke < h.Ops[j].Invoke })
	for i := range h.Ops {
		h.Ops[i].ID = i
	}
	sort.SliceStable(h.Leaders, func(i, j int) bool { return h.Leaders[i].Term < h.Leaders[j].Term })

	if final == nil {
		d := why
		for i := range cl.nodes {
			st, _ := cl.status(i)
			d += fmt.Sprintf("\n--- node %d alive=%v status=%+v log tail:\n%s", i, cl.nodes[i].alive(), st, filteredTail(cl, i))
		}
		inconclusive("settle", d)
		if os.Getenv("C04_KEEP_INCONCLUSIVE") != "" {
			saveHistory(h, "inconclusive")
		}
		return
	}

	if os.Getenv("C04_SAVE_ALL") != "" {
		saveHistory(h, "history")
	}
	v := checkHistory(h, linTimeout)
	labels, nontrivial := classifyHistory(h, v)
	for k, n := range v.Counts {
		rec.Count(k, int64(n))
	}
	for k, n := range h.LogStats {
		rec.Count(k, int64(n))
	}
	fmt.Printf("C04-HIST %s ops=%d dur=%.1fs counts=%v logs=%v nemesis=%d leaders=%d labels=%v inconclusive=%v violations=%d\n", h.PlanHash, len(h.Ops),
		float64(final.T)/1e9, v.Counts, h.LogStats, len(h.Nemesis), len(h.Leaders), labels, v.Inconclusive, len(v.Violations))
	for _, n := range v.Notes {
		diag("history with plan %s: %s", h.PlanHash, n)
	}
	if len(v.Violations) > 0 && known.Active(findCheckpointLeak) && len(h.SlowRestoredCheckpoints) > 0 {
		// The trigger of the recorded finding occurred in this history (it cannot be kept
		// out by construction: it is a race inside the replicas). The history is set aside,
		// counted, and kept for inspection; every history without the trigger is still
		// checked in full.
		rec.Count("excluded_by_known_finding", 1)
		sort.Strings(v.Violations)
		h.Verdict = v.Violations
		h.CheckpointLog = ckLines
		fn := saveHistory(h, "knownfinding")
		diag("history with plan %s fails (%s) and contains the trigger of known finding %s: restored checkpoints %v took longer than their frozen signal; history kept as %s",
			h.PlanHash, strings.Join(v.Violations, " | "), findCheckpointLeak, h.SlowRestoredCheckpoints, fn)
		return
	}
	if len(v.Violations) > 0 {
		sort.Strings(v.Violations)
		h.Verdict = v.Violations
		h.CheckpointLog = ckLines
		fn := saveHistory(h, "violation")
		msg := fmt.Sprintf("history %s (%d ops, %d nemesis events) violates C04: %s  [recorded history: %s]", h.PlanHash, len(h.Ops), len(h.Nemesis), strings.Join(v.Violations, " | "), fn)
		violMu.Lock()
		violations = append(violations, msg)
		violMu.Unlock()
		// reported on the enclosing test: rapid must neither shrink nor re-run a history
		outer.Errorf("%s", msg)
		return
	}
	if len(v.Inconclusive) > 0 {
		inconclusive("checker", fmt.Sprintf("plan %s: %s", h.PlanHash, strings.Join(v.Inconclusive, "; ")))
		if os.Getenv("C04_KEEP_INCONCLUSIVE") != "" {
			saveHistory(h, "inconclusive")
		}
		return
	}
	rec.Record(planHash, nontrivial, labels, func() interface{} { return sampleOf(h, p, labels) })
}

func saveHistory(h *history, prefix string) string {
	violMu.Lock()
	violN++
	n := violN
	violMu.Unlock()
	shard := os.Getenv("VERIF_SHARD")
	if shard == "" {
		shard = "local"
	}
	fn := fmt.Sprintf("%s-%s-%d.json", prefix, shard, n)
	if root := os.Getenv("VERIF_ROOT"); prefix == "knownfinding" && root != "" {
		fn = filepath.Join(root, "replays", "C04", fn)
	}
	if d := os.Getenv("C04_KEEP_INCONCLUSIVE"); d != "" && prefix != "violation" && prefix != "knownfinding" {
		if st, err := os.Stat(d); err == nil && st.IsDir() {
			fn = filepath.Join(d, fn)
		}
	}
	b, _ := json.MarshalIndent(h, "", " ")
	if err := os.WriteFile(fn, b, 0644); err != nil {
		fmt.Printf("HARNESS: cannot write %s: %v\n", fn, err)
	}
	return fn
}

// classifyHistory computes the labels and the non-trivial rule from the recorded history.
func classifyHistory(h *history, v *verdict) ([]string, bool) {
	var labels []string
	acked := 0
	first, last := int64(-1), int64(-1)
	for i := range h.Ops {
		o := &h.Ops[i]
		if o.Kind == "read" || o.Outcome != "ok" || localNegative(o) {
			continue
		}
		acked++
		if first < 0 || o.Return < first {
			first = o.Return
		}
		if o.Return > last {
			last = o.Return
		}
	}
	killInflight, killInflightTarget := false, false
	kinds := map[string]bool{}
	for _, e := range h.Nemesis {
		kinds[e.Kind] = true
		if !strings.HasPrefix(e.Kind, "kill") {
			continue
		}
		for i := range h.Ops {
			o := &h.Ops[i]
			if o.Kind == "read" || o.Outcome == "fail" {
				continue
			}
			if o.Invoke < e.T && o.Return > e.T {
				killInflight = true
				if o.Node == e.Node {
					killInflightTarget = true
				}
			}
		}
	}
	for k := range kinds {
		labels = append(labels, "nemesis:"+k)
	}
	changes, changeBetween := 0, false
	for i := 1; i < len(h.Leaders); i++ {
		if h.Leaders[i].Node != h.Leaders[i-1].Node {
			changes++
			if h.Leaders[i].T > first && h.Leaders[i].T < last {
				changeBetween = true
			}
		}
	}
	labels = append(labels, "leader_changes:"+bucket(changes, 0, 1, 2, 4, 8))
	labels = append(labels, "snapshots_taken:"+bucket(h.LogStats["log_snapshot_started"], 0, 2, 5, 10, 20, 40))
	labels = append(labels, "snapshots_installed:"+bucket(h.LogStats["log_snapshot_installed"], 0, 1, 2, 4))
	labels = append(labels, "acked_writes:"+bucket(acked, 29, 100, 300, 1000, 3000))
	labels = append(labels, "unknown_writes:"+bucket(v.Counts["unknown_writes"], 0, 2, 5, 10, 20, 40))
	if h.Opts.Stall != "" {
		labels = append(labels, "apply_loop_stalled_beyond_proposal_deadline")
	}
	labels = append(labels, fmt.Sprintf("nodes:%d", h.Opts.N), "engine:"+h.Opts.Engine, fmt.Sprintf("clients:%d", h.Clients), fmt.Sprintf("keys:%d", len(h.Keys)))
	if killInflight {
		labels = append(labels, "kill9_during_inflight_write")
	}
	if killInflightTarget {
		labels = append(labels, "kill9_of_node_serving_inflight_write")
	}
	if changeBetween {
		labels = append(labels, "leader_change_between_acks")
	}
	if v.Counts["local_negative_excluded"] > 0 {
		labels = append(labels, "has_local_negative_replies")
	}
	nt := acked >= 30 && killInflight && changeBetween
	if nt {
		labels = append(labels, "nontrivial")
	}
	sort.Strings(labels)
	return labels, nt
}

func sampleOf(h *history, p plan, labels []string) interface{} {
	var nem []string
	for _, e := range h.Nemesis {
		nem = append(nem, fmt.Sprintf("%.2fs %s node %d %s", float64(e.T)/1e9, e.Kind, e.Node, e.Detail))
	}
	var lead []string
	for _, l := range h.Leaders {
		lead = append(lead, fmt.Sprintf("term %d node %d seen at %.2fs", l.Term, l.Node, float64(l.T)/1e9))
	}
	var firstOps []string
	for i := 0; i < len(h.Ops) && i < 12; i++ {
		o := h.Ops[i]
		rp := "-"
		if o.Reply != nil {
			rp = o.Reply.String()
		}
		firstOps = append(firstOps, fmt.Sprintf("c%d@n%d %s %s %s%s %d -> %s %s", o.Client, o.Node, o.Kind, o.Key, o.Field, o.Arg, o.Delta, o.Outcome, rp))
	}
	fin := map[string]string{}
	for _, k := range h.Keys {
		fin[k.Name] = abbrev(h.Final.Dumps[0][k.Name])
	}
	return map[string]interface{}{
		"plan_hash": h.PlanHash, "opts": h.Opts, "keys": h.Keys, "clients": h.Clients, "ops_recorded": len(h.Ops),
		"duration_s": float64(h.Final.T) / 1e9, "nemesis": nem, "leaders": lead, "first_ops": firstOps, "final": fin, "labels": labels,
		"applied_index": h.Final.Applied,
	}
}

func TestLinearizable(t *testing.T) {
	if _, err := nodeBinary(); err != nil {
		fmt.Printf("HARNESS: %v\n", err)
		os.Exit(2)
	}
	rapid.Check(t, func(rt *rapid.T) { runHistory(rt, t) })
}

// TestReplay re-runs the checker on a recorded history ($VERIF_REPLAY). The verdict is a
// function of the file alone.
func TestReplay(t *testing.T) {
	fn := os.Getenv("VERIF_REPLAY")
	if fn == "" {
		t.Skip("VERIF_REPLAY not set")
	}
	b, err := os.ReadFile(fn)
	if err != nil {
		fmt.Printf("HARNESS: %v\n", err)
		os.Exit(2)
	}
	var h history
	if err := json.Unmarshal(b, &h); err != nil {
		fmt.Printf("HARNESS: cannot parse %s: %v\n", fn, err)
		os.Exit(2)
	}
	v := checkHistory(&h, 10*time.Minute)
	sort.Strings(v.Violations)
	for _, m := range v.Inconclusive {
		t.Logf("inconclusive: %s", m)
	}
	for _, m := range v.Violations {
		t.Errorf("recorded history %s (%d ops): %s", h.PlanHash, len(h.Ops), m)
	}
	if len(v.Violations) == 0 {
		t.Logf("recorded history %s: no violation (%v)", h.PlanHash, v.Counts)
	}
}
