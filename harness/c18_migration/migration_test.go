package c18

// C18 - replica migration never drops a partition below a safe quorum.
//
// A real PDCoordinator (never Start()ed, so none of its goroutines run) is wired to an
// in-memory register (register_test.go) and to a pool of loopback HTTP servers that play
// the data nodes: the server port is embedded in the node id, so the production probes
// (IsRaftNodeSynced, IsAllISRFullReady, IsRaftNodeJoined -> common.APIRequest) run
// unchanged. rapid draws a sequence of cluster events, probe answers, register faults
// and coordinator actions; the oracle is evaluated inside the register on EVERY accepted
// UpdateNamespacePartReplicaInfo, relative to the value it replaces.
//
// Oracle = the clauses of the property statement, each under the precondition the code
// intends it (see the comments at checkWrite).

import (
	"encoding/json"
	"fmt"
	"net"
	"net/http"
	"net/http/httptest"
	"os"
	"runtime"
	"sort"
	"strconv"
	"strings"
	"sync"
	"sync/atomic"
	"testing"
	"time"

	"github.com/youzan/ZanRedisDB/cluster"
	"github.com/youzan/ZanRedisDB/cluster/pdnode_coord"
	"github.com/youzan/ZanRedisDB/common"
	"pgregory.net/rapid"

	"verifharness/lib/known"
	"verifharness/lib/stats"
)

const findingPlacementPanic = "C18-placement-panic-live-nodes-all-in-row"

var placementActions = map[string]bool{"check_full": true, "check_single": true, "migrate": true, "balance_round": true, "decommission_round": true}

// placementPanics runs the real layout function on one input and reports a panic.
func placementPanics(ns string, pn, replica int, rows [][]string, nodes map[string]cluster.NodeInfo, ver string) (p interface{}) {
	defer func() { p = recover() }()
	old := make([][]string, len(rows))
	for i, r := range rows {
		old[i] = append([]string(nil), r...)
	}
	pdnode_coord.VerifRebalancedPartitions(ns, pn, replica, old, nodes, ver)
	return nil
}

func isKnownPlacementPanic(r interface{}, stack string) bool {
	return strings.Contains(fmt.Sprint(r), "interface {} is nil, not pdnode_coord.loadItem") && strings.Contains(stack, "fillPartitionMapV2")
}

// Regression probe for the known finding: minimal direct inputs, shaped exactly like what
// the coordinator passes (previous rows = the partitions' current remaining replicas, which
// hold replica+1 nodes between "replacement added" and "old replica dropped").
func TestKnownPlacementPanic(t *testing.T) {
	known.Probe(t, findingPlacementPanic, func() (bool, string) {
		pl := getPool()
		id := func(i int) string { return pl[i].info.ID }
		nodes := func(is ...int) map[string]cluster.NodeInfo {
			m := map[string]cluster.NodeInfo{}
			for _, i := range is {
				m[id(i)] = pl[i].info
			}
			return m
		}
		// (1) replica 2, one partition whose row is [X A B]; X is gone, A and B are the whole live set
		if p := placementPanics("c18ns", 1, 2, [][]string{{id(2), id(0), id(1)}}, nodes(0, 1), pdnode_coord.BalanceV2Str); p != nil {
			return true, fmt.Sprintf("v2 layout for replica=2, live nodes {A,B}, previous row [X,A,B] panics instead of returning a layout or refusing: %v (kills the pd process: no recover in checkNamespaces / handleRemovingNodes)", p)
		}
		// (2) decommission of X in a 4-node cluster, replica 3: partition 1 already got its replacement C
		if p := placementPanics("c18ns", 2, 3, [][]string{{id(0), id(3), id(1)}, {id(0), id(3), id(1), id(2)}}, nodes(0, 1, 2), pdnode_coord.BalanceV2Str); p != nil {
			return true, fmt.Sprintf("v2 layout for replica=3, live nodes {A,B,C} (X being decommissioned), rows [[A,X,B],[A,X,B,C]] panics: %v", p)
		}
		// (3) through the coordinator: replica 2, two partitions on [n2 n1], cluster {n0 n1 n2}; n2 loses its
		// register session but keeps answering. The second check pass gives one partition its replacement
		// (row [n2 n1 n0]) and then places the other one.
		if p := probeCoordinatorScenario(); p != nil {
			return true, fmt.Sprintf("replica=2, partitions p0=p1=[n2 n1], nodes {n0,n1,n2}, n2 loses its register session: the second doCheckNamespaces pass panics after migrating the first partition: %v", p)
		}
		return false, ""
	})
}

func probeCoordinatorScenario() (p interface{}) {
	pl := getPool()
	ns := "c18ns"
	w := &world{ns: ns, nodes: make([]nodeState, poolSize), ans: map[[2]int]answer{}}
	reg := newFakeRegister(ns, cluster.NamespaceMetaInfo{PartitionNum: 2, Replica: 2, MinGID: 1000})
	w.reg = reg
	for i := 0; i < 3; i++ {
		w.nodes[i] = nodeState{inCluster: true, registered: true, httpUp: true}
	}
	for pid := 0; pid < 2; pid++ {
		reg.seed(pid, cluster.PartitionReplicaInfo{RaftNodes: []string{pl[2].info.ID, pl[1].info.ID},
			RaftIDs: map[string]uint64{pl[2].info.ID: 1, pl[1].info.ID: 2}, Removings: map[string]cluster.RemovingInfo{}, MaxRaftID: 2})
	}
	curWorld.Store(w)
	defer curWorld.Store((*world)(nil))
	coord := pdnode_coord.VerifNewPDCoordinator(reg, pdnode_coord.BalanceV2Str, true)
	coord.VerifSetDataNodes([]cluster.NodeInfo{pl[0].info, pl[1].info, pl[2].info})
	waiting := map[string]map[int]time.Time{}
	mon := make(chan struct{})
	w.mu.Lock()
	w.nodes[2].registered = false
	w.mu.Unlock()
	coord.VerifSetDataNodes([]cluster.NodeInfo{pl[0].info, pl[1].info})
	defer func() { p = recover() }()
	coord.VerifDoCheckNamespaces(mon, nil, waiting, true)
	coord.VerifDoCheckNamespaces(mon, nil, waiting, true)
	return nil
}

func TestMain(m *testing.M) {
	cluster.SetLogger(0, nil)
	// The two wall-clock waits are set to zero by hook: "long enough ago" is then true for
	// every mark/failure observed in an earlier step (the 'seen failing once before' rule of
	// the check pass and the RemoveTime == 0 special case keep their meaning).
	pdnode_coord.VerifSetWaitIntervals(0, 0)
	code := m.Run()
	for _, p := range pool {
		p.srv.Close()
	}
	stats.FlushAll()
	os.Exit(code)
}

const ntRule = "non-trivial = the sequence has >=2 accepted metadata writes and one of them newly marks a removal while another replica of that partition (not the marked one) is down (unregistered or not answering) or answers 'not synced'"

var recSeq = stats.New("migration_sequences", "rapid: replication 1-5, 1-3 partitions, 3-8 data nodes (+ later additions), any valid initial layout (quorum, <=1 removal, <= replica+1 nodes, arbitrary ids <= MaxRaftID), then 5-60 steps of {node down/up/session lost/http unreachable/added/marked for decommission, probe answers per (node,partition): synced / member view, register faults: CAS failure, write error, commit-with-lost-reply, scan error, cache refresh} interleaved with coordinator actions {full and single-partition check pass, handleNamespaceMigrate, removeNamespaceFromRemovings, balance round, decommission round, gated add/remove, operator remove}; "+ntRule)

// ---------------------------------------------------------------- data node pool (HTTP)

const poolSize = 10

type poolNode struct {
	idx  int
	srv  *httptest.Server
	info cluster.NodeInfo
}

var (
	pool     []*poolNode
	poolOnce sync.Once
	curWorld atomic.Value // *world
)

func getPool() []*poolNode {
	poolOnce.Do(func() {
		for i := 0; i < poolSize; i++ {
			p := &poolNode{idx: i}
			p.srv = httptest.NewServer(http.HandlerFunc(func(rw http.ResponseWriter, req *http.Request) { serveNode(p, rw, req) }))
			_, port, _ := net.SplitHostPort(p.srv.Listener.Addr().String())
			p.info = cluster.NodeInfo{RegID: uint64(i + 1), NodeIP: "127.0.0.1", RedisPort: strconv.Itoa(21000 + i), HttpPort: port}
			p.info.ID = cluster.GenNodeID(&p.info, "datanode")
			pool = append(pool, p)
		}
	})
	return pool
}

// member view modes of a data node for one partition
const (
	viewApplied = iota // current RaftNodes minus Removings: everything the coordinator wrote is applied in raft
	viewAll            // current RaftNodes including a replica marked for removal (removal not applied yet)
	viewLagging        // the membership before the last accepted write
	viewNone           // namespace not loaded on this node: 404 on every probe
)

var viewNames = []string{"applied", "all", "lagging", "none"}

type answer struct {
	synced bool
	view   int
}

type nodeState struct {
	inCluster  bool // has joined at some point
	registered bool // present in the live set handed to the coordinator
	httpUp     bool // answers the coordinator's probes at all
}

type world struct {
	mu     sync.RWMutex
	ns     string
	reg    *fakeRegister
	nodes  []nodeState
	ans    map[[2]int]answer
	probes int64
}

func (w *world) answerOf(idx, pid int) answer {
	a, ok := w.ans[[2]int{idx, pid}]
	if !ok {
		return answer{synced: true, view: viewApplied}
	}
	return a
}

func closeConn(rw http.ResponseWriter) {
	if hj, ok := rw.(http.Hijacker); ok {
		if c, _, err := hj.Hijack(); err == nil {
			c.Close()
			return
		}
	}
	rw.WriteHeader(http.StatusServiceUnavailable)
}

func serveNode(p *poolNode, rw http.ResponseWriter, req *http.Request) {
	w, _ := curWorld.Load().(*world)
	if w == nil || w.reg == nil {
		closeConn(rw)
		return
	}
	w.mu.RLock()
	defer w.mu.RUnlock()
	atomic.AddInt64(&w.probes, 1)
	if !w.nodes[p.idx].httpUp {
		closeConn(rw)
		return
	}
	rw.Header().Set("Connection", "close")
	var kind, full string
	switch {
	case strings.HasPrefix(req.URL.Path, common.APIGetMembers+"/"):
		kind, full = "members", req.URL.Path[len(common.APIGetMembers)+1:]
	case strings.HasPrefix(req.URL.Path, common.APIIsRaftSynced+"/"):
		kind, full = "synced", req.URL.Path[len(common.APIIsRaftSynced)+1:]
	default:
		common.RespondV1(rw, 404, "no such api in the harness data node")
		return
	}
	i := strings.LastIndex(full, "-")
	pid := -1
	if i > 0 && full[:i] == w.ns {
		pid, _ = strconv.Atoi(full[i+1:])
	}
	a := w.answerOf(p.idx, pid)
	if pid < 0 || a.view == viewNone {
		common.RespondV1(rw, 404, "no namespace found")
		return
	}
	if kind == "synced" {
		if !a.synced {
			common.RespondV1(rw, http.StatusNotAcceptable, "raft node is not synced yet")
			return
		}
		common.RespondV1(rw, 200, nil)
		return
	}
	var src *cluster.PartitionReplicaInfo
	if a.view == viewLagging {
		src = w.reg.previous(pid)
	}
	if src == nil {
		src = w.reg.current(pid)
	}
	members := []*common.MemberInfo{}
	if src != nil {
		for _, nid := range src.RaftNodes {
			if _, rm := src.Removings[nid]; rm && a.view == viewApplied {
				continue
			}
			members = append(members, &common.MemberInfo{ID: src.RaftIDs[nid], NodeID: cluster.ExtractRegIDFromGenID(nid), GroupName: full})
		}
	}
	b, _ := json.Marshal(members)
	rw.Header().Set("Content-Type", "application/json; charset=utf-8")
	rw.WriteHeader(200)
	rw.Write(b)
}

// ---------------------------------------------------------------- oracle

type seqState struct {
	w         *world
	replica   int
	idx       map[string]int // node id -> pool index
	maxSeen   map[int]uint64 // partition -> largest raft replica id ever seen
	action    string         // action that is currently running
	operator  bool           // the running action is the operator's RemoveNamespaceFromNode API
	writes    int
	ntHit     bool
	labels    map[string]bool
	trace     []string
	violation string
}

func (s *seqState) name(nid string) string {
	if i, ok := s.idx[nid]; ok {
		return fmt.Sprintf("n%d", i)
	}
	return "?" + nid
}

func (s *seqState) render(v *cluster.PartitionReplicaInfo) string {
	if v == nil {
		return "<none>"
	}
	var parts []string
	for _, n := range v.RaftNodes {
		x := fmt.Sprintf("%s#%d", s.name(n), v.RaftIDs[n])
		if _, ok := v.Removings[n]; ok {
			x += "(removing)"
		}
		parts = append(parts, x)
	}
	var extra []string
	for n := range v.Removings {
		if cluster.FindSlice(v.RaftNodes, n) == -1 {
			extra = append(extra, s.name(n))
		}
	}
	sort.Strings(extra)
	return fmt.Sprintf("[%s] maxid=%d strayRemovings=%v", strings.Join(parts, " "), v.MaxRaftID, extra)
}

func (s *seqState) noteIDs(pid int, v *cluster.PartitionReplicaInfo) {
	for _, id := range v.RaftIDs {
		if id > s.maxSeen[pid] {
			s.maxSeen[pid] = id
		}
	}
	for _, r := range v.Removings {
		if r.RemoveReplicaID > s.maxSeen[pid] {
			s.maxSeen[pid] = r.RemoveReplicaID
		}
	}
}

func (s *seqState) fail(format string, args ...interface{}) {
	if s.violation == "" {
		s.violation = fmt.Sprintf(format, args...)
	}
}

// checkWrite is called by the register for every accepted write (register lock held).
func (s *seqState) checkWrite(pid int, prev, next *cluster.PartitionReplicaInfo) {
	s.writes++
	w := s.w
	R := s.replica
	s.trace = append(s.trace, fmt.Sprintf("    ACCEPTED p%d: %s -> %s", pid, s.render(prev), s.render(next)))
	what := fmt.Sprintf("partition %d, replica setting %d, during %q:\n  before: %s\n  after : %s", pid, R, s.action, s.render(prev), s.render(next))

	// clause 1: at most one replica marked for removal at a time
	if len(next.Removings) > 1 {
		s.fail("more than one replica marked for removal: %s", what)
	}
	// clause 2: the remaining replicas (RaftNodes minus Removings) are on distinct nodes and a
	// strict majority of the configured replication factor (which never changes inside a sequence)
	isr := next.GetISR()
	seen := map[string]bool{}
	for _, n := range isr {
		if seen[n] {
			s.fail("remaining replicas are not on distinct nodes (%s twice): %s", s.name(n), what)
		}
		seen[n] = true
	}
	if !(len(isr) > R/2) {
		s.fail("remaining replicas %d are not a strict majority of replication factor %d: %s", len(isr), R, what)
	}
	var prevNodes []string
	prevIDs := map[string]uint64{}
	prevRemovings := map[string]cluster.RemovingInfo{}
	var prevISR []string
	if prev != nil {
		prevNodes, prevIDs, prevRemovings, prevISR = prev.RaftNodes, prev.RaftIDs, prev.Removings, prev.GetISR()
	}
	// clause 3: replacements are added one at a time and only when the current (remaining)
	// replicas report being in sync: each answers the probe and answers "synced"
	var added []string
	for _, n := range next.RaftNodes {
		if cluster.FindSlice(prevNodes, n) == -1 {
			added = append(added, n)
		}
	}
	if prev != nil && len(added) > 1 {
		s.fail("%d replicas added by one write: %s", len(added), what)
	}
	if prev != nil && len(added) == 1 {
		s.labels["write_adds_replica"] = true
		for _, n := range prevISR {
			i, ok := s.idx[n]
			a := answer{}
			if ok {
				a = w.answerOf(i, pid)
			}
			if !ok || !w.nodes[i].httpUp || a.view == viewNone || !a.synced {
				s.fail("replica %s added while current replica %s does not report being in sync (reachable=%v answer=%+v): %s", s.name(added[0]), s.name(n), ok && w.nodes[i].httpUp, a, what)
			}
		}
	}
	// clause 4: raft replica ids are never reused: unique, and every newly assigned id is
	// greater than every id ever seen for the partition
	byID := map[uint64]string{}
	for _, n := range next.RaftNodes {
		id, ok := next.RaftIDs[n]
		if !ok {
			continue
		}
		if o, dup := byID[id]; dup {
			s.fail("raft replica id %d used by %s and %s: %s", id, s.name(o), s.name(n), what)
		}
		byID[id] = n
	}
	if prev != nil {
		for n, id := range next.RaftIDs {
			if old, ok := prevIDs[n]; ok && old == id {
				continue
			}
			if id <= s.maxSeen[pid] {
				s.fail("replica %s got raft id %d which is not greater than the largest id ever seen (%d): %s", s.name(n), id, s.maxSeen[pid], what)
			}
		}
	}
	s.noteIDs(pid, next)
	// clause 5: a removal is never newly marked while more than half of the replicas are
	// unreachable (do not answer the coordinator). Not asserted for the operator API, which
	// by design takes no liveness input: there the operator decides.
	var marked []string
	for n := range next.Removings {
		if _, ok := prevRemovings[n]; !ok {
			marked = append(marked, n)
		}
	}
	sort.Strings(marked)
	if prev != nil && len(marked) > 0 {
		s.labels["write_marks_removal"] = true
		unreach := 0
		degraded := false
		for _, n := range prevNodes {
			i, ok := s.idx[n]
			up := ok && w.nodes[i].httpUp
			if !up {
				unreach++
			}
			if n != marked[0] {
				a := answer{}
				if ok {
					a = w.answerOf(i, pid)
				}
				if !ok || !w.nodes[i].httpUp || !w.nodes[i].registered || !a.synced || a.view == viewNone {
					degraded = true
				}
			}
		}
		if !s.operator && 2*unreach > len(prevNodes) {
			s.fail("removal of %s marked while %d of %d replicas are unreachable: %s", s.name(marked[0]), unreach, len(prevNodes), what)
		}
		if degraded {
			s.ntHit = true
			s.labels["removal_marked_while_other_replica_degraded"] = true
		}
		if s.operator {
			s.labels["operator_marked_removal"] = true
		}
	}
	if prev != nil && len(next.RaftNodes) < len(prevNodes) {
		s.labels["write_drops_replica"] = true
	}
	if prev != nil && len(added) == 0 && len(marked) == 0 && len(next.RaftNodes) == len(prevNodes) {
		s.labels["write_reorders_leader"] = true
	}
}

// ---------------------------------------------------------------- sequence driver

func drawSubset(t *rapid.T, from []int, k int, label string) []int {
	c := append([]int(nil), from...)
	for i := 0; i < k; i++ {
		j := rapid.IntRange(i, len(c)-1).Draw(t, label)
		c[i], c[j] = c[j], c[i]
	}
	return c[:k]
}

func TestMigrationSequences(t *testing.T) {
	pl := getPool()
	rapid.Check(t, func(t *rapid.T) {
		R := rapid.SampledFrom([]int{1, 2, 3, 3, 3, 4, 5, 5}).Draw(t, "replica")
		pn := rapid.SampledFrom([]int{1, 1, 1, 1, 2, 3}).Draw(t, "partitions")
		nStart := rapid.IntRange(3, 8).Draw(t, "nodes")
		ver := rapid.SampledFrom([]string{"v1", pdnode_coord.BalanceV2Str, pdnode_coord.BalanceV2Str}).Draw(t, "balancever")
		ns := "c18ns"

		w := &world{ns: ns, nodes: make([]nodeState, poolSize), ans: map[[2]int]answer{}}
		meta := cluster.NamespaceMetaInfo{PartitionNum: pn, Replica: R, MinGID: 1000, EngType: "rockredis"}
		reg := newFakeRegister(ns, meta)
		w.reg = reg
		s := &seqState{w: w, replica: R, idx: map[string]int{}, maxSeen: map[int]uint64{}, labels: map[string]bool{}}
		for i, p := range pl {
			s.idx[p.info.ID] = i
		}
		var clusterIdx []int
		for i := 0; i < nStart; i++ {
			w.nodes[i] = nodeState{inCluster: true, registered: true, httpUp: true}
			clusterIdx = append(clusterIdx, i)
		}
		var canon []string
		canon = append(canon, fmt.Sprintf("R%d pn%d n%d %s", R, pn, nStart, ver))
		// initial layout: any value satisfying the invariants
		for pid := 0; pid < pn; pid++ {
			minK := R/2 + 1
			maxK := R + 1
			if maxK > nStart {
				maxK = nStart
			}
			k := R
			if k > maxK {
				k = maxK
			}
			switch rapid.IntRange(0, 3).Draw(t, "sizemode") {
			case 0:
				k = maxK
			case 1:
				k = rapid.IntRange(minK, maxK).Draw(t, "size")
			}
			members := drawSubset(t, clusterIdx, k, "member")
			info := cluster.PartitionReplicaInfo{RaftIDs: map[string]uint64{}, Removings: map[string]cluster.RemovingInfo{}}
			id := uint64(rapid.IntRange(1, 4).Draw(t, "id0"))
			ids := make([]uint64, k)
			for i := range ids {
				ids[i] = id
				id += uint64(rapid.IntRange(1, 3).Draw(t, "idgap"))
			}
			order := drawSubset(t, seqInts(k), k, "idorder")
			var mx uint64
			for i, m := range members {
				nid := pl[m].info.ID
				info.RaftNodes = append(info.RaftNodes, nid)
				info.RaftIDs[nid] = ids[order[i]]
				if ids[order[i]] > mx {
					mx = ids[order[i]]
				}
			}
			info.MaxRaftID = int64(mx) + int64(rapid.IntRange(0, 2).Draw(t, "maxidslack"))
			if k-1 > R/2 && rapid.IntRange(0, 3).Draw(t, "initremoving") == 0 {
				nid := info.RaftNodes[rapid.IntRange(0, k-1).Draw(t, "removing")]
				rt := time.Now().Add(-time.Hour).UnixNano()
				if rapid.IntRange(0, 7).Draw(t, "zerotime") == 0 {
					rt = 0 // "pd leader changed while node removing by old pd leader"
				}
				info.Removings[nid] = cluster.RemovingInfo{RemoveTime: rt, RemoveReplicaID: info.RaftIDs[nid]}
				s.labels["initial_layout_with_removal"] = true
			}
			if k == R+1 {
				s.labels["initial_layout_replica_plus_one"] = true
			} else if k < R {
				s.labels["initial_layout_below_replica"] = true
			}
			reg.seed(pid, info)
			s.noteIDs(pid, &info)
			canon = append(canon, fmt.Sprintf("p%d=%s", pid, s.render(&info)))
			s.trace = append(s.trace, fmt.Sprintf("initial p%d: %s", pid, s.render(&info)))
		}
		reg.onAccepted = s.checkWrite
		curWorld.Store(w)
		defer curWorld.Store((*world)(nil))

		coord := pdnode_coord.VerifNewPDCoordinator(reg, ver, true)
		liveList := func() []cluster.NodeInfo {
			var out []cluster.NodeInfo
			for i := range w.nodes {
				if w.nodes[i].inCluster && w.nodes[i].registered {
					out = append(out, pl[i].info)
				}
			}
			return out
		}
		coord.VerifSetDataNodes(liveList())
		waiting := map[string]map[int]time.Time{}

		setNode := func(i int, f func(n *nodeState)) {
			w.mu.Lock()
			before := w.nodes[i].registered
			f(&w.nodes[i])
			after := w.nodes[i].registered
			w.mu.Unlock()
			if before != after {
				coord.VerifSetDataNodes(liveList())
			}
		}
		// pickNode prefers nodes that currently hold a replica (events on bystanders are mostly idle)
		pickNode := func() int {
			if rapid.IntRange(0, 9).Draw(t, "target") < 6 {
				if cur := reg.current(rapid.IntRange(0, pn-1).Draw(t, "ofpid")); cur != nil && len(cur.RaftNodes) > 0 {
					return s.idx[cur.RaftNodes[rapid.IntRange(0, len(cur.RaftNodes)-1).Draw(t, "member")]]
				}
			}
			var in []int
			for i := range w.nodes {
				if w.nodes[i].inCluster {
					in = append(in, i)
				}
			}
			return rapid.SampledFrom(in).Draw(t, "node")
		}
		inClusterNodes := func() []int {
			var out []int
			for i := range w.nodes {
				if w.nodes[i].inCluster {
					out = append(out, i)
				}
			}
			return out
		}
		// armed runs an action whose production code waits on the monitor channel or a 5 s
		// timer (balance / decommission rounds): the monitor channel is closed - the
		// coordinator "loses leadership" - at the first metadata write attempt or at the first
		// register read of addNodeToNamespaceAndWaitReady, so that every such wait returns
		// at once. A round therefore performs at most one write; the next round continues.
		armed := func(f func(mon chan struct{})) {
			mon := make(chan struct{})
			var once sync.Once
			closeMon := func() { once.Do(func() { close(mon) }) }
			reg.onAttempt, reg.onGetPart = closeMon, closeMon
			defer func() { reg.onAttempt, reg.onGetPart = nil, nil }()
			f(mon)
		}
		openMon := make(chan struct{})
		// Known finding (see TestKnownPlacementPanic): the v2 layout function panics when every
		// live node already sits in a partition's previous row and a slot of that row must be
		// refilled. While the finding is open, coordinator actions that would feed it exactly
		// such an input are skipped (and counted), so that the search goes on behind it.
		placementTrigger := func() bool {
			if ver != pdnode_coord.BalanceV2Str || !known.Active(findingPlacementPanic) {
				return false
			}
			removing := coord.VerifRemovingNodes()
			all, noRemoving := map[string]cluster.NodeInfo{}, map[string]cluster.NodeInfo{}
			for _, n := range liveList() {
				all[n.ID] = n
				if _, ok := removing[n.ID]; !ok {
					noRemoving[n.ID] = n
				}
			}
			reg.mu.Lock()
			var rowSets [][][]string
			for _, fresh := range []bool{true, false} {
				rows := make([][]string, pn)
				for pid := 0; pid < pn; pid++ {
					if fresh {
						if v, ok := reg.store[pid]; ok {
							rows[pid] = append([]string(nil), v.GetISR()...)
						}
					} else if v, ok := reg.cache[pid]; ok {
						rows[pid] = append([]string(nil), v.GetISR()...)
					}
				}
				rowSets = append(rowSets, rows)
			}
			reg.mu.Unlock()
			for _, rows := range rowSets {
				for _, nodes := range []map[string]cluster.NodeInfo{all, noRemoving} {
					if placementPanics(ns, pn, R, rows, nodes, ver) != nil {
						return true
					}
				}
			}
			return false
		}

		nSteps := rapid.IntRange(5, 60).Draw(t, "steps")
		for step := 0; step < nSteps; step++ {
			act := rapid.SampledFrom(actionTable).Draw(t, "action")
			desc := act
			s.operator = false
			mark := len(s.trace)
			ended := false
			if placementActions[act] && placementTrigger() {
				recSeq.Count("excluded_by_known_finding", 1)
				s.labels["action_skipped_known_finding"] = true
				act, desc = "skip", act+" (skipped: would feed the layout function the input of known finding "+findingPlacementPanic+")"
			}
			func() {
				defer func() {
					// a panic inside the coordinator is a failure of the code under test; report it with the sequence
					if r := recover(); r != nil {
						if strings.HasPrefix(fmt.Sprintf("%T", r), "rapid.") {
							panic(r) // rapid's own control flow (invalid data while shrinking, stop test)
						}
						buf := make([]byte, 1<<14)
						buf = buf[:runtime.Stack(buf, false)]
						if known.Active(findingPlacementPanic) && isKnownPlacementPanic(r, string(buf)) {
							// the trigger arose inside the action (e.g. the pass gave partition 0 its replacement and
							// then placed partition 1): production would have died here, the sequence ends
							recSeq.Count("excluded_by_known_finding", 1)
							s.labels["sequence_ended_by_known_finding"] = true
							desc += " (pd would die here: known finding " + findingPlacementPanic + "; sequence ends)"
							ended = true
							return
						}
						s.fail("PANIC in the coordinator during %q: %v\n%s", desc, r, trimStack(string(buf)))
					}
				}()
				switch act {
				case "node_down":
					i := pickNode()
					desc = fmt.Sprintf("node_down n%d", i)
					setNode(i, func(n *nodeState) { n.registered, n.httpUp = false, false })
				case "node_up":
					i := pickNode()
					desc = fmt.Sprintf("node_up n%d", i)
					setNode(i, func(n *nodeState) { n.registered, n.httpUp = true, true })
				case "session_lost":
					i := pickNode()
					desc = fmt.Sprintf("session_lost n%d (still answers http)", i)
					setNode(i, func(n *nodeState) { n.registered = false })
				case "http_unreachable":
					i := pickNode()
					desc = fmt.Sprintf("http_unreachable n%d (still registered)", i)
					setNode(i, func(n *nodeState) { n.httpUp = false })
				case "node_added":
					var free []int
					for i := range w.nodes {
						if !w.nodes[i].inCluster {
							free = append(free, i)
						}
					}
					if len(free) == 0 {
						desc = "node_added (pool exhausted)"
						break
					}
					i := free[0]
					desc = fmt.Sprintf("node_added n%d", i)
					setNode(i, func(n *nodeState) { n.inCluster, n.registered, n.httpUp = true, true, true })
				case "mark_node_removing":
					// keep at most one node in decommission: the production code walks the set in map order
					if len(coord.VerifRemovingNodes()) > 0 {
						desc = "mark_node_removing (one already marked)"
						break
					}
					i := pickNode()
					desc = fmt.Sprintf("mark_node_removing n%d", i)
					coord.MarkNodeAsRemoving(pl[i].info.ID)
					s.labels["node_marked_for_decommission"] = true
				case "answer":
					i := pickNode()
					pid := rapid.IntRange(0, pn-1).Draw(t, "pid")
					a := answer{synced: rapid.IntRange(0, 2).Draw(t, "synced") > 0, view: rapid.SampledFrom([]int{viewApplied, viewApplied, viewAll, viewLagging, viewNone}).Draw(t, "view")}
					desc = fmt.Sprintf("answer n%d p%d synced=%v members=%s", i, pid, a.synced, viewNames[a.view])
					w.mu.Lock()
					w.ans[[2]int{i, pid}] = a
					w.mu.Unlock()
				case "heal_answers":
					w.mu.Lock()
					w.ans = map[[2]int]answer{}
					w.mu.Unlock()
				case "register_fault":
					f := rapid.SampledFrom([]string{"cas", "err", "errApplied", "scan", "remote"}).Draw(t, "fault")
					desc = "register_fault " + f
					reg.mu.Lock()
					switch f {
					case "scan":
						reg.scanFault = true
					case "remote":
						reg.remoteFault = true
					default:
						reg.updateFault = f
					}
					reg.mu.Unlock()
					s.labels["register_fault_"+f] = true
				case "cache_refresh":
					reg.backgroundRefresh()
				case "check_full":
					s.action = desc
					coord.VerifDoCheckNamespaces(openMon, nil, waiting, true)
				case "check_single":
					pid := rapid.IntRange(0, pn-1).Draw(t, "pid")
					desc = fmt.Sprintf("check_single p%d", pid)
					s.action = desc
					coord.VerifDoCheckNamespaces(openMon, &cluster.NamespaceNameInfo{NamespaceName: ns, NamespacePartition: pid}, waiting, false)
				case "migrate":
					// exactly what the check pass does once a partition is due
					pid := rapid.IntRange(0, pn-1).Draw(t, "pid")
					desc = fmt.Sprintf("migrate p%d", pid)
					s.action = desc
					if nsInfo, err := reg.GetNamespacePartInfo(ns, pid); err == nil {
						alive, epoch := coord.VerifCurrentNodesWithEpoch(nsInfo.Tags)
						cerr := coord.VerifHandleNamespaceMigrate(nsInfo, alive, epoch)
						desc += fmt.Sprintf(" -> %v", errStr(cerr))
					}
				case "finish_removal":
					pid := rapid.IntRange(0, pn-1).Draw(t, "pid")
					desc = fmt.Sprintf("finish_removal p%d", pid)
					s.action = desc
					if nsInfo, err := reg.GetNamespacePartInfo(ns, pid); err == nil && len(nsInfo.Removings) > 0 && !coord.VerifBalanceWaiting() {
						coord.VerifRemoveNamespaceFromRemovings(nsInfo)
					}
				case "balance_round":
					s.action = desc
					alive, _ := coord.VerifCurrentNodesWithEpoch(nil)
					if !coord.IsMineLeader() || !coord.IsClusterStable() || !coord.AutoBalanceEnabled() || len(alive) < 2 {
						desc += " (gated: cluster not stable)"
						break
					}
					armed(func(mon chan struct{}) {
						moved, done := coord.VerifRebalanceNamespace(mon)
						desc += fmt.Sprintf(" -> moved=%v allBalanced=%v", moved, done)
					})
					s.labels["balance_round_ran"] = true
				case "decommission_round":
					s.action = desc
					if len(coord.VerifRemovingNodes()) == 0 {
						desc += " (no node marked)"
						break
					}
					armed(func(mon chan struct{}) { coord.VerifProcessRemovingNodes(mon) })
					desc += fmt.Sprintf(" -> %v", renderStates(s, coord.VerifRemovingNodes()))
					s.labels["decommission_round_ran"] = true
				case "add_replica":
					// addNamespaceToNode under the gates of its only callers (balance / decommission):
					// no removal pending, not more remaining replicas than the replication factor, all
					// current replicas fully ready, target is a live node outside the group
					pid := rapid.IntRange(0, pn-1).Draw(t, "pid")
					i := rapid.SampledFrom(inClusterNodes()).Draw(t, "node")
					desc = fmt.Sprintf("add_replica p%d n%d", pid, i)
					s.action = desc
					nsInfo, err := reg.GetNamespacePartInfo(ns, pid)
					if err != nil {
						break
					}
					alive, _ := coord.VerifCurrentNodesWithEpoch(nil)
					if _, ok := alive[pl[i].info.ID]; !ok || cluster.FindSlice(nsInfo.RaftNodes, pl[i].info.ID) != -1 ||
						len(nsInfo.Removings) > 0 || len(nsInfo.GetISR()) > nsInfo.Replica {
						desc += " (gated)"
						break
					}
					if ok, err := pdnode_coord.IsAllISRFullReady(nsInfo); err != nil || !ok {
						desc += " (gated: replicas not fully ready)"
						break
					}
					cerr := coord.VerifAddNamespaceToNode(nsInfo, pl[i].info.ID)
					desc += fmt.Sprintf(" -> %v", errStr(cerr))
				case "remove_replica":
					// removeNamespaceFromNode under the gates of its automatic callers (check pass,
					// balance, decommission): more remaining replicas than the replication factor and
					// all of them fully ready
					pid := rapid.IntRange(0, pn-1).Draw(t, "pid")
					desc = fmt.Sprintf("remove_replica p%d", pid)
					s.action = desc
					nsInfo, err := reg.GetNamespacePartInfo(ns, pid)
					if err != nil || len(nsInfo.RaftNodes) == 0 {
						break
					}
					nid := nsInfo.RaftNodes[rapid.IntRange(0, len(nsInfo.RaftNodes)-1).Draw(t, "which")]
					desc += " " + s.name(nid)
					if len(nsInfo.GetISR()) <= nsInfo.Replica {
						desc += " (gated)"
						break
					}
					if ok, err := pdnode_coord.IsAllISRFullReady(nsInfo); err != nil || !ok {
						desc += " (gated: replicas not fully ready)"
						break
					}
					cerr := coord.VerifRemoveNamespaceFromNode(nsInfo, nid)
					desc += fmt.Sprintf(" -> %v", errStr(cerr))
				case "operator_remove":
					// the exported admin API: no liveness gate by design (clause 5 not asserted)
					pid := rapid.IntRange(0, pn-1).Draw(t, "pid")
					cur := reg.current(pid)
					if cur == nil || len(cur.RaftNodes) == 0 {
						break
					}
					nid := cur.RaftNodes[rapid.IntRange(0, len(cur.RaftNodes)-1).Draw(t, "which")]
					desc = fmt.Sprintf("operator_remove p%d %s", pid, s.name(nid))
					s.action = desc
					s.operator = true
					err := coord.RemoveNamespaceFromNode(ns, strconv.Itoa(pid), nid)
					s.operator = false
					desc += fmt.Sprintf(" -> %v", err)
				}
			}()
			canon = append(canon, desc)
			// the ACCEPTED lines of this step were appended while it ran; put the step header before them
			s.trace = append(s.trace[:mark:mark], append([]string{fmt.Sprintf("step %d: %s", step, desc)}, s.trace[mark:]...)...)
			if s.violation != "" {
				t.Fatalf("%s\n--- sequence (replica=%d partitions=%d nodes=%d balance=%s) ---\n%s", s.violation, R, pn, nStart, ver, strings.Join(tail(s.trace, 90), "\n"))
			}
			if ended {
				break
			}
		}
		if s.writes >= 2 {
			s.labels["two_or_more_accepted_writes"] = true
		}
		if pn > 1 {
			s.labels["multi_partition"] = true
		}
		var ls []string
		for l := range s.labels {
			ls = append(ls, l)
		}
		sort.Strings(ls)
		ls = append(ls, fmt.Sprintf("replica_%d", R))
		nt := s.writes >= 2 && s.ntHit
		recSeq.Record(stats.HashString(strings.Join(canon, "\n")), nt, ls, func() interface{} {
			return map[string]interface{}{"replica": R, "partitions": pn, "start_nodes": nStart, "balance": ver, "accepted_writes": s.writes,
				"rejected_writes": reg.rejected, "probes_served": atomic.LoadInt64(&w.probes), "trace": tail(s.trace, 70)}
		})
	})
}

var actionTable = buildActions(map[string]int{
	"node_down": 8, "node_up": 8, "session_lost": 2, "http_unreachable": 2, "node_added": 3, "mark_node_removing": 2,
	"answer": 9, "heal_answers": 5, "register_fault": 4, "cache_refresh": 3,
	"check_full": 14, "check_single": 7, "migrate": 12, "finish_removal": 7, "balance_round": 6, "decommission_round": 5,
	"add_replica": 4, "remove_replica": 4, "operator_remove": 5,
})

func buildActions(weights map[string]int) []string {
	var names []string
	for n := range weights {
		names = append(names, n)
	}
	sort.Strings(names)
	var out []string
	for _, n := range names {
		for i := 0; i < weights[n]; i++ {
			out = append(out, n)
		}
	}
	return out
}

func seqInts(n int) []int {
	out := make([]int, n)
	for i := range out {
		out[i] = i
	}
	return out
}

func errStr(e *cluster.CoordErr) string {
	if e == nil {
		return "ok"
	}
	return e.ErrMsg
}

func renderStates(s *seqState, m map[string]string) string {
	var out []string
	for k, v := range m {
		out = append(out, s.name(k)+"="+v)
	}
	sort.Strings(out)
	return strings.Join(out, ",")
}

func tail(trace []string, n int) []string {
	out := append([]string(nil), trace...)
	if len(out) > n {
		head := out[:4]
		out = append(append(append([]string(nil), head...), fmt.Sprintf("... %d lines omitted ...", len(out)-n)), out[len(out)-n+4:]...)
	}
	return out
}

func trimStack(st string) string {
	var keep []string
	for _, l := range strings.Split(st, "\n") {
		if strings.Contains(l, "/repo/") {
			keep = append(keep, strings.TrimSpace(l))
		}
	}
	if len(keep) > 12 {
		keep = keep[:12]
	}
	return "  at " + strings.Join(keep, "\n  at ")
}
