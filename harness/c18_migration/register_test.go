package c18

// In-memory PDRegister: compare-and-swap on the per-partition epoch is honoured exactly
// like the etcd register does (create when oldGen == 0, CompareAndSwap on the modified
// index otherwise); reads go through a cache that is refreshed the way the etcd register
// refreshes its own (dirty flag set by a successful own write, rescan inside
// GetAllNamespaces, plus background watch refreshes which the harness schedules).

import (
	"errors"
	"sync"

	"github.com/youzan/ZanRedisDB/cluster"
)

type fakeRegister struct {
	mu    sync.Mutex
	index int64
	ns    string
	meta  cluster.NamespaceMetaInfo

	store     map[int]*cluster.PartitionReplicaInfo // authoritative ("etcd")
	prevStore map[int]*cluster.PartitionReplicaInfo // value before the last accepted write (for lagging member views)
	cache     map[int]cluster.PartitionReplicaInfo
	dirty     bool

	// one-shot faults armed by the harness
	updateFault string // "", "cas", "err", "errApplied"
	scanFault   bool
	remoteFault bool

	onAttempt  func()                                                  // any UpdateNamespacePartReplicaInfo call
	onGetPart  func()                                                  // any GetNamespacePartInfo call
	onAccepted func(pid int, prev, next *cluster.PartitionReplicaInfo) // called with r.mu held
	attempts   int
	rejected   []string
}

func newFakeRegister(ns string, meta cluster.NamespaceMetaInfo) *fakeRegister {
	return &fakeRegister{ns: ns, meta: meta, index: 100,
		store: map[int]*cluster.PartitionReplicaInfo{}, prevStore: map[int]*cluster.PartitionReplicaInfo{},
		cache: map[int]cluster.PartitionReplicaInfo{}}
}

// seed installs an initial partition value directly (the state the coordinator finds).
func (r *fakeRegister) seed(pid int, info cluster.PartitionReplicaInfo) {
	r.mu.Lock()
	defer r.mu.Unlock()
	r.index++
	c := info.DeepClone()
	c.VerifSetEpoch(cluster.EpochType(r.index))
	r.store[pid] = &c
	r.cache[pid] = c.DeepClone()
}

func (r *fakeRegister) refreshLocked() {
	r.cache = map[int]cluster.PartitionReplicaInfo{}
	for pid, v := range r.store {
		r.cache[pid] = v.DeepClone()
	}
	r.dirty = false
}

func (r *fakeRegister) backgroundRefresh() {
	r.mu.Lock()
	r.refreshLocked()
	r.mu.Unlock()
}

// current returns a copy of the authoritative value (harness use only).
func (r *fakeRegister) current(pid int) *cluster.PartitionReplicaInfo {
	r.mu.Lock()
	defer r.mu.Unlock()
	v, ok := r.store[pid]
	if !ok {
		return nil
	}
	c := v.DeepClone()
	return &c
}

func (r *fakeRegister) previous(pid int) *cluster.PartitionReplicaInfo {
	r.mu.Lock()
	defer r.mu.Unlock()
	v, ok := r.prevStore[pid]
	if !ok || v == nil {
		return nil
	}
	c := v.DeepClone()
	return &c
}

func (r *fakeRegister) metaCopy() cluster.NamespaceMetaInfo {
	m := r.meta.DeepClone()
	m.VerifSetMetaEpoch(50)
	return m
}

func (r *fakeRegister) partMeta(pid int, v cluster.PartitionReplicaInfo) cluster.PartitionMetaInfo {
	var info cluster.PartitionMetaInfo
	info.Name = r.ns
	info.Partition = pid
	info.NamespaceMetaInfo = r.metaCopy()
	info.PartitionReplicaInfo = v.DeepClone()
	return info
}

// ---- cluster.Register

func (r *fakeRegister) InitClusterID(id string) {}
func (r *fakeRegister) Start()                  {}
func (r *fakeRegister) Stop()                   {}
func (r *fakeRegister) GetAllPDNodes() ([]cluster.NodeInfo, error) {
	return nil, nil
}

func (r *fakeRegister) GetNamespacePartInfo(ns string, partition int) (*cluster.PartitionMetaInfo, error) {
	if f := r.onGetPart; f != nil {
		f()
	}
	r.mu.Lock()
	defer r.mu.Unlock()
	if ns != r.ns {
		return nil, cluster.ErrKeyNotFound
	}
	v, ok := r.cache[partition]
	if !ok {
		return nil, cluster.ErrKeyNotFound
	}
	p := r.partMeta(partition, v)
	return &p, nil
}

func (r *fakeRegister) GetRemoteNamespaceReplicaInfo(ns string, partition int) (*cluster.PartitionReplicaInfo, error) {
	r.mu.Lock()
	defer r.mu.Unlock()
	if r.remoteFault {
		r.remoteFault = false
		return nil, errors.New("injected: register unreachable")
	}
	v, ok := r.store[partition]
	if ns != r.ns || !ok {
		return nil, cluster.ErrKeyNotFound
	}
	c := v.DeepClone()
	return &c, nil
}

func (r *fakeRegister) GetNamespaceMetaInfo(ns string) (cluster.NamespaceMetaInfo, error) {
	if ns != r.ns {
		return cluster.NamespaceMetaInfo{}, cluster.ErrKeyNotFound
	}
	return r.metaCopy(), nil
}

func (r *fakeRegister) GetNamespaceInfo(ns string) ([]cluster.PartitionMetaInfo, error) {
	r.mu.Lock()
	defer r.mu.Unlock()
	if ns != r.ns {
		return nil, cluster.ErrKeyNotFound
	}
	var out []cluster.PartitionMetaInfo
	for pid := 0; pid < r.meta.PartitionNum; pid++ {
		if v, ok := r.cache[pid]; ok {
			out = append(out, r.partMeta(pid, v))
		}
	}
	return out, nil
}

func (r *fakeRegister) GetAllNamespaces() (map[string]map[int]cluster.PartitionMetaInfo, cluster.EpochType, error) {
	r.mu.Lock()
	defer r.mu.Unlock()
	var err error
	if r.scanFault {
		// like the etcd register: a failed scan returns the old cached value together with the error
		r.scanFault = false
		err = errors.New("injected: scan failed")
	} else if r.dirty {
		r.refreshLocked()
	}
	parts := make(map[int]cluster.PartitionMetaInfo)
	for pid, v := range r.cache {
		parts[pid] = r.partMeta(pid, v)
	}
	return map[string]map[int]cluster.PartitionMetaInfo{r.ns: parts}, cluster.EpochType(r.index), err
}

func (r *fakeRegister) GetNamespacesNotifyChan() chan struct{} { return nil }
func (r *fakeRegister) GetNamespaceSchemas(ns string) (map[string]cluster.SchemaInfo, error) {
	return nil, cluster.ErrKeyNotFound
}
func (r *fakeRegister) GetNamespaceTableSchema(ns string, table string) (*cluster.SchemaInfo, error) {
	return nil, cluster.ErrKeyNotFound
}
func (r *fakeRegister) SaveKV(key string, value string) error { return nil }
func (r *fakeRegister) GetKV(key string) (string, error)      { return "", cluster.ErrKeyNotFound }

// ---- cluster.PDRegister

func (r *fakeRegister) Register(nodeData *cluster.NodeInfo) error   { return nil }
func (r *fakeRegister) Unregister(nodeData *cluster.NodeInfo) error { return nil }
func (r *fakeRegister) GetClusterEpoch() (cluster.EpochType, error) {
	return cluster.EpochType(r.index), nil
}
func (r *fakeRegister) GetClusterMetaInfo() (cluster.ClusterMetaInfo, error) {
	return cluster.ClusterMetaInfo{}, nil
}
func (r *fakeRegister) AcquireAndWatchLeader(leader chan *cluster.NodeInfo, stop chan struct{}) {}
func (r *fakeRegister) GetDataNodes() ([]cluster.NodeInfo, error)                               { return nil, nil }
func (r *fakeRegister) WatchDataNodes(nodeC chan []cluster.NodeInfo, stopC chan struct{})       {}
func (r *fakeRegister) CreateNamespace(ns string, meta *cluster.NamespaceMetaInfo) error {
	return errors.New("not supported by the harness register")
}
func (r *fakeRegister) UpdateNamespaceMetaInfo(ns string, meta *cluster.NamespaceMetaInfo, oldGen cluster.EpochType) error {
	return errors.New("not supported by the harness register")
}
func (r *fakeRegister) CreateNamespacePartition(ns string, partition int) error {
	return errors.New("not supported by the harness register")
}
func (r *fakeRegister) IsExistNamespace(ns string) (bool, error) { return ns == r.ns, nil }
func (r *fakeRegister) IsExistNamespacePartition(ns string, partition int) (bool, error) {
	return ns == r.ns && partition < r.meta.PartitionNum, nil
}
func (r *fakeRegister) DeleteNamespacePart(ns string, partition int) error {
	return errors.New("not supported by the harness register")
}
func (r *fakeRegister) DeleteWholeNamespace(ns string) error {
	return errors.New("not supported by the harness register")
}
func (r *fakeRegister) PrepareNamespaceMinGID() (int64, error) { return 0, nil }
func (r *fakeRegister) UpdateNamespaceSchema(ns string, table string, schema *cluster.SchemaInfo) error {
	return errors.New("not supported by the harness register")
}

func (r *fakeRegister) UpdateNamespacePartReplicaInfo(ns string, partition int,
	replicaInfo *cluster.PartitionReplicaInfo, oldGen cluster.EpochType) error {
	if f := r.onAttempt; f != nil {
		f()
	}
	r.mu.Lock()
	defer r.mu.Unlock()
	r.attempts++
	fault := r.updateFault
	r.updateFault = ""
	if ns != r.ns {
		return cluster.ErrKeyNotFound
	}
	if fault == "err" {
		r.rejected = append(r.rejected, "write error")
		return errors.New("injected: register unreachable")
	}
	cur := r.store[partition]
	if oldGen == 0 {
		if cur != nil {
			r.rejected = append(r.rejected, "create on existing key")
			return errors.New("105: Key already exists")
		}
	} else if cur == nil || cur.Epoch() != oldGen || fault == "cas" {
		r.rejected = append(r.rejected, "compare failed")
		return errors.New("101: Compare failed")
	}
	r.index++
	c := replicaInfo.DeepClone()
	c.VerifSetEpoch(cluster.EpochType(r.index))
	r.prevStore[partition] = cur
	r.store[partition] = &c
	if r.onAccepted != nil {
		var prev *cluster.PartitionReplicaInfo
		if cur != nil {
			p := cur.DeepClone()
			prev = &p
		}
		n := c.DeepClone()
		r.onAccepted(partition, prev, &n)
	}
	if fault == "errApplied" {
		// committed, but the reply is lost: the caller sees an error and the cache stays stale
		return errors.New("injected: timeout after commit")
	}
	replicaInfo.VerifSetEpoch(cluster.EpochType(r.index))
	r.dirty = true
	return nil
}

var _ cluster.PDRegister = (*fakeRegister)(nil)
