// Package resp holds the client-visible reply values shared by the simulator and the
// reference model (no imports from the repository).
package resp

import (
	"fmt"
	"strings"
)

// Val is one RESP value as a client would see it.
type Val struct {
	Kind byte // 'e' error, 's' status, 'i' integer, 'b' bulk, 'n' nil, 'a' array, 'r' raw
	I    int64
	S    string
	A    []Val
}

func (v Val) String() string {
	switch v.Kind {
	case 'e':
		return "(err " + v.S + ")"
	case 's':
		return "+" + v.S
	case 'i':
		return fmt.Sprintf(":%d", v.I)
	case 'b':
		return fmt.Sprintf("%q", v.S)
	case 'n':
		return "nil"
	case 'r':
		return fmt.Sprintf("raw%q", v.S)
	case 'a':
		var b strings.Builder
		b.WriteByte('[')
		for i, x := range v.A {
			if i > 0 {
				b.WriteByte(' ')
			}
			b.WriteString(x.String())
		}
		b.WriteByte(']')
		return b.String()
	}
	return "?"
}

func (v Val) IsErr() bool { return v.Kind == 'e' }

// Reply is everything one command wrote to the connection.
type Reply struct {
	Vals      []Val
	Malformed string // non-empty if the token stream was not a well-formed RESP reply
	Closed    bool   // the handler closed the connection (serverRedis does so after a recovered panic)
}

func (r Reply) String() string {
	var parts []string
	for _, v := range r.Vals {
		parts = append(parts, v.String())
	}
	s := strings.Join(parts, " | ")
	if r.Malformed != "" {
		s += " MALFORMED(" + r.Malformed + ")"
	}
	if r.Closed {
		s += " CLOSED"
	}
	return s
}

// One returns the single value of a reply (or an error value describing the problem).
func (r Reply) One() Val {
	if r.Malformed != "" {
		return Val{Kind: 'e', S: "MALFORMED " + r.Malformed}
	}
	if len(r.Vals) != 1 {
		return Val{Kind: 'e', S: fmt.Sprintf("HARNESS-SHAPE %d top-level values: %s", len(r.Vals), r.String())}
	}
	return r.Vals[0]
}


// Constructors.
func Err(s string) Val    { return Val{Kind: 'e', S: s} }
func Status(s string) Val { return Val{Kind: 's', S: s} }
func Int(i int64) Val     { return Val{Kind: 'i', I: i} }
func Bulk(s string) Val   { return Val{Kind: 'b', S: s} }
func Nil() Val            { return Val{Kind: 'n'} }
func Arr(a ...Val) Val {
	if a == nil {
		a = []Val{}
	}
	return Val{Kind: 'a', A: a}
}
func BulkArr(ss []string) Val {
	a := make([]Val, len(ss))
	for i, s := range ss {
		a[i] = Bulk(s)
	}
	return Arr(a...)
}

// Equal compares two values; errors are equal to errors whatever their text (error class).
func Equal(a, b Val) bool {
	if a.Kind != b.Kind {
		return false
	}
	switch a.Kind {
	case 'e', 'n':
		return true
	case 'i':
		return a.I == b.I
	case 'a':
		if len(a.A) != len(b.A) {
			return false
		}
		for i := range a.A {
			if !Equal(a.A[i], b.A[i]) {
				return false
			}
		}
		return true
	default:
		return a.S == b.S
	}
}
