// Package model is a from-scratch reference model of the Redis semantics ZanRedisDB
// documents (doc/user-guide.md): one keyspace per data type under table:key, SPOP /
// SRANDMEMBER in member order, string cursors. It imports nothing from the repository.
//
// Time: writes are evaluated at the log timestamp of their entry (nanoseconds), reads at the
// reader's wall clock (seconds). A value with expiry instant E (unix seconds) is dead for an
// observer at second s iff s >= E (doc/design.md; value-header policy).
package model

import (
	"math"
	"sort"
	"strconv"
	"strings"
	"verifharness/lib/known"

	. "verifharness/lib/resp"
)

type kvVal struct {
	v   string
	exp int64
}
type hashVal struct {
	f   map[string]string
	exp int64
}
type listVal struct {
	items []string
	exp   int64
}
type setVal struct {
	m   map[string]struct{}
	exp int64
}
type zsetVal struct {
	m   map[string]float64
	exp int64
}

type Model struct {
	KV   map[string]*kvVal
	Hash map[string]*hashVal
	List map[string]*listVal
	Set  map[string]*setVal
	ZSet map[string]*zsetVal
	// PF holds HyperLogLog keys as exact sets. Only valid for small element pools that were
	// checked to be collision-free in the implementation's sparse representation (C06), and
	// only for keys that no other command touches (the HLL shares the KV keyspace; DEL, GET,
	// EXPIRE ... on such a key are not modelled).
	PF map[string]map[string]bool
	// Deviations switches observed behaviour of the implementation that differs from Redis.
	// Reply-only differences are recorded as known findings of C08 and switched by them, so
	// that every check using this model leaves exactly that reply out; each is a named flag so
	// that the evidence can list what was modelled rather than checked.
	Dev Deviations
}

type Deviations struct {
	IncrWraps          bool // INCR/INCRBY/HINCRBY wrap on int64 overflow instead of failing (the pinned tree did; repaired, off)
	TTLMissingIsMinus1 bool // TTL of a missing key is -1 (Redis: -2); on while known finding C08-ttl-of-missing-key-is-minus-one is open
	PersistAlwaysOne   bool // PERSIST answers 1 for every existing key (Redis: 0 if it had no expiry); on while C08-persist-answers-one-without-expiry is open
	LocalDeletion      bool // local-deletion policy: expiry instants are recorded for background deletion only and never change what commands see
}

func New() *Model {
	return &Model{KV: map[string]*kvVal{}, Hash: map[string]*hashVal{}, List: map[string]*listVal{}, Set: map[string]*setVal{}, ZSet: map[string]*zsetVal{}, PF: map[string]map[string]bool{},
		Dev: Deviations{TTLMissingIsMinus1: known.Active("C08-ttl-of-missing-key-is-minus-one"), PersistAlwaysOne: known.Active("C08-persist-answers-one-without-expiry")}}
}

func dead(exp int64, sec int64) bool { return exp > 0 && sec >= exp }

const (
	MaxScore = float64(1 << 53) // placeholder; see scoreBounds
)

// --- accessors that apply expiry at a given second -------------------------------------

func (m *Model) kv(k string, sec int64) *kvVal {
	v := m.KV[k]
	if v == nil || dead(v.exp, sec) {
		return nil
	}
	return v
}
func (m *Model) hash(k string, sec int64) *hashVal {
	v := m.Hash[k]
	if v == nil || dead(v.exp, sec) {
		return nil
	}
	return v
}
func (m *Model) list(k string, sec int64) *listVal {
	v := m.List[k]
	if v == nil || dead(v.exp, sec) {
		return nil
	}
	return v
}
func (m *Model) set(k string, sec int64) *setVal {
	v := m.Set[k]
	if v == nil || dead(v.exp, sec) {
		return nil
	}
	return v
}
func (m *Model) zset(k string, sec int64) *zsetVal {
	v := m.ZSet[k]
	if v == nil || dead(v.exp, sec) {
		return nil
	}
	return v
}

// writable collections: an expired one is replaced by a fresh empty one (no expiry).
func (m *Model) hashW(k string, sec int64) *hashVal {
	v := m.hash(k, sec)
	if v == nil {
		v = &hashVal{f: map[string]string{}}
		m.Hash[k] = v
	}
	return v
}
func (m *Model) listW(k string, sec int64) *listVal {
	v := m.list(k, sec)
	if v == nil {
		v = &listVal{}
		m.List[k] = v
	}
	return v
}
func (m *Model) setW(k string, sec int64) *setVal {
	v := m.set(k, sec)
	if v == nil {
		v = &setVal{m: map[string]struct{}{}}
		m.Set[k] = v
	}
	return v
}
func (m *Model) zsetW(k string, sec int64) *zsetVal {
	v := m.zset(k, sec)
	if v == nil {
		v = &zsetVal{m: map[string]float64{}}
		m.ZSet[k] = v
	}
	return v
}

// gc removes collections that became empty (a collection exists iff it has an element).
func (m *Model) gc(k string) {
	if v := m.Hash[k]; v != nil && len(v.f) == 0 {
		delete(m.Hash, k)
	}
	if v := m.List[k]; v != nil && len(v.items) == 0 {
		delete(m.List, k)
	}
	if v := m.Set[k]; v != nil && len(v.m) == 0 {
		delete(m.Set, k)
	}
	if v := m.ZSet[k]; v != nil && len(v.m) == 0 {
		delete(m.ZSet, k)
	}
}

func sortedKeys(mp map[string]string) []string {
	ks := make([]string, 0, len(mp))
	for k := range mp {
		ks = append(ks, k)
	}
	sort.Strings(ks)
	return ks
}

func sortedMembers(mp map[string]struct{}) []string {
	ks := make([]string, 0, len(mp))
	for k := range mp {
		ks = append(ks, k)
	}
	sort.Strings(ks)
	return ks
}

type zpair struct {
	m string
	s float64
}

func zsorted(mp map[string]float64) []zpair {
	ps := make([]zpair, 0, len(mp))
	for k, s := range mp {
		ps = append(ps, zpair{k, s})
	}
	sort.Slice(ps, func(i, j int) bool {
		if ps[i].s != ps[j].s {
			return ps[i].s < ps[j].s
		}
		return ps[i].m < ps[j].m
	})
	return ps
}

// FmtScore renders a score the way Redis does: the sign of a zero kept, infinities as
// inf / -inf, everything else in the shortest form that reads back as the same number.
// While the recorded finding C08-infinite-score-spelled-go-style is open, infinities are
// spelled the way the implementation spells them (+Inf / -Inf) so that every check that
// compares against this model leaves exactly that spelling out of the comparison; C08's
// probe holds the Redis spelling against the implementation.
func FmtScore(f float64) string {
	if math.IsInf(f, 0) && !known.Active("C08-infinite-score-spelled-go-style") {
		if f > 0 {
			return "inf"
		}
		return "-inf"
	}
	return strconv.FormatFloat(f, 'g', -1, 64)
}

func parseInt(s string) (int64, bool) {
	n, err := strconv.ParseInt(s, 10, 64)
	return n, err == nil
}

var wrongArgs = Err("wrong number of arguments")

// IsWrite reports whether the command goes through the replicated log.
func IsWrite(name string) bool {
	switch name {
	case "set", "setex", "getset", "setnx", "incr", "incrby", "del", "expire", "persist", "append", "setrange",
		"hset", "hsetnx", "hmset", "hdel", "hincrby", "hclear", "hexpire", "hpersist",
		"lpush", "rpush", "lpop", "rpop", "lset", "ltrim", "lclear", "lexpire", "lpersist",
		"sadd", "srem", "spop", "sclear", "sexpire", "spersist",
		"zadd", "zincrby", "zrem", "zremrangebyrank", "zremrangebyscore", "zremrangebylex", "zclear", "zexpire", "zpersist", "plset", "pfadd":
		return true
	}
	return false
}

// Apply evaluates one command. ts is the log timestamp (ns) used by writes; now is the wall
// clock (s) used by reads. args[0] is the lower-case command name, args[1:] as sent by the
// client with the namespace prefix already removed from keys.
func (m *Model) Apply(ts int64, now int64, args []string) Val {
	name := args[0]
	a := args[1:]
	sec := ts / 1e9
	if !IsWrite(name) {
		sec = now
	}
	switch name {
	// ---------------- KV
	case "get":
		if len(a) != 1 {
			return wrongArgs
		}
		if v := m.kv(a[0], sec); v != nil {
			return Bulk(v.v)
		}
		return Nil()
	case "set":
		return m.cmdSet(sec, a)
	case "setex":
		if len(a) != 3 {
			return wrongArgs
		}
		d, ok := parseInt(a[1])
		if !ok || d <= 0 || d > math.MaxInt32 {
			return Err("invalid expire time")
		}
		m.KV[a[0]] = &kvVal{v: a[2], exp: m.instant(sec + d)}
		return Status("OK")
	case "getset":
		if len(a) != 2 {
			return wrongArgs
		}
		old := m.kv(a[0], sec)
		m.KV[a[0]] = &kvVal{v: a[1]}
		if old == nil {
			return Nil()
		}
		return Bulk(old.v)
	case "setnx":
		if len(a) != 2 {
			return wrongArgs
		}
		if m.kv(a[0], sec) != nil {
			return Int(0)
		}
		m.KV[a[0]] = &kvVal{v: a[1]}
		return Int(1)
	case "incr", "incrby":
		delta := int64(1)
		if name == "incrby" {
			if len(a) != 2 {
				return wrongArgs
			}
			d, ok := parseInt(a[1])
			if !ok {
				return Err("not an integer")
			}
			delta = d
		} else if len(a) != 1 {
			return wrongArgs
		}
		cur := int64(0)
		exp := int64(0)
		if v := m.kv(a[0], sec); v != nil {
			n, ok := parseInt(v.v)
			if !ok {
				return Err("value is not an integer")
			}
			cur, exp = n, v.exp
		}
		sum := cur + delta
		if !m.Dev.IncrWraps && ((delta > 0 && sum < cur) || (delta < 0 && sum > cur)) {
			return Err("overflow")
		}
		m.KV[a[0]] = &kvVal{v: strconv.FormatInt(sum, 10), exp: exp}
		return Int(sum)
	case "append":
		if len(a) != 2 {
			return wrongArgs
		}
		cur, exp := "", int64(0)
		if v := m.kv(a[0], sec); v != nil {
			cur, exp = v.v, v.exp
		}
		cur += a[1]
		m.KV[a[0]] = &kvVal{v: cur, exp: exp}
		return Int(int64(len(cur)))
	case "setrange":
		if len(a) != 3 {
			return wrongArgs
		}
		off, ok := parseInt(a[1])
		if !ok || off < 0 {
			return Err("offset is out of range")
		}
		cur, exp := "", int64(0)
		if v := m.kv(a[0], sec); v != nil {
			cur, exp = v.v, v.exp
		}
		b := []byte(cur)
		if need := int(off) + len(a[2]); need > len(b) {
			b = append(b, make([]byte, need-len(b))...)
		}
		copy(b[off:], a[2])
		m.KV[a[0]] = &kvVal{v: string(b), exp: exp}
		return Int(int64(len(b)))
	case "strlen":
		if len(a) != 1 {
			return wrongArgs
		}
		if v := m.kv(a[0], sec); v != nil {
			return Int(int64(len(v.v)))
		}
		return Int(0)
	case "pfadd":
		if len(a) < 2 {
			return wrongArgs
		}
		set := m.PF[a[0]]
		if set == nil {
			set = map[string]bool{}
			m.PF[a[0]] = set
		}
		changed := int64(0)
		for _, e := range a[1:] {
			if !set[e] {
				set[e] = true
				changed = 1
			}
		}
		return Int(changed)
	case "pfcount":
		if len(a) != 1 {
			return wrongArgs
		}
		return Int(int64(len(m.PF[a[0]])))
	case "del":
		if len(a) < 1 {
			return wrongArgs
		}
		n := int64(0)
		for _, k := range a {
			if m.kv(k, sec) != nil {
				n++
			}
			delete(m.KV, k)
		}
		return Int(n)
	case "exists":
		if len(a) < 1 {
			return wrongArgs
		}
		n := int64(0)
		for _, k := range a {
			if m.kv(k, sec) != nil {
				n++
			}
		}
		return Int(n)
	case "mget":
		if len(a) < 1 {
			return wrongArgs
		}
		out := make([]Val, len(a))
		for i, k := range a {
			if v := m.kv(k, sec); v != nil {
				out[i] = Bulk(v.v)
			} else {
				out[i] = Nil()
			}
		}
		return Arr(out...)
	case "expire", "hexpire", "lexpire", "sexpire", "zexpire":
		if len(a) != 2 {
			return wrongArgs
		}
		d, ok := parseInt(a[1])
		if !ok {
			return Err("not an integer")
		}
		return m.cmdExpire(name, a[0], sec, d)
	case "persist", "hpersist", "lpersist", "spersist", "zpersist":
		if len(a) != 1 {
			return wrongArgs
		}
		return m.cmdPersist(name, a[0], sec)
	case "ttl", "httl", "lttl", "sttl", "zttl":
		if len(a) != 1 {
			return wrongArgs
		}
		return m.cmdTTL(name, a[0], sec)
	case "plset":
		if len(a) < 2 || len(a)%2 != 0 {
			return wrongArgs
		}
		for i := 0; i < len(a); i += 2 {
			m.KV[a[i]] = &kvVal{v: a[i+1]}
		}
		return Status("OK")
	}
	switch name[0] {
	case 'h':
		return m.applyHash(name, a, sec)
	case 'l', 'r':
		return m.applyList(name, a, sec)
	case 's':
		return m.applySet(name, a, sec)
	case 'z':
		return m.applyZSet(name, a, sec)
	}
	return Err("unknown command " + name)
}

func (m *Model) cmdSet(sec int64, a []string) Val {
	if len(a) < 2 {
		return wrongArgs
	}
	var dur int64
	nx, xx, seen := false, false, false
	opts := a[2:]
	for i := 0; i < len(opts); i++ {
		switch strings.ToLower(opts[i]) {
		case "nx":
			if seen {
				return Err("invalid arguments")
			}
			nx, seen = true, true
		case "xx":
			if seen {
				return Err("invalid arguments")
			}
			xx, seen = true, true
		case "ex":
			if i+1 >= len(opts) {
				return Err("invalid arguments")
			}
			d, ok := parseInt(opts[i+1])
			if !ok {
				return Err("invalid arguments")
			}
			if d <= 0 {
				return Err("invalid expire time")
			}
			dur = d
			i++
		default:
			return Err("invalid arguments")
		}
	}
	old := m.kv(a[0], sec)
	if nx && old != nil {
		return Nil()
	}
	if xx && old == nil {
		return Nil()
	}
	nv := &kvVal{v: a[1]}
	if dur > 0 {
		nv.exp = m.instant(sec + dur)
	}
	m.KV[a[0]] = nv
	return Status("OK")
}

func (m *Model) expSlot(name, k string, sec int64) *int64 {
	switch name[0] {
	case 'h':
		if v := m.hash(k, sec); v != nil {
			return &v.exp
		}
	case 'l':
		if v := m.list(k, sec); v != nil {
			return &v.exp
		}
	case 's':
		if v := m.set(k, sec); v != nil {
			return &v.exp
		}
	case 'z':
		if v := m.zset(k, sec); v != nil {
			return &v.exp
		}
	default:
		if v := m.kv(k, sec); v != nil {
			return &v.exp
		}
	}
	return nil
}

func (m *Model) cmdExpire(name, k string, sec, d int64) Val {
	p := m.expSlot(name, k, sec)
	if p == nil {
		return Int(0)
	}
	*p = m.instant(sec + d)
	return Int(1)
}

// instant is what gets stored for an expiry instant: under local deletion it is invisible to commands.
func (m *Model) instant(e int64) int64 {
	if m.Dev.LocalDeletion {
		return 0
	}
	return e
}

func (m *Model) cmdPersist(name, k string, sec int64) Val {
	p := m.expSlot(name, k, sec)
	if p == nil {
		return Int(0)
	}
	if *p == 0 && !m.Dev.PersistAlwaysOne {
		return Int(0)
	}
	// recorded finding (reply only): 1 whenever the key exists, also when it had no expiry (Redis: 0)
	*p = 0
	return Int(1)
}

func (m *Model) cmdTTL(name, k string, sec int64) Val {
	p := m.expSlot(name, k, sec)
	if p == nil {
		if m.Dev.TTLMissingIsMinus1 {
			return Int(-1)
		}
		return Int(-2)
	}
	if *p == 0 {
		return Int(-1)
	}
	return Int(*p - sec)
}

// ---------------- hash

func (m *Model) applyHash(name string, a []string, sec int64) Val {
	if len(a) < 1 {
		return wrongArgs
	}
	k := a[0]
	switch name {
	case "hset", "hsetnx":
		if len(a) != 3 {
			return wrongArgs
		}
		h := m.hashW(k, sec)
		_, ex := h.f[a[1]]
		if ex && name == "hsetnx" {
			return Int(0)
		}
		h.f[a[1]] = a[2]
		if ex {
			return Int(0)
		}
		return Int(1)
	case "hmset":
		if len(a) < 3 || len(a)%2 != 1 {
			return wrongArgs
		}
		h := m.hashW(k, sec)
		for i := 1; i < len(a); i += 2 {
			h.f[a[i]] = a[i+1]
		}
		return Status("OK")
	case "hget":
		if len(a) != 2 {
			return wrongArgs
		}
		if h := m.hash(k, sec); h != nil {
			if v, ok := h.f[a[1]]; ok {
				return Bulk(v)
			}
		}
		return Nil()
	case "hmget":
		if len(a) < 2 {
			return wrongArgs
		}
		h := m.hash(k, sec)
		out := make([]Val, len(a)-1)
		for i, f := range a[1:] {
			out[i] = Nil()
			if h != nil {
				if v, ok := h.f[f]; ok {
					out[i] = Bulk(v)
				}
			}
		}
		return Arr(out...)
	case "hdel":
		if len(a) < 2 {
			return wrongArgs
		}
		h := m.hash(k, sec)
		n := int64(0)
		if h != nil {
			for _, f := range a[1:] {
				if _, ok := h.f[f]; ok {
					delete(h.f, f)
					n++
				}
			}
			m.gc(k)
		}
		return Int(n)
	case "hgetall", "hkeys", "hvals":
		if len(a) != 1 {
			return wrongArgs
		}
		out := []Val{}
		if h := m.hash(k, sec); h != nil {
			for _, f := range sortedKeys(h.f) {
				if name != "hvals" {
					out = append(out, Bulk(f))
				}
				if name != "hkeys" {
					out = append(out, Bulk(h.f[f]))
				}
			}
		}
		return Arr(out...)
	case "hexists":
		if len(a) != 2 {
			return wrongArgs
		}
		if h := m.hash(k, sec); h != nil {
			if _, ok := h.f[a[1]]; ok {
				return Int(1)
			}
		}
		return Int(0)
	case "hlen":
		if len(a) != 1 {
			return wrongArgs
		}
		if h := m.hash(k, sec); h != nil {
			return Int(int64(len(h.f)))
		}
		return Int(0)
	case "hincrby":
		if len(a) != 3 {
			return wrongArgs
		}
		d, ok := parseInt(a[2])
		if !ok {
			return Err("not an integer")
		}
		cur := int64(0)
		if h := m.hash(k, sec); h != nil {
			if v, ok := h.f[a[1]]; ok {
				n, ok := parseInt(v)
				if !ok {
					return Err("hash value is not an integer")
				}
				cur = n
			}
		}
		sum := cur + d
		if !m.Dev.IncrWraps && ((d > 0 && sum < cur) || (d < 0 && sum > cur)) {
			return Err("overflow")
		}
		m.hashW(k, sec).f[a[1]] = strconv.FormatInt(sum, 10)
		return Int(sum)
	case "hclear":
		if len(a) != 1 {
			return wrongArgs
		}
		h := m.hash(k, sec)
		delete(m.Hash, k)
		if h != nil {
			return Int(1)
		}
		return Int(0)
	case "hkeyexist":
		if len(a) != 1 {
			return wrongArgs
		}
		if m.hash(k, sec) != nil {
			return Int(1)
		}
		return Int(0)
	}
	return Err("unknown command " + name)
}

// ---------------- list

// normRange converts Redis start/stop indexes into a [lo, hi] window, ok=false if empty.
func normRange(start, stop, n int64) (int64, int64, bool) {
	if start < 0 {
		start += n
	}
	if stop < 0 {
		stop += n
	}
	if start < 0 {
		start = 0
	}
	if stop >= n {
		stop = n - 1
	}
	if start > stop || start >= n {
		return 0, 0, false
	}
	return start, stop, true
}

func (m *Model) applyList(name string, a []string, sec int64) Val {
	if len(a) < 1 {
		return wrongArgs
	}
	k := a[0]
	switch name {
	case "lpush", "rpush":
		if len(a) < 2 {
			return wrongArgs
		}
		l := m.listW(k, sec)
		for _, v := range a[1:] {
			if name == "lpush" {
				l.items = append([]string{v}, l.items...)
			} else {
				l.items = append(l.items, v)
			}
		}
		return Int(int64(len(l.items)))
	case "lpop", "rpop":
		if len(a) != 1 {
			return wrongArgs
		}
		l := m.list(k, sec)
		if l == nil || len(l.items) == 0 {
			return Nil()
		}
		var v string
		if name == "lpop" {
			v, l.items = l.items[0], l.items[1:]
		} else {
			v, l.items = l.items[len(l.items)-1], l.items[:len(l.items)-1]
		}
		m.gc(k)
		return Bulk(v)
	case "llen":
		if len(a) != 1 {
			return wrongArgs
		}
		if l := m.list(k, sec); l != nil {
			return Int(int64(len(l.items)))
		}
		return Int(0)
	case "lindex":
		if len(a) != 2 {
			return wrongArgs
		}
		i, ok := parseInt(a[1])
		if !ok {
			return Err("not an integer")
		}
		l := m.list(k, sec)
		if l == nil {
			return Nil()
		}
		n := int64(len(l.items))
		if i < 0 {
			i += n
		}
		if i < 0 || i >= n {
			return Nil()
		}
		return Bulk(l.items[i])
	case "lrange":
		if len(a) != 3 {
			return wrongArgs
		}
		s, ok1 := parseInt(a[1])
		e, ok2 := parseInt(a[2])
		if !ok1 || !ok2 {
			return Err("not an integer")
		}
		l := m.list(k, sec)
		if l == nil {
			return Arr()
		}
		lo, hi, ok := normRange(s, e, int64(len(l.items)))
		if !ok {
			return Arr()
		}
		return BulkArr(l.items[lo : hi+1])
	case "lset":
		if len(a) != 3 {
			return wrongArgs
		}
		i, ok := parseInt(a[1])
		if !ok {
			return Err("not an integer")
		}
		l := m.list(k, sec)
		if l == nil {
			return Err("no such key")
		}
		n := int64(len(l.items))
		if i < 0 {
			i += n
		}
		if i < 0 || i >= n {
			return Err("index out of range")
		}
		l.items[i] = a[2]
		return Status("OK")
	case "ltrim":
		if len(a) != 3 {
			return wrongArgs
		}
		s, ok1 := parseInt(a[1])
		e, ok2 := parseInt(a[2])
		if !ok1 || !ok2 {
			return Err("not an integer")
		}
		l := m.list(k, sec)
		if l == nil {
			return Status("OK")
		}
		lo, hi, ok := normRange(s, e, int64(len(l.items)))
		if !ok {
			l.items = nil
		} else {
			l.items = append([]string(nil), l.items[lo:hi+1]...)
		}
		m.gc(k)
		return Status("OK")
	case "lclear":
		if len(a) != 1 {
			return wrongArgs
		}
		l := m.list(k, sec)
		delete(m.List, k)
		if l != nil {
			return Int(1)
		}
		return Int(0)
	case "lkeyexist":
		if len(a) != 1 {
			return wrongArgs
		}
		if m.list(k, sec) != nil {
			return Int(1)
		}
		return Int(0)
	}
	return Err("unknown command " + name)
}

// ---------------- set

func (m *Model) applySet(name string, a []string, sec int64) Val {
	if len(a) < 1 {
		return wrongArgs
	}
	k := a[0]
	switch name {
	case "sadd":
		if len(a) < 2 {
			return wrongArgs
		}
		s := m.setW(k, sec)
		n := int64(0)
		for _, x := range a[1:] {
			if _, ok := s.m[x]; !ok {
				s.m[x] = struct{}{}
				n++
			}
		}
		return Int(n)
	case "srem":
		if len(a) < 2 {
			return wrongArgs
		}
		s := m.set(k, sec)
		n := int64(0)
		if s != nil {
			for _, x := range a[1:] {
				if _, ok := s.m[x]; ok {
					delete(s.m, x)
					n++
				}
			}
			m.gc(k)
		}
		return Int(n)
	case "spop", "srandmember":
		if len(a) != 1 && len(a) != 2 {
			return wrongArgs
		}
		cnt, has := int64(1), len(a) == 2
		if has {
			c, ok := parseInt(a[1])
			if !ok || c < 1 || c > math.MaxInt32 {
				return Err("invalid count")
			}
			cnt = c
		}
		s := m.set(k, sec)
		var ms []string
		if s != nil {
			ms = sortedMembers(s.m)
		}
		if int64(len(ms)) > cnt {
			ms = ms[:cnt]
		}
		if name == "srandmember" {
			return BulkArr(ms)
		}
		for _, x := range ms {
			delete(s.m, x)
		}
		m.gc(k)
		if has {
			return BulkArr(ms)
		}
		if len(ms) == 0 {
			return Nil()
		}
		return Bulk(ms[0])
	case "scard":
		if len(a) != 1 {
			return wrongArgs
		}
		if s := m.set(k, sec); s != nil {
			return Int(int64(len(s.m)))
		}
		return Int(0)
	case "sismember":
		if len(a) != 2 {
			return wrongArgs
		}
		if s := m.set(k, sec); s != nil {
			if _, ok := s.m[a[1]]; ok {
				return Int(1)
			}
		}
		return Int(0)
	case "smembers":
		if len(a) != 1 {
			return wrongArgs
		}
		if s := m.set(k, sec); s != nil {
			return BulkArr(sortedMembers(s.m))
		}
		return Arr()
	case "sclear":
		if len(a) != 1 {
			return wrongArgs
		}
		s := m.set(k, sec)
		delete(m.Set, k)
		if s != nil {
			return Int(1)
		}
		return Int(0)
	case "skeyexist":
		if len(a) != 1 {
			return wrongArgs
		}
		if m.set(k, sec) != nil {
			return Int(1)
		}
		return Int(0)
	}
	return Err("unknown command " + name)
}

// ---------------- zset

// ParseScore parses a score argument the way Redis does for ZADD/ZINCRBY (NaN rejected).
func ParseScore(s string) (float64, bool) {
	f, err := strconv.ParseFloat(s, 64)
	if err != nil || math.IsNaN(f) {
		return 0, false
	}
	return f, true
}

type scoreBound struct {
	v    float64
	excl bool
}

func parseScoreBound(s string) (scoreBound, bool) {
	if s == "" {
		return scoreBound{}, false
	}
	var b scoreBound
	if s[0] == '(' {
		b.excl = true
		s = s[1:]
	}
	f, err := strconv.ParseFloat(s, 64)
	if err != nil || math.IsNaN(f) {
		return b, false
	}
	b.v = f
	return b, true
}

func inScore(s float64, lo, hi scoreBound) bool {
	if s < lo.v || (lo.excl && s == lo.v) {
		return false
	}
	if s > hi.v || (hi.excl && s == hi.v) {
		return false
	}
	return true
}

type lexBound struct {
	inf  int // -1 "-", +1 "+", 0 value
	v    string
	excl bool
}

func parseLexBound(s string) (lexBound, bool) {
	switch {
	case s == "-":
		return lexBound{inf: -1}, true
	case s == "+":
		return lexBound{inf: 1}, true
	case len(s) > 0 && s[0] == '(':
		return lexBound{v: s[1:], excl: true}, true
	case len(s) > 0 && s[0] == '[':
		return lexBound{v: s[1:]}, true
	}
	return lexBound{}, false
}

func inLex(x string, lo, hi lexBound) bool {
	switch lo.inf {
	case 1:
		return false
	case 0:
		if x < lo.v || (lo.excl && x == lo.v) {
			return false
		}
	}
	switch hi.inf {
	case -1:
		return false
	case 0:
		if x > hi.v || (hi.excl && x == hi.v) {
			return false
		}
	}
	return true
}

func limit(ps []zpair, off, cnt int64) []zpair {
	if off < 0 {
		return nil
	}
	if off >= int64(len(ps)) {
		return nil
	}
	ps = ps[off:]
	if cnt >= 0 && cnt < int64(len(ps)) {
		ps = ps[:cnt]
	}
	return ps
}

func emit(ps []zpair, withScores bool) Val {
	out := []Val{}
	for _, p := range ps {
		out = append(out, Bulk(p.m))
		if withScores {
			out = append(out, Bulk(FmtScore(p.s)))
		}
	}
	return Arr(out...)
}

func reverse(ps []zpair) []zpair {
	r := make([]zpair, len(ps))
	for i, p := range ps {
		r[len(ps)-1-i] = p
	}
	return r
}

func (m *Model) applyZSet(name string, a []string, sec int64) Val {
	if len(a) < 1 {
		return wrongArgs
	}
	k := a[0]
	z := m.zset(k, sec)
	var sorted []zpair
	if z != nil {
		sorted = zsorted(z.m)
	}
	switch name {
	case "zadd":
		if len(a) < 3 || len(a)%2 != 1 {
			return wrongArgs
		}
		var ps []zpair
		for i := 1; i < len(a); i += 2 {
			f, ok := ParseScore(a[i])
			if !ok {
				return Err("not a float")
			}
			ps = append(ps, zpair{a[i+1], f})
		}
		zz := m.zsetW(k, sec)
		n := int64(0)
		for _, p := range ps {
			old, ok := zz.m[p.m]
			if !ok {
				n++
			}
			if !ok || old != p.s { // an equal score (0 over -0) is not rewritten
				zz.m[p.m] = p.s
			}
		}
		return Int(n)
	case "zincrby":
		if len(a) != 3 {
			return wrongArgs
		}
		d, ok := ParseScore(a[1])
		if !ok {
			return Err("not a float")
		}
		ns := d // a new member takes the increment as it is (-0 stays -0)
		if z != nil {
			if cur, ok := z.m[a[2]]; ok {
				ns = cur + d
			}
		}
		if math.IsNaN(ns) {
			return Err("resulting score is not a number")
		}
		m.zsetW(k, sec).m[a[2]] = ns
		return Bulk(FmtScore(ns))
	case "zrem":
		if len(a) < 2 {
			return wrongArgs
		}
		n := int64(0)
		if z != nil {
			for _, x := range a[1:] {
				if _, ok := z.m[x]; ok {
					delete(z.m, x)
					n++
				}
			}
			m.gc(k)
		}
		return Int(n)
	case "zscore":
		if len(a) != 2 {
			return wrongArgs
		}
		if z != nil {
			if s, ok := z.m[a[1]]; ok {
				return Bulk(FmtScore(s))
			}
		}
		return Nil()
	case "zcard":
		if len(a) != 1 {
			return wrongArgs
		}
		return Int(int64(len(sorted)))
	case "zrank", "zrevrank":
		if len(a) != 2 {
			return wrongArgs
		}
		for i, p := range sorted {
			if p.m == a[1] {
				if name == "zrank" {
					return Int(int64(i))
				}
				return Int(int64(len(sorted) - 1 - i))
			}
		}
		return Nil()
	case "zrange", "zrevrange":
		if len(a) != 3 && len(a) != 4 {
			return wrongArgs
		}
		s, ok1 := parseInt(a[1])
		e, ok2 := parseInt(a[2])
		if !ok1 || !ok2 {
			return Err("not an integer")
		}
		ws := false
		if len(a) == 4 {
			if strings.ToLower(a[3]) != "withscores" {
				return Err("syntax error")
			}
			ws = true
		}
		ps := sorted
		if name == "zrevrange" {
			ps = reverse(ps)
		}
		lo, hi, ok := normRange(s, e, int64(len(ps)))
		if !ok {
			return Arr()
		}
		return emit(ps[lo:hi+1], ws)
	case "zcount", "zrangebyscore", "zrevrangebyscore", "zremrangebyscore":
		if len(a) < 3 {
			return wrongArgs
		}
		los, his := a[1], a[2]
		if name == "zrevrangebyscore" {
			los, his = a[2], a[1]
		}
		lo, ok1 := parseScoreBound(los)
		hi, ok2 := parseScoreBound(his)
		if !ok1 || !ok2 {
			return Err("min or max is not a float")
		}
		rest := a[3:]
		ws := false
		off, cnt := int64(0), int64(-1)
		if name == "zcount" || name == "zremrangebyscore" {
			if len(rest) != 0 {
				return wrongArgs
			}
		} else {
			if len(rest) > 0 && strings.ToLower(rest[0]) == "withscores" {
				ws = true
				rest = rest[1:]
			}
			if len(rest) > 0 {
				if len(rest) != 3 || strings.ToLower(rest[0]) != "limit" {
					return Err("syntax error")
				}
				o, ok1 := parseInt(rest[1])
				c, ok2 := parseInt(rest[2])
				if !ok1 || !ok2 {
					return Err("not an integer")
				}
				off, cnt = o, c
			}
		}
		var sel []zpair
		for _, p := range sorted {
			if inScore(p.s, lo, hi) {
				sel = append(sel, p)
			}
		}
		switch name {
		case "zcount":
			return Int(int64(len(sel)))
		case "zremrangebyscore":
			for _, p := range sel {
				delete(z.m, p.m)
			}
			m.gc(k)
			return Int(int64(len(sel)))
		case "zrevrangebyscore":
			sel = reverse(sel)
		}
		return emit(limit(sel, off, cnt), ws)
	case "zrangebylex", "zlexcount", "zremrangebylex":
		if len(a) < 3 {
			return wrongArgs
		}
		lo, ok1 := parseLexBound(a[1])
		hi, ok2 := parseLexBound(a[2])
		if !ok1 || !ok2 {
			return Err("min or max not valid string range item")
		}
		off, cnt := int64(0), int64(-1)
		rest := a[3:]
		if name == "zrangebylex" && len(rest) > 0 {
			if len(rest) != 3 || strings.ToLower(rest[0]) != "limit" {
				return Err("syntax error")
			}
			o, ok1 := parseInt(rest[1])
			c, ok2 := parseInt(rest[2])
			if !ok1 || !ok2 {
				return Err("not an integer")
			}
			off, cnt = o, c
		} else if len(rest) > 0 {
			return wrongArgs
		}
		// lexicographic commands are specified for sets whose members share one score; with
		// mixed scores Redis returns members in (score, member) order filtered by name.
		var sel []zpair
		for _, p := range sorted {
			if inLex(p.m, lo, hi) {
				sel = append(sel, p)
			}
		}
		// Redis leaves the result unspecified when scores differ; member order is the only
		// order a lexicographic range can sensibly have and is what the model demands.
		sort.Slice(sel, func(i, j int) bool { return sel[i].m < sel[j].m })
		switch name {
		case "zlexcount":
			return Int(int64(len(sel)))
		case "zremrangebylex":
			for _, p := range sel {
				delete(z.m, p.m)
			}
			m.gc(k)
			return Int(int64(len(sel)))
		}
		return emit(limit(sel, off, cnt), false)
	case "zremrangebyrank":
		if len(a) != 3 {
			return wrongArgs
		}
		s, ok1 := parseInt(a[1])
		e, ok2 := parseInt(a[2])
		if !ok1 || !ok2 {
			return Err("not an integer")
		}
		lo, hi, ok := normRange(s, e, int64(len(sorted)))
		if !ok {
			return Int(0)
		}
		for _, p := range sorted[lo : hi+1] {
			delete(z.m, p.m)
		}
		m.gc(k)
		return Int(hi - lo + 1)
	case "zclear":
		if len(a) != 1 {
			return wrongArgs
		}
		delete(m.ZSet, k)
		if z != nil {
			return Int(1)
		}
		return Int(0)
	case "zkeyexist":
		if len(a) != 1 {
			return wrongArgs
		}
		if z != nil {
			return Int(1)
		}
		return Int(0)
	}
	return Err("unknown command " + name)
}

// KVExpiredPresent reports whether a KV key is dead at second sec but was never overwritten
// or deleted since (its bytes may still be in the engine until compaction).
func (m *Model) KVExpiredPresent(k string, sec int64) bool {
	v := m.KV[k]
	return v != nil && dead(v.exp, sec)
}
