// Package stats records what a generated-input check actually covered: how many
// cases ran, which of them were non-trivial by the property's stated rule (as a set
// of 64-bit hashes of the canonical case, so that distinct cases can be counted and
// unioned across shards), a label histogram, and a few sampled cases written out.
package stats

import (
	"encoding/json"
	"fmt"
	"hash/fnv"
	"os"
	"path/filepath"
	"sort"
	"sync"
	"testing"
)

const maxHashes = 4 << 20

type Recorder struct {
	mu       sync.Mutex
	Name     string
	Rule     string
	evals    int64
	nt       map[uint64]struct{}
	ntSeen   int64
	labels   map[string]int64
	samples  []interface{}
	counters map[string]int64
	exhaust  *bool
}

var (
	regMu sync.Mutex
	reg   []*Recorder
)

// New registers a recorder for one sub-run (usually one Test function).
func New(name, rule string) *Recorder {
	r := &Recorder{Name: name, Rule: rule, nt: map[uint64]struct{}{}, labels: map[string]int64{}, counters: map[string]int64{}}
	regMu.Lock()
	reg = append(reg, r)
	regMu.Unlock()
	return r
}

// Hash of the canonical form of a case.
func Hash(parts ...[]byte) uint64 {
	h := fnv.New64a()
	var l [4]byte
	for _, p := range parts {
		n := len(p)
		l[0], l[1], l[2], l[3] = byte(n), byte(n>>8), byte(n>>16), byte(n>>24)
		h.Write(l[:])
		h.Write(p)
	}
	return h.Sum64()
}

func HashString(s string) uint64 { return Hash([]byte(s)) }

// Record one executed case. sample is only called when the case is kept as a sample.
func (r *Recorder) Record(hash uint64, nontrivial bool, labels []string, sample func() interface{}) {
	r.mu.Lock()
	defer r.mu.Unlock()
	r.evals++
	for _, l := range labels {
		r.labels[l]++
	}
	if !nontrivial {
		if r.evals == 1 && sample != nil && len(r.samples) == 0 {
			r.samples = append(r.samples, map[string]interface{}{"nontrivial": false, "case": sample()})
		}
		return
	}
	if _, ok := r.nt[hash]; ok {
		return
	}
	if len(r.nt) < maxHashes {
		r.nt[hash] = struct{}{}
	}
	r.ntSeen++
	// keep the 1st, 4th, 16th, 64th ... distinct non-trivial case as samples
	if sample != nil && len(r.samples) < 8 && isPow4(r.ntSeen) {
		r.samples = append(r.samples, map[string]interface{}{"nontrivial": true, "case": sample()})
	}
}

func isPow4(n int64) bool {
	for n > 1 {
		if n%4 != 0 {
			return false
		}
		n /= 4
	}
	return n == 1
}

// Count adds to a named counter (e.g. excluded_by_known_finding, inconclusive).
func (r *Recorder) Count(name string, n int64) {
	r.mu.Lock()
	r.counters[name] += n
	r.mu.Unlock()
}

// Exhaustive marks the sub-run as having enumerated its finite space completely.
func (r *Recorder) Exhaustive(v bool) {
	r.mu.Lock()
	r.exhaust = &v
	r.mu.Unlock()
}

type shardFile struct {
	Name       string           `json:"name"`
	Rule       string           `json:"rule"`
	Evals      int64            `json:"evaluations"`
	NT         []uint64         `json:"nontrivial_hashes"`
	Labels     map[string]int64 `json:"labels"`
	Counters   map[string]int64 `json:"counters"`
	Samples    []interface{}    `json:"samples"`
	Exhaustive *bool            `json:"exhaustive,omitempty"`
}

// FlushAll writes one JSON file per recorder into $VERIF_OUT (if set).
func FlushAll() {
	out := os.Getenv("VERIF_OUT")
	if out == "" {
		return
	}
	shard := os.Getenv("VERIF_SHARD")
	if shard == "" {
		shard = "0"
	}
	regMu.Lock()
	defer regMu.Unlock()
	for _, r := range reg {
		r.mu.Lock()
		if r.evals == 0 {
			r.mu.Unlock()
			continue
		}
		sf := shardFile{Name: r.Name, Rule: r.Rule, Evals: r.evals, Labels: r.labels, Counters: r.counters, Samples: r.samples, Exhaustive: r.exhaust}
		for h := range r.nt {
			sf.NT = append(sf.NT, h)
		}
		sort.Slice(sf.NT, func(i, j int) bool { return sf.NT[i] < sf.NT[j] })
		r.mu.Unlock()
		b, err := json.Marshal(sf)
		if err != nil {
			fmt.Fprintf(os.Stderr, "HARNESS: stats marshal %s: %v\n", r.Name, err)
			continue
		}
		fn := filepath.Join(out, fmt.Sprintf("stats-%s-%s.json", shard, r.Name))
		if err := os.WriteFile(fn, b, 0644); err != nil {
			fmt.Fprintf(os.Stderr, "HARNESS: stats write %s: %v\n", fn, err)
		}
	}
}

// Main is a TestMain body: run, flush, exit.
func Main(m *testing.M) {
	code := m.Run()
	FlushAll()
	os.Exit(code)
}
