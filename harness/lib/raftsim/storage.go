package raftsim

import (
	"fmt"
	"os"
	"path/filepath"

	"github.com/youzan/ZanRedisDB/common"
	"github.com/youzan/ZanRedisDB/engine"
	"github.com/youzan/ZanRedisDB/raft"
)

// StorageKind selects the raft.Storage implementation of every replica of a case,
// the two production choices of node.NewKVNode: raft.NewRealMemoryStorage, or
// raft.NewRocksStorage over an engine.KVEngine (UseRocksWAL).
type StorageKind int

const (
	StoreMem StorageKind = iota
	StoreRocksMem
	StoreRocksPebble
	StoreRocksRocksdb
)

func (k StorageKind) String() string {
	switch k {
	case StoreMem:
		return "memory"
	case StoreRocksMem:
		return "rocks/mem"
	case StoreRocksPebble:
		return "rocks/pebble"
	case StoreRocksRocksdb:
		return "rocks/rocksdb"
	}
	return "?"
}

func (k StorageKind) engineType() string {
	switch k {
	case StoreRocksMem:
		return "mem"
	case StoreRocksPebble:
		return "pebble"
	case StoreRocksRocksdb:
		return "rocksdb"
	}
	return ""
}

func init() {
	engine.SetLogLevel(common.LOG_ERR)
}

// ScratchRoot is where engine directories of a case live.
func ScratchRoot() string {
	if d := os.Getenv("VERIF_SCRATCH"); d != "" {
		if err := os.MkdirAll(d, 0755); err == nil {
			return d
		}
	}
	return "/dev/shm"
}

// openEngine opens a fresh engine the way node/namespace.go initRaftStorageEng does
// (WAL disabled, no counters, log-storage options).
func openEngine(kind StorageKind, dir string) (engine.KVEngine, error) {
	cfg := engine.NewRockConfig()
	cfg.DataDir = dir
	cfg.EngineType = kind.engineType()
	cfg.BlockCache = 4 << 20
	cfg.WriteBufferSize = 2 << 20
	cfg.MaxBackgroundCompactions = 2
	cfg.MaxBackgroundFlushes = 1
	cfg.DisableWAL = true
	cfg.DisableMergeCounter = true
	cfg.EnableTableCounter = false
	cfg.OptimizeFiltersForHits = true
	cfg.MinLevelToCompress = 5
	cfg.InsertHintFixedLen = 10
	// AutoCompacted starts a background goroutine that only triggers manual
	// compactions; it has no influence on contents and is left off.
	db, err := engine.NewKVEng(cfg)
	if err != nil {
		return nil, err
	}
	if err := db.OpenEng(); err != nil {
		return nil, err
	}
	db.SetOptsForLogStorage()
	return db, nil
}

// newStorage builds the storage object of a new incarnation. keepEngine: a
// RocksStorage is rebuilt over the surviving engine of the previous incarnation
// (all its data intact); otherwise the engine is new and empty.
func (s *Sim) newStorage(r *Replica, keepEngine bool) raft.IExtRaftStorage {
	if s.P.Storage == StoreMem {
		return raft.NewRealMemoryStorage()
	}
	if r.eng != nil && !keepEngine {
		s.closeEngine(r)
	}
	if r.eng == nil {
		if s.scratch == "" {
			d, err := os.MkdirTemp(ScratchRoot(), "raftsim-")
			if err != nil {
				panic("HARNESS: scratch dir: " + err.Error())
			}
			s.scratch = d
		}
		r.engSeq++
		dir := filepath.Join(s.scratch, fmt.Sprintf("r%d-%d", r.ID, r.engSeq))
		eng, err := openEngine(s.P.Storage, dir)
		if err != nil {
			panic("HARNESS: open engine " + s.P.Storage.String() + ": " + err.Error())
		}
		r.eng, r.engDir = eng, dir
	}
	return raft.NewRocksStorage(r.ID, uint32(GroupID), true, r.eng)
}

func (s *Sim) closeEngine(r *Replica) {
	if r.eng != nil {
		r.eng.CloseAll()
		r.eng = nil
		if r.engDir != "" {
			os.RemoveAll(r.engDir)
			r.engDir = ""
		}
	}
}

// NewProbeStorage opens a stand-alone RocksStorage of the given kind (regression
// probes at the storage API).
func NewProbeStorage(kind StorageKind) (raft.IExtRaftStorage, func(), error) {
	if kind == StoreMem {
		return raft.NewRealMemoryStorage(), func() {}, nil
	}
	dir, err := os.MkdirTemp(ScratchRoot(), "raftsim-probe-")
	if err != nil {
		return nil, nil, err
	}
	eng, err := openEngine(kind, filepath.Join(dir, "e"))
	if err != nil {
		os.RemoveAll(dir)
		return nil, nil, err
	}
	st := raft.NewRocksStorage(1, uint32(GroupID), true, eng)
	return st, func() { eng.CloseAll(); os.RemoveAll(dir) }, nil
}
