// Package raftsim is engine A of /verif: a schedule-owning simulator of one raft group
// built from real raft.Node replicas of /repo/raft (see DESIGN.md §3-A).
//
// The simulator owns everything the production driver (node/raft.go) gets from the
// outside world: the network (a multiset of in-flight messages that it only moves,
// drops or duplicates), the clocks (Tick per replica), the disks (a WAL-like durable
// record per replica) and the application (what each incarnation was handed). The only
// place raft code runs is Sim.Step, which processes one Ready in exactly the order of
// node/raft.go processReady, with crash points at the stage boundaries.
//
// Oracles are Observers supplied by the property packages (c01_leader, c02_apply,
// c03_durability); generators (L1 uniform, L2 swarm, L3 phase-structured) live in gen.go.
package raftsim

import (
	"fmt"
	"hash/fnv"
	"runtime/debug"

	"github.com/youzan/ZanRedisDB/raft"
	pb "github.com/youzan/ZanRedisDB/raft/raftpb"
)

// Fataler is the part of rapid.T / testing.T the simulator needs.
type Fataler interface {
	Fatalf(format string, args ...interface{})
}

// Chooser is the only source of randomness of a case. The rapid-backed implementation
// records every answer so that the case can be re-executed from the tape
// (determinism self-check).
type Chooser interface {
	// Intn returns a value in [0,n). n >= 1.
	Intn(n int, label string) int
}

// TapeChooser replays recorded answers; Bad is set if the replay asks something else
// than the recording did.
type TapeChooser struct {
	Tape []int
	Ns   []int
	pos  int
	Bad  string
}

func (c *TapeChooser) Intn(n int, label string) int {
	if c.pos >= len(c.Tape) {
		if c.Bad == "" {
			c.Bad = fmt.Sprintf("replay asked for more draws than recorded (%d), label %s", len(c.Tape), label)
		}
		return 0
	}
	if c.Ns[c.pos] != n {
		if c.Bad == "" {
			c.Bad = fmt.Sprintf("draw %d (%s): range %d in replay, %d in recording", c.pos, label, n, c.Ns[c.pos])
		}
		c.pos++
		return 0
	}
	v := c.Tape[c.pos]
	c.pos++
	return v
}

// Done reports whether the whole tape was consumed.
func (c *TapeChooser) Done() bool { return c.pos == len(c.Tape) }

// RecChooser wraps a Chooser and records the tape.
type RecChooser struct {
	In   Chooser
	Tape []int
	Ns   []int
}

func (c *RecChooser) Intn(n int, label string) int {
	v := c.In.Intn(n, label)
	c.Tape = append(c.Tape, v)
	c.Ns = append(c.Ns, n)
	return v
}

func chance(ch Chooser, pct int, label string) bool { return ch.Intn(100, label) < pct }

func pick(ch Chooser, label string, vals ...int) int { return vals[ch.Intn(len(vals), label)] }

// weighted picks an index with probability proportional to w[i]; total must be > 0.
func weighted(ch Chooser, label string, w []int) int {
	total := 0
	for _, x := range w {
		total += x
	}
	if total <= 0 {
		return 0
	}
	x := ch.Intn(total, label)
	for i, wi := range w {
		if x < wi {
			return i
		}
		x -= wi
	}
	return len(w) - 1
}

// nopLogger discards everything but keeps raft's Panic/Fatal semantics (they must panic:
// raft relies on Panicf to stop on a broken invariant) and remembers error lines.
type simLogger struct {
	errs []string
}

func (l *simLogger) Debug(v ...interface{})                 {}
func (l *simLogger) Debugf(format string, v ...interface{}) {}
func (l *simLogger) Info(v ...interface{})                  {}
func (l *simLogger) Infof(format string, v ...interface{})  {}
func (l *simLogger) Warning(v ...interface{})               {}
func (l *simLogger) Warningf(format string, v ...interface{}) {
}
func (l *simLogger) Error(v ...interface{}) {
	if len(l.errs) < 32 {
		l.errs = append(l.errs, fmt.Sprint(v...))
	}
}
func (l *simLogger) Errorf(format string, v ...interface{}) {
	if len(l.errs) < 32 {
		l.errs = append(l.errs, fmt.Sprintf(format, v...))
	}
}
func (l *simLogger) Fatal(v ...interface{})                 { panic(fmt.Sprint(v...)) }
func (l *simLogger) Fatalf(format string, v ...interface{}) { panic(fmt.Sprintf(format, v...)) }
func (l *simLogger) Panic(v ...interface{})                 { panic(fmt.Sprint(v...)) }
func (l *simLogger) Panicf(format string, v ...interface{}) { panic(fmt.Sprintf(format, v...)) }

type quietLogger struct{ simLogger }

func init() {
	// package-level logger of raft (used by the storage implementations)
	raft.SetLogger(&quietLogger{})
	// cases allocate node objects (hundreds of KB of queues each) at a high rate while
	// the live heap stays small: the default GC pacing would collect every few cases
	debug.SetGCPercent(600)
	debug.SetMemoryLimit(400 << 20)
}

// hasher accumulates the trace hash of a case.
type hasher struct {
	h uint64
}

const (
	fnvOff   = 14695981039346656037
	fnvPrime = 1099511628211
)

func (h *hasher) reset() { h.h = fnvOff }
func (h *hasher) u64(v uint64) {
	x := h.h
	for i := 0; i < 8; i++ {
		x ^= v & 0xff
		x *= fnvPrime
		v >>= 8
	}
	h.h = x
}
func (h *hasher) bytes(b []byte) {
	x := h.h
	for _, c := range b {
		x ^= uint64(c)
		x *= fnvPrime
	}
	h.h = x
	h.u64(uint64(len(b)))
}
func (h *hasher) str(s string) {
	x := h.h
	for i := 0; i < len(s); i++ {
		x ^= uint64(s[i])
		x *= fnvPrime
	}
	h.h = x
	h.u64(uint64(len(s)))
}

func hashBytes(b []byte) uint64 {
	f := fnv.New64a()
	f.Write(b)
	return f.Sum64()
}

// EntrySig identifies an entry's content: term, type, payload hash and length.
type EntrySig struct {
	Term uint64
	Type pb.EntryType
	Sum  uint64
	Len  int
}

func SigOf(e *pb.Entry) EntrySig {
	return EntrySig{Term: e.Term, Type: e.Type, Sum: hashBytes(e.Data), Len: len(e.Data)}
}

func (g EntrySig) String() string {
	return fmt.Sprintf("term=%d type=%d len=%d sum=%016x", g.Term, g.Type, g.Len, g.Sum)
}

func cloneEntries(in []pb.Entry) []pb.Entry {
	if len(in) == 0 {
		return nil
	}
	out := make([]pb.Entry, len(in))
	copy(out, in)
	return out
}

// cloneMsg is the wire boundary: the receiver must not share slices with the sender
// (raft takes ownership of m.Entries in unstable.truncateAndAppend).
func cloneMsg(m pb.Message) pb.Message {
	m.Entries = cloneEntries(m.Entries)
	if m.Snapshot.Metadata.Index != 0 {
		b, err := m.Snapshot.Marshal()
		if err != nil {
			panic("HARNESS: snapshot marshal: " + err.Error())
		}
		var sn pb.Snapshot
		if err := sn.Unmarshal(b); err != nil {
			panic("HARNESS: snapshot unmarshal: " + err.Error())
		}
		m.Snapshot = sn
	}
	if m.Context != nil {
		m.Context = append([]byte(nil), m.Context...)
	}
	return m
}

func cloneSnap(sn pb.Snapshot) pb.Snapshot {
	if sn.Metadata.Index == 0 {
		return pb.Snapshot{}
	}
	b, err := sn.Marshal()
	if err != nil {
		panic("HARNESS: snapshot marshal: " + err.Error())
	}
	var out pb.Snapshot
	if err := out.Unmarshal(b); err != nil {
		panic("HARNESS: snapshot unmarshal: " + err.Error())
	}
	return out
}

func u64sEqual(a, b []uint64) bool {
	if len(a) != len(b) {
		return false
	}
	for i := range a {
		if a[i] != b[i] {
			return false
		}
	}
	return true
}

func containsU64(a []uint64, x uint64) bool {
	for _, v := range a {
		if v == x {
			return true
		}
	}
	return false
}
