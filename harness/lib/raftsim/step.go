package raftsim

import (
	"fmt"
	"sort"

	"github.com/youzan/ZanRedisDB/raft"
	pb "github.com/youzan/ZanRedisDB/raft/raftpb"
)

// Observer receives everything an oracle may look at. Observers must not call raft.
type Observer interface {
	// Incarnation: a node object exists for r (fresh start or restart).
	Incarnation(s *Sim, r *Replica, restarted bool)
	// StorageRebuilt: restart filled a new storage object from the durable record
	// (snapshot, hard state, entries after the snapshot), before RestartNode.
	StorageRebuilt(s *Sim, r *Replica, sn pb.Snapshot, hs pb.HardState, ents []pb.Entry)
	// Ready: StepNode returned rd; before is the node's state when StepNode was called.
	Ready(s *Sim, r *Replica, rd *raft.Ready, before raft.VerifPeekState)
	// HandOut: rd's snapshot / committed entries were published to the apply side.
	HandOut(s *Sim, r *Replica, sn pb.Snapshot, ents []pb.Entry)
	// Persisted: records were appended to the durable record (synced: fsync covered them).
	Persisted(s *Sim, r *Replica, recs []WalRec, synced bool)
	// Sent: messages of a Ready entered the network (after the production filter).
	Sent(s *Sim, r *Replica, msgs []pb.Message)
	// ConfApplied: the apply side got the result of ApplyConfChange for entry e.
	ConfApplied(s *Sim, r *Replica, e pb.Entry, cc pb.ConfChange, cs pb.ConfState)
	// Crashed: r died at point; lost are the unsynced records the crash took away.
	Crashed(s *Sim, r *Replica, point CrashPoint, lost []WalRec)
	// RaftPanic: raft code panicked in where; r is dead.
	RaftPanic(s *Sim, r *Replica, where string, v interface{})
	// SnapshotCreated: the application snapshotted and compacted r's storage.
	SnapshotCreated(s *Sim, r *Replica, sn pb.Snapshot, compactTo uint64)
	// StepDone: one Step on r finished (crashed or not); storage and app are settled.
	StepDone(s *Sim, r *Replica)
}

// NopObserver implements Observer with no-ops.
type NopObserver struct{}

func (NopObserver) Incarnation(*Sim, *Replica, bool)                                     {}
func (NopObserver) StorageRebuilt(*Sim, *Replica, pb.Snapshot, pb.HardState, []pb.Entry) {}
func (NopObserver) Ready(*Sim, *Replica, *raft.Ready, raft.VerifPeekState)               {}
func (NopObserver) HandOut(*Sim, *Replica, pb.Snapshot, []pb.Entry)                      {}
func (NopObserver) Persisted(*Sim, *Replica, []WalRec, bool)                             {}
func (NopObserver) Sent(*Sim, *Replica, []pb.Message)                                    {}
func (NopObserver) ConfApplied(*Sim, *Replica, pb.Entry, pb.ConfChange, pb.ConfState)    {}
func (NopObserver) Crashed(*Sim, *Replica, CrashPoint, []WalRec)                         {}
func (NopObserver) RaftPanic(*Sim, *Replica, string, interface{})                        {}
func (NopObserver) SnapshotCreated(*Sim, *Replica, pb.Snapshot, uint64)                  {}
func (NopObserver) StepDone(*Sim, *Replica)                                              {}

func sortedMsgs(in []pb.Message) []pb.Message {
	out := make([]pb.Message, len(in))
	copy(out, in)
	sort.SliceStable(out, func(i, j int) bool { return out[i].To < out[j].To })
	return out
}

func (s *Sim) hashReady(r *Replica, rd *raft.Ready) {
	h := &s.hash
	h.str("ready")
	h.u64(r.ID)
	if rd.SoftState != nil {
		h.u64(rd.SoftState.Lead)
		h.u64(uint64(rd.SoftState.RaftState))
	}
	h.u64(rd.HardState.Term)
	h.u64(rd.HardState.Vote)
	h.u64(rd.HardState.Commit)
	h.u64(rd.Snapshot.Metadata.Index)
	h.u64(rd.Snapshot.Metadata.Term)
	for i := range rd.Entries {
		e := &rd.Entries[i]
		h.u64(e.Index)
		h.u64(e.Term)
		h.u64(uint64(e.Type))
		h.bytes(e.Data)
	}
	h.u64(uint64(len(rd.CommittedEntries)))
	for i := range rd.CommittedEntries {
		e := &rd.CommittedEntries[i]
		h.u64(e.Index)
		h.u64(e.Term)
	}
	msgs := sortedMsgs(rd.Messages)
	for i := range msgs {
		m := &msgs[i]
		h.u64(uint64(m.Type))
		h.u64(m.To)
		h.u64(m.Term)
		h.u64(m.Index)
		h.u64(m.LogTerm)
		h.u64(m.Commit)
		h.u64(uint64(len(m.Entries)))
		if m.Reject {
			h.u64(m.RejectHint + 1)
		}
		h.u64(m.Snapshot.Metadata.Index)
	}
}

func readyBrief(rd *raft.Ready) string {
	out := ""
	if rd.SoftState != nil {
		out += fmt.Sprintf(" soft={lead %d %s}", rd.SoftState.Lead, rd.SoftState.RaftState)
	}
	if !raft.IsEmptyHardState(rd.HardState) {
		out += fmt.Sprintf(" hs={t%d v%d c%d}", rd.HardState.Term, rd.HardState.Vote, rd.HardState.Commit)
	}
	if !raft.IsEmptySnap(rd.Snapshot) {
		out += fmt.Sprintf(" snap=%d/%d", rd.Snapshot.Metadata.Index, rd.Snapshot.Metadata.Term)
	}
	if n := len(rd.Entries); n > 0 {
		out += fmt.Sprintf(" ents=[%d/t%d..%d/t%d]", rd.Entries[0].Index, rd.Entries[0].Term, rd.Entries[n-1].Index, rd.Entries[n-1].Term)
	}
	if n := len(rd.CommittedEntries); n > 0 {
		out += fmt.Sprintf(" committed=[%d..%d]", rd.CommittedEntries[0].Index, rd.CommittedEntries[n-1].Index)
		if rd.MoreCommittedEntries {
			out += "+more"
		}
	}
	if len(rd.Messages) > 0 {
		out += " msgs:"
		msgs := sortedMsgs(rd.Messages)
		for i := range msgs {
			if i >= 6 {
				out += fmt.Sprintf(" ...%d more", len(msgs)-i)
				break
			}
			out += " {" + msgBrief(&msgs[i]) + "}"
		}
	}
	return out
}

// Step is the only place raft code runs on input: one StepNode and the processing of
// its Ready in the order of node/raft.go processReady. crash selects the stage
// boundary at which the replica dies (NoCrash: the Ready is processed completely).
// cut is consulted when a crash can lose unsynced records: it returns how many of the
// n unsynced trailing records survive.
func (s *Sim) Step(r *Replica, moreToApply, busySnap bool, crash CrashPoint, cut func(n int) int) (hadReady bool) {
	if !r.Up {
		return false
	}
	s.St.Steps++
	if !moreToApply {
		s.St.NoApplySteps++
	}
	if busySnap {
		s.St.BusySteps++
	}
	defer func() {
		if !s.failed {
			for _, o := range s.Obs {
				o.StepDone(s, r)
			}
		}
	}()
	before := raft.VerifPeek(r.Node)
	var rd raft.Ready
	var ok bool
	if s.guard(r, "StepNode", func() { rd, ok = r.Node.StepNode(moreToApply, busySnap) }) {
		return true
	}
	r.Dirty = false
	s.hash.str("step")
	s.hash.u64(r.ID)
	// A conf change the apply side had queued was consumed by this StepNode
	// (node.handleConfChanged): the apply side gets its ConfState and goes on.
	if s.resumeApp(r) {
		return true
	}
	if !ok {
		return false
	}
	s.St.Readies++
	s.hashReady(r, &rd)
	if !raft.IsEmptyHardState(rd.HardState) {
		r.LastHSTerm = rd.HardState.Term
		if rd.HardState.Term > s.St.MaxTerm {
			s.St.MaxTerm = rd.HardState.Term
		}
	}
	if rd.SoftState != nil {
		r.SoftLead = rd.SoftState.Lead
	}
	s.ev("ready", r.ID, readyBrief(&rd))
	for _, o := range s.Obs {
		o.Ready(s, r, &rd, before)
	}
	if rd.MoreCommittedEntries {
		s.St.PagedHandouts++
		r.Dirty = true
	}

	// ---- processReady ----
	isMeNewLeader := rd.SoftState != nil && rd.SoftState.RaftState == raft.StateLeader
	waitApply := false
	if !isMeNewLeader {
		for i := range rd.CommittedEntries {
			if rd.CommittedEntries[i].Type == pb.EntryConfChange {
				waitApply = true
				break
			}
		}
	}
	hasSnap := !raft.IsEmptySnap(rd.Snapshot)
	if hasSnap {
		waitApply = true
	}
	msgs := s.processMessages(rd.Messages)

	// the known single-voter window (apply and send before the WAL write) is excluded by
	// moving the crash behind the WAL write when the finding is recorded as known
	single := len(before.Voters) <= 1 || raft.VerifLogPeek(r.Node).Quorum <= 1
	if crash == NoCrash && hasSnap && s.SnapCrash != nil {
		crash = s.SnapCrash()
	}
	if crash != NoCrash && s.crashExcluded(r, &rd) {
		s.St.ExcludedKnown++
		crash = NoCrash
	}
	crash = s.adjustCrash(r, &rd, isMeNewLeader, single, len(msgs), crash)

	if crash == CrashReadyLost {
		s.crashNow(r, crash, cut)
		return true
	}
	// persistRaftState: SaveSnap (snap file, WAL marker, sync), then Save(hardstate, entries).
	// Returns true if the replica died inside it.
	persist := func() bool {
		if hasSnap {
			from := len(r.Disk.Recs)
			r.Disk.appendSnap(cloneSnap(rd.Snapshot))
			r.Disk.sync()
			s.notifyPersisted(r, from, true)
			s.St.SnapshotsInstalled++
		}
		if crash == CrashSnapSaved {
			s.crashNow(r, crash, cut)
			return true
		}
		{
			from := len(r.Disk.Recs)
			prev := r.Disk.lastState()
			r.Disk.appendEntries(rd.Entries)
			r.Disk.appendState(rd.HardState)
			if crash == CrashTornPersist {
				s.notifyPersisted(r, from, false)
				s.crashNow(r, crash, cut)
				return true
			}
			// wal.Save: nothing to write -> return; else sync iff raft.MustSync(st, w.state, len(ents))
			wrote := len(r.Disk.Recs) > from
			mustSync := wrote && raft.MustSync(rd.HardState, prev, len(rd.Entries))
			if mustSync || hasSnap { // processReady syncs explicitly after an incoming snapshot
				r.Disk.sync()
			}
			if wrote {
				s.notifyPersisted(r, from, mustSync || hasSnap)
			}
		}
		return false
	}
	// processReady persists first when the Ready hands out, as committed, entries it still has to
	// write (node/raft.go committedEntriesNotPersisted: only possible with a quorum of one)
	persisted := false
	if n := len(rd.CommittedEntries); n > 0 && len(rd.Entries) > 0 {
		lc, fu := rd.CommittedEntries[n-1], rd.Entries[0]
		if lc.Term > fu.Term || (lc.Term == fu.Term && lc.Index >= fu.Index) {
			s.St.PersistedBeforePublish++
			if persist() {
				return true
			}
			persisted = true
		}
	}
	// publishEntries: the apply side now owns the committed entries / the snapshot
	if len(rd.CommittedEntries) > 0 || hasSnap {
		s.publish(r, &rd)
		if !r.Up { // applied own removal in the asynchronous part
			return true
		}
	}
	if crash == CrashAfterPublish {
		s.crashNow(r, crash, cut)
		return true
	}
	// (incoming snapshot: the raft loop waits here for the transfer of the snapshot data)
	if isMeNewLeader {
		if len(msgs) > 0 && (len(rd.Entries) > 0 || !raft.IsEmptyHardState(rd.HardState)) {
			s.St.SentByNewLeaderBeforePersist++
		}
		s.send(r, msgs)
	}
	if crash == CrashLeaderSent {
		s.crashNow(r, crash, cut)
		return true
	}
	if !persisted {
		if persist() {
			return true
		}
	}
	if crash == CrashWalSaved {
		s.crashNow(r, crash, cut)
		return true
	}
	if hasSnap {
		if s.guard(r, "storage.ApplySnapshot", func() { r.Store.ApplySnapshot(rd.Snapshot) }) {
			return true
		}
	}
	if crash == CrashSnapApplied {
		s.crashNow(r, crash, cut)
		return true
	}
	var aerr error
	if s.guard(r, "storage.Append", func() { aerr = r.Store.Append(rd.Entries) }) {
		return true
	}
	if aerr != nil {
		// production ignores the error value; the oracle side sees the divergence, if any
		s.ev("appenderr", r.ID, aerr.Error())
	}
	if crash == CrashAppended {
		s.crashNow(r, crash, cut)
		return true
	}
	if !isMeNewLeader {
		if waitApply {
			// "wait apply for pending configure or snapshot": the raft loop serves
			// ConfChangedCh until the apply side has finished everything published so far
			if s.drainApp(r, true) {
				return true
			}
			if !r.Up {
				return true
			}
		}
		s.send(r, msgs)
	}
	if crash == CrashBeforeAdvance {
		s.crashNow(r, crash, cut)
		return true
	}
	if s.guard(r, "Advance", func() { r.Node.Advance(rd) }) {
		return true
	}
	return true
}

// adjustCrash maps crash points that do not exist for this Ready onto the next one
// that does, and applies the exclusion of a recorded known finding.
func (s *Sim) adjustCrash(r *Replica, rd *raft.Ready, isMeNewLeader, single bool, nmsgs int, crash CrashPoint) CrashPoint {
	if crash == NoCrash {
		return crash
	}
	hasSnap := !raft.IsEmptySnap(rd.Snapshot)
	if crash == CrashLeaderSent && !isMeNewLeader {
		crash = CrashAfterPublish
	}
	if crash == CrashSnapSaved && !hasSnap {
		crash = CrashTornPersist
	}
	if crash == CrashSnapApplied && !hasSnap {
		crash = CrashWalSaved
	}
	if crash == CrashAppended && isMeNewLeader {
		crash = CrashBeforeAdvance
	}
	if s.Known[KnownPartialBootstrap] && s.bootstrapVulnerable(r) && crash < CrashWalSaved {
		s.St.ExcludedKnown++
		crash = CrashWalSaved
	}
	if s.Known[KnownSingleVoterWindow] && single && crash >= CrashAfterPublish && crash <= CrashTornPersist {
		// trigger of the finding: a node that is the only voter it knows acts on state
		// that is not yet in its WAL (publishes entries of this very Ready, or - newly
		// elected - sends them) and dies before the WAL write completes.
		n := len(rd.CommittedEntries)
		publishesUnstable := n > 0 && len(rd.Entries) > 0 && rd.CommittedEntries[n-1].Index >= rd.Entries[0].Index
		sendsUnstable := isMeNewLeader && nmsgs > 0 && (len(rd.Entries) > 0 || !raft.IsEmptyHardState(rd.HardState))
		if publishesUnstable || sendsUnstable {
			s.St.ExcludedKnown++
			crash = CrashWalSaved
		}
	}
	return crash
}

// Ids of findings whose trigger the simulator can exclude (Sim.Known).
const (
	// a single-voter leader publishes (and, when newly elected, sends) entries before
	// they are in its WAL
	KnownSingleVoterWindow = "C03-single-voter-apply-before-wal"
	// a bootstrap member that lost the Ready carrying the bootstrap conf entries
	// re-learns the membership entry by entry and elects itself while it only knows itself
	KnownPartialBootstrap = "C01-partial-bootstrap-self-election"
	// a replica started as learner that restarts from a durable record whose committed
	// prefix does not yet contain its own AddLearner entry comes back with isLearner ==
	// false and then refuses every snapshot that lists it as learner
	KnownLearnerSnapshot = "C03-restarted-learner-refuses-snapshot"
	// RocksStorage.ApplySnapshot keeps the entries above the snapshot index
	KnownRocksStaleTail = "C03-rocksstorage-stale-tail-after-snapshot"
	// a learner that was promoted but has not applied its own promotion yet ignores vote
	// requests; if the voters that know of the promotion need its vote, no leader can
	// ever be elected again (not excluded from generation: the C03 heal verdict
	// recognises the signature)
	KnownPromotedLearnerNoVote = "C03-promoted-learner-ignores-votes"
	// wal.ReadAll skips entry records at or below the snapshot index, also when such a
	// record is the one that truncated the entries above it: after a restart the
	// truncated suffix above the snapshot is back
	KnownWalResurrect = "C03-wal-replay-resurrects-truncated-suffix"
	// raft.removeNode calls maybeCommit whatever the node's role: a restarted replica
	// that re-applies a RemoveNode which (in the configuration rebuilt so far) leaves it
	// as the only voter commits its own uncommitted entries of the current term
	KnownConfReplayCommit = "C02-nonleader-commits-on-conf-replay"
)

// KnownIDs lists them; a property package turns on those that known.Active reports.
var KnownIDs = []string{KnownSingleVoterWindow, KnownPartialBootstrap, KnownLearnerSnapshot, KnownRocksStaleTail, KnownWalResurrect, KnownConfReplayCommit}

// confReplayVulnerable: if r restarted from its durable record (plus extra, the entries
// of the Ready in progress) it would re-apply a RemoveNode after which it is the only
// voter of the configuration rebuilt so far, while its log holds an entry of its
// current term behind that conf change.
func (s *Sim) confReplayVulnerable(r *Replica, extra []pb.Entry, extraTerm uint64) bool {
	sn, hs, ents, err := r.Disk.Replay()
	if err != nil {
		return false
	}
	term := hs.Term
	if extraTerm > term {
		term = extraTerm
	}
	if len(extra) > 0 {
		sh := Shadow{}
		sh.Reset(sn, ents)
		if sh.Append(extra) == nil {
			ents = sh.Ents
		}
	}
	// what is certainly known committed after a crash: the commit index of the synced part
	var commit uint64
	for k := r.Disk.Synced - 1; k >= 0; k-- {
		if r.Disk.Recs[k].Kind == RecState {
			commit = r.Disk.Recs[k].HS.Commit
			break
		}
	}
	cs := sn.Metadata.ConfState
	if !containsU64(cs.Nodes, r.ID) {
		// newRaft gives the node a progress entry for itself (Match = last index) only if
		// the snapshot's ConfState lists it; a progress created by a replayed AddNode has Match 0
		return false
	}
	c := NewConfFold(cs.Nodes...)
	for _, l := range cs.Learners {
		c.Learners[l] = true
	}
	alone := uint64(0) // index of a RemoveNode that leaves r alone
	for i := range ents {
		e := &ents[i]
		if alone != 0 && e.Term == term && e.Index > commit {
			return true
		}
		if e.Type != pb.EntryConfChange {
			continue
		}
		var cc pb.ConfChange
		if cc.Unmarshal(e.Data) != nil {
			continue
		}
		c.Apply(cc)
		if cc.Type == pb.ConfChangeRemoveNode && len(c.Voters) == 1 && c.Voters[r.ID] {
			alone = e.Index
		}
	}
	return false
}

// wouldResurrect: with a snapshot marker for sn in the durable record, a restart of r
// would read back entries above sn that are not r's log (its log then ends at trueLast;
// entries up to trueLast are compared by term through term()).
func (s *Sim) wouldResurrect(r *Replica, sn pb.Snapshot, trueLast uint64, term func(i uint64) (uint64, bool)) bool {
	d := Durable{Recs: append(append([]WalRec(nil), r.Disk.Recs...), WalRec{Kind: RecSnap, Snap: sn})}
	hs := r.Disk.lastState()
	if hs.Commit < sn.Metadata.Index {
		hs.Commit = sn.Metadata.Index
	}
	d.Recs = append(d.Recs, WalRec{Kind: RecState, HS: hs})
	got, _, ents, err := d.Replay()
	if err != nil || got.Metadata.Index != sn.Metadata.Index {
		return false
	}
	for i := range ents {
		if ents[i].Index > trueLast {
			return true
		}
		if term != nil {
			if t, ok := term(ents[i].Index); ok && t != ents[i].Term {
				return true
			}
		}
	}
	return false
}

// learnerVulnerable: r was started as a learner and the committed prefix of its durable
// record does not (yet) make it a member.
func (s *Sim) learnerVulnerable(r *Replica) bool {
	if !r.Learner {
		return false
	}
	sn, hs, ents, err := r.Disk.Replay()
	if err != nil {
		return false
	}
	cs := sn.Metadata.ConfState
	c := NewConfFold(cs.Nodes...)
	for _, l := range cs.Learners {
		c.Learners[l] = true
	}
	for i := range ents {
		if ents[i].Index <= hs.Commit {
			c.ApplyEntry(&ents[i])
		}
	}
	return !c.Voters[r.ID] && !c.Learners[r.ID]
}

// crashExcluded: a crash of r now would produce the trigger of a recorded finding.
func (s *Sim) crashExcluded(r *Replica, rd *raft.Ready) bool {
	if s.Known[KnownLearnerSnapshot] && s.learnerVulnerable(r) {
		return true
	}
	if s.Known[KnownConfReplayCommit] {
		var extra []pb.Entry
		var et uint64
		if rd != nil {
			extra, et = rd.Entries, rd.HardState.Term
		}
		if s.confReplayVulnerable(r, nil, 0) || (rd != nil && s.confReplayVulnerable(r, extra, et)) {
			return true
		}
	}
	return false
}

// bootstrapVulnerable: r is a bootstrap member whose durable record does not yet hold
// the bootstrap entries as committed.
func (s *Sim) bootstrapVulnerable(r *Replica) bool {
	return !r.Join && r.Disk.lastState().Commit < uint64(s.P.N)
}

// processMessages: node/raft.go keeps only the last MsgAppResp of a Ready (the others
// get To=0, which the transport discards). Outgoing messages are stably sorted by
// destination because raft's broadcast order is Go map iteration order.
func (s *Sim) processMessages(in []pb.Message) []pb.Message {
	msgs := make([]pb.Message, len(in))
	copy(msgs, in)
	if s.P.KeepLastAppResp {
		sent := false
		for i := len(msgs) - 1; i >= 0; i-- {
			if msgs[i].Type == pb.MsgAppResp {
				if sent {
					msgs[i].To = 0
				} else {
					sent = true
				}
			}
		}
	}
	out := msgs[:0]
	for i := range msgs {
		if msgs[i].To != 0 {
			out = append(out, msgs[i])
		}
	}
	sort.SliceStable(out, func(i, j int) bool { return out[i].To < out[j].To })
	return out
}

func (s *Sim) notifyPersisted(r *Replica, from int, synced bool) {
	if from >= len(r.Disk.Recs) {
		return
	}
	recs := r.Disk.Recs[from:]
	for _, o := range s.Obs {
		o.Persisted(s, r, recs, synced)
	}
}

// publish models publishEntries + the independent apply goroutine: the hand-out is
// observed now; ordinary entries are applied at once; a conf change blocks the apply
// side until the raft loop serves it.
func (s *Sim) publish(r *Replica, rd *raft.Ready) {
	sn := rd.Snapshot
	for _, o := range s.Obs {
		o.HandOut(s, r, sn, rd.CommittedEntries)
	}
	if !raft.IsEmptySnap(sn) {
		// applySnapshot: state machine replaced, np.* reset to the snapshot
		r.App.queue = nil
		r.App.Applied = sn.Metadata.Index
		r.App.AppliedTerm = sn.Metadata.Term
		r.App.SnapIndex = sn.Metadata.Index
		r.App.Conf = cloneSnap(sn).Metadata.ConfState
		r.App.Published = sn.Metadata.Index
	}
	for i := range rd.CommittedEntries {
		e := rd.CommittedEntries[i]
		// applyEntries skips what it has already applied and stops the node on a gap;
		// the oracles see both through HandOut
		if e.Index <= r.App.Published && r.App.Published != 0 {
			continue
		}
		r.App.Published = e.Index
		r.App.queue = append(r.App.queue, e)
	}
	s.drainApp(r, false)
}

// drainApp lets the apply side run. inline: the raft loop is in its "wait apply" loop
// and serves ConfChangedCh itself (HandleConfChanged); otherwise a conf change stays
// queued in ConfChangedCh until the next StepNode takes it. Returns true if raft panicked.
func (s *Sim) drainApp(r *Replica, inline bool) (panicked bool) {
	a := &r.App
	for len(a.queue) > 0 {
		e := a.queue[0]
		if e.Type != pb.EntryConfChange {
			a.Applied, a.AppliedTerm = e.Index, e.Term
			a.NApplied++
			a.queue = a.queue[1:]
			continue
		}
		if a.pending == nil {
			var cc pb.ConfChange
			if err := cc.Unmarshal(e.Data); err != nil {
				s.Fail("HARNESS: conf change entry %d does not unmarshal: %v", e.Index, err)
			}
			p := &pendingCC{done: make(chan struct{}), cc: cc, ent: e}
			n := r.Node
			go func() {
				p.cs = *n.ApplyConfChange(cc)
				close(p.done)
			}()
			waitConfQueued(n)
			a.pending = p
		}
		if !inline {
			return false
		}
		var cc pb.ConfChange
		cc = <-r.Node.ConfChangedCh()
		if s.guard(r, "HandleConfChanged", func() { r.Node.HandleConfChanged(cc) }) {
			return true
		}
		if s.finishConf(r) {
			return false // replica applied its own removal
		}
	}
	return false
}

// resumeApp is called after every StepNode: if the apply side was blocked on a conf
// change and StepNode consumed it, the apply side continues.
func (s *Sim) resumeApp(r *Replica) (dead bool) {
	a := &r.App
	if a.pending == nil {
		return false
	}
	if len(r.Node.ConfChangedCh()) != 0 {
		return false // not consumed (cannot happen: StepNode always takes it)
	}
	s.St.AsyncConf++
	if s.finishConf(r) {
		return true
	}
	s.drainApp(r, false)
	return !r.Up
}

// finishConf: ApplyConfChange returned. Reports true if the replica applied its own
// removal and is gone.
func (s *Sim) finishConf(r *Replica) (gone bool) {
	a := &r.App
	p := a.pending
	<-p.done
	a.pending = nil
	a.Conf = p.cs
	a.Applied, a.AppliedTerm = p.ent.Index, p.ent.Term
	a.NApplied++
	a.queue = a.queue[1:]
	s.St.ConfApplied[p.cc.Type]++
	s.hash.str("confapplied")
	s.hash.u64(r.ID)
	s.hash.u64(p.ent.Index)
	s.ev("confdone", r.ID, fmt.Sprintf("entry %d %s r%d -> voters=%v learners=%v", p.ent.Index, p.cc.Type, p.cc.ReplicaID, p.cs.Nodes, p.cs.Learners))
	for _, o := range s.Obs {
		o.ConfApplied(s, r, p.ent, p.cc, p.cs)
	}
	if p.cc.Type == pb.ConfChangeRemoveNode && p.cc.ReplicaID == r.ID {
		// applyConfChange: "I've been removed from the cluster! Shutting down."
		// applyEntries finishes the batch, then the node is destroyed.
		for len(a.queue) > 0 && a.queue[0].Type != pb.EntryConfChange {
			a.Applied, a.AppliedTerm = a.queue[0].Index, a.queue[0].Term
			a.queue = a.queue[1:]
		}
		s.St.SelfRemoved++
		s.ev("removed", r.ID, "applied its own removal; destroyed")
		s.hash.str("selfremoved")
		s.kill(r)
		r.Removed = true
		return true
	}
	return false
}

// crashNow kills r at a stage boundary. Unsynced trailing records of the durable
// record may be lost (cut decides how many survive).
func (s *Sim) crashNow(r *Replica, point CrashPoint, cut func(n int) int) {
	s.St.Crashes++
	s.St.CrashAt[point]++
	var lost []WalRec
	if n := len(r.Disk.Recs) - r.Disk.Synced; n > 0 {
		keep := n
		if cut != nil {
			keep = cut(n)
			if keep < 0 {
				keep = 0
			}
			if keep > n {
				keep = n
			}
		}
		if keep < n {
			all := r.Disk.Recs
			r.Disk.Recs = all[:r.Disk.Synced+keep]
			if (s.Known[KnownPartialBootstrap] && s.bootstrapVulnerable(r)) || s.crashExcluded(r, nil) {
				// would leave a bootstrap member without its committed bootstrap entries
				r.Disk.Recs = all
				s.St.ExcludedKnown++
			} else {
				s.St.TornLoss++
				lost = append(lost, all[r.Disk.Synced+keep:]...)
			}
		}
	}
	// what survived is on disk now
	r.Disk.sync()
	s.hash.str("crash")
	s.hash.u64(r.ID)
	s.hash.u64(uint64(point))
	s.hash.u64(uint64(len(lost)))
	s.ev("CRASH", r.ID, fmt.Sprintf("at %s, %d unsynced records lost", point, len(lost)))
	s.kill(r)
	for _, o := range s.Obs {
		o.Crashed(s, r, point, lost)
	}
}

// Crash kills r between two steps.
func (s *Sim) Crash(r *Replica, cut func(n int) int) {
	if !r.Up {
		return
	}
	if (s.Known[KnownPartialBootstrap] && s.bootstrapVulnerable(r)) || s.crashExcluded(r, nil) {
		s.St.ExcludedKnown++
		return
	}
	s.crashNow(r, NoCrash, cut)
}

// Restart builds a NEW storage object, fills it as replayWAL does (ApplySnapshot,
// SetHardState, Append of the entries after the snapshot) and calls RestartNode.
// keepEngine: the engine under a RocksStorage survived with all its contents.
func (s *Sim) Restart(r *Replica, keepEngine bool) {
	if r.Up || r.Removed {
		return
	}
	s.St.Restarts++
	if s.P.Storage != StoreMem {
		if keepEngine && r.eng != nil {
			s.St.EngineKept++
		} else {
			s.St.EngineWiped++
		}
	}
	sn, hs, ents, err := r.Disk.Replay()
	s.hash.str("restart")
	s.hash.u64(r.ID)
	s.ev("restart", r.ID, fmt.Sprintf("snap=%d/%d hs={t%d v%d c%d} ents=%d keepEngine=%v", sn.Metadata.Index, sn.Metadata.Term, hs.Term, hs.Vote, hs.Commit, len(ents), keepEngine))
	if err != nil {
		// production: ReadAll fails, the node cannot start
		for _, o := range s.Obs {
			o.RaftPanic(s, r, "wal.ReadAll", err.Error())
		}
		return
	}
	r.Store = s.newStorage(r, keepEngine)
	r.Incarnation++
	r.App = App{}
	r.OutSnap = map[uint64]int{}
	r.LastHSTerm, r.SoftLead, r.ReplayLast = 0, 0, 0
	if len(ents) > 0 {
		r.ReplayLast = ents[len(ents)-1].Index
	}
	dead := s.guard(r, "replayWAL", func() {
		if !raft.IsEmptySnap(sn) {
			r.Store.ApplySnapshot(cloneSnap(sn))
		}
		r.Store.SetHardState(hs)
		r.Store.Append(cloneEntries(ents))
	})
	if dead {
		return
	}
	for _, o := range s.Obs {
		o.StorageRebuilt(s, r, sn, hs, ents)
	}
	if s.guard(r, "RestartNode", func() {
		if s.P.RealCtor {
			r.Node = raft.RestartNode(s.config(r))
		} else {
			r.Node = raft.VerifRestartNode(s.config(r), simRecvQueue, simPropQueue)
		}
	}) {
		return
	}
	r.Up = true
	r.Dirty = true
	// applyCommits starts from the storage snapshot
	r.App.Applied, r.App.AppliedTerm = sn.Metadata.Index, sn.Metadata.Term
	r.App.SnapIndex = sn.Metadata.Index
	r.App.StartIndex = sn.Metadata.Index
	r.App.Published = sn.Metadata.Index
	r.App.Conf = cloneSnap(sn).Metadata.ConfState
	if s.P.RestartTicks {
		// restartNode: advanceTicksForElection(node, ElectionTick)
		for i := 0; i < s.P.ElectionTick-1; i++ {
			r.Node.Tick()
		}
	}
	for _, o := range s.Obs {
		o.Incarnation(s, r, true)
	}
}

// Snapshot is beginSnapshot of node/raft.go on replica r at its applied index:
// CreateSnapshot(applied, confState, data) on the storage, SaveSnap to the durable
// record (synced), Compact(applied - catchup). Allowed only when the apply side is
// idle (production triggers it from the apply goroutine after a batch and after the
// raft loop finished its disk writes).
func (s *Sim) Snapshot(r *Replica, catchup uint64) bool {
	if !s.CanSnapshot(r) {
		return false
	}
	a := &r.App
	snapi := a.Applied
	li, err := r.Store.LastIndex()
	if err != nil || snapi > li {
		return false // production waits for raftDone: applied <= storage last index
	}
	if s.Known[KnownWalResurrect] {
		st, terr := r.Store.Term(snapi)
		probe := pb.Snapshot{Metadata: pb.SnapshotMetadata{Index: snapi, Term: st}}
		if terr == nil && s.wouldResurrect(r, probe, li, func(i uint64) (uint64, bool) {
			t, e := r.Store.Term(i)
			return t, e == nil
		}) {
			s.St.ExcludedKnown++
			return false
		}
	}
	cs := a.Conf
	data := []byte(fmt.Sprintf("state@%d", snapi))
	var sn pb.Snapshot
	var cerr error
	if s.guard(r, "CreateSnapshot", func() { sn, cerr = r.Store.CreateSnapshot(snapi, &cs, data) }) {
		return true
	}
	if cerr != nil {
		s.ev("snaperr", r.ID, fmt.Sprintf("CreateSnapshot(%d): %v", snapi, cerr))
		return false
	}
	from := len(r.Disk.Recs)
	r.Disk.appendSnap(cloneSnap(sn))
	r.Disk.sync()
	s.notifyPersisted(r, from, true)
	a.SnapIndex = snapi
	compactTo := uint64(1)
	if snapi > catchup {
		compactTo = snapi - catchup
	}
	var perr error
	if s.guard(r, "Compact", func() { perr = r.Store.Compact(compactTo) }) {
		return true
	}
	s.St.SnapshotsCreated++
	s.hash.str("snapshot")
	s.hash.u64(r.ID)
	s.hash.u64(snapi)
	s.hash.u64(compactTo)
	s.ev("snapshot", r.ID, fmt.Sprintf("at %d/%d conf=%v/%v compact to %d (%v)", sn.Metadata.Index, sn.Metadata.Term, cs.Nodes, cs.Learners, compactTo, perr))
	for _, o := range s.Obs {
		o.SnapshotCreated(s, r, sn, compactTo)
	}
	return true
}

// CanSnapshot mirrors the preconditions of maybeTriggerSnapshot: something was applied
// since the last snapshot, the node is not replaying its local log any more
// (applied > last index read from the WAL at restart), it knows a leader, and the
// apply side is idle.
func (s *Sim) CanSnapshot(r *Replica) bool {
	if !r.Up || len(r.App.queue) > 0 || r.App.pending != nil {
		return false
	}
	a := &r.App
	return a.Applied > a.SnapIndex && a.Applied > r.ReplayLast && r.SoftLead != 0
}
