package raftsim

import (
	"testing"

	pb "github.com/youzan/ZanRedisDB/raft/raftpb"
)

// Self-tests of the simulator (DESIGN §7 item 1): the flows of raft's own documentation
// (doc.go: bootstrap, elect, propose, apply; add a node; restart from storage) driven
// through Sim.Step must behave as documented. They are not part of any property's run
// table; run them with `go test -tags verif ./lib/raftsim/`.

type tfatal struct{ t *testing.T }

func (f tfatal) Fatalf(format string, args ...interface{}) { f.t.Fatalf(format, args...) }

func params(n int, st StorageKind) Params {
	return Params{N: n, PreVote: true, CheckQuorum: true, ElectionTick: 5, HeartbeatTick: 1, MaxSizePerMsg: 1 << 20, MaxCommittedSize: 1 << 20,
		MaxInflight: 8, Storage: st, Seed: 7, KeepLastAppResp: true, RestartTicks: true}
}

func settle(s *Sim, rounds int) {
	for i := 0; i < rounds; i++ {
		s.TickAll()
		s.Settle(500, nil, nil)
	}
}

func TestSmokeElectProposeApply(t *testing.T) {
	if why := SelfTestConstructors(); why != "" {
		t.Fatal(why)
	}
	for _, st := range []StorageKind{StoreMem, StoreRocksMem, StoreRocksPebble} {
		s := New(tfatal{t}, params(3, st))
		settle(s, 15)
		l := s.Leader()
		if l == nil {
			t.Fatalf("%s: no leader after 15 rounds\n%s", st, s.Describe())
		}
		for i := 0; i < 9; i++ {
			s.Propose(l, 16)
			s.FullStep(l)
		}
		settle(s, 3)
		for _, r := range s.Reps {
			// 3 bootstrap entries + 1 leader entry + 9 proposals
			if r.App.Applied != 13 {
				t.Fatalf("%s: replica %d applied %d, want 13\n%s", st, r.ID, r.App.Applied, s.Describe())
			}
		}
		// crash everybody at different stages, restart, converge again
		s.Propose(l, 16)
		s.Step(l, true, false, CrashWalSaved, nil)
		s.Crash(s.Rep(l.ID%3+1), nil)
		for _, r := range s.Reps {
			if !r.Up {
				s.Restart(r, r.ID%2 == 0)
			}
		}
		settle(s, 25)
		if s.Leader() == nil {
			t.Fatalf("%s: no leader after restart\n%s", st, s.Describe())
		}
		max := uint64(0)
		for _, r := range s.Reps {
			if r.App.Applied > max {
				max = r.App.Applied
			}
		}
		for _, r := range s.Reps {
			if r.App.Applied != max || max < 14 {
				t.Fatalf("%s: after restart replica %d applied %d, max %d (want all equal, >= 14)\n%s", st, r.ID, r.App.Applied, max, s.Describe())
			}
		}
		s.Close()
	}
}

func TestSmokeMembershipAndSnapshot(t *testing.T) {
	s := New(tfatal{t}, params(3, StoreMem))
	defer s.Close()
	settle(s, 15)
	l := s.Leader()
	if l == nil {
		t.Fatalf("no leader\n%s", s.Describe())
	}
	j := s.AddReplica(false)
	s.ProposeConf(l, pb.ConfChangeAddNode, j.ID)
	s.FullStep(l)
	settle(s, 5)
	lr := s.AddReplica(true)
	s.ProposeConf(l, pb.ConfChangeAddLearnerNode, lr.ID)
	s.FullStep(l)
	settle(s, 5)
	p := s.Peek(l)
	if len(p.Voters) != 4 || len(p.Learners) != 1 {
		t.Fatalf("leader's configuration voters=%v learners=%v, want 4 voters and 1 learner\n%s", p.Voters, p.Learners, s.Describe())
	}
	if !s.Peek(lr).IsLearner {
		t.Fatalf("replica %d does not know it is a learner\n%s", lr.ID, s.Describe())
	}
	for i := 0; i < 5; i++ {
		s.Propose(l, 16)
		s.FullStep(l)
	}
	settle(s, 3)
	// snapshot + compact on the leader, then a fresh voter must be caught up by MsgSnap
	if !s.Snapshot(l, 0) {
		t.Fatalf("leader could not snapshot\n%s", s.Describe())
	}
	s.ProposeConf(l, pb.ConfChangeRemoveNode, j.ID)
	s.FullStep(l)
	settle(s, 5)
	if !j.Removed {
		t.Fatalf("replica %d did not apply its own removal\n%s", j.ID, s.Describe())
	}
	j2 := s.AddReplica(false)
	s.ProposeConf(l, pb.ConfChangeAddNode, j2.ID)
	s.FullStep(l)
	settle(s, 10)
	if s.St.SnapshotsInstalled == 0 {
		t.Fatalf("no snapshot was installed\n%s", s.Describe())
	}
	if j2.App.Applied != l.App.Applied {
		t.Fatalf("joiner applied %d, leader %d\n%s", j2.App.Applied, l.App.Applied, s.Describe())
	}
}
