package raftsim

import (
	"fmt"
	"os"
	"runtime"
	"sort"
	"strings"

	"github.com/youzan/ZanRedisDB/engine"
	"github.com/youzan/ZanRedisDB/raft"
	pb "github.com/youzan/ZanRedisDB/raft/raftpb"
	"golang.org/x/net/context"
)

const (
	GroupID   uint64 = 7
	GroupName        = "g"
	// MaxReplicas bounds the replica ids ever created in one case (bootstrap + joiners).
	MaxReplicas = 7
	// MaxMembers bounds the size of a configuration the generators aim for.
	MaxMembers = 5
	maxNet     = 384
	// queue lengths of nodes built through the hook's mirror constructors; a case never
	// queues that much between two StepNode calls
	simRecvQueue = 512
	simPropQueue = 512
)

func groupOf(id uint64) pb.Group {
	return pb.Group{NodeId: id, Name: GroupName, GroupId: GroupID, RaftReplicaId: id}
}

// Params is the configuration axis of a case.
type Params struct {
	N                int // bootstrap voters, 1..5
	PreVote          bool
	CheckQuorum      bool
	ElectionTick     int
	HeartbeatTick    int
	MaxSizePerMsg    uint64 // 0: one entry per message
	MaxCommittedSize uint64 // 0: defaults to MaxSizePerMsg inside raft (one entry per Ready if that is 0 too)
	MaxInflight      int
	Storage          StorageKind
	Seed             int64
	// KeepLastAppResp: node/raft.go processMessages sends only the last MsgAppResp of a
	// Ready (the earlier ones get To=0 and are discarded by the transport).
	KeepLastAppResp bool
	// RestartTicks: restartNode calls advanceTicksForElection(ElectionTick-1 ticks).
	RestartTicks bool
	// RealCtor: build nodes with raft.StartNode / raft.RestartNode themselves (14 MB of
	// queues per node object); otherwise with the hook's mirrors that differ only in
	// the queue lengths (see raft/verif_raftsim.go and SelfTestConstructors).
	RealCtor bool
}

func (p Params) String() string {
	return fmt.Sprintf("n=%d prevote=%v checkquorum=%v election=%d/%d maxmsg=%d maxcommitted=%d inflight=%d storage=%s seed=%d keepLastAppResp=%v restartTicks=%v realCtor=%v",
		p.N, p.PreVote, p.CheckQuorum, p.ElectionTick, p.HeartbeatTick, p.MaxSizePerMsg, p.MaxCommittedSize, p.MaxInflight, p.Storage, p.Seed, p.KeepLastAppResp, p.RestartTicks, p.RealCtor)
}

// CrashPoint names the stage boundary of processReady at which a replica dies.
type CrashPoint int

const (
	NoCrash            CrashPoint = iota
	CrashReadyLost                // StepNode returned, nothing else happened
	CrashAfterPublish             // committed entries / snapshot published to the apply side, nothing durable, nothing sent
	CrashLeaderSent               // new-leader Ready only: messages sent, nothing durable
	CrashSnapSaved                // incoming snapshot file + WAL marker durable; entries and hard state not
	CrashTornPersist              // entries and hard state written but not yet synced: a drawn prefix survives
	CrashWalSaved                 // WAL durable; storage object untouched; nothing sent (unless new leader)
	CrashSnapApplied              // storage.ApplySnapshot done, entries not appended (distinct from WalSaved only with a surviving engine)
	CrashAppended                 // storage appended; follower/candidate/old leader has not sent
	CrashBeforeAdvance            // messages sent, Advance not called
	numCrashPoints
)

var crashNames = [...]string{"none", "ready_lost", "after_publish", "leader_sent", "snap_saved", "torn_persist", "wal_saved", "snap_applied", "appended", "before_advance"}

func (c CrashPoint) String() string { return crashNames[c] }

// Flight is a message in the simulated network.
type Flight struct {
	M       pb.Message
	Seq     int
	FromInc int
}

type pendingCC struct {
	done chan struct{}
	cs   pb.ConfState
	cc   pb.ConfChange
	ent  pb.Entry
}

// App is the application side of one incarnation (node.go applyCommits): it applies
// published entries in order; a conf-change entry needs the raft loop
// (ApplyConfChange <-> ConfChangedCh/HandleConfChanged or the next StepNode).
type App struct {
	Applied     uint64 // np.appliedi
	AppliedTerm uint64
	SnapIndex   uint64       // np.snapi
	Conf        pb.ConfState // np.confState
	Published   uint64       // last index published to the apply side in this incarnation (0: nothing yet)
	StartIndex  uint64       // snapshot index the incarnation started from
	queue       []pb.Entry
	pending     *pendingCC
	NApplied    int // entries applied (not counting snapshot jumps)
}

// Replica is one replica id with all its incarnations.
type Replica struct {
	ID          uint64
	Up          bool
	Removed     bool // applied its own removal: destroyed, never restarted
	Join        bool // started with an empty peer list (added by conf change)
	Learner     bool // started with the learner flag
	Incarnation int
	Node        raft.Node
	Store       raft.IExtRaftStorage
	Disk        Durable
	App         App
	Dirty       bool // has input queued that no StepNode has looked at
	LastHSTerm  uint64
	SoftLead    uint64 // rc.lead: Lead of the last SoftState this incarnation emitted
	ReplayLast  uint64 // rc.lastIndex: last entry index read back from the WAL at restart
	// OutSnap: MsgSnap sent by this incarnation per destination whose status has not
	// been reported back yet (the transport reports every snapshot send).
	OutSnap map[uint64]int

	eng    engine.KVEngine
	engDir string
	engSeq int
	log    *simLogger
}

// Counters of a case, for labels and non-trivial rules.
type CaseStats struct {
	Steps, Readies                         int
	Ticks, Delivered, Dropped, Dupped      int
	Reordered                              int
	Proposals, ConfProposals               int
	ConfApplied                            map[pb.ConfChangeType]int
	Promotions                             int
	Campaigns, Transfers                   int
	Crashes, Restarts                      int
	CrashAt                                [numCrashPoints]int
	TornLoss                               int // crashes that lost unsynced records
	EngineWiped, EngineKept                int
	SnapshotsCreated, SnapshotsInstalled   int
	Partitions, Heals                      int
	Reports                                int
	PagedHandouts, NoApplySteps, BusySteps int
	AsyncConf                              int
	RaftPanics                             int
	SelfRemoved                            int
	VoteMsgLost                            int // dropped or duplicated vote / vote response
	Truncations                            int // Ready.Entries starting at or below an index already in the log
	Joiners                                int
	MaxTerm                                uint64
	SentByNewLeaderBeforePersist           int
	PersistedBeforePublish                 int
	ExcludedKnown                          int
}

type event struct {
	kind string
	rep  uint64
	txt  string
}

// Sim is one case.
type Sim struct {
	T    Fataler
	P    Params
	Reps []*Replica // Reps[i].ID == i+1
	Net  []Flight
	Side []int // partition side per replica index; messages pass only within a side
	Obs  []Observer
	St   CaseStats

	// KnownSingleVoter: when set, crash points that would lose entries a single-voter
	// leader has already published (known finding) are replaced by later ones.
	Known map[string]bool
	// SnapCrash, if set, is consulted when a Ready that carries an incoming snapshot is
	// about to be processed without a crash point: the generator cannot know in advance
	// which step will meet a snapshot, and the stages around SaveSnap / ApplySnapshot
	// exist only there.
	SnapCrash func() CrashPoint
	// LivenessExcluded: an exclusion interfered with progress (see Deliver); a "stuck"
	// verdict on this case would be the exclusion's doing.
	LivenessExcluded bool

	seq       int
	nProposed int
	scratch   string
	hash      hasher
	events    []event
	evDropped int
	failed    bool
	Verbose   bool
}

// New creates the group: N bootstrap voters started the way a fresh production
// cluster is (raft.StartNode with the full peer list).
func New(t Fataler, p Params, obs ...Observer) *Sim {
	s := &Sim{T: t, P: p, Obs: obs, Known: map[string]bool{}}
	s.St.ConfApplied = map[pb.ConfChangeType]int{}
	s.hash.reset()
	raft.VerifSeedRand(p.Seed)
	var peers []raft.Peer
	for i := 1; i <= p.N; i++ {
		peers = append(peers, raft.Peer{NodeID: uint64(i), ReplicaID: uint64(i), Context: memberContext(uint64(i))})
	}
	for i := 1; i <= p.N; i++ {
		r := &Replica{ID: uint64(i), log: &simLogger{}}
		s.Reps = append(s.Reps, r)
		s.Side = append(s.Side, 0)
		s.startFresh(r, peers, false)
	}
	return s
}

func memberContext(id uint64) []byte {
	// what ProposeAddMember / startRaft put into Context: a JSON MemberInfo
	return []byte(fmt.Sprintf(`{"id":%d,"node_id":%d,"group_name":"g","group_id":7,"raft_urls":["http://127.0.0.1:%d"]}`, id, id, 12000+id))
}

func (s *Sim) config(r *Replica) *raft.Config {
	return &raft.Config{
		ID:                       r.ID,
		ElectionTick:             s.P.ElectionTick,
		HeartbeatTick:            s.P.HeartbeatTick,
		Storage:                  r.Store,
		MaxSizePerMsg:            s.P.MaxSizePerMsg,
		MaxCommittedSizePerReady: s.P.MaxCommittedSize,
		MaxInflightMsgs:          s.P.MaxInflight,
		CheckQuorum:              s.P.CheckQuorum,
		PreVote:                  s.P.PreVote,
		Logger:                   r.log,
		Group:                    groupOf(r.ID),
	}
}

func (s *Sim) startFresh(r *Replica, peers []raft.Peer, learner bool) {
	r.Store = s.newStorage(r, false)
	r.Join = peers == nil
	r.Learner = learner
	r.Incarnation++
	r.App = App{}
	r.OutSnap = map[uint64]int{}
	r.LastHSTerm, r.SoftLead, r.ReplayLast = 0, 0, 0
	if p := s.guard(r, "StartNode", func() {
		if s.P.RealCtor {
			r.Node = raft.StartNode(s.config(r), peers, learner)
		} else {
			r.Node = raft.VerifStartNode(s.config(r), peers, learner, simRecvQueue, simPropQueue)
		}
	}); p {
		return
	}
	r.Up = true
	r.Dirty = true
	if learner {
		// np.confState starts from the storage snapshot (empty); raft itself knows it is a learner
	}
	s.ev("start", r.ID, fmt.Sprintf("join=%v learner=%v", r.Join, learner))
	s.hash.str("start")
	s.hash.u64(r.ID)
	for _, o := range s.Obs {
		o.Incarnation(s, r, false)
	}
}

// AddReplica starts a new replica the way a joining production node starts
// (startRaft with join=true: StartNode without peers; learner flag from the node role).
func (s *Sim) AddReplica(learner bool) *Replica {
	if len(s.Reps) >= MaxReplicas {
		return nil
	}
	r := &Replica{ID: uint64(len(s.Reps) + 1), log: &simLogger{}}
	s.Reps = append(s.Reps, r)
	s.Side = append(s.Side, 0)
	s.St.Joiners++
	s.startFresh(r, nil, learner)
	return r
}

func (s *Sim) Rep(id uint64) *Replica {
	if id == 0 || int(id) > len(s.Reps) {
		return nil
	}
	return s.Reps[id-1]
}

func (s *Sim) ev(kind string, rep uint64, txt string) {
	if len(s.events) >= 600 {
		s.events = s.events[200:]
		s.evDropped += 200
	}
	s.events = append(s.events, event{kind, rep, txt})
}

// Note lets generators annotate the trace.
func (s *Sim) Note(txt string) { s.ev("note", 0, txt) }

// TraceHash identifies the execution (every Ready, every action).
func (s *Sim) TraceHash() uint64 { return s.hash.h }

// Fail reports a violation with the readable tail of the schedule.
func (s *Sim) Fail(format string, args ...interface{}) {
	s.failed = true
	msg := fmt.Sprintf(format, args...)
	s.T.Fatalf("%s\n%s", msg, s.Describe())
}

// Describe renders the parameters, the replica table and the tail of the schedule.
func (s *Sim) Describe() string {
	var b strings.Builder
	fmt.Fprintf(&b, "case: %s\nreplicas:\n", s.P)
	for _, r := range s.Reps {
		fmt.Fprintf(&b, "  r%d up=%v removed=%v join=%v learner-start=%v inc=%d", r.ID, r.Up, r.Removed, r.Join, r.Learner, r.Incarnation)
		if r.Up && r.Node != nil {
			func() {
				defer func() { recover() }()
				p := raft.VerifPeek(r.Node)
				fmt.Fprintf(&b, " term=%d vote=%d lead=%d state=%s commit=%d applied=%d first=%d last=%d voters=%v learners=%v isLearner=%v", p.Term, p.Vote, p.Lead, p.State, p.Commit, p.Applied, p.First, p.Last, p.Voters, p.Learners, p.IsLearner)
			}()
		}
		sn, hs, ents, err := r.Disk.Replay()
		fmt.Fprintf(&b, " | disk: snap=%d/%d hs={t%d v%d c%d} ents=%d", sn.Metadata.Index, sn.Metadata.Term, hs.Term, hs.Vote, hs.Commit, len(ents))
		if len(ents) > 0 {
			fmt.Fprintf(&b, "[%d..%d]", ents[0].Index, ents[len(ents)-1].Index)
		}
		if err != nil {
			fmt.Fprintf(&b, " REPLAY-ERROR %v", err)
		}
		fmt.Fprintf(&b, " | app: applied=%d published=%d conf=%v/%v\n", r.App.Applied, r.App.Published, r.App.Conf.Nodes, r.App.Conf.Learners)
		for _, e := range r.log.errs {
			fmt.Fprintf(&b, "      raft error log: %s\n", e)
		}
	}
	fmt.Fprintf(&b, "in flight: %d messages, sides=%v\nschedule (last %d of %d events):\n", len(s.Net), s.Side, len(s.events), len(s.events)+s.evDropped)
	for i, e := range s.events {
		if e.rep != 0 {
			fmt.Fprintf(&b, "  %4d %-9s r%d %s\n", i+s.evDropped, e.kind, e.rep, e.txt)
		} else {
			fmt.Fprintf(&b, "  %4d %-9s    %s\n", i+s.evDropped, e.kind, e.txt)
		}
	}
	return b.String()
}

// Close releases everything a case holds (nodes, goroutines, engines, directories).
func (s *Sim) Close() {
	for _, r := range s.Reps {
		if r.Node != nil {
			r.Node.Stop()
		}
		if r.App.pending != nil {
			<-r.App.pending.done
			r.App.pending = nil
		}
		s.closeEngine(r)
	}
	if s.scratch != "" {
		os.RemoveAll(s.scratch)
		s.scratch = ""
	}
}

// guard runs raft code; a panic there kills the replica (production: serveChannels
// recovers, stops the node) and is reported to the observers.
func (s *Sim) guard(r *Replica, where string, fn func()) (panicked bool) {
	var pv interface{}
	func() {
		defer func() {
			if v := recover(); v != nil {
				pv = v
				panicked = true
			}
		}()
		fn()
	}()
	if panicked {
		s.St.RaftPanics++
		txt := fmt.Sprint(pv)
		if len(txt) > 300 {
			txt = txt[:300]
		}
		s.ev("PANIC", r.ID, where+": "+txt)
		s.hash.str("panic")
		s.hash.u64(r.ID)
		s.kill(r)
		for _, o := range s.Obs {
			o.RaftPanic(s, r, where, pv)
		}
	}
	return panicked
}

// kill drops the volatile half of a replica.
func (s *Sim) kill(r *Replica) {
	if r.Node != nil {
		r.Node.Stop() // releases a pending ApplyConfChange
	}
	if r.App.pending != nil {
		<-r.App.pending.done
		r.App.pending = nil
	}
	r.Node = nil
	r.Store = nil
	r.Up = false
	r.Dirty = false
	r.App.queue = nil
}

// ---- network ----

func (s *Sim) canPass(from, to uint64) bool {
	if from == 0 || to == 0 || int(from) > len(s.Side) || int(to) > len(s.Side) {
		return false
	}
	return s.Side[from-1] == s.Side[to-1]
}

// Deliverable lists the indexes of in-flight messages the partition lets through.
func (s *Sim) Deliverable() []int {
	var out []int
	for i := range s.Net {
		if s.canPass(s.Net[i].M.From, s.Net[i].M.To) {
			out = append(out, i)
		}
	}
	return out
}

func isVoteMsg(t pb.MessageType) bool {
	return t == pb.MsgVote || t == pb.MsgVoteResp || t == pb.MsgPreVote || t == pb.MsgPreVoteResp
}

func (s *Sim) removeFlight(k int) Flight {
	f := s.Net[k]
	s.Net = append(s.Net[:k:k], s.Net[k+1:]...)
	return f
}

func msgBrief(m *pb.Message) string {
	var b strings.Builder
	fmt.Fprintf(&b, "%s %d->%d t%d", m.Type, m.From, m.To, m.Term)
	switch m.Type {
	case pb.MsgApp:
		fmt.Fprintf(&b, " prev=%d/%d commit=%d ents=%d", m.Index, m.LogTerm, m.Commit, len(m.Entries))
		if len(m.Entries) > 0 {
			fmt.Fprintf(&b, "[%d/t%d..%d/t%d]", m.Entries[0].Index, m.Entries[0].Term, m.Entries[len(m.Entries)-1].Index, m.Entries[len(m.Entries)-1].Term)
		}
	case pb.MsgAppResp:
		fmt.Fprintf(&b, " idx=%d rej=%v hint=%d", m.Index, m.Reject, m.RejectHint)
	case pb.MsgVote, pb.MsgPreVote:
		fmt.Fprintf(&b, " last=%d/%d ctx=%q", m.Index, m.LogTerm, m.Context)
	case pb.MsgVoteResp, pb.MsgPreVoteResp:
		fmt.Fprintf(&b, " rej=%v", m.Reject)
	case pb.MsgHeartbeat:
		fmt.Fprintf(&b, " commit=%d", m.Commit)
	case pb.MsgSnap:
		fmt.Fprintf(&b, " snap=%d/%d conf=%v/%v", m.Snapshot.Metadata.Index, m.Snapshot.Metadata.Term, m.Snapshot.Metadata.ConfState.Nodes, m.Snapshot.Metadata.ConfState.Learners)
	case pb.MsgProp:
		fmt.Fprintf(&b, " ents=%d", len(m.Entries))
	}
	return b.String()
}

// Deliver hands in-flight message k to its destination (Node.Step enqueues it; raft
// looks at it at the next StepNode). A message for a dead or destroyed replica is
// lost, as a refused connection would lose it.
func (s *Sim) Deliver(k int) *Replica {
	f := s.removeFlight(k)
	if k != 0 {
		s.St.Reordered++
	}
	s.hash.str("deliver")
	s.hash.u64(uint64(f.Seq))
	to := s.Rep(f.M.To)
	if to == nil || !to.Up {
		s.ev("lost", f.M.To, "(down) "+msgBrief(&f.M))
		s.noteSnapOutcome(f, false)
		return nil
	}
	if f.M.Type == pb.MsgSnap && ((s.Known[KnownRocksStaleTail] && s.P.Storage != StoreMem && s.Peek(to).Last > f.M.Snapshot.Metadata.Index) ||
		(s.Known[KnownWalResurrect] && s.wouldResurrect(to, f.M.Snapshot, f.M.Snapshot.Metadata.Index, nil))) {
		// trigger of a finding: a snapshot restored under a longer log (RocksStorage keeps
		// the tail) / into a WAL that still holds entry records above it (a restart reads
		// them back). The message is lost instead (legal), but losing it every time may keep the replica from ever
		// catching up: liveness verdicts of this case are void.
		s.LivenessExcluded = true
		s.St.ExcludedKnown++
		s.St.Dropped++
		s.ev("lost", f.M.To, "(excluded: known finding) "+msgBrief(&f.M))
		return nil
	}
	s.St.Delivered++
	m := cloneMsg(f.M)
	s.ev("deliver", to.ID, msgBrief(&m))
	s.noteSnapOutcome(f, true)
	if p := s.guard(to, "Step", func() { to.Node.Step(context.Background(), m) }); p {
		return nil
	}
	to.Dirty = true
	return to
}

func (s *Sim) noteSnapOutcome(f Flight, delivered bool) {
	// nothing to do here: the sender learns the outcome only through ReportSnapshot /
	// ReportUnreachable, which are separate actions (PendingSnapReports lists them).
	_ = f
	_ = delivered
}

func (s *Sim) Drop(k int) {
	f := s.removeFlight(k)
	s.St.Dropped++
	if isVoteMsg(f.M.Type) {
		s.St.VoteMsgLost++
	}
	s.hash.str("drop")
	s.hash.u64(uint64(f.Seq))
	s.ev("drop", 0, msgBrief(&f.M))
}

func (s *Sim) Dup(k int) {
	f := s.Net[k]
	s.St.Dupped++
	if isVoteMsg(f.M.Type) {
		s.St.VoteMsgLost++
	}
	s.seq++
	f.Seq = s.seq
	s.Net = append(s.Net, f)
	s.hash.str("dup")
	s.hash.u64(uint64(k))
	s.ev("dup", 0, msgBrief(&f.M))
}

// DropAll loses everything in flight (optionally only what matches).
func (s *Sim) DropAll(match func(m *pb.Message) bool) {
	var keep []Flight
	n := 0
	for _, f := range s.Net {
		if match == nil || match(&f.M) {
			n++
			if isVoteMsg(f.M.Type) {
				s.St.VoteMsgLost++
			}
			continue
		}
		keep = append(keep, f)
	}
	s.Net = keep
	s.St.Dropped += n
	s.hash.str("dropall")
	s.hash.u64(uint64(n))
	s.ev("dropall", 0, fmt.Sprintf("%d messages", n))
}

func (s *Sim) send(r *Replica, msgs []pb.Message) {
	if len(msgs) == 0 {
		return
	}
	for _, o := range s.Obs {
		o.Sent(s, r, msgs)
	}
	for i := range msgs {
		m := msgs[i]
		if m.To == 0 {
			continue
		}
		if m.To == r.ID {
			// raft never addresses itself over the transport
			continue
		}
		s.seq++
		s.Net = append(s.Net, Flight{M: cloneMsg(m), Seq: s.seq, FromInc: r.Incarnation})
		if m.Type == pb.MsgSnap {
			r.OutSnap[m.To]++
		}
	}
	// bounded network: the oldest messages are lost first
	for len(s.Net) > maxNet {
		s.St.Dropped++
		if isVoteMsg(s.Net[0].M.Type) {
			s.St.VoteMsgLost++
		}
		s.Net = s.Net[1:]
	}
}

// SetSides installs a partition: messages pass only between replicas on the same side.
func (s *Sim) SetSides(sides []int) {
	copy(s.Side, sides)
	same := true
	for _, x := range s.Side {
		if x != s.Side[0] {
			same = false
		}
	}
	s.hash.str("sides")
	for _, x := range s.Side {
		s.hash.u64(uint64(x))
	}
	if same {
		s.St.Heals++
		s.ev("heal", 0, "")
	} else {
		s.St.Partitions++
		s.ev("partition", 0, fmt.Sprint(s.Side))
	}
}

func (s *Sim) Heal() {
	for i := range s.Side {
		s.Side[i] = 0
	}
	s.St.Heals++
	s.hash.str("heal")
	s.ev("heal", 0, "")
}

func (s *Sim) Partitioned() bool {
	for _, x := range s.Side {
		if x != s.Side[0] {
			return true
		}
	}
	return false
}

// ---- inputs ----

func (s *Sim) Tick(r *Replica) {
	if !r.Up {
		return
	}
	s.St.Ticks++
	s.hash.str("tick")
	s.hash.u64(r.ID)
	r.Node.Tick()
	r.Dirty = true
}

// Propose hands a unique payload of about size bytes to replica r (Node.Propose;
// followers forward to the leader they know, everything else is dropped by raft).
func (s *Sim) Propose(r *Replica, size int) {
	if !r.Up {
		return
	}
	s.nProposed++
	s.St.Proposals++
	data := []byte(fmt.Sprintf("p%d-r%d-", s.nProposed, r.ID))
	for len(data) < size {
		data = append(data, byte('a'+len(data)%26))
	}
	s.hash.str("propose")
	s.hash.u64(r.ID)
	s.hash.u64(uint64(size))
	s.ev("propose", r.ID, fmt.Sprintf("p%d (%d bytes)", s.nProposed, len(data)))
	s.guard(r, "Propose", func() { r.Node.Propose(context.Background(), data) })
	r.Dirty = true
}

// ProposeConf proposes one membership change through Node.ProposeConfChange, built the
// way KVNode.ProposeAddMember / ProposeAddLearner / ProposeRemoveMember build it.
func (s *Sim) ProposeConf(r *Replica, typ pb.ConfChangeType, target uint64) {
	if !r.Up {
		return
	}
	s.nProposed++
	s.St.ConfProposals++
	cc := pb.ConfChange{ID: uint64(1000 + s.nProposed), Type: typ, ReplicaID: target, NodeGroup: groupOf(target)}
	if typ != pb.ConfChangeRemoveNode {
		cc.Context = memberContext(target)
	}
	s.hash.str("conf")
	s.hash.u64(r.ID)
	s.hash.u64(uint64(typ))
	s.hash.u64(target)
	s.ev("conf", r.ID, fmt.Sprintf("%s r%d", typ, target))
	s.guard(r, "ProposeConfChange", func() { r.Node.ProposeConfChange(context.Background(), cc) })
	r.Dirty = true
}

func (s *Sim) Campaign(r *Replica) {
	if !r.Up {
		return
	}
	s.St.Campaigns++
	s.hash.str("campaign")
	s.hash.u64(r.ID)
	s.ev("campaign", r.ID, "")
	s.guard(r, "Campaign", func() { r.Node.Campaign(context.Background()) })
	r.Dirty = true
}

// Transfer asks r (normally the leader; a follower forwards) to hand leadership to id.
func (s *Sim) Transfer(r *Replica, lead, to uint64) {
	if !r.Up {
		return
	}
	s.St.Transfers++
	s.hash.str("transfer")
	s.hash.u64(r.ID)
	s.hash.u64(to)
	s.ev("transfer", r.ID, fmt.Sprintf("lead=%d to=%d", lead, to))
	s.guard(r, "TransferLeadership", func() { r.Node.TransferLeadership(context.Background(), lead, to) })
	r.Dirty = true
}

func (s *Sim) ReportUnreachable(r *Replica, id uint64) {
	if !r.Up {
		return
	}
	s.St.Reports++
	s.hash.str("unreach")
	s.hash.u64(r.ID)
	s.hash.u64(id)
	s.ev("unreach", r.ID, fmt.Sprintf("peer %d", id))
	s.guard(r, "ReportUnreachable", func() { r.Node.ReportUnreachable(id, groupOf(id)) })
	r.Dirty = true
}

// ReportSnapshot tells r the outcome of a MsgSnap it sent to id (the transport
// reports every snapshot send, success or failure).
func (s *Sim) ReportSnapshot(r *Replica, id uint64, ok bool) {
	if !r.Up {
		return
	}
	if r.OutSnap[id] > 0 {
		r.OutSnap[id]--
	}
	st := raft.SnapshotFinish
	if !ok {
		st = raft.SnapshotFailure
	}
	s.St.Reports++
	s.hash.str("snapstatus")
	s.hash.u64(r.ID)
	s.hash.u64(id)
	s.hash.u64(uint64(st))
	s.ev("snapstat", r.ID, fmt.Sprintf("peer %d ok=%v", id, ok))
	s.guard(r, "ReportSnapshot", func() { r.Node.ReportSnapshot(id, groupOf(id), st) })
	r.Dirty = true
}

// PendingSnapReports lists (sender, destination) pairs with an unreported MsgSnap.
func (s *Sim) PendingSnapReports() [][2]uint64 {
	var out [][2]uint64
	for _, r := range s.Reps {
		if !r.Up {
			continue
		}
		ids := make([]uint64, 0, len(r.OutSnap))
		for id, n := range r.OutSnap {
			if n > 0 {
				ids = append(ids, id)
			}
		}
		sort.Slice(ids, func(i, j int) bool { return ids[i] < ids[j] })
		for _, id := range ids {
			out = append(out, [2]uint64{r.ID, id})
		}
	}
	return out
}

// SnapInFlight reports whether a MsgSnap from -> to is still in the network.
func (s *Sim) SnapInFlight(from, to uint64) bool {
	for i := range s.Net {
		if s.Net[i].M.Type == pb.MsgSnap && s.Net[i].M.From == from && s.Net[i].M.To == to {
			return true
		}
	}
	return false
}

// Peek is VerifPeek on a live replica (zero value for a dead one).
func (s *Sim) Peek(r *Replica) raft.VerifPeekState {
	if r == nil || !r.Up || r.Node == nil {
		return raft.VerifPeekState{}
	}
	return raft.VerifPeek(r.Node)
}

// UpIDs lists live replicas.
func (s *Sim) UpReps() []*Replica {
	var out []*Replica
	for _, r := range s.Reps {
		if r.Up {
			out = append(out, r)
		}
	}
	return out
}

func (s *Sim) DownReps() []*Replica {
	var out []*Replica
	for _, r := range s.Reps {
		if !r.Up && !r.Removed {
			out = append(out, r)
		}
	}
	return out
}

// Leader returns a live replica whose raft state is leader (highest term wins), or nil.
func (s *Sim) Leader() *Replica {
	var best *Replica
	var bt uint64
	for _, r := range s.Reps {
		if !r.Up {
			continue
		}
		p := raft.VerifPeek(r.Node)
		if p.State == raft.StateLeader && p.Term >= bt {
			best, bt = r, p.Term
		}
	}
	return best
}

func waitConfQueued(n raft.Node) {
	for i := 0; len(n.ConfChangedCh()) == 0; i++ {
		runtime.Gosched()
		if i > 50_000_000 {
			panic("HARNESS: ApplyConfChange goroutine never queued its change")
		}
	}
}

// LogErrors returns (and forgets) what raft wrote to its error log since the last call.
func (r *Replica) LogErrors() []string {
	out := r.log.errs
	r.log.errs = nil
	return out
}
