package raftsim

import "fmt"

// CollectT is a Fataler for scripted scenarios (regression probes of known findings):
// it remembers the first failure and unwinds.
type CollectT struct {
	Msg string
}

type collectStop struct{}

func (t *CollectT) Fatalf(format string, args ...interface{}) {
	if t.Msg == "" {
		t.Msg = fmt.Sprintf(format, args...)
	}
	panic(collectStop{})
}

// Scripted runs fn with a CollectT; it returns the first failure message ("" if none).
func Scripted(fn func(t *CollectT)) (msg string) {
	t := &CollectT{}
	func() {
		defer func() {
			if v := recover(); v != nil {
				if _, ok := v.(collectStop); !ok {
					panic(v)
				}
			}
		}()
		fn(t)
	}()
	return t.Msg
}

// FullStep processes every pending input of r completely (no flags, no crash).
func (s *Sim) FullStep(r *Replica) {
	for i := 0; i < 8 && r.Up; i++ {
		s.Step(r, true, false, NoCrash, nil)
		if !r.Dirty {
			break
		}
	}
}

// DeliverOne delivers the oldest deliverable message accepted by filter (nil: any) and
// lets the recipient process it. It reports whether there was one.
func (s *Sim) DeliverOne(filter func(f *Flight) bool) bool {
	for i := range s.Net {
		f := &s.Net[i]
		if s.canPass(f.M.From, f.M.To) && (filter == nil || filter(f)) {
			if to := s.Deliver(i); to != nil {
				s.FullStep(to)
			}
			return true
		}
	}
	return false
}

// Settle delivers until nothing deliverable (accepted by filter) is left, stop() says
// so, or max deliveries were made.
func (s *Sim) Settle(max int, filter func(f *Flight) bool, stop func() bool) {
	for i := 0; i < max; i++ {
		if stop != nil && stop() {
			return
		}
		if !s.DeliverOne(filter) {
			return
		}
	}
}

// TickAll ticks and steps every live replica once.
func (s *Sim) TickAll() {
	for _, r := range s.Reps {
		if r.Up {
			s.Tick(r)
			s.FullStep(r)
		}
	}
}
