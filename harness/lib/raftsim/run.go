package raftsim

import (
	"fmt"
	"os"

	"pgregory.net/rapid"

	"verifharness/lib/stats"
)

// RapidChooser draws through rapid.
type RapidChooser struct{ T *rapid.T }

func (c RapidChooser) Intn(n int, label string) int {
	if n <= 1 {
		return 0
	}
	return rapid.IntRange(0, n-1).Draw(c.T, label)
}

// Case is what a property package gets back after the schedule was executed and
// all of its observers stayed silent.
type Case struct {
	S   *Sim
	G   *Gen
	Obs []Observer
}

// CaseFuncs are the property-specific parts of a case.
type CaseFuncs struct {
	// Observers builds fresh oracle state for one execution.
	Observers func() []Observer
	// Known findings that are recorded as still open (their triggers are excluded).
	Known map[string]bool
	// Converged is consulted by the heal phase (profiles with FinalHeal).
	Converged func(c *Case) bool
	// Finish runs after the schedule (final oracle clauses, statistics); it is not
	// called for the shadow execution of the determinism self-check.
	Finish func(c *Case)
}

type silentT struct{ msg string }

type silentStop struct{}

func (t *silentT) Fatalf(format string, args ...interface{}) {
	if t.msg == "" {
		t.msg = fmt.Sprintf(format, args...)
	}
	panic(silentStop{})
}

var selfChecked int

// SelfCheckCases is how many cases at the start of a process are executed twice.
const SelfCheckCases = 20

func execute(t Fataler, ch Chooser, prof Profile, f CaseFuncs, finish bool) (hash uint64) {
	p := DrawParams(ch, prof)
	obs := f.Observers()
	s := New(t, p, obs...)
	defer s.Close()
	for k, v := range f.Known {
		s.Known[k] = v
	}
	g := NewGen(s, ch, prof)
	c := &Case{S: s, G: g, Obs: obs}
	g.Run()
	if prof.FinalHeal {
		g.HealPhase(func() bool { return f.Converged(c) })
	}
	s.hash.u64(uint64(g.Heal))
	hash = s.TraceHash()
	if finish && f.Finish != nil {
		f.Finish(c)
	}
	return hash
}

// RunCase executes one generated case. The first SelfCheckCases cases of a process
// are executed a second time from the recorded answers; the two executions must have
// the same trace hash (every Ready of every replica enters it), otherwise the
// process ends with a HARNESS: message (exit 3, no test failure).
func RunCase(t *rapid.T, prof Profile, f CaseFuncs) {
	if selfChecked >= SelfCheckCases {
		execute(t, RapidChooser{t}, prof, f, true)
		return
	}
	selfChecked++
	rec := &RecChooser{In: RapidChooser{t}}
	h1 := execute(t, rec, prof, f, true)
	tape := &TapeChooser{Tape: rec.Tape, Ns: rec.Ns}
	st := &silentT{}
	var h2 uint64
	func() {
		defer func() {
			if v := recover(); v != nil {
				if _, ok := v.(silentStop); !ok {
					panic(v)
				}
			}
		}()
		h2 = execute(st, tape, prof, f, false)
	}()
	why := ""
	switch {
	case st.msg != "":
		why = "second execution failed where the first passed: " + st.msg
	case tape.Bad != "":
		why = tape.Bad
	case !tape.Done():
		why = fmt.Sprintf("second execution used %d of %d recorded draws", tape.pos, len(tape.Tape))
	case h1 != h2:
		why = fmt.Sprintf("trace hash %016x vs %016x", h1, h2)
	}
	if why != "" {
		fmt.Fprintf(os.Stderr, "HARNESS: raftsim is not deterministic (profile %s, self-check case %d): %s\n", prof.Name, selfChecked, why)
		fmt.Printf("HARNESS: raftsim is not deterministic (profile %s, self-check case %d): %s\n", prof.Name, selfChecked, why)
		stats.FlushAll()
		os.Exit(3)
	}
}
