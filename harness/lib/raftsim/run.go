package raftsim

import (
	"fmt"
	"os"

	"github.com/youzan/ZanRedisDB/raft"
	pb "github.com/youzan/ZanRedisDB/raft/raftpb"
	"pgregory.net/rapid"

	"verifharness/lib/stats"
)

// RapidChooser draws through rapid.
type RapidChooser struct{ T *rapid.T }

func (c RapidChooser) Intn(n int, label string) int {
	if n <= 1 {
		return 0
	}
	return rapid.IntRange(0, n-1).Draw(c.T, label)
}

// Case is what a property package gets back after the schedule was executed and
// all of its observers stayed silent.
type Case struct {
	S   *Sim
	G   *Gen
	Obs []Observer
}

// CaseFuncs are the property-specific parts of a case.
type CaseFuncs struct {
	// Observers builds fresh oracle state for one execution.
	Observers func() []Observer
	// Known findings that are recorded as still open (their triggers are excluded).
	Known map[string]bool
	// Converged is consulted by the heal phase (profiles with FinalHeal).
	Converged func(c *Case) bool
	// Finish runs after the schedule (final oracle clauses, statistics); it is not
	// called for the shadow execution of the determinism self-check.
	Finish func(c *Case)
}

type silentT struct{ msg string }

type silentStop struct{}

func (t *silentT) Fatalf(format string, args ...interface{}) {
	if t.msg == "" {
		t.msg = fmt.Sprintf(format, args...)
	}
	panic(silentStop{})
}

var (
	selfChecked int
	ctorChecked bool
)

// SelfCheckCases is how many cases at the start of a process are executed twice.
const SelfCheckCases = 20

func execute(t Fataler, ch Chooser, prof Profile, f CaseFuncs, finish bool) (hash uint64) {
	p := DrawParams(ch, prof)
	obs := f.Observers()
	s := New(t, p, obs...)
	defer s.Close()
	for k, v := range f.Known {
		s.Known[k] = v
	}
	g := NewGen(s, ch, prof)
	c := &Case{S: s, G: g, Obs: obs}
	g.Run()
	if prof.FinalHeal {
		g.HealPhase(func() bool { return f.Converged(c) })
	}
	s.hash.u64(uint64(g.Heal))
	hash = s.TraceHash()
	if finish && f.Finish != nil {
		f.Finish(c)
	}
	return hash
}

// RunCase executes one generated case. The first SelfCheckCases cases of a process
// are executed a second time from the recorded answers; the two executions must have
// the same trace hash (every Ready of every replica enters it), otherwise the
// process ends with a HARNESS: message (exit 3, no test failure).
func RunCase(t *rapid.T, prof Profile, f CaseFuncs) {
	if !ctorChecked {
		ctorChecked = true
		if why := SelfTestConstructors(); why != "" {
			fmt.Fprintf(os.Stderr, "HARNESS: %s\n", why)
			fmt.Printf("HARNESS: %s\n", why)
			stats.FlushAll()
			os.Exit(3)
		}
	}
	if selfChecked >= SelfCheckCases {
		execute(t, RapidChooser{t}, prof, f, true)
		return
	}
	selfChecked++
	rec := &RecChooser{In: RapidChooser{t}}
	h1 := execute(t, rec, prof, f, true)
	tape := &TapeChooser{Tape: rec.Tape, Ns: rec.Ns}
	st := &silentT{}
	var h2 uint64
	func() {
		defer func() {
			if v := recover(); v != nil {
				if _, ok := v.(silentStop); !ok {
					panic(v)
				}
			}
		}()
		h2 = execute(st, tape, prof, f, false)
	}()
	why := ""
	switch {
	case st.msg != "":
		why = "second execution failed where the first passed: " + st.msg
	case tape.Bad != "":
		why = tape.Bad
	case !tape.Done():
		why = fmt.Sprintf("second execution used %d of %d recorded draws", tape.pos, len(tape.Tape))
	case h1 != h2:
		why = fmt.Sprintf("trace hash %016x vs %016x", h1, h2)
	}
	if why != "" {
		fmt.Fprintf(os.Stderr, "HARNESS: raftsim is not deterministic (profile %s, self-check case %d): %s\n", prof.Name, selfChecked, why)
		fmt.Printf("HARNESS: raftsim is not deterministic (profile %s, self-check case %d): %s\n", prof.Name, selfChecked, why)
		stats.FlushAll()
		os.Exit(3)
	}
}

// SelfTestConstructors compares nodes built by raft.StartNode / raft.RestartNode with
// nodes built by the hook's mirrors (same code, shorter queues): the constructor-set
// fields must be identical, and so must the first Ready. Returns "" if they agree.
func SelfTestConstructors() string {
	type mk func(real bool) raft.Node
	lg := &simLogger{}
	cfg := func(id uint64, st raft.Storage) *raft.Config {
		return &raft.Config{ID: id, ElectionTick: 5, HeartbeatTick: 1, Storage: st, MaxSizePerMsg: 1 << 20, MaxCommittedSizePerReady: 1 << 20,
			MaxInflightMsgs: 8, CheckQuorum: true, PreVote: true, Logger: lg, Group: groupOf(id)}
	}
	peers := []raft.Peer{{NodeID: 1, ReplicaID: 1, Context: memberContext(1)}, {NodeID: 2, ReplicaID: 2, Context: memberContext(2)}, {NodeID: 3, ReplicaID: 3, Context: memberContext(3)}}
	filled := func() *raft.MemoryStorage {
		st := raft.NewRealMemoryStorage()
		cs := pb.ConfState{Nodes: []uint64{1, 2}, Learners: []uint64{3}}
		g1, g2, g3 := groupOf(1), groupOf(2), groupOf(3)
		cs.Groups = []*pb.Group{&g1, &g2}
		cs.LearnerGroups = []*pb.Group{&g3}
		st.ApplySnapshot(pb.Snapshot{Metadata: pb.SnapshotMetadata{Index: 4, Term: 2, ConfState: cs}})
		st.SetHardState(pb.HardState{Term: 3, Vote: 2, Commit: 5})
		st.Append([]pb.Entry{{Index: 5, Term: 2, Data: []byte("x")}, {Index: 6, Term: 3, Data: []byte("y")}})
		return st
	}
	cases := map[string]mk{
		"StartNode(bootstrap)": func(real bool) raft.Node {
			if real {
				return raft.StartNode(cfg(2, raft.NewRealMemoryStorage()), peers, false)
			}
			return raft.VerifStartNode(cfg(2, raft.NewRealMemoryStorage()), peers, false, simRecvQueue, simPropQueue)
		},
		"StartNode(join)": func(real bool) raft.Node {
			if real {
				return raft.StartNode(cfg(4, raft.NewRealMemoryStorage()), nil, false)
			}
			return raft.VerifStartNode(cfg(4, raft.NewRealMemoryStorage()), nil, false, simRecvQueue, simPropQueue)
		},
		"StartNode(join learner)": func(real bool) raft.Node {
			if real {
				return raft.StartNode(cfg(5, raft.NewRealMemoryStorage()), nil, true)
			}
			return raft.VerifStartNode(cfg(5, raft.NewRealMemoryStorage()), nil, true, simRecvQueue, simPropQueue)
		},
		"RestartNode(empty)": func(real bool) raft.Node {
			if real {
				return raft.RestartNode(cfg(1, raft.NewRealMemoryStorage()))
			}
			return raft.VerifRestartNode(cfg(1, raft.NewRealMemoryStorage()), simRecvQueue, simPropQueue)
		},
		"RestartNode(snapshot+entries, learner)": func(real bool) raft.Node {
			if real {
				return raft.RestartNode(cfg(3, filled()))
			}
			return raft.VerifRestartNode(cfg(3, filled()), simRecvQueue, simPropQueue)
		},
		"RestartNode(snapshot+entries, voter)": func(real bool) raft.Node {
			if real {
				return raft.RestartNode(cfg(1, filled()))
			}
			return raft.VerifRestartNode(cfg(1, filled()), simRecvQueue, simPropQueue)
		},
	}
	for name, f := range cases {
		a, b := f(true), f(false)
		if sa, sb := raft.VerifNodeShape(a), raft.VerifNodeShape(b); sa != sb {
			return fmt.Sprintf("mirror constructor differs from raft's (%s):\n real:   %s\n mirror: %s", name, sa, sb)
		}
		a.Tick()
		b.Tick()
		ra, oka := a.StepNode(true, false)
		rb, okb := b.StepNode(true, false)
		da := fmt.Sprintf("%v soft=%v hs=%+v ents=%d committed=%d msgs=%d snap=%d", oka, ra.SoftState, ra.HardState, len(ra.Entries), len(ra.CommittedEntries), len(ra.Messages), ra.Snapshot.Metadata.Index)
		db := fmt.Sprintf("%v soft=%v hs=%+v ents=%d committed=%d msgs=%d snap=%d", okb, rb.SoftState, rb.HardState, len(rb.Entries), len(rb.CommittedEntries), len(rb.Messages), rb.Snapshot.Metadata.Index)
		if ra.SoftState != nil && rb.SoftState != nil {
			da += fmt.Sprintf(" %+v", *ra.SoftState)
			db += fmt.Sprintf(" %+v", *rb.SoftState)
		}
		da, db = stripPtr(da), stripPtr(db)
		if da != db {
			return fmt.Sprintf("first Ready of a mirror-built node differs (%s):\n real:   %s\n mirror: %s", name, da, db)
		}
		a.Stop()
		b.Stop()
	}
	return ""
}

func stripPtr(s string) string {
	// "soft=0xc000..." pointer values differ between the two nodes
	out := []byte{}
	for i := 0; i < len(s); i++ {
		if i+1 < len(s) && s[i] == '0' && s[i+1] == 'x' {
			j := i + 2
			for j < len(s) && ((s[j] >= '0' && s[j] <= '9') || (s[j] >= 'a' && s[j] <= 'f')) {
				j++
			}
			out = append(out, 'P')
			i = j - 1
			continue
		}
		out = append(out, s[i])
	}
	return string(out)
}
