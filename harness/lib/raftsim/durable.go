package raftsim

import (
	"fmt"

	"github.com/youzan/ZanRedisDB/raft"
	pb "github.com/youzan/ZanRedisDB/raft/raftpb"
)

// The durable record of a replica mimics what node/raft.go keeps in WAL + snap dir:
// an append-only sequence of records (entry, hard state, snapshot marker together with
// its snapshot file) and a "synced" watermark. A crash may lose any suffix behind the
// watermark (unsynced page cache, torn tail); it never loses a synced record.
//
// Replay reproduces wal.ValidSnapshotEntries + Snapshotter.LoadNewestAvailable +
// wal.ReadAll: the last hard state wins; the newest snapshot whose marker index is
// <= that hard state's Commit is used; every entry record with an index above the
// snapshot is kept, a later record with the same or a smaller index truncating what was
// read before it (ents = append(ents[:e.Index-snap.Index-1], e)).

type RecKind uint8

const (
	RecEntry RecKind = iota
	RecState
	RecSnap
)

type WalRec struct {
	Kind RecKind
	Ent  pb.Entry
	HS   pb.HardState
	Snap pb.Snapshot
}

type Durable struct {
	Recs   []WalRec
	Synced int // Recs[:Synced] survive every crash
}

func (d *Durable) appendEntries(ents []pb.Entry) {
	for i := range ents {
		d.Recs = append(d.Recs, WalRec{Kind: RecEntry, Ent: ents[i]})
	}
}

func (d *Durable) appendState(hs pb.HardState) {
	if raft.IsEmptyHardState(hs) {
		return
	}
	d.Recs = append(d.Recs, WalRec{Kind: RecState, HS: hs})
}

func (d *Durable) appendSnap(sn pb.Snapshot) {
	d.Recs = append(d.Recs, WalRec{Kind: RecSnap, Snap: sn})
}

func (d *Durable) sync() { d.Synced = len(d.Recs) }

// lastState is what wal.WAL keeps in w.state (used for its own MustSync decision).
func (d *Durable) lastState() pb.HardState {
	for i := len(d.Recs) - 1; i >= 0; i-- {
		if d.Recs[i].Kind == RecState {
			return d.Recs[i].HS
		}
	}
	return pb.HardState{}
}

// compact drops records that no replay can need any more (bounded memory for long
// cases): everything before the newest synced snapshot marker that is already
// selectable, except that the last state before it is kept implicitly by the state
// records that follow. Not needed for correctness; cases are short, so it is a no-op.
func (d *Durable) compact() {}

// Replay returns what a restart reads back.
func (d *Durable) Replay() (sn pb.Snapshot, hs pb.HardState, ents []pb.Entry, err error) {
	for i := range d.Recs {
		if d.Recs[i].Kind == RecState {
			hs = d.Recs[i].HS
		}
	}
	for i := range d.Recs {
		r := &d.Recs[i]
		if r.Kind != RecSnap {
			continue
		}
		m := r.Snap.Metadata
		if m.Index > hs.Commit {
			continue // wal.ValidSnapshotEntries: newer than the committed hard state
		}
		if m.Term > sn.Metadata.Term || (m.Term == sn.Metadata.Term && m.Index > sn.Metadata.Index) {
			sn = r.Snap
		}
	}
	base := sn.Metadata.Index
	for i := range d.Recs {
		r := &d.Recs[i]
		if r.Kind != RecEntry {
			continue
		}
		if r.Ent.Index <= base {
			// wal.ReadAll: a record at or below the start index that follows records above it is
			// a conflicting append and truncates what was read so far
			ents = ents[:0]
			continue
		}
		up := r.Ent.Index - base - 1
		if up > uint64(len(ents)) {
			return sn, hs, nil, fmt.Errorf("wal replay: index out of range, corrupt data: entry %d after snapshot %d with %d entries read", r.Ent.Index, base, len(ents))
		}
		ents = append(ents[:up:up], r.Ent)
	}
	return sn, hs, ents, nil
}

// Shadow is the trivially-correct model of a replica's log: a snapshot position and
// the entries above it. It is built from the durable record at restart and then
// follows the Ready stream (Snapshot resets, Entries truncate-and-append).
type Shadow struct {
	SnapIndex, SnapTerm uint64
	Ents                []pb.Entry // Ents[i].Index == SnapIndex+1+i
}

func (sh *Shadow) Last() uint64 { return sh.SnapIndex + uint64(len(sh.Ents)) }

func (sh *Shadow) Term(i uint64) (uint64, bool) {
	if i == sh.SnapIndex {
		return sh.SnapTerm, true
	}
	if i < sh.SnapIndex || i > sh.Last() {
		return 0, false
	}
	return sh.Ents[i-sh.SnapIndex-1].Term, true
}

func (sh *Shadow) Entry(i uint64) *pb.Entry {
	if i <= sh.SnapIndex || i > sh.Last() {
		return nil
	}
	return &sh.Ents[i-sh.SnapIndex-1]
}

func (sh *Shadow) Reset(sn pb.Snapshot, ents []pb.Entry) {
	sh.SnapIndex, sh.SnapTerm = sn.Metadata.Index, sn.Metadata.Term
	sh.Ents = cloneEntries(ents)
}

// ApplySnapshot follows raftLog.restore: the log is replaced by the snapshot.
func (sh *Shadow) ApplySnapshot(sn pb.Snapshot) {
	sh.SnapIndex, sh.SnapTerm = sn.Metadata.Index, sn.Metadata.Term
	sh.Ents = nil
}

// Append follows the storage contract for Ready.Entries; it reports a gap.
func (sh *Shadow) Append(ents []pb.Entry) error {
	if len(ents) == 0 {
		return nil
	}
	first := ents[0].Index
	if first <= sh.SnapIndex {
		// entries at or below the snapshot are ignored by the storages
		skip := sh.SnapIndex + 1 - first
		if skip >= uint64(len(ents)) {
			return nil
		}
		ents = ents[skip:]
		first = ents[0].Index
	}
	keep := first - sh.SnapIndex - 1
	if keep > uint64(len(sh.Ents)) {
		return fmt.Errorf("entries start at %d but the log ends at %d", first, sh.Last())
	}
	sh.Ents = append(sh.Ents[:keep:keep], ents...)
	return nil
}

// CompactTo forgets entries up to and including i (i becomes the snapshot position).
func (sh *Shadow) CompactTo(i, term uint64) {
	if i <= sh.SnapIndex {
		return
	}
	if i >= sh.Last() {
		sh.Ents = nil
	} else {
		sh.Ents = append([]pb.Entry(nil), sh.Ents[i-sh.SnapIndex:]...)
	}
	sh.SnapIndex, sh.SnapTerm = i, term
}
