package raftsim

import (
	"bytes"
	"fmt"
	"sort"

	"github.com/youzan/ZanRedisDB/raft"
	pb "github.com/youzan/ZanRedisDB/raft/raftpb"
)

// ConfFold is the membership obtained by folding conf-change entries, with the
// semantics of raft.addNode / addLearner / removeNode.
type ConfFold struct {
	Voters, Learners map[uint64]bool
}

func NewConfFold(voters ...uint64) *ConfFold {
	c := &ConfFold{Voters: map[uint64]bool{}, Learners: map[uint64]bool{}}
	for _, v := range voters {
		c.Voters[v] = true
	}
	return c
}

func (c *ConfFold) Apply(cc pb.ConfChange) {
	id := cc.ReplicaID
	switch cc.Type {
	case pb.ConfChangeAddNode:
		delete(c.Learners, id) // a learner is promoted
		c.Voters[id] = true
	case pb.ConfChangeAddLearnerNode:
		if !c.Voters[id] { // raft ignores voter -> learner
			c.Learners[id] = true
		}
	case pb.ConfChangeRemoveNode:
		delete(c.Voters, id)
		delete(c.Learners, id)
	}
}

func (c *ConfFold) ApplyEntry(e *pb.Entry) error {
	if e.Type != pb.EntryConfChange {
		return nil
	}
	var cc pb.ConfChange
	if err := cc.Unmarshal(e.Data); err != nil {
		return err
	}
	c.Apply(cc)
	return nil
}

func keys(m map[uint64]bool) []uint64 {
	out := make([]uint64, 0, len(m))
	for k := range m {
		out = append(out, k)
	}
	sort.Slice(out, func(i, j int) bool { return out[i] < out[j] })
	return out
}

func (c *ConfFold) VoterIDs() []uint64   { return keys(c.Voters) }
func (c *ConfFold) LearnerIDs() []uint64 { return keys(c.Learners) }

func sortedCopy(a []uint64) []uint64 {
	out := append([]uint64(nil), a...)
	sort.Slice(out, func(i, j int) bool { return out[i] < out[j] })
	return out
}

// Matches reports whether a ConfState lists exactly this membership.
func (c *ConfFold) Matches(cs pb.ConfState) bool {
	return u64sEqual(c.VoterIDs(), sortedCopy(cs.Nodes)) && u64sEqual(c.LearnerIDs(), sortedCopy(cs.Learners))
}

func (c *ConfFold) String() string {
	return fmt.Sprintf("voters=%v learners=%v", c.VoterIDs(), c.LearnerIDs())
}

// CompareStorage checks a storage object against the shadow log on the range the
// storage claims to hold ([FirstIndex-1, LastIndex]); wantFirst > 0 additionally
// pins FirstIndex. It is the differential half of C03.
func CompareStorage(st raft.Storage, sh *Shadow, wantFirst uint64, full bool) (err error) {
	defer func() {
		if v := recover(); v != nil {
			err = fmt.Errorf("storage panicked: %v", v)
		}
	}()
	first, e1 := st.FirstIndex()
	last, e2 := st.LastIndex()
	if e1 != nil || e2 != nil {
		return fmt.Errorf("FirstIndex/LastIndex error: %v / %v", e1, e2)
	}
	if wantFirst != 0 && first != wantFirst {
		return fmt.Errorf("FirstIndex() = %d, want %d", first, wantFirst)
	}
	if last != sh.Last() {
		return fmt.Errorf("LastIndex() = %d, the log ends at %d", last, sh.Last())
	}
	if first == 0 || first-1 < sh.SnapIndex {
		return fmt.Errorf("FirstIndex() = %d lies below the snapshot position %d", first, sh.SnapIndex)
	}
	if first > last+1 {
		return fmt.Errorf("FirstIndex() = %d > LastIndex()+1 = %d", first, last+1)
	}
	for i := first - 1; i <= last; i++ {
		want, _ := sh.Term(i)
		got, terr := st.Term(i)
		if terr != nil {
			return fmt.Errorf("Term(%d) error %v, want term %d (first=%d last=%d)", i, terr, want, first, last)
		}
		if got != want {
			return fmt.Errorf("Term(%d) = %d, want %d", i, got, want)
		}
	}
	if _, terr := st.Term(last + 1); terr == nil {
		return fmt.Errorf("Term(%d) beyond LastIndex()=%d returned no error", last+1, last)
	}
	if !full || first > last {
		return nil
	}
	ents, eerr := st.Entries(first, last+1, 1<<62)
	if eerr != nil {
		return fmt.Errorf("Entries(%d,%d) error %v", first, last+1, eerr)
	}
	if uint64(len(ents)) != last+1-first {
		return fmt.Errorf("Entries(%d,%d) returned %d entries", first, last+1, len(ents))
	}
	for k := range ents {
		w := sh.Entry(first + uint64(k))
		g := &ents[k]
		if w == nil || g.Index != w.Index || g.Term != w.Term || g.Type != w.Type || !bytes.Equal(g.Data, w.Data) {
			return fmt.Errorf("Entries: position %d holds index=%d term=%d type=%d len=%d, want index=%d term=%d type=%d len=%d",
				first+uint64(k), g.Index, g.Term, g.Type, len(g.Data), w.Index, w.Term, w.Type, len(w.Data))
		}
	}
	// a size-limited read returns a prefix and at least one entry
	one, eerr := st.Entries(first, last+1, 0)
	if eerr != nil || len(one) != 1 || one[0].Index != first {
		return fmt.Errorf("Entries(%d,%d,maxSize 0) = %d entries, err %v; want exactly the first", first, last+1, len(one), eerr)
	}
	return nil
}

// LeaderObs is the black-box definition of "replica i acts as leader of term t"
// shared by the oracles: a Ready whose SoftState says StateLeader while the last
// emitted HardState.Term is t, or a MsgApp / MsgHeartbeat / MsgSnap / MsgTimeoutNow
// with Term t among its messages. It returns the terms observed in rd.
func LeaderTermsIn(r *Replica, rd *raft.Ready) []uint64 {
	var out []uint64
	add := func(t uint64) {
		for _, x := range out {
			if x == t {
				return
			}
		}
		out = append(out, t)
	}
	if rd.SoftState != nil && rd.SoftState.RaftState == raft.StateLeader {
		add(r.LastHSTerm)
	}
	for i := range rd.Messages {
		switch rd.Messages[i].Type {
		case pb.MsgApp, pb.MsgHeartbeat, pb.MsgSnap, pb.MsgTimeoutNow:
			add(rd.Messages[i].Term)
		}
	}
	return out
}
