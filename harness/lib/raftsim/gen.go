package raftsim

import (
	"fmt"

	"github.com/youzan/ZanRedisDB/raft"
	pb "github.com/youzan/ZanRedisDB/raft/raftpb"
)

// Profile selects how a case is generated. Every generated case is a legal schedule
// of the atomic actions of Sim, whatever the layer.
type Profile struct {
	Name string
	// Layer: 1 = uniform draws over the action alphabet (L1), 2 = swarm: every case
	// draws its own action weights, lag and fault parameters (L2), 3 = phase-structured
	// elections (L3).
	Layer              int
	MinSteps, MaxSteps int
	// Storage kinds with weights (index = StorageKind).
	StorageW [4]int
	// CrashPct: choices for the per-case probability (percent) that a Step is given a
	// crash point.
	CrashPct []int
	// Weights of the macros among the actions (percent of steps that are a macro).
	MacroPct int
	// Relative weights of the macros: rounds, elect, conf (the C01 macro), crashAll,
	// crashQuorum, loseAll, snapshotCatchup.
	MacroW [7]int
	// MembershipPct: percent of cases that contain membership changes at all.
	MembershipPct int
	// FinalHeal: end with the deterministic heal phase (restart everything, heal,
	// round-robin until converged / stuck / out of budget).
	FinalHeal bool
	// HealTimeouts is the heal budget in election timeouts.
	HealTimeouts int
	// Phases range for L3.
	MinPhases, MaxPhases int
}

// Outcome of the heal phase.
type HealResult int

const (
	HealNotRun HealResult = iota
	HealConverged
	HealStuck
	HealOutOfBudget
	HealNoQuorum
)

func (h HealResult) String() string {
	return [...]string{"not_run", "converged", "stuck", "out_of_budget", "no_quorum"}[h]
}

// Gen drives one case.
type Gen struct {
	S    *Sim
	Ch   Chooser
	Prof Profile

	w            [numActions]int
	autoStepPct  int
	noApplyPct   int
	busyPct      int
	crashPct     int
	fifoPct      int
	membership   bool
	keepEngPct   int
	tornPct      int
	payloadSizes []int

	// L3 memory
	lastLeaders []uint64

	Heal        HealResult
	HealRounds  int
	MacroCounts [7]int
}

const (
	actTick = iota
	actDeliver
	actDrop
	actDup
	actPropose
	actConf
	actCampaign
	actTransfer
	actStep
	actCrash
	actRestart
	actSnapshot
	actPartition
	actHeal
	actReport
	numActions
)

var l1Weights = [numActions]int{
	actTick: 22, actDeliver: 40, actDrop: 3, actDup: 2, actPropose: 8, actConf: 2, actCampaign: 1, actTransfer: 1,
	actStep: 8, actCrash: 2, actRestart: 4, actSnapshot: 2, actPartition: 2, actHeal: 2, actReport: 1,
}

// DrawParams draws the configuration axis.
func DrawParams(ch Chooser, prof Profile) Params {
	var p Params
	p.Seed = int64(ch.Intn(1<<30, "seed"))
	if prof.Layer == 3 {
		p.N = pick(ch, "n", 3, 3, 3, 3, 3, 3, 3, 5, 5, 4)
	} else {
		p.N = pick(ch, "n", 1, 2, 2, 3, 3, 3, 3, 3, 3, 3, 3, 4, 4, 5, 5, 5, 5, 5)
	}
	switch ch.Intn(10, "voteopts") {
	case 0, 1, 2, 3:
		p.PreVote, p.CheckQuorum = true, true // production
	case 4, 5, 6:
		p.PreVote, p.CheckQuorum = false, false
	case 7, 8:
		p.PreVote, p.CheckQuorum = false, true
	default:
		p.PreVote, p.CheckQuorum = true, false
	}
	p.ElectionTick = pick(ch, "etick", 3, 3, 3, 5, 5, 5, 10, 10)
	p.HeartbeatTick = 1
	if prof.Layer == 3 {
		p.MaxSizePerMsg = uint64(pick(ch, "maxmsg", 0, 0, 0, 0, 64, 1<<20))
	} else {
		p.MaxSizePerMsg = uint64(pick(ch, "maxmsg", 0, 0, 64, 1024, 1<<20, 1<<20))
	}
	p.MaxCommittedSize = uint64(pick(ch, "maxcommitted", 0, 64, 1024, 1<<40, 1<<40))
	p.MaxInflight = pick(ch, "inflight", 1, 2, 8, 8, 256)
	sw := prof.StorageW[:]
	p.Storage = StorageKind(weighted(ch, "storage", sw))
	p.KeepLastAppResp = ch.Intn(4, "keepLastAppResp") != 0
	p.RestartTicks = ch.Intn(4, "restartTicks") != 0
	p.RealCtor = ch.Intn(64, "realCtor") == 0
	return p
}

// NewGen draws the per-case generator parameters (the swarm part for L2).
func NewGen(s *Sim, ch Chooser, prof Profile) *Gen {
	g := &Gen{S: s, Ch: ch, Prof: prof}
	g.w = l1Weights
	g.autoStepPct = 100
	g.fifoPct = 80
	g.keepEngPct = 50
	g.tornPct = 30
	g.payloadSizes = []int{8, 8, 24, 24, 100, 600}
	g.crashPct = prof.CrashPct[ch.Intn(len(prof.CrashPct), "crashpct")]
	g.membership = chance(ch, prof.MembershipPct, "membership")
	if prof.Layer >= 2 {
		g.w[actTick] = 5 + ch.Intn(36, "wTick")
		g.w[actDeliver] = 20 + ch.Intn(41, "wDeliver")
		g.w[actDrop] = ch.Intn(9, "wDrop")
		g.w[actDup] = ch.Intn(5, "wDup")
		g.w[actPropose] = 2 + ch.Intn(14, "wProp")
		g.w[actConf] = ch.Intn(6, "wConf")
		g.w[actCampaign] = ch.Intn(3, "wCamp")
		g.w[actTransfer] = ch.Intn(3, "wTransfer")
		g.w[actStep] = 2 + ch.Intn(12, "wStep")
		g.w[actCrash] = ch.Intn(7, "wCrash")
		g.w[actRestart] = 1 + ch.Intn(6, "wRestart")
		g.w[actSnapshot] = ch.Intn(6, "wSnap")
		g.w[actPartition] = ch.Intn(5, "wPart")
		g.w[actHeal] = 1 + ch.Intn(4, "wHeal")
		g.w[actReport] = ch.Intn(3, "wReport")
		g.autoStepPct = pick(ch, "autostep", 100, 100, 90, 70, 50)
		g.noApplyPct = pick(ch, "noapply", 0, 0, 5, 20)
		g.busyPct = pick(ch, "busy", 0, 0, 3, 10)
		g.fifoPct = pick(ch, "fifo", 100, 90, 80, 50, 20)
		g.keepEngPct = pick(ch, "keepeng", 0, 50, 100)
		g.tornPct = pick(ch, "torn", 0, 30, 70)
	}
	if !g.membership {
		g.w[actConf] = 0
	}
	if g.crashPct > 0 {
		s.SnapCrash = func() CrashPoint {
			if !chance(ch, 4*g.crashPct, "snapcrash") {
				return NoCrash
			}
			return CrashPoint(pick(ch, "snapcrashpoint", int(CrashAfterPublish), int(CrashSnapSaved), int(CrashSnapSaved), int(CrashWalSaved), int(CrashSnapApplied), int(CrashSnapApplied), int(CrashAppended)))
		}
	}
	return g
}

func (g *Gen) anyRep(label string) *Replica {
	return g.S.Reps[g.Ch.Intn(len(g.S.Reps), label)]
}

func (g *Gen) upRep(label string) *Replica {
	ups := g.S.UpReps()
	if len(ups) == 0 {
		return nil
	}
	return ups[g.Ch.Intn(len(ups), label)]
}

// leaderOrUp prefers the current leader (60%) as the target of a proposal: production
// clients send to the leader; any replica is allowed (followers forward or drop).
func (g *Gen) leaderOrUp() *Replica {
	if chance(g.Ch, 60, "toleader") {
		if l := g.S.Leader(); l != nil {
			return l
		}
	}
	return g.upRep("who")
}

func (g *Gen) cut(n int) int {
	if !chance(g.Ch, g.tornPct, "tornloss") {
		return n
	}
	return g.Ch.Intn(n+1, "tornkeep")
}

func (g *Gen) crashPoint() CrashPoint {
	return CrashPoint(1 + g.Ch.Intn(int(numCrashPoints)-1, "crashpoint"))
}

// step runs one Step on r with drawn flags; withCrash forces a crash point.
func (g *Gen) step(r *Replica, withCrash bool) {
	if r == nil || !r.Up {
		return
	}
	more := !chance(g.Ch, g.noApplyPct, "noapply")
	busy := chance(g.Ch, g.busyPct, "busy")
	cp := NoCrash
	if withCrash || (g.crashPct > 0 && chance(g.Ch, g.crashPct, "crashstep")) {
		cp = g.crashPoint()
	}
	had := g.S.Step(r, more, busy, cp, g.cut)
	if cp != NoCrash && !had && r.Up && withCrash {
		// nothing to process: the replica dies between two steps
		g.S.Crash(r, g.cut)
	}
}

func (g *Gen) maybeStep(r *Replica) {
	if r != nil && r.Up && chance(g.Ch, g.autoStepPct, "autostep") {
		g.step(r, false)
	}
}

// plainStep processes a Ready completely (macros that need progress).
func (g *Gen) plainStep(r *Replica) {
	if r != nil && r.Up {
		g.S.Step(r, true, false, NoCrash, nil)
	}
}

func (g *Gen) deliverIdx(k int) {
	to := g.S.Deliver(k)
	g.maybeStep(to)
}

func (g *Gen) pickDeliverable() int {
	d := g.S.Deliverable()
	if len(d) == 0 {
		return -1
	}
	if chance(g.Ch, g.fifoPct, "fifo") {
		return d[0]
	}
	return d[g.Ch.Intn(len(d), "msg")]
}

// voters/learners of the newest configuration any live replica has applied
// (generator guidance only).
func (g *Gen) membershipView() (voters, learners []uint64) {
	var best *Replica
	for _, r := range g.S.Reps {
		if r.Up && (best == nil || r.App.Applied > best.App.Applied) {
			best = r
		}
	}
	if best == nil {
		return nil, nil
	}
	p := g.S.Peek(best)
	return p.Voters, p.Learners
}

func (g *Gen) confAction(r *Replica) {
	voters, learners := g.membershipView()
	nMembers := len(voters) + len(learners)
	var opts []int // 0 add voter, 1 add learner, 2 promote, 3 remove voter, 4 remove learner
	if nMembers < MaxMembers && len(g.S.Reps) < MaxReplicas {
		opts = append(opts, 0, 0, 1, 1)
	}
	if len(learners) > 0 {
		opts = append(opts, 2, 2, 2, 4)
	}
	if len(voters) > 1 {
		opts = append(opts, 3, 3)
	}
	// a started but never admitted joiner may be proposed again
	var idle []*Replica
	for _, x := range g.S.Reps {
		if x.Join && !x.Removed && !containsU64(voters, x.ID) && !containsU64(learners, x.ID) {
			idle = append(idle, x)
		}
	}
	if len(idle) > 0 {
		opts = append(opts, 5)
	}
	if len(opts) == 0 {
		return
	}
	switch opts[g.Ch.Intn(len(opts), "confkind")] {
	case 0:
		if j := g.S.AddReplica(false); j != nil {
			g.S.ProposeConf(r, pb.ConfChangeAddNode, j.ID)
		}
	case 1:
		if j := g.S.AddReplica(true); j != nil {
			g.S.ProposeConf(r, pb.ConfChangeAddLearnerNode, j.ID)
		}
	case 2:
		g.S.ProposeConf(r, pb.ConfChangeAddNode, learners[g.Ch.Intn(len(learners), "promote")])
	case 3:
		g.S.ProposeConf(r, pb.ConfChangeRemoveNode, voters[g.Ch.Intn(len(voters), "removev")])
	case 4:
		g.S.ProposeConf(r, pb.ConfChangeRemoveNode, learners[g.Ch.Intn(len(learners), "removel")])
	case 5:
		x := idle[g.Ch.Intn(len(idle), "idle")]
		if x.Learner {
			g.S.ProposeConf(r, pb.ConfChangeAddLearnerNode, x.ID)
		} else {
			g.S.ProposeConf(r, pb.ConfChangeAddNode, x.ID)
		}
	}
}

func (g *Gen) snapshotAction(r *Replica) {
	if r == nil || !r.Up {
		return
	}
	if !g.S.CanSnapshot(r) {
		return
	}
	catchup := uint64(pick(g.Ch, "catchup", 0, 0, 1, 3, 10))
	g.S.Snapshot(r, catchup)
}

func (g *Gen) partitionAction() {
	sides := make([]int, len(g.S.Reps))
	switch g.Ch.Intn(3, "partkind") {
	case 0: // isolate one
		sides[g.Ch.Intn(len(sides), "iso")] = 1
	case 1: // isolate the leader if any
		if l := g.S.Leader(); l != nil {
			sides[l.ID-1] = 1
		} else {
			sides[g.Ch.Intn(len(sides), "iso")] = 1
		}
	default:
		for i := range sides {
			sides[i] = g.Ch.Intn(2, "side")
		}
	}
	g.S.SetSides(sides)
}

func (g *Gen) reportAction() {
	if pend := g.S.PendingSnapReports(); len(pend) > 0 && chance(g.Ch, 70, "reportsnap") {
		p := pend[g.Ch.Intn(len(pend), "which")]
		if !g.S.SnapInFlight(p[0], p[1]) || chance(g.Ch, 20, "earlyreport") {
			g.S.ReportSnapshot(g.S.Rep(p[0]), p[1], chance(g.Ch, 60, "snapok"))
			g.maybeStep(g.S.Rep(p[0]))
			return
		}
	}
	r := g.upRep("reporter")
	if r == nil {
		return
	}
	id := uint64(1 + g.Ch.Intn(len(g.S.Reps), "unreachable"))
	if id != r.ID {
		g.S.ReportUnreachable(r, id)
		g.maybeStep(r)
	}
}

// Action performs one drawn atomic action.
func (g *Gen) Action() {
	s := g.S
	switch weighted(g.Ch, "act", g.w[:]) {
	case actTick:
		r := g.upRep("who")
		if r != nil {
			s.Tick(r)
			g.maybeStep(r)
		}
	case actDeliver:
		if k := g.pickDeliverable(); k >= 0 {
			g.deliverIdx(k)
		}
	case actDrop:
		if len(s.Net) > 0 {
			s.Drop(g.Ch.Intn(len(s.Net), "msg"))
		}
	case actDup:
		if len(s.Net) > 0 {
			s.Dup(g.Ch.Intn(len(s.Net), "msg"))
		}
	case actPropose:
		r := g.leaderOrUp()
		if r != nil {
			s.Propose(r, g.payloadSizes[g.Ch.Intn(len(g.payloadSizes), "size")])
			g.maybeStep(r)
		}
	case actConf:
		r := g.leaderOrUp()
		if r != nil {
			g.confAction(r)
			g.maybeStep(r)
		}
	case actCampaign:
		r := g.upRep("who")
		if r != nil {
			s.Campaign(r)
			g.maybeStep(r)
		}
	case actTransfer:
		r := g.upRep("who")
		if r != nil {
			p := s.Peek(r)
			if p.Lead != 0 && len(p.Voters) > 0 {
				to := p.Voters[g.Ch.Intn(len(p.Voters), "transferee")]
				s.Transfer(r, p.Lead, to)
				g.maybeStep(r)
			}
		}
	case actStep:
		var dirty []*Replica
		for _, r := range s.Reps {
			if r.Up && r.Dirty {
				dirty = append(dirty, r)
			}
		}
		if len(dirty) > 0 {
			g.step(dirty[g.Ch.Intn(len(dirty), "dirty")], false)
		} else if r := g.upRep("who"); r != nil {
			g.step(r, false)
		}
	case actCrash:
		r := g.upRep("who")
		if r != nil {
			if chance(g.Ch, 50, "tickfirst") {
				s.Tick(r)
			}
			g.step(r, true)
		}
	case actRestart:
		if d := s.DownReps(); len(d) > 0 {
			r := d[g.Ch.Intn(len(d), "who")]
			s.Restart(r, chance(g.Ch, g.keepEngPct, "keepengine"))
			g.maybeStep(r)
		}
	case actSnapshot:
		g.snapshotAction(g.upRep("who"))
	case actPartition:
		g.partitionAction()
	case actHeal:
		if s.Partitioned() {
			s.Heal()
		}
	case actReport:
		g.reportAction()
	}
}

// ---- macros (sequences of the same atomic actions) ----

// Rounds lets the cluster run normally for k rounds: every live replica ticks and
// steps, then everything deliverable is delivered in FIFO order.
func (g *Gen) Rounds(k int, filter func(m *pb.Message) bool) {
	s := g.S
	for i := 0; i < k; i++ {
		for _, r := range s.Reps {
			if r.Up {
				s.Tick(r)
				g.step(r, false)
			}
		}
		g.drain(120, filter)
	}
}

// drain delivers deliverable messages FIFO (those that filter accepts; nil: all),
// stepping each recipient, until none is left or max deliveries were made.
func (g *Gen) drain(max int, filter func(m *pb.Message) bool) int {
	s := g.S
	n := 0
	for n < max {
		found := -1
		for i := range s.Net {
			m := &s.Net[i].M
			if s.canPass(m.From, m.To) && (filter == nil || filter(m)) {
				found = i
				break
			}
		}
		if found < 0 {
			break
		}
		to := s.Deliver(found)
		if to != nil {
			g.step(to, false)
		}
		n++
	}
	// replicas with paginated hand-out pending
	for _, r := range s.Reps {
		for j := 0; j < 4 && r.Up && r.Dirty; j++ {
			g.step(r, false)
		}
	}
	return n
}

// deliverWithin delivers up to k messages between members of set (FIFO), stepping
// recipients completely; stop() ends it early.
func (g *Gen) deliverWithin(set map[uint64]bool, k int, stop func() bool) int {
	s := g.S
	n := 0
	for n < k {
		if stop != nil && stop() {
			break
		}
		found := -1
		for i := range s.Net {
			m := &s.Net[i].M
			if set[m.From] && set[m.To] && s.canPass(m.From, m.To) {
				found = i
				break
			}
		}
		if found < 0 {
			break
		}
		to := s.Deliver(found)
		if to != nil {
			g.plainStep(to)
			for j := 0; j < 3 && to.Up && to.Dirty; j++ {
				g.plainStep(to)
			}
		}
		n++
	}
	return n
}

func (g *Gen) isLeader(r *Replica) bool {
	return r.Up && g.S.Peek(r).State == raft.StateLeader
}

// electPhase is one L3 phase (DESIGN §3-A): pick a candidate and a voter quorum
// containing it, restart members as needed, cut everything else off, let the
// candidate campaign and STOP at the instant it leads, propose 0-2 entries, deliver
// a drawn number of in-quorum messages, then crash or keep the leader.
func (g *Gen) electPhase() {
	s := g.S
	n := len(s.Reps)
	var cands []*Replica
	for _, r := range s.Reps {
		if !r.Removed {
			cands = append(cands, r)
		}
	}
	if len(cands) == 0 {
		return
	}
	var c *Replica
	// Figure-8 shaped bias: return to the leader before last, with a swing voter that
	// led neither of the last two phases
	var swing *Replica
	if len(g.lastLeaders) >= 2 && chance(g.Ch, 55, "alternate") {
		c = s.Rep(g.lastLeaders[len(g.lastLeaders)-2])
		if c != nil && c.Removed {
			c = nil
		}
		if c != nil {
			var others []*Replica
			for _, r := range cands {
				if r.ID != c.ID && r.ID != g.lastLeaders[len(g.lastLeaders)-1] {
					others = append(others, r)
				}
			}
			if len(others) > 0 {
				swing = others[g.Ch.Intn(len(others), "swing")]
			}
		}
	}
	if c == nil {
		if chance(g.Ch, 30, "bylastterm") {
			// prefer the replica whose durable log ends in the highest term
			var bt uint64
			for _, r := range cands {
				_, _, ents, _ := r.Disk.Replay()
				var t uint64
				if len(ents) > 0 {
					t = ents[len(ents)-1].Term
				}
				if c == nil || t > bt {
					c, bt = r, t
				}
			}
		} else {
			c = cands[g.Ch.Intn(len(cands), "cand")]
		}
	}
	if c.Up && g.isLeader(c) && chance(g.Ch, 80, "bouncestale") {
		// a leader of an earlier phase that was cut off ignores Campaign(); bounce it
		s.Crash(c, g.cut)
	}
	if !c.Up {
		s.Restart(c, chance(g.Ch, g.keepEngPct, "keepengine"))
		if !c.Up {
			return
		}
		g.plainStep(c)
		for j := 0; j < 6 && c.Up && c.Dirty; j++ {
			g.plainStep(c)
		}
	}
	// quorum from the candidate's own view of the voters (falls back to everybody)
	view := s.Peek(c).Voters
	if len(view) == 0 {
		for _, r := range cands {
			view = append(view, r.ID)
		}
	}
	need := len(view)/2 + 1
	if extra := len(view) - need; extra > 0 && chance(g.Ch, 30, "extra") {
		need += 1 + g.Ch.Intn(extra, "nextra")
	}
	set := map[uint64]bool{c.ID: true}
	if swing != nil && containsU64(view, swing.ID) {
		set[swing.ID] = true
	}
	// draw the rest of the quorum
	perm := make([]uint64, len(view))
	copy(perm, view)
	for i := len(perm) - 1; i > 0; i-- {
		j := g.Ch.Intn(i+1, "perm")
		perm[i], perm[j] = perm[j], perm[i]
	}
	// the leader of the previous phase has the longest log and tends to refuse its vote:
	// mostly fill the quorum with others first
	var prevLead uint64
	if n := len(g.lastLeaders); n > 0 {
		prevLead = g.lastLeaders[n-1]
	}
	avoid := prevLead != 0 && chance(g.Ch, 65, "avoidprev")
	for pass := 0; pass < 2; pass++ {
		for _, id := range perm {
			if len(set) >= need {
				break
			}
			if pass == 0 && avoid && id == prevLead {
				continue
			}
			if r := s.Rep(id); r != nil && !r.Removed {
				set[id] = true
			}
		}
	}
	for id := uint64(1); int(id) <= n; id++ {
		if set[id] {
			if r := s.Rep(id); !r.Up {
				s.Restart(r, chance(g.Ch, g.keepEngPct, "keepengine"))
				g.plainStep(r)
				// re-applying its log is part of coming back
				for j := 0; j < 6 && r.Up && r.Dirty; j++ {
					g.plainStep(r)
				}
			}
		}
	}
	sides := make([]int, n)
	for i := range sides {
		if !set[uint64(i+1)] {
			sides[i] = 1 + i // everybody else alone
		}
	}
	s.SetSides(sides)
	if chance(g.Ch, 70, "dropnet") {
		s.DropAll(nil)
	}
	// With check-quorum, voters ignore vote requests while they believe in a live
	// leader: let their lease run out. Without it no pre-ticking is needed.
	if s.P.CheckQuorum {
		for id := uint64(1); int(id) <= n; id++ {
			r := s.Rep(id)
			if !set[id] || !r.Up || id == c.ID {
				continue
			}
			for i := 0; i < s.P.ElectionTick; i++ {
				s.Tick(r)
			}
			g.plainStep(r)
		}
		s.DropAll(func(m *pb.Message) bool { return true })
	}
	// campaign and stop at leadership
	led := false
	for attempt := 0; attempt < 3 && !led && c.Up; attempt++ {
		s.Campaign(c)
		g.plainStep(c)
		g.deliverWithin(set, 60, func() bool { return !c.Up || g.isLeader(c) })
		led = g.isLeader(c)
		if !led && c.Up && s.P.CheckQuorum {
			// its own lease knowledge may block a pre-vote round; let time pass
			for i := 0; i < s.P.ElectionTick; i++ {
				s.Tick(c)
			}
			g.plainStep(c)
			g.deliverWithin(set, 60, func() bool { return !c.Up || g.isLeader(c) })
			led = g.isLeader(c)
		}
	}
	if !led {
		return
	}
	g.lastLeaders = append(g.lastLeaders, c.ID)
	nprop := pick(g.Ch, "nprop", 0, 0, 1, 1, 2)
	for i := 0; i < nprop && c.Up; i++ {
		s.Propose(c, g.payloadSizes[g.Ch.Intn(len(g.payloadSizes), "size")])
		g.plainStep(c)
	}
	k := pick(g.Ch, "ndeliver", 0, 0, 0, 0, 0, 0, 1, 2, 3, 4, 4, 4, 4, 4, 5, 6, 8, 10, 12, 16)
	g.deliverWithin(set, k, func() bool { return !c.Up })
	if c.Up && chance(g.Ch, 55, "crashleader") {
		if chance(g.Ch, 25, "atstage") {
			s.Tick(c)
			g.step(c, true)
		} else {
			s.Crash(c, g.cut)
		}
	}
}

// confMacro is the C01 macro (DESIGN §4 C01): back-to-back membership changes issued
// at the leader as soon as IT has applied the previous one, while messages that would
// tell a chosen voter about the commits are withheld from it; then the leader is
// isolated and both sides campaign.
func (g *Gen) confMacro() {
	s := g.S
	if len(s.DownReps()) > 0 && chance(g.Ch, 60, "restartfirst") {
		g.restartAll()
	}
	lead := s.Leader()
	if lead == nil {
		g.Rounds(3*s.P.ElectionTick, nil)
		if lead = s.Leader(); lead == nil {
			return
		}
	}
	lp := s.Peek(lead)
	var victims []uint64
	for _, id := range lp.Voters {
		if id != lead.ID && s.Rep(id) != nil && s.Rep(id).Up {
			victims = append(victims, id)
		}
	}
	for _, id := range lp.Learners {
		if s.Rep(id) != nil && s.Rep(id).Up {
			victims = append(victims, id)
		}
	}
	if len(victims) == 0 {
		return
	}
	victim := victims[g.Ch.Intn(len(victims), "victim")]
	// how much the victim may learn: 0 nothing at all, 1 entries but no commit index
	// beyond the first change, 2 everything except heartbeats
	mode := g.Ch.Intn(3, "withhold")
	firstConf := uint64(0)
	filter := func(m *pb.Message) bool {
		if m.To != victim {
			return true
		}
		switch mode {
		case 0:
			return false
		case 1:
			if m.Type == pb.MsgApp || m.Type == pb.MsgHeartbeat || m.Type == pb.MsgSnap {
				return firstConf == 0 || m.Commit < firstConf
			}
			return true
		default:
			return m.Type != pb.MsgHeartbeat
		}
	}
	nchanges := 2 + g.Ch.Intn(2, "nchanges")
	for i := 0; i < nchanges; i++ {
		if !lead.Up || !g.isLeader(lead) {
			break
		}
		before := s.St.ConfProposals
		g.confChangeAtLeader(lead, victim)
		if s.St.ConfProposals == before {
			break
		}
		g.plainStep(lead)
		if !lead.Up {
			break
		}
		if firstConf == 0 {
			firstConf = s.Peek(lead).Last
		}
		applied := lead.App.Applied
		// run until the leader itself has applied it
		for j := 0; j < 4*s.P.ElectionTick && lead.Up; j++ {
			g.Rounds(1, filter)
			if lead.Up && lead.App.Applied >= firstConf && lead.App.Applied > applied && !s.Peek(lead).PendingConf {
				break
			}
		}
	}
	// isolate the leader (with or without the replicas added last) and let both sides campaign
	sides := make([]int, len(s.Reps))
	if lead.Up {
		sides[lead.ID-1] = 1
	}
	if chance(g.Ch, 60, "joinersWithLeader") {
		for _, r := range s.Reps {
			if r.Join && r.ID != victim {
				sides[r.ID-1] = 1
			}
		}
	}
	s.SetSides(sides)
	if chance(g.Ch, 50, "dropnet") {
		s.DropAll(nil)
	}
	// campaigns: the victim and one replica of the leader's side (explicit Campaign or ticks)
	if v := s.Rep(victim); v != nil && v.Up {
		if chance(g.Ch, 50, "hup") {
			s.Campaign(v)
			g.plainStep(v)
		}
	}
	for _, r := range s.Reps {
		if r.Up && sides[r.ID-1] == 1 && r.ID != lead.ID && chance(g.Ch, 50, "hup2") {
			s.Campaign(r)
			g.plainStep(r)
			break
		}
	}
	g.Rounds(2*s.P.ElectionTick+g.Ch.Intn(2*s.P.ElectionTick, "rounds"), nil)
	if chance(g.Ch, 70, "healafter") {
		s.Heal()
		g.Rounds(s.P.ElectionTick, nil)
	}
}

func (g *Gen) confChangeAtLeader(lead *Replica, victim uint64) {
	s := g.S
	p := s.Peek(lead)
	var opts []int
	if len(p.Voters)+len(p.Learners) < MaxMembers && len(s.Reps) < MaxReplicas {
		opts = append(opts, 0, 0, 0, 1)
	}
	if len(p.Learners) > 0 {
		opts = append(opts, 2, 2)
	}
	var removable []uint64
	for _, id := range p.Voters {
		if id != lead.ID && id != victim {
			removable = append(removable, id)
		}
	}
	if len(p.Voters) > 2 && len(removable) > 0 {
		opts = append(opts, 3)
	}
	if len(opts) == 0 {
		return
	}
	switch opts[g.Ch.Intn(len(opts), "confkind")] {
	case 0:
		if j := s.AddReplica(false); j != nil {
			s.ProposeConf(lead, pb.ConfChangeAddNode, j.ID)
		}
	case 1:
		if j := s.AddReplica(true); j != nil {
			s.ProposeConf(lead, pb.ConfChangeAddLearnerNode, j.ID)
		}
	case 2:
		s.ProposeConf(lead, pb.ConfChangeAddNode, p.Learners[g.Ch.Intn(len(p.Learners), "promote")])
	case 3:
		s.ProposeConf(lead, pb.ConfChangeRemoveNode, removable[g.Ch.Intn(len(removable), "remove")])
	}
}

// crashAll kills every live replica, each at a drawn stage of a step, then restarts all.
func (g *Gen) crashAll() {
	s := g.S
	for _, r := range s.Reps {
		if r.Up {
			if chance(g.Ch, 60, "tickfirst") {
				s.Tick(r)
			}
			g.step(r, true)
		}
	}
	g.restartAll()
}

// crashQuorum kills a majority one after the other with a little progress in between.
func (g *Gen) crashQuorum() {
	s := g.S
	ups := s.UpReps()
	need := len(ups)/2 + 1
	for i := 0; i < need; i++ {
		ups = s.UpReps()
		if len(ups) == 0 {
			break
		}
		r := ups[g.Ch.Intn(len(ups), "who")]
		if chance(g.Ch, 60, "tickfirst") {
			s.Tick(r)
		}
		g.step(r, true)
		g.Rounds(g.Ch.Intn(3, "between"), nil)
	}
	if chance(g.Ch, 70, "restartafter") {
		g.restartAll()
	}
}

func (g *Gen) restartAll() {
	s := g.S
	for _, r := range s.Reps {
		if !r.Up && !r.Removed {
			s.Restart(r, chance(g.Ch, g.keepEngPct, "keepengine"))
			g.maybeStep(r)
		}
	}
}

// snapshotCatchup: snapshot + compact on the leader (or the most advanced replica),
// then let a lagging / fresh replica be caught up, which needs MsgSnap.
func (g *Gen) snapshotCatchup() {
	s := g.S
	if len(s.DownReps()) > 0 && chance(g.Ch, 60, "restartfirst") {
		g.restartAll()
	}
	lead := s.Leader()
	if lead == nil {
		g.Rounds(2*s.P.ElectionTick, nil)
		if lead = s.Leader(); lead == nil {
			return
		}
	}
	// cut one follower off, make progress, snapshot+compact, reconnect
	var others []*Replica
	for _, r := range s.Reps {
		if r.ID != lead.ID && !r.Removed {
			others = append(others, r)
		}
	}
	if len(others) == 0 {
		return
	}
	lag := others[g.Ch.Intn(len(others), "lagger")]
	sides := make([]int, len(s.Reps))
	sides[lag.ID-1] = 1
	s.SetSides(sides)
	np := 1 + g.Ch.Intn(4, "nprop")
	for i := 0; i < np && lead.Up; i++ {
		s.Propose(lead, g.payloadSizes[g.Ch.Intn(len(g.payloadSizes), "size")])
		g.plainStep(lead)
	}
	g.Rounds(2+g.Ch.Intn(3, "rounds"), nil)
	if lead.Up && s.CanSnapshot(lead) {
		s.Snapshot(lead, uint64(pick(g.Ch, "catchup", 0, 0, 0, 1)))
	}
	if chance(g.Ch, 30, "crashlagger") && lag.Up {
		s.Crash(lag, g.cut)
	}
	s.Heal()
	if !lag.Up && chance(g.Ch, 80, "restartlagger") {
		s.Restart(lag, chance(g.Ch, g.keepEngPct, "keepengine"))
	}
	// A copy of the MsgSnap for the lagger may be delayed by the network for a long time:
	// it is taken out of the multiset here and put back at the end, after the lagger has
	// moved on (and possibly compacted its own log beyond that snapshot).
	var delayed []Flight
	delay := chance(g.Ch, 50, "delaysnapcopy")
	for round := 0; round < 3+2*s.P.ElectionTick; round++ {
		g.Rounds(1, nil)
		if delay && len(delayed) == 0 {
			for i := range s.Net {
				if s.Net[i].M.Type == pb.MsgSnap && s.Net[i].M.To == lag.ID {
					s.Dup(i)
					delayed = append(delayed, s.removeFlight(len(s.Net)-1))
					s.Note("a duplicate of the MsgSnap is delayed")
					break
				}
			}
		}
	}
	g.flushReports()
	g.Rounds(2, nil)
	if len(delayed) > 0 {
		if lead.Up && g.isLeader(lead) {
			np := 1 + g.Ch.Intn(3, "nprop2")
			for i := 0; i < np && lead.Up; i++ {
				s.Propose(lead, g.payloadSizes[g.Ch.Intn(len(g.payloadSizes), "size")])
				g.plainStep(lead)
			}
			g.Rounds(2, nil)
		}
		if lag.Up && s.CanSnapshot(lag) && chance(g.Ch, 70, "laggersnap") {
			s.Snapshot(lag, 0)
		}
		s.Note("the delayed MsgSnap arrives")
		s.Net = append(s.Net, delayed...)
		g.Rounds(2, nil)
	}
}

func (g *Gen) flushReports() {
	s := g.S
	for _, p := range s.PendingSnapReports() {
		if !s.SnapInFlight(p[0], p[1]) {
			s.ReportSnapshot(s.Rep(p[0]), p[1], true)
		}
	}
}

func (g *Gen) macro() {
	k := weighted(g.Ch, "macro", g.Prof.MacroW[:])
	if (k == 2) && !g.membership {
		k = 0
	}
	g.MacroCounts[k]++
	switch k {
	case 0:
		g.Rounds(1+g.Ch.Intn(2*g.S.P.ElectionTick, "rounds"), nil)
	case 1:
		g.electPhase()
	case 2:
		g.confMacro()
	case 3:
		g.crashAll()
	case 4:
		g.crashQuorum()
	case 5:
		g.S.DropAll(nil)
	case 6:
		g.snapshotCatchup()
	}
}

// Run generates and executes the body of a case (everything but the heal phase).
func (g *Gen) Run() {
	if g.Prof.Layer == 3 {
		phases := g.Prof.MinPhases + g.Ch.Intn(g.Prof.MaxPhases-g.Prof.MinPhases+1, "phases")
		for p := 0; p < phases; p++ {
			g.S.Note(fmt.Sprintf("--- phase %d", p))
			if g.Prof.MacroPct > 0 && chance(g.Ch, g.Prof.MacroPct, "l3macro") {
				g.macro()
			} else {
				g.electPhase()
			}
		}
		return
	}
	steps := g.Prof.MinSteps + g.Ch.Intn(g.Prof.MaxSteps-g.Prof.MinSteps+1, "steps")
	// a case should not spend its whole budget electing its first leader
	if chance(g.Ch, 75, "warmup") {
		g.Rounds(2*g.S.P.ElectionTick+g.Ch.Intn(2*g.S.P.ElectionTick, "warm"), nil)
	}
	for k := 0; k < steps; k++ {
		if g.Prof.MacroPct > 0 && chance(g.Ch, g.Prof.MacroPct, "macro?") {
			g.macro()
			continue
		}
		g.Action()
	}
}

// state signature used by the heal phase to detect "no state change"
func (g *Gen) signature() uint64 {
	var h hasher
	h.reset()
	for _, r := range g.S.Reps {
		if !r.Up {
			h.u64(0)
			continue
		}
		p := g.S.Peek(r)
		h.u64(p.Term)
		h.u64(p.Vote)
		h.u64(p.Lead)
		h.u64(uint64(p.State))
		h.u64(p.Commit)
		h.u64(p.Applied)
		h.u64(p.Last)
		h.u64(r.App.Applied)
		h.u64(uint64(len(p.Voters))<<8 | uint64(len(p.Learners)))
	}
	return h.h
}

// HealPhase is the deterministic end of a C03 case: restart everything, heal the
// partition, report outstanding snapshot sends, then round-robin tick+deliver until
// converged() says so, the cluster is stuck, or the budget is used up.
//
// Stuck: a voter majority (of the newest applied configuration) is alive, nothing is in
// flight at the end of a round, and no replica's state changed during 20 election
// timeouts. Everything else that does not converge is "out of budget".
func (g *Gen) HealPhase(converged func() bool) {
	s := g.S
	s.Note("--- heal phase")
	for _, r := range s.Reps {
		if !r.Up && !r.Removed {
			s.Restart(r, chance(g.Ch, g.keepEngPct, "keepengine"))
		}
	}
	s.Heal()
	budget := g.Prof.HealTimeouts * s.P.ElectionTick
	stuckAfter := 20 * s.P.ElectionTick
	same := 0
	last := g.signature()
	for round := 0; round < budget; round++ {
		g.HealRounds = round + 1
		for _, r := range s.Reps {
			if r.Up {
				s.Tick(r)
				g.plainStep(r)
			} else if !r.Removed {
				// died of a raft panic during heal: try again (a restart is always legal)
				s.Restart(r, true)
			}
		}
		g.flushReports()
		for i := 0; i < 400 && len(s.Net) > 0; i++ {
			to := s.Deliver(0)
			if to != nil {
				g.plainStep(to)
			}
		}
		for _, r := range s.Reps {
			for j := 0; j < 8 && r.Up && r.Dirty; j++ {
				g.plainStep(r)
			}
		}
		if converged() {
			g.Heal = HealConverged
			return
		}
		sig := g.signature()
		if sig == last && len(s.Net) == 0 {
			same++
		} else {
			same = 0
			last = sig
		}
		if same >= stuckAfter {
			if g.majorityAlive() {
				g.Heal = HealStuck
			} else {
				g.Heal = HealNoQuorum
			}
			return
		}
	}
	g.Heal = HealOutOfBudget
}

func (g *Gen) majorityAlive() bool {
	voters, _ := g.membershipView()
	if len(voters) == 0 {
		return false
	}
	alive := 0
	for _, id := range voters {
		if r := g.S.Rep(id); r != nil && r.Up {
			alive++
		}
	}
	return alive >= len(voters)/2+1
}
