package simkv

import (
	"fmt"
	"io/ioutil"
	"os"
	"path/filepath"
	"strings"
	"sync"

	"github.com/absolute8511/redcon"
	"github.com/youzan/ZanRedisDB/common"
	"github.com/youzan/ZanRedisDB/engine"
	"github.com/youzan/ZanRedisDB/node"
	"github.com/youzan/ZanRedisDB/raft"
	pb "github.com/youzan/ZanRedisDB/raft/raftpb"
	"github.com/youzan/ZanRedisDB/rockredis"
	"github.com/youzan/ZanRedisDB/server"
	"github.com/youzan/ZanRedisDB/slow"
	"github.com/youzan/ZanRedisDB/transport/rafthttp"
	"golang.org/x/net/context"
)

type nullLogger struct{}

func (nullLogger) Output(int, string) error        { return nil }
func (nullLogger) OutputErr(int, string) error     { return nil }
func (nullLogger) OutputWarning(int, string) error { return nil }

var quietOnce sync.Once

// Quiet silences the repository's loggers (they print every namespace config and every
// failed command) and switches off the wall-clock driven slow-write limiter through the
// public dynamic configuration.
func Quiet() {
	quietOnce.Do(func() {
		if os.Getenv("VERIF_LOGS") != "" {
			return
		}
		l := nullLogger{}
		node.SetLogger(0, l)
		server.SetLogger(0, l)
		engine.SetLogger(0, l)
		rockredis.SetLogger(0, l)
		slow.SetLogger(0, l)
		rafthttp.SetLogger(0, l)
		raft.SetLogger(raftDiscard{})
	})
	common.SetIntDynamicConf(common.ConfSlowLimiterSwitch, 0)
}

type raftDiscard struct{}

func (raftDiscard) Debug(v ...interface{})                   {}
func (raftDiscard) Debugf(format string, v ...interface{})   {}
func (raftDiscard) Error(v ...interface{})                   {}
func (raftDiscard) Errorf(format string, v ...interface{})   {}
func (raftDiscard) Info(v ...interface{})                    {}
func (raftDiscard) Infof(format string, v ...interface{})    {}
func (raftDiscard) Warning(v ...interface{})                 {}
func (raftDiscard) Warningf(format string, v ...interface{}) {}
func (raftDiscard) Fatal(v ...interface{})                   { panic(fmt.Sprint(v...)) }
func (raftDiscard) Fatalf(format string, v ...interface{})   { panic(fmt.Sprintf(format, v...)) }
func (raftDiscard) Panic(v ...interface{})                   { panic(fmt.Sprint(v...)) }
func (raftDiscard) Panicf(format string, v ...interface{})   { panic(fmt.Sprintf(format, v...)) }

// Options of one simulated namespace.
type Options struct {
	Engine      string // "mem", "pebble", "rocksdb"
	StaleCreate int    // >0: before the namespace is created, a creation with this partition count fails (unknown engine type)
	ExpPolicy   string // common.WaitCompactExpirationPolicy etc. ("" = wait_compact)
	DataVersion string // "" = value_header_v1
	Namespace   string // base name, default "default"
	Partitions  int    // default 1
	Dir         string // data root; "" = fresh temp dir removed by Close
	KeepBackup  int
	// Hosted lists the partition ids this server hosts (nil = all). A partition that is not
	// hosted has no node here, as on a cluster where it lives on other machines.
	Hosted []int
}

// Part is one partition: a real, never started KVNode behind a fake raft.
type Part struct {
	NN   *node.NamespaceNode
	KV   *node.KVNode
	Raft *FakeRaft
	prog node.VerifProgress
	ID   int // partition id
	// Poisoned is set when the apply path panicked: the store may hold locks for ever, so it
	// is abandoned instead of closed.
	Poisoned bool
}

func (p *Part) apply(ents []pb.Entry, replayUpTo uint64) {
	defer func() {
		if r := recover(); r != nil {
			p.Poisoned = true
			panic(fmt.Sprintf("panic in the apply path (KVNode.applyEntries): %v", r))
		}
	}()
	p.KV.VerifApply(&p.prog, ents, replayUpTo)
}

// Sim is one data node process in miniature: a real server.Server with one namespace.
type Sim struct {
	Opts   Options
	Srv    *server.Server
	Parts  []*Part
	dir    string
	ownDir bool
	closed bool
}

// FakeRaft implements the part of raft.Node the unstarted KVNode touches.
type FakeRaft struct {
	raft.Node // nil: any other call is a harness error and panics loudly
	part      *Part
	mu        sync.Mutex
	Pending   []pb.Entry
	// Cancels[i] is the cancel function raft was given with Pending[i] (raft calls it when it drops
	// pending proposals, e.g. at a leader transfer); nil entries for proposals made without one
	Cancels []context.CancelFunc
	Log     []pb.Entry // everything committed so far (for replay on another replica)
	next      uint64
	Term      uint64
	// Immediate: commit and apply inside Propose (what a one-replica group does, minus the goroutines).
	Immediate bool
	// Stamp, if set, overrides the timestamp carried by each proposed entry (log time is owned by the harness).
	Stamp func() int64
	// DropNext makes the next n proposals fail as raft drops them (no leader / transfer in progress).
	DropNext int
}

func (f *FakeRaft) ProposeEntryWithDrop(ctx context.Context, e pb.Entry, cancel context.CancelFunc) error {
	f.mu.Lock()
	if f.DropNext > 0 {
		f.DropNext--
		f.mu.Unlock()
		return errFakeDropped
	}
	f.next++
	e.Index = f.next
	e.Term = f.Term
	if f.Stamp != nil {
		restamp(&e, f.Stamp())
	}
	if !f.Immediate {
		f.Pending = append(f.Pending, e)
		f.Cancels = append(f.Cancels, cancel)
		f.mu.Unlock()
		return nil
	}
	f.Log = append(f.Log, e)
	f.mu.Unlock()
	f.part.apply([]pb.Entry{e}, 0)
	return nil
}

func (f *FakeRaft) ProposeWithDrop(ctx context.Context, data []byte, cancel context.CancelFunc) error {
	return f.ProposeEntryWithDrop(ctx, pb.Entry{Data: data}, cancel)
}
func (f *FakeRaft) Propose(ctx context.Context, data []byte) error {
	return f.ProposeEntryWithDrop(ctx, pb.Entry{Data: data}, nil)
}
func (f *FakeRaft) NotifyEventCh() {}

// restamp rewrites the log timestamp of a proposed entry.
func restamp(e *pb.Entry, ts int64) {
	if e.DataType == int32(node.RedisV2Req) {
		e.Timestamp = ts
		return
	}
	var rl node.BatchInternalRaftRequest
	if err := rl.Unmarshal(e.Data); err != nil {
		return
	}
	rl.Timestamp = ts
	for i := range rl.Reqs {
		rl.Reqs[i].Header.Timestamp = ts
	}
	d, err := rl.Marshal()
	if err == nil {
		e.Data = d
	}
}

// Flush applies the pending entries as the given apply batches (sizes; remaining entries
// form a last batch). Entries with Index <= replayUpTo are applied as "replaying".
func (p *Part) Flush(sizes []int, replayUpTo uint64) {
	f := p.Raft
	f.mu.Lock()
	ents := f.Pending
	f.Pending = nil
	f.Cancels = nil
	f.Log = append(f.Log, ents...)
	f.mu.Unlock()
	for len(ents) > 0 {
		n := len(ents)
		if len(sizes) > 0 {
			if sizes[0] > 0 && sizes[0] < n {
				n = sizes[0]
			}
			sizes = sizes[1:]
		}
		p.apply(ents[:n], replayUpTo)
		ents = ents[n:]
	}
}

// FlushN commits and applies the first n pending entries as one apply batch.
func (p *Part) FlushN(n int) {
	f := p.Raft
	f.mu.Lock()
	if n > len(f.Pending) {
		n = len(f.Pending)
	}
	ents := append([]pb.Entry(nil), f.Pending[:n]...)
	f.Pending = f.Pending[n:]
	f.Cancels = f.Cancels[n:]
	f.Log = append(f.Log, ents...)
	f.mu.Unlock()
	if len(ents) > 0 {
		p.apply(ents, 0)
	}
}

// DropPending removes pending entry i: raft never commits it (truncated by a new leader).
// The log indexes of the entries behind it are renumbered, as they would be proposed anew.
func (p *Part) DropPending(i int) {
	f := p.Raft
	f.mu.Lock()
	defer f.mu.Unlock()
	if i < 0 || i >= len(f.Pending) {
		return
	}
	f.Pending = append(f.Pending[:i:i], f.Pending[i+1:]...)
	f.Cancels = append(f.Cancels[:i:i], f.Cancels[i+1:]...)
	for j := i; j < len(f.Pending); j++ {
		f.Pending[j].Index--
	}
	f.next--
}

// ApplyLog feeds already numbered entries (e.g. another replica's log) to this partition.
func (p *Part) ApplyLog(ents []pb.Entry, sizes []int, replayUpTo uint64) {
	f := p.Raft
	f.mu.Lock()
	f.Log = append(f.Log, ents...)
	if n := len(ents); n > 0 && ents[n-1].Index > f.next {
		f.next = ents[n-1].Index
	}
	f.mu.Unlock()
	for len(ents) > 0 {
		n := len(ents)
		if len(sizes) > 0 {
			if sizes[0] > 0 && sizes[0] < n {
				n = sizes[0]
			}
			sizes = sizes[1:]
		}
		p.apply(ents[:n], replayUpTo)
		ents = ents[n:]
	}
}

var errFakeDropped = fmt.Errorf("add proposal to queue failed")

// New builds a server with one namespace of Opts.Partitions single-replica partitions.
func New(o Options) (*Sim, error) {
	Quiet()
	if o.Engine == "" {
		o.Engine = "mem"
	}
	if o.ExpPolicy == "" {
		o.ExpPolicy = common.WaitCompactExpirationPolicy
	}
	if o.DataVersion == "" {
		o.DataVersion = common.ValueHeaderV1Str
	}
	if o.Namespace == "" {
		o.Namespace = "default"
	}
	if o.Partitions <= 0 {
		o.Partitions = 1
	}
	s := &Sim{Opts: o, dir: o.Dir}
	if s.dir == "" {
		base := os.Getenv("VERIF_SCRATCH")
		if base == "" {
			base = "/dev/shm"
		}
		os.MkdirAll(base, 0755)
		d, err := ioutil.TempDir(base, "simkv-")
		if err != nil {
			return nil, err
		}
		s.dir, s.ownDir = d, true
	}
	conf := server.ServerConfig{
		ClusterID:     "verif",
		BroadcastAddr: "127.0.0.1",
		RedisAPIPort:  1, HttpAPIPort: 2, GrpcAPIPort: 3, ProfilePort: -1,
		MetricAddr:    "256.256.256.256:1", // never listens: ListenAndServe fails at once
		DataDir:       s.dir,
		LocalRaftAddr: "http://127.0.0.1:39999",
		TickMs:        100, ElectionTick: 5,
		KeepBackup: o.KeepBackup,
	}
	conf.RocksDBOpts.EngineType = o.Engine
	srv, err := server.NewServer(conf)
	if err != nil {
		s.cleanup()
		return nil, err
	}
	s.Srv = srv
	if o.StaleCreate > 0 {
		// an earlier creation of the same namespace name with another partition count that
		// failed while opening its store (unknown engine type): nothing of it may survive
		nsConf := node.NewNSConfig()
		nsConf.Name = common.GetNsDesp(o.Namespace, 0)
		nsConf.BaseName = o.Namespace
		nsConf.EngType = "verif-no-such-engine"
		nsConf.PartitionNum = o.StaleCreate
		nsConf.Replicator = 1
		nsConf.RaftGroupConf.GroupID = uint64(1000)
		nsConf.RaftGroupConf.SeedNodes = append(nsConf.RaftGroupConf.SeedNodes, node.ReplicaInfo{NodeID: 1, ReplicaID: 1, RaftAddr: conf.LocalRaftAddr})
		nsConf.ExpirationPolicy = o.ExpPolicy
		nsConf.DataVersion = o.DataVersion
		if _, err := srv.InitKVNamespace(1, nsConf, false); err == nil {
			s.cleanup()
			return nil, fmt.Errorf("the namespace with an unknown engine type was created")
		}
	}
	for pid := 0; pid < o.Partitions; pid++ {
		if o.Hosted != nil {
			found := false
			for _, h := range o.Hosted {
				found = found || h == pid
			}
			if !found {
				continue
			}
		}
		nsConf := node.NewNSConfig()
		nsConf.Name = common.GetNsDesp(o.Namespace, pid)
		nsConf.BaseName = o.Namespace
		nsConf.EngType = rockredis.EngType
		nsConf.PartitionNum = o.Partitions
		nsConf.Replicator = 1
		nsConf.RaftGroupConf.GroupID = uint64(1000 + pid)
		nsConf.RaftGroupConf.SeedNodes = append(nsConf.RaftGroupConf.SeedNodes, node.ReplicaInfo{NodeID: 1, ReplicaID: 1, RaftAddr: conf.LocalRaftAddr})
		nsConf.ExpirationPolicy = o.ExpPolicy
		nsConf.DataVersion = o.DataVersion
		nn, err := srv.InitKVNamespace(1, nsConf, false)
		if err != nil {
			s.Close()
			return nil, err
		}
		p := &Part{NN: nn, KV: nn.Node, ID: pid}
		p.Raft = &FakeRaft{part: p, Term: 1, Immediate: true}
		nn.Node.VerifSetRaft(p.Raft)
		nn.VerifSetReady()
		s.Parts = append(s.Parts, p)
	}
	return s, nil
}

func (s *Sim) cleanup() {
	if s.ownDir {
		os.RemoveAll(s.dir)
	}
}

// Close closes the stores (an unstarted KVNode must never be Stop()ed) and removes the directory.
func (s *Sim) Close() {
	if s.closed {
		return
	}
	s.closed = true
	for _, p := range s.Parts {
		if !p.Poisoned {
			p.KV.VerifClose()
		}
	}
	s.cleanup()
}

func (s *Sim) Dir() string { return s.dir }

// PartByID returns the hosted partition with that id, or nil.
func (s *Sim) PartByID(pid int) *Part {
	for _, p := range s.Parts {
		if p.ID == pid {
			return p
		}
	}
	return nil
}

// PartDir is the data directory of one partition.
func (s *Sim) PartDir(pid int) string {
	return filepath.Join(s.dir, common.GetNsDesp(s.Opts.Namespace, pid))
}

// Cmd builds a command from byte-string arguments.
func Cmd(args ...[]byte) redcon.Command {
	cp := make([][]byte, len(args))
	for i, a := range args {
		cp[i] = append([]byte(nil), a...)
	}
	return common.BuildCommand(cp)
}

func CmdS(args ...string) redcon.Command {
	b := make([][]byte, len(args))
	for i, a := range args {
		b[i] = []byte(a)
	}
	return common.BuildCommand(b)
}

// Serve sends one command through the server's redis entry point (routing by namespace and
// partition, leader-side validation, propose, apply, reply), as a client connection does.
func (s *Sim) Serve(cmd redcon.Command) Reply {
	c := &RecConn{}
	s.Srv.VerifServeRedis(c, cmd)
	return c.Reply()
}

// Do is Serve with string arguments.
func (s *Sim) Do(args ...string) Reply { return s.Serve(CmdS(args...)) }

// NodeExec sends a command to one partition's registered handlers directly (node layer),
// the way Server.handleRedisSingleCmd / the merge dispatcher do after routing.
func (p *Part) NodeExec(cmd redcon.Command) Reply {
	name := strings.ToLower(string(cmd.Args[0]))
	if h, ok := p.KV.GetHandler(name); ok {
		c := &RecConn{}
		h(c, cmd)
		return c.Reply()
	}
	if wh, ok := p.KV.GetWriteHandler(name); ok {
		rsp, err := wh(cmd)
		if err != nil {
			return FromWriteRsp(nil, err)
		}
		if f, ok := rsp.(*node.FutureRsp); ok {
			if !p.Raft.Immediate {
				return Reply{Malformed: "HARNESS: NodeExec of a write needs immediate mode; use NodeWrite"}
			}
			return FromWriteRsp(f.WaitRsp())
		}
		return FromWriteRsp(rsp, nil)
	}
	if mh, _, ok := p.KV.GetMergeHandler(name); ok {
		rsp, err := mh(cmd)
		return FromWriteRsp(rsp, err)
	}
	return FromWriteRsp(nil, common.ErrInvalidCommand)
}

// Future is a proposed-but-not-yet-applied write (buffered mode).
type Future struct {
	direct *Reply
	f      *node.FutureRsp
}

// Wait returns the reply; call only after the entry was flushed.
func (fu *Future) Wait() Reply {
	if fu.direct != nil {
		return *fu.direct
	}
	return FromWriteRsp(fu.f.WaitRsp())
}

// NodeWrite runs the leader-side half of a write handler; in buffered mode the entry waits
// in Raft.Pending until Flush.
func (p *Part) NodeWrite(cmd redcon.Command) *Future {
	name := strings.ToLower(string(cmd.Args[0]))
	wh, ok := p.KV.GetWriteHandler(name)
	if !ok {
		r := FromWriteRsp(nil, common.ErrInvalidCommand)
		return &Future{direct: &r}
	}
	rsp, err := wh(cmd)
	if err != nil {
		r := FromWriteRsp(nil, err)
		return &Future{direct: &r}
	}
	if f, ok := rsp.(*node.FutureRsp); ok {
		return &Future{f: f}
	}
	r := FromWriteRsp(rsp, nil)
	return &Future{direct: &r}
}

// Store gives direct access to the rockredis store of a partition.
func (p *Part) Store() *node.KVStore { return p.KV.VerifStore() }

// ResetProgress moves the apply cursor (restart from a snapshot at that index).
func (p *Part) ResetProgress(index uint64) { p.prog.Reset(index, 1) }

// ReplayTail re-applies entries of the own log after a restart: all of them are "replaying".
func (p *Part) ReplayTail(ents []pb.Entry) {
	if len(ents) == 0 {
		return
	}
	p.apply(ents, ents[len(ents)-1].Index)
}
