package simkv

import (
	"github.com/youzan/ZanRedisDB/common"
	"github.com/youzan/ZanRedisDB/node"
	pb "github.com/youzan/ZanRedisDB/raft/raftpb"
)

// LogCmd is one client write as it appears in a committed log entry.
type LogCmd struct {
	ID   uint64
	Args []string // command with table:key names, namespace already cut (what rebuildFirstKeyAndPropose proposes)
}

// BuildEntry frames commands into one raft entry exactly as KVNode.ProposeInternal does for a
// redis write (BatchInternalRaftRequest with one request; several requests sharing one
// timestamp is what the cluster log syncer produces).
func BuildEntry(index uint64, ts int64, cmds []LogCmd) pb.Entry {
	var rl node.BatchInternalRaftRequest
	rl.Timestamp = ts
	rl.ReqNum = int32(len(cmds))
	for _, c := range cmds {
		b := make([][]byte, len(c.Args))
		for i, a := range c.Args {
			b[i] = []byte(a)
		}
		raw := common.BuildCommand(b).Raw
		rl.Reqs = append(rl.Reqs, node.InternalRaftRequest{
			Header: node.RequestHeader{ID: c.ID, DataType: int32(node.RedisReq), Timestamp: ts},
			Data:   raw,
		})
	}
	d, err := rl.Marshal()
	if err != nil {
		panic("HARNESS: marshal request: " + err.Error())
	}
	return pb.Entry{Type: pb.EntryNormal, Term: 1, Index: index, Data: d}
}

// Waiter returns the reply recorded by the apply path for a request id.
type Waiter func() (interface{}, bool)

// RegisterWaiter registers interest in a request id before its entry is applied (leader role).
func (p *Part) RegisterWaiter(id uint64) Waiter {
	return Waiter(p.KV.VerifRegisterWaiter(id))
}

// ReplyOf converts a triggered value into a Reply (errors by text, raw apply-level values).
func ReplyOf(w Waiter) Reply {
	v, ok := w()
	if !ok {
		return Reply{Malformed: "request was never answered by the apply path"}
	}
	if e, isErr := v.(error); isErr {
		return FromWriteRsp(nil, e)
	}
	return FromWriteRsp(v, nil)
}
