// Package simkv runs the real data path of ZanRedisDB (server/namespace/KVNode handlers,
// request framing, the node's applyEntries and everything below it) in-process with a
// synchronous fake raft.Node, so that a harness owns commit order, apply batching and log
// timestamps. See DESIGN.md §3-B.
package simkv

import (
	"fmt"
	"net"

	"github.com/absolute8511/redcon"

	"verifharness/lib/resp"
)

type Val = resp.Val
type Reply = resp.Reply

type tok struct {
	kind byte // as Val.Kind, 'A' array header
	i    int64
	s    string
}

// RecConn is a redcon.Conn that records what a handler writes.
type RecConn struct {
	toks   []tok
	closed bool
	ctx    interface{}
}

func (c *RecConn) RemoteAddr() string             { return "verif" }
func (c *RecConn) Close() error                   { c.closed = true; return nil }
func (c *RecConn) WriteError(msg string)          { c.toks = append(c.toks, tok{kind: 'e', s: msg}) }
func (c *RecConn) WriteString(str string)         { c.toks = append(c.toks, tok{kind: 's', s: str}) }
func (c *RecConn) WriteBulk(b []byte)             { c.toks = append(c.toks, tok{kind: 'b', s: string(b)}) }
func (c *RecConn) WriteBulkString(b string)       { c.toks = append(c.toks, tok{kind: 'b', s: b}) }
func (c *RecConn) WriteInt(n int)                 { c.toks = append(c.toks, tok{kind: 'i', i: int64(n)}) }
func (c *RecConn) WriteInt64(n int64)             { c.toks = append(c.toks, tok{kind: 'i', i: n}) }
func (c *RecConn) WriteArray(n int)               { c.toks = append(c.toks, tok{kind: 'A', i: int64(n)}) }
func (c *RecConn) WriteNull()                     { c.toks = append(c.toks, tok{kind: 'n'}) }
func (c *RecConn) WriteRaw(data []byte)           { c.toks = append(c.toks, tok{kind: 'r', s: string(data)}) }
func (c *RecConn) Context() interface{}           { return c.ctx }
func (c *RecConn) SetContext(v interface{})       { c.ctx = v }
func (c *RecConn) SetReadBuffer(bytes int)        {}
func (c *RecConn) Detach() redcon.DetachedConn    { return nil }
func (c *RecConn) ReadPipeline() []redcon.Command { return nil }
func (c *RecConn) PeekPipeline() []redcon.Command { return nil }
func (c *RecConn) NetConn() net.Conn              { return nil }
func (c *RecConn) Flush() error                   { return nil }

// Reply parses the recorded tokens into values.
func (c *RecConn) Reply() Reply {
	r := Reply{Closed: c.closed}
	pos := 0
	var parse func(depth int) (Val, bool)
	parse = func(depth int) (Val, bool) {
		if pos >= len(c.toks) {
			return Val{}, false
		}
		t := c.toks[pos]
		pos++
		if t.kind != 'A' {
			return Val{Kind: t.kind, I: t.i, S: t.s}, true
		}
		v := Val{Kind: 'a', A: []Val{}}
		if t.i < 0 {
			return Val{Kind: 'n'}, true
		}
		for k := int64(0); k < t.i; k++ {
			x, ok := parse(depth + 1)
			if !ok {
				r.Malformed = fmt.Sprintf("array of %d announced, %d elements written", t.i, k)
				return v, true
			}
			v.A = append(v.A, x)
		}
		return v, true
	}
	for pos < len(c.toks) {
		v, ok := parse(0)
		if !ok {
			break
		}
		r.Vals = append(r.Vals, v)
	}
	return r
}

// FromWriteRsp converts what a write handler's future returned into a Reply the way
// Server.handleRedisWrite writes it to the connection.
func FromWriteRsp(v interface{}, err error) Reply {
	c := &RecConn{}
	if err != nil {
		c.WriteError(err.Error())
		return c.Reply()
	}
	switch rv := v.(type) {
	case error:
		c.WriteError(rv.Error())
	case string:
		c.WriteString(rv)
	case int64:
		c.WriteInt64(rv)
	case int:
		c.WriteInt64(int64(rv))
	case nil:
		c.WriteNull()
	case []byte:
		c.WriteBulk(rv)
	case [][]byte:
		c.WriteArray(len(rv))
		for _, d := range rv {
			c.WriteBulk(d)
		}
	default:
		c.WriteError("Invalid response type")
	}
	return c.Reply()
}
