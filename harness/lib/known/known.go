// Package known reads /verif/known_findings.json (never written at run time) and
// implements the regression-probe protocol for recorded and repaired defects.
package known

import (
	"encoding/json"
	"fmt"
	"os"
	"sync"
	"testing"
)

type Entry struct {
	Property string `json:"property"`
	ID       string `json:"id"`
	Kind     string `json:"kind"` // "known" or "fixed"
	Match    string `json:"match"`
	What     string `json:"what"`
	Commit   string `json:"commit,omitempty"`
}

var (
	once    sync.Once
	entries map[string]Entry
)

func load() {
	entries = map[string]Entry{}
	fn := os.Getenv("VERIF_KNOWN")
	if fn == "" {
		fn = "/verif/known_findings.json"
	}
	b, err := os.ReadFile(fn)
	if err != nil {
		return
	}
	var f struct {
		Findings []Entry `json:"findings"`
	}
	if err := json.Unmarshal(b, &f); err != nil {
		fmt.Fprintf(os.Stderr, "HARNESS: cannot parse %s: %v\n", fn, err)
		os.Exit(3)
	}
	for _, e := range f.Findings {
		entries[e.ID] = e
	}
}

// Active reports whether finding id is recorded as a still-open known finding, in
// which case generators exclude its trigger by construction (and count the exclusion).
func Active(id string) bool {
	once.Do(load)
	e, ok := entries[id]
	return ok && e.Kind == "known"
}

// Probe runs the exact minimal input of a finding. violates=true means the defect
// shows on the tree under test.
func Probe(t *testing.T, id string, run func() (violates bool, detail string)) {
	once.Do(load)
	v, detail := run()
	e, ok := entries[id]
	switch {
	case v && ok && e.Kind == "known":
		fmt.Printf("KNOWN-FINDING-REPRODUCES %s %s\n", id, detail)
	case v:
		t.Errorf("regression probe %s fails: %s", id, detail)
	case ok && e.Kind == "known":
		fmt.Printf("KNOWN-FINDING-GONE %s\n", id)
	}
}
