// Package gen holds the rapid generators for client commands: adversarial byte-string
// pools and a typed grammar over the documented command set.
package gen

import (
	"strconv"
	"strings"

	"pgregory.net/rapid"
)

var (
	Tables  = []string{"t", "tt", "T", "t\x00", "t0"}
	Keys    = []string{"k", "kk", "k:", ":k", "\x00", "\xff", "k\x00", "a:b:c", strings.Repeat("K", 200)}
	Members = []string{"a", "b", "ab", "", "\x00", "a\x00", "\xff", "c"}
	Values  = []string{"", "0", "-1", "1", "9223372036854775807", "-9223372036854775808", "1.5", "x", "007", " 1", strings.Repeat("v", 1024)}
	Scores  = []string{"0", "1", "-1", "2", "1.5", "2.5", "1e308", "-1e308", "3", "0.1", "1e-320", "4503599627370497.5"}
	Indexes = []string{"0", "1", "-1", "2", "-2", "3", "-3", "5", "-5", "100", "-100"}
)

// Pool is the per-case vocabulary: small, so that commands collide.
type Pool struct {
	Keys    []string // full "table:key" names
	Members []string
	Values  []string
	Scores  []string
	// options
	NoDupArgs bool // exclude repeated members/fields/keys inside one command (known finding exclusion)
	NoInf     bool // exclude infinite scores
	NoFrac    bool // exclude fractional scores
	Excluded  *int // counts cases where a drawn argument list had to be de-duplicated
}

func noNul(in []string) []string {
	var out []string
	for _, s := range in {
		if !strings.Contains(s, "\x00") {
			out = append(out, s)
		}
	}
	return out
}

// DrawPool draws the per-case vocabulary. With nulFree, names containing 0x00 are left out
// (exclusion by construction for known finding C20-mem-radix-seek-lowerbound-nul on the mem engine).
func DrawPool(t *rapid.T, nulFree bool) *Pool {
	p := &Pool{}
	nt := rapid.IntRange(1, 2).Draw(t, "ntables")
	nk := rapid.IntRange(1, 3).Draw(t, "nkeys")
	Tables, Keys, Members := Tables, Keys, Members
	if nulFree {
		Tables, Keys, Members = noNul(Tables), noNul(Keys), noNul(Members)
	}
	tabs := rapid.Permutation(Tables).Draw(t, "tables")[:nt]
	keys := rapid.Permutation(Keys).Draw(t, "keys")[:nk]
	for _, tb := range tabs {
		for _, k := range keys {
			p.Keys = append(p.Keys, tb+":"+k)
		}
	}
	p.Members = rapid.Permutation(Members).Draw(t, "members")[:rapid.IntRange(2, 5).Draw(t, "nmembers")]
	p.Values = rapid.Permutation(Values).Draw(t, "values")[:rapid.IntRange(2, 5).Draw(t, "nvalues")]
	p.Scores = rapid.Permutation(Scores).Draw(t, "scores")[:rapid.IntRange(2, 6).Draw(t, "nscores")]
	return p
}

func (p *Pool) key(t *rapid.T) string    { return rapid.SampledFrom(p.Keys).Draw(t, "key") }
func (p *Pool) member(t *rapid.T) string { return rapid.SampledFrom(p.Members).Draw(t, "member") }
func (p *Pool) value(t *rapid.T) string  { return rapid.SampledFrom(p.Values).Draw(t, "value") }
func (p *Pool) score(t *rapid.T) string {
	for i := 0; ; i++ {
		s := rapid.SampledFrom(p.Scores).Draw(t, "score")
		if p.NoInf && strings.Contains(s, "inf") && i < 8 {
			continue
		}
		if p.NoInf && strings.Contains(s, "inf") {
			return "7"
		}
		if p.NoFrac && (strings.Contains(s, ".") || strings.Contains(s, "e-")) {
			if i < 8 {
				continue
			}
			return "7"
		}
		return s
	}
}
func index(t *rapid.T) string { return rapid.SampledFrom(Indexes).Draw(t, "index") }
func smallCount(t *rapid.T) string {
	return rapid.SampledFrom([]string{"1", "2", "3", "10", "0", "-1"}).Draw(t, "count")
}

func (p *Pool) members(t *rapid.T, min, max int) []string {
	n := rapid.IntRange(min, max).Draw(t, "n")
	out := make([]string, 0, n)
	seen := map[string]bool{}
	for i := 0; i < n; i++ {
		m := p.member(t)
		if p.NoDupArgs && seen[m] {
			if p.Excluded != nil {
				*p.Excluded++
			}
			continue
		}
		seen[m] = true
		out = append(out, m)
	}
	return out
}

func (p *Pool) keysN(t *rapid.T, min, max int) []string {
	n := rapid.IntRange(min, max).Draw(t, "n")
	out := make([]string, 0, n)
	seen := map[string]bool{}
	for i := 0; i < n; i++ {
		k := p.key(t)
		if p.NoDupArgs && seen[k] {
			if p.Excluded != nil {
				*p.Excluded++
			}
			continue
		}
		seen[k] = true
		out = append(out, k)
	}
	return out
}

// finiteScore draws a score that is not an infinity.
func (p *Pool) finiteScore(t *rapid.T) string {
	for i := 0; i < 8; i++ {
		s := p.score(t)
		if !strings.Contains(s, "inf") {
			return s
		}
	}
	return "7"
}

// scoreBound draws a range bound. Grammar exclusion (listed in the evidence rule): the
// implementation accepts an infinite bound only as the literal "-inf" on the lower and
// "+inf" on the upper side and answers the inverted forms (which select nothing in Redis)
// with an error; those degenerate spellings are not generated.
func (p *Pool) scoreBound(t *rapid.T, upper bool) string {
	s := p.finiteScore(t)
	switch rapid.IntRange(0, 5).Draw(t, "bound") {
	case 0, 1:
		if upper {
			return "+inf"
		}
		return "-inf"
	case 2:
		return "(" + s
	}
	return s
}

// lexBound: same exclusion for "-" / "+".
func (p *Pool) lexBound(t *rapid.T, upper bool) string {
	switch rapid.IntRange(0, 5).Draw(t, "lexbound") {
	case 0, 1:
		if upper {
			return "+"
		}
		return "-"
	case 2, 3:
		return "[" + p.member(t)
	default:
		return "(" + p.member(t)
	}
}

// Families of the documented command set.
const (
	FamKV = 1 << iota
	FamHash
	FamList
	FamSet
	FamZSet
	FamTTL   // expire/persist/ttl variants + setex (used by C10; C08 uses far-future durations only)
	FamExtra // append/strlen (undocumented vehicles for C10)
)

type cmdGen func(t *rapid.T, p *Pool) []string

type entry struct {
	fam  int
	w    int
	name string
	g    cmdGen
}

// Durations is the TTL vocabulary; C08 replaces it by far-future values.
var FarDurations = []string{"2000000", "3000000", "100000000"}

func table(durations []string) []entry {
	dur := func(t *rapid.T) string { return rapid.SampledFrom(durations).Draw(t, "dur") }
	return []entry{
		{FamKV, 6, "set", func(t *rapid.T, p *Pool) []string { return []string{"set", p.key(t), p.value(t)} }},
		{FamKV, 2, "setopt", func(t *rapid.T, p *Pool) []string {
			c := []string{"set", p.key(t), p.value(t)}
			switch rapid.IntRange(0, 4).Draw(t, "opt") {
			case 0:
				c = append(c, "nx")
			case 1:
				c = append(c, "xx")
			case 2:
				c = append(c, "ex", dur(t))
			case 3:
				c = append(c, "ex", dur(t), "nx")
			default:
				c = append(c, "xx", "ex", dur(t))
			}
			return c
		}},
		{FamKV, 5, "get", func(t *rapid.T, p *Pool) []string { return []string{"get", p.key(t)} }},
		{FamKV, 2, "getset", func(t *rapid.T, p *Pool) []string { return []string{"getset", p.key(t), p.value(t)} }},
		{FamKV, 2, "setnx", func(t *rapid.T, p *Pool) []string { return []string{"setnx", p.key(t), p.value(t)} }},
		{FamKV, 3, "incr", func(t *rapid.T, p *Pool) []string { return []string{"incr", p.key(t)} }},
		{FamKV, 3, "incrby", func(t *rapid.T, p *Pool) []string { return []string{"incrby", p.key(t), p.value(t)} }},
		{FamKV, 4, "del", func(t *rapid.T, p *Pool) []string { return append([]string{"del"}, p.keysN(t, 1, 3)...) }},
		{FamKV, 3, "exists", func(t *rapid.T, p *Pool) []string { return append([]string{"exists"}, p.keysN(t, 1, 3)...) }},
		{FamKV, 3, "mget", func(t *rapid.T, p *Pool) []string { return append([]string{"mget"}, p.keysN(t, 1, 3)...) }},
		{FamKV | FamTTL, 2, "setex", func(t *rapid.T, p *Pool) []string { return []string{"setex", p.key(t), dur(t), p.value(t)} }},
		{FamExtra, 3, "append", func(t *rapid.T, p *Pool) []string {
			// APPEND is not in the documented command set (it is a vehicle for C10); appending the
			// empty string answers 0 without touching the key, so an empty operand is not generated
			v := p.value(t)
			if v == "" {
				v = "e"
			}
			return []string{"append", p.key(t), v}
		}},
		{FamExtra, 2, "setrange", func(t *rapid.T, p *Pool) []string {
			v := p.value(t)
			if v == "" {
				v = "e" // an empty operand answers 0 without touching the key (undocumented command)
			}
			return []string{"setrange", p.key(t), rapid.SampledFrom([]string{"0", "1", "3"}).Draw(t, "off"), v}
		}},
		{FamExtra, 1, "strlen", func(t *rapid.T, p *Pool) []string { return []string{"strlen", p.key(t)} }},

		{FamHash, 5, "hset", func(t *rapid.T, p *Pool) []string { return []string{"hset", p.key(t), p.member(t), p.value(t)} }},
		{FamHash, 2, "hsetnx", func(t *rapid.T, p *Pool) []string { return []string{"hsetnx", p.key(t), p.member(t), p.value(t)} }},
		{FamHash, 4, "hmset", func(t *rapid.T, p *Pool) []string {
			c := []string{"hmset", p.key(t)}
			for _, f := range p.members(t, 1, 4) {
				c = append(c, f, p.value(t))
			}
			if len(c) == 2 {
				c = append(c, p.member(t), p.value(t))
			}
			return c
		}},
		{FamHash, 3, "hget", func(t *rapid.T, p *Pool) []string { return []string{"hget", p.key(t), p.member(t)} }},
		{FamHash, 2, "hmget", func(t *rapid.T, p *Pool) []string {
			return append([]string{"hmget", p.key(t)}, nonEmpty(p.members(t, 1, 4), p, t)...)
		}},
		{FamHash, 4, "hdel", func(t *rapid.T, p *Pool) []string {
			return append([]string{"hdel", p.key(t)}, nonEmpty(p.members(t, 1, 3), p, t)...)
		}},
		{FamHash, 3, "hgetall", func(t *rapid.T, p *Pool) []string { return []string{"hgetall", p.key(t)} }},
		{FamHash, 1, "hkeys", func(t *rapid.T, p *Pool) []string { return []string{"hkeys", p.key(t)} }},
		{FamHash, 1, "hvals", func(t *rapid.T, p *Pool) []string { return []string{"hvals", p.key(t)} }},
		{FamHash, 2, "hexists", func(t *rapid.T, p *Pool) []string { return []string{"hexists", p.key(t), p.member(t)} }},
		{FamHash, 3, "hlen", func(t *rapid.T, p *Pool) []string { return []string{"hlen", p.key(t)} }},
		{FamHash, 3, "hincrby", func(t *rapid.T, p *Pool) []string { return []string{"hincrby", p.key(t), p.member(t), p.value(t)} }},
		{FamHash, 2, "hclear", func(t *rapid.T, p *Pool) []string { return []string{"hclear", p.key(t)} }},
		{FamHash, 2, "hkeyexist", func(t *rapid.T, p *Pool) []string { return []string{"hkeyexist", p.key(t)} }},

		{FamList, 5, "lpush", func(t *rapid.T, p *Pool) []string { return append([]string{"lpush", p.key(t)}, valuesN(t, p, 1, 3)...) }},
		{FamList, 5, "rpush", func(t *rapid.T, p *Pool) []string { return append([]string{"rpush", p.key(t)}, valuesN(t, p, 1, 3)...) }},
		{FamList, 4, "lpop", func(t *rapid.T, p *Pool) []string { return []string{"lpop", p.key(t)} }},
		{FamList, 4, "rpop", func(t *rapid.T, p *Pool) []string { return []string{"rpop", p.key(t)} }},
		{FamList, 3, "lindex", func(t *rapid.T, p *Pool) []string { return []string{"lindex", p.key(t), index(t)} }},
		{FamList, 3, "llen", func(t *rapid.T, p *Pool) []string { return []string{"llen", p.key(t)} }},
		{FamList, 4, "lrange", func(t *rapid.T, p *Pool) []string { return []string{"lrange", p.key(t), index(t), index(t)} }},
		{FamList, 3, "lset", func(t *rapid.T, p *Pool) []string { return []string{"lset", p.key(t), index(t), p.value(t)} }},
		{FamList, 4, "ltrim", func(t *rapid.T, p *Pool) []string { return []string{"ltrim", p.key(t), index(t), index(t)} }},
		{FamList, 2, "lclear", func(t *rapid.T, p *Pool) []string { return []string{"lclear", p.key(t)} }},
		{FamList, 2, "lkeyexist", func(t *rapid.T, p *Pool) []string { return []string{"lkeyexist", p.key(t)} }},

		{FamSet, 6, "sadd", func(t *rapid.T, p *Pool) []string {
			return append([]string{"sadd", p.key(t)}, nonEmpty(p.members(t, 1, 4), p, t)...)
		}},
		{FamSet, 4, "srem", func(t *rapid.T, p *Pool) []string {
			return append([]string{"srem", p.key(t)}, nonEmpty(p.members(t, 1, 3), p, t)...)
		}},
		{FamSet, 2, "spop", func(t *rapid.T, p *Pool) []string { return []string{"spop", p.key(t)} }},
		{FamSet, 2, "spopn", func(t *rapid.T, p *Pool) []string { return []string{"spop", p.key(t), smallCount(t)} }},
		{FamSet, 1, "srandmember", func(t *rapid.T, p *Pool) []string { return []string{"srandmember", p.key(t)} }},
		{FamSet, 1, "srandmembern", func(t *rapid.T, p *Pool) []string { return []string{"srandmember", p.key(t), smallCount(t)} }},
		{FamSet, 3, "scard", func(t *rapid.T, p *Pool) []string { return []string{"scard", p.key(t)} }},
		{FamSet, 2, "sismember", func(t *rapid.T, p *Pool) []string { return []string{"sismember", p.key(t), p.member(t)} }},
		{FamSet, 3, "smembers", func(t *rapid.T, p *Pool) []string { return []string{"smembers", p.key(t)} }},
		{FamSet, 2, "sclear", func(t *rapid.T, p *Pool) []string { return []string{"sclear", p.key(t)} }},
		{FamSet, 2, "skeyexist", func(t *rapid.T, p *Pool) []string { return []string{"skeyexist", p.key(t)} }},

		{FamZSet, 7, "zadd", func(t *rapid.T, p *Pool) []string {
			c := []string{"zadd", p.key(t)}
			for _, m := range nonEmpty(p.members(t, 1, 4), p, t) {
				c = append(c, p.score(t), m)
			}
			return c
		}},
		{FamZSet, 3, "zincrby", func(t *rapid.T, p *Pool) []string { return []string{"zincrby", p.key(t), p.score(t), p.member(t)} }},
		{FamZSet, 4, "zrem", func(t *rapid.T, p *Pool) []string {
			return append([]string{"zrem", p.key(t)}, nonEmpty(p.members(t, 1, 3), p, t)...)
		}},
		{FamZSet, 2, "zscore", func(t *rapid.T, p *Pool) []string { return []string{"zscore", p.key(t), p.member(t)} }},
		{FamZSet, 3, "zcard", func(t *rapid.T, p *Pool) []string { return []string{"zcard", p.key(t)} }},
		{FamZSet, 2, "zcount", func(t *rapid.T, p *Pool) []string {
			return []string{"zcount", p.key(t), p.scoreBound(t, false), p.scoreBound(t, true)}
		}},
		{FamZSet, 3, "zrange", func(t *rapid.T, p *Pool) []string {
			return maybeWS(t, []string{"zrange", p.key(t), index(t), index(t)})
		}},
		{FamZSet, 2, "zrevrange", func(t *rapid.T, p *Pool) []string {
			return maybeWS(t, []string{"zrevrange", p.key(t), index(t), index(t)})
		}},
		{FamZSet, 3, "zrangebyscore", func(t *rapid.T, p *Pool) []string {
			return maybeLimit(t, maybeWS(t, []string{"zrangebyscore", p.key(t), p.scoreBound(t, false), p.scoreBound(t, true)}))
		}},
		{FamZSet, 2, "zrevrangebyscore", func(t *rapid.T, p *Pool) []string {
			return maybeLimit(t, maybeWS(t, []string{"zrevrangebyscore", p.key(t), p.scoreBound(t, true), p.scoreBound(t, false)}))
		}},
		// whole-range queries with LIMIT: the place where offset / count handling shows on a set with several members
		{FamZSet, 1, "zrevrangebyscore", func(t *rapid.T, p *Pool) []string {
			return forceLimit(t, maybeWS(t, []string{"zrevrangebyscore", p.key(t), "+inf", "-inf"}))
		}},
		{FamZSet, 1, "zrangebyscore", func(t *rapid.T, p *Pool) []string {
			return forceLimit(t, maybeWS(t, []string{"zrangebyscore", p.key(t), "-inf", "+inf"}))
		}},
		{FamZSet, 2, "zrangebylex", func(t *rapid.T, p *Pool) []string {
			return maybeLimit(t, []string{"zrangebylex", p.key(t), p.lexBound(t, false), p.lexBound(t, true)})
		}},
		{FamZSet, 1, "zlexcount", func(t *rapid.T, p *Pool) []string {
			return []string{"zlexcount", p.key(t), p.lexBound(t, false), p.lexBound(t, true)}
		}},
		{FamZSet, 2, "zrank", func(t *rapid.T, p *Pool) []string { return []string{"zrank", p.key(t), p.member(t)} }},
		{FamZSet, 1, "zrevrank", func(t *rapid.T, p *Pool) []string { return []string{"zrevrank", p.key(t), p.member(t)} }},
		{FamZSet, 2, "zremrangebyrank", func(t *rapid.T, p *Pool) []string { return []string{"zremrangebyrank", p.key(t), index(t), index(t)} }},
		{FamZSet, 2, "zremrangebyscore", func(t *rapid.T, p *Pool) []string {
			return []string{"zremrangebyscore", p.key(t), p.scoreBound(t, false), p.scoreBound(t, true)}
		}},
		{FamZSet, 2, "zremrangebylex", func(t *rapid.T, p *Pool) []string {
			return []string{"zremrangebylex", p.key(t), p.lexBound(t, false), p.lexBound(t, true)}
		}},
		{FamZSet, 2, "zclear", func(t *rapid.T, p *Pool) []string { return []string{"zclear", p.key(t)} }},
		{FamZSet, 2, "zkeyexist", func(t *rapid.T, p *Pool) []string { return []string{"zkeyexist", p.key(t)} }},

		{FamTTL, 3, "expire", func(t *rapid.T, p *Pool) []string {
			n := rapid.SampledFrom([]string{"expire", "hexpire", "lexpire", "sexpire", "zexpire"}).Draw(t, "expcmd")
			return []string{n, p.key(t), dur(t)}
		}},
		{FamTTL, 2, "persist", func(t *rapid.T, p *Pool) []string {
			n := rapid.SampledFrom([]string{"persist", "hpersist", "lpersist", "spersist", "zpersist"}).Draw(t, "percmd")
			return []string{n, p.key(t)}
		}},
		{FamTTL, 3, "ttl", func(t *rapid.T, p *Pool) []string {
			n := rapid.SampledFrom([]string{"ttl", "httl", "lttl", "sttl", "zttl"}).Draw(t, "ttlcmd")
			return []string{n, p.key(t)}
		}},
	}
}

func nonEmpty(ms []string, p *Pool, t *rapid.T) []string {
	if len(ms) == 0 {
		return []string{p.member(t)}
	}
	return ms
}

func valuesN(t *rapid.T, p *Pool, min, max int) []string {
	n := rapid.IntRange(min, max).Draw(t, "nv")
	out := make([]string, n)
	for i := range out {
		out[i] = p.value(t)
	}
	return out
}

func maybeWS(t *rapid.T, c []string) []string {
	if rapid.Bool().Draw(t, "withscores") {
		return append(c, "withscores")
	}
	return c
}

func forceLimit(t *rapid.T, c []string) []string {
	off := rapid.SampledFrom([]string{"0", "1", "2", "3"}).Draw(t, "off")
	cnt := rapid.SampledFrom([]string{"1", "2", "-1", "-1", "10"}).Draw(t, "cnt")
	return append(c, "limit", off, cnt)
}

func maybeLimit(t *rapid.T, c []string) []string {
	if rapid.IntRange(0, 3).Draw(t, "limit") == 0 {
		off := rapid.SampledFrom([]string{"0", "1", "2", "5"}).Draw(t, "off")
		cnt := rapid.SampledFrom([]string{"1", "2", "10", "-1", "0"}).Draw(t, "cnt")
		return append(c, "limit", off, cnt)
	}
	return c
}

// Grammar is a weighted command generator over selected families.
type Grammar struct {
	ents  []entry
	total int
}

func NewGrammar(fams int, durations []string) *Grammar {
	g := &Grammar{}
	for _, e := range table(durations) {
		if e.fam&fams == e.fam {
			g.ents = append(g.ents, e)
			g.total += e.w
		}
	}
	return g
}

// Command draws one command (name in args[0], full table:key names, no namespace).
func (g *Grammar) Command(t *rapid.T, p *Pool) []string {
	x := rapid.IntRange(0, g.total-1).Draw(t, "cmd")
	for _, e := range g.ents {
		if x < e.w {
			return e.g(t, p)
		}
		x -= e.w
	}
	panic("unreachable")
}

// Quote renders a command readably.
func Quote(c []string) string {
	q := make([]string, len(c))
	for i, a := range c {
		if len(a) > 40 {
			q[i] = strconv.Quote(a[:12]) + "...(" + strconv.Itoa(len(a)) + ")"
		} else {
			q[i] = strconv.Quote(a)
		}
	}
	return strings.Join(q, " ")
}

// KeyArgs returns the positions of key arguments of a command (for namespace prefixing).
func KeyArgs(c []string) []int {
	switch c[0] {
	case "del", "exists", "mget":
		idx := make([]int, 0, len(c)-1)
		for i := 1; i < len(c); i++ {
			idx = append(idx, i)
		}
		return idx
	case "plset":
		var idx []int
		for i := 1; i < len(c); i += 2 {
			idx = append(idx, i)
		}
		return idx
	}
	if len(c) > 1 {
		return []int{1}
	}
	return nil
}

// WithNS returns the command as the client sends it: namespace prefix on every key argument.
func WithNS(ns string, c []string) []string {
	out := append([]string(nil), c...)
	for _, i := range KeyArgs(c) {
		out[i] = ns + ":" + out[i]
	}
	return out
}
