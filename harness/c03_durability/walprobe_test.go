package c03

import (
	"fmt"
	"os"
	"path/filepath"
	"testing"

	pb "github.com/youzan/ZanRedisDB/raft/raftpb"
	"github.com/youzan/ZanRedisDB/wal"
	"github.com/youzan/ZanRedisDB/wal/walpb"

	"verifharness/lib/known"
	"verifharness/lib/raftsim"
)

// C03-wal-replay-resurrects-truncated-suffix, against the REAL wal package (the
// simulator's durable record is a model of it, so the finding is reproduced on the code
// itself): a follower saved entries 6..8 of term 2; a new leader overwrites from index 6
// (Save of 6@3 - raft and raftStorage truncate 7..8), appends 7@3; the node snapshots at
// its applied index 7 (SaveSnapshot + hard state) and restarts. wal.ReadAll skips every
// entry record with an index <= the snapshot index, including the overwriting record 6@3
// whose position in the file is what truncates 7..8 - and returns the dead 8@2 as the log
// after the snapshot.
func TestKnownWalReplayStaleSuffix(t *testing.T) {
	known.Probe(t, raftsim.KnownWalResurrect, func() (bool, string) {
		dir, err := os.MkdirTemp(raftsim.ScratchRoot(), "c03-walprobe-")
		if err != nil {
			t.Fatalf("HARNESS: %v", err)
		}
		defer os.RemoveAll(dir)
		wdir := filepath.Join(dir, "wal")
		w, err := wal.Create(wdir, []byte("meta"), false)
		if err != nil {
			t.Fatalf("HARNESS: wal.Create: %v", err)
		}
		must := func(err error) {
			if err != nil {
				t.Fatalf("HARNESS: wal: %v", err)
			}
		}
		var ents []pb.Entry
		for i := uint64(1); i <= 5; i++ {
			ents = append(ents, pb.Entry{Index: i, Term: 1, Data: []byte{byte(i)}})
		}
		for i := uint64(6); i <= 8; i++ {
			ents = append(ents, pb.Entry{Index: i, Term: 2, Data: []byte{byte(i)}})
		}
		must(w.Save(pb.HardState{Term: 2, Vote: 1, Commit: 5}, ents))
		must(w.Save(pb.HardState{Term: 3, Vote: 0, Commit: 5}, []pb.Entry{{Index: 6, Term: 3, Data: []byte("new6")}})) // truncates 7..8
		must(w.Save(pb.HardState{Term: 3, Vote: 0, Commit: 7}, []pb.Entry{{Index: 7, Term: 3, Data: []byte("new7")}}))
		must(w.SaveSnapshot(walpb.Snapshot{Index: 7, Term: 3}))
		must(w.Sync())
		w.Close()

		// what a restart reads; the log is 1..7, the snapshot covers all of it
		snaps, err := wal.ValidSnapshotEntries(wdir)
		must(err)
		if len(snaps) == 0 || snaps[len(snaps)-1].Index != 7 {
			t.Fatalf("HARNESS: ValidSnapshotEntries = %v", snaps)
		}
		w2, err := wal.Open(wdir, walpb.Snapshot{Index: 7, Term: 3}, false)
		must(err)
		defer w2.Close()
		_, st, got, err := w2.ReadAll()
		must(err)
		// the simulator's model must agree with the real WAL, whatever that does
		var d raftsim.Durable
		d.Recs = append(d.Recs, raftsim.WalRec{Kind: raftsim.RecState, HS: pb.HardState{Term: 2, Vote: 1, Commit: 5}})
		for i := range ents {
			d.Recs = append(d.Recs, raftsim.WalRec{Kind: raftsim.RecEntry, Ent: ents[i]})
		}
		d.Recs = append(d.Recs, raftsim.WalRec{Kind: raftsim.RecEntry, Ent: pb.Entry{Index: 6, Term: 3}}, raftsim.WalRec{Kind: raftsim.RecState, HS: pb.HardState{Term: 3, Commit: 5}},
			raftsim.WalRec{Kind: raftsim.RecEntry, Ent: pb.Entry{Index: 7, Term: 3}}, raftsim.WalRec{Kind: raftsim.RecState, HS: pb.HardState{Term: 3, Commit: 7}},
			raftsim.WalRec{Kind: raftsim.RecSnap, Snap: pb.Snapshot{Metadata: pb.SnapshotMetadata{Index: 7, Term: 3}}})
		msn, mhs, ments, merr := d.Replay()
		if merr != nil || msn.Metadata.Index != 7 || mhs.Commit != st.Commit || mhs.Term != st.Term || len(ments) != len(got) {
			t.Fatalf("HARNESS: the simulator's durable-record model disagrees with the real WAL: model snap=%d hs=%+v ents=%d err=%v, wal hs=%+v ents=%d",
				msn.Metadata.Index, mhs, len(ments), merr, st, len(got))
		}
		for i := range got {
			if got[i].Index != ments[i].Index || got[i].Term != ments[i].Term {
				t.Fatalf("HARNESS: model and WAL disagree at %d: %+v vs %+v", i, ments[i], got[i])
			}
		}
		if len(got) != 0 {
			return true, fmt.Sprintf("log 1..5@1, 6..8@2; overwrite 6@3 (truncating 7..8), append 7@3; snapshot at 7/3; restart: wal.ReadAll returns %d entries after the snapshot, first index=%d term=%d (the entry that was truncated away), hard state %+v",
				len(got), got[0].Index, got[0].Term, st)
		}
		return false, ""
	})
}
