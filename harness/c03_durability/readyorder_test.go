package c03

// The premise of C03 - "restart with only what they had persisted before sending the messages
// of that step" - is kept by ONE function, raftNode.processReady (node/raft.go), whose step
// order lib/raftsim re-implements rather than calls. This sub-run drives the real function:
// generated Ready values go through it with a recording WAL and a recording transport, and the
// order of the externally visible steps must keep two rules for every Ready:
//
//  (1) a replica that is not the leader hands no message of a Ready to the network before
//      that Ready's hard state and entries have been saved (a MsgAppResp says "this entry is on
//      my disk", a MsgVoteResp "my vote is on my disk");
//  (2) entries that the Ready both commits and has yet to write (possible with a quorum of
//      one) are not given to the apply loop - which applies them and answers the client -
//      before they have been saved.

import (
	"fmt"
	"strings"
	"testing"

	"github.com/youzan/ZanRedisDB/node"
	"github.com/youzan/ZanRedisDB/raft"
	pb "github.com/youzan/ZanRedisDB/raft/raftpb"
	"pgregory.net/rapid"

	"verifharness/lib/stats"
)

var recReady = stats.New("ready_order", "generated raft.Ready values (hard state changes, 0-4 new entries, a committed range before / overlapping / equal to the new entries, 0-4 outgoing messages of the append / vote / heartbeat families, soft state making the node leader, follower or leaving it unchanged) through the REAL raftNode.processReady with a recording WAL and transport. Oracle: unless the Ready makes the node leader, no message is handed to the transport before the WAL save of that Ready; committed entries that the same Ready still has to write are not in the apply queue before the save. non-trivial = the Ready has something to save AND (messages to send as a non-leader OR committed entries that overlap the unsaved ones)")

type quietLogger struct{}

func (quietLogger) Output(int, string) error        { return nil }
func (quietLogger) OutputErr(int, string) error     { return nil }
func (quietLogger) OutputWarning(int, string) error { return nil }

func TestReadyOrder(t *testing.T) {
	node.SetLogger(0, quietLogger{}) // processReady logs every vote response and leader change
	rapid.Check(t, func(t *rapid.T) {
		term := uint64(rapid.IntRange(1, 5).Draw(t, "term"))
		last := uint64(rapid.IntRange(0, 6).Draw(t, "stableLast")) // last index already on disk
		var rd raft.Ready
		role := rapid.SampledFrom([]string{"none", "none", "follower", "leader", "candidate"}).Draw(t, "softstate")
		switch role {
		case "follower":
			rd.SoftState = &raft.SoftState{Lead: 2, RaftState: raft.StateFollower}
		case "leader":
			rd.SoftState = &raft.SoftState{Lead: 1, RaftState: raft.StateLeader}
		case "candidate":
			rd.SoftState = &raft.SoftState{Lead: 0, RaftState: raft.StateCandidate}
		}
		nNew := rapid.IntRange(0, 4).Draw(t, "newEntries")
		for i := 0; i < nNew; i++ {
			rd.Entries = append(rd.Entries, pb.Entry{Term: term, Index: last + 1 + uint64(i), Type: pb.EntryNormal, Data: []byte(fmt.Sprintf("e%d", last+1+uint64(i)))})
		}
		commitTo := uint64(0)
		if rapid.Bool().Draw(t, "commits") && last+uint64(nNew) > 0 {
			commitTo = uint64(rapid.IntRange(1, int(last)+nNew).Draw(t, "commitTo"))
			from := uint64(rapid.IntRange(1, int(commitTo)).Draw(t, "commitFrom"))
			for i := from; i <= commitTo; i++ {
				rd.CommittedEntries = append(rd.CommittedEntries, pb.Entry{Term: term, Index: i, Type: pb.EntryNormal, Data: []byte(fmt.Sprintf("e%d", i))})
			}
		}
		if nNew > 0 || commitTo > 0 || rapid.Bool().Draw(t, "hs") {
			rd.HardState = pb.HardState{Term: term, Vote: uint64(rapid.IntRange(0, 3).Draw(t, "vote")), Commit: commitTo}
		}
		nm := rapid.IntRange(0, 4).Draw(t, "nmsgs")
		for i := 0; i < nm; i++ {
			ty := rapid.SampledFrom([]pb.MessageType{pb.MsgAppResp, pb.MsgAppResp, pb.MsgVoteResp, pb.MsgPreVoteResp, pb.MsgHeartbeatResp, pb.MsgApp, pb.MsgVote, pb.MsgHeartbeat}).Draw(t, "mtype")
			rd.Messages = append(rd.Messages, pb.Message{Type: ty, From: 1, To: uint64(rapid.IntRange(2, 3).Draw(t, "to")), Term: term, Index: last + uint64(nNew)})
		}
		var stable []pb.Entry
		for i := uint64(1); i <= last; i++ {
			stable = append(stable, pb.Entry{Term: term, Index: i, Type: pb.EntryNormal, Data: []byte(fmt.Sprintf("e%d", i))})
		}
		ev := node.VerifProcessReady(rd, stable)
		var tl []string
		saved := false
		mustSave := !raft.IsEmptyHardState(rd.HardState) || len(rd.Entries) > 0
		becomesLeader := rd.SoftState != nil && rd.SoftState.RaftState == raft.StateLeader
		overlap := false
		if n := len(rd.CommittedEntries); n > 0 && len(rd.Entries) > 0 {
			overlap = rd.CommittedEntries[n-1].Index >= rd.Entries[0].Index
		}
		describe := func() string {
			return fmt.Sprintf("Ready{soft=%s hardstate=%+v entries=%d (from index %d) committed=%d (up to %d) messages=%d}; steps: %s", role, rd.HardState, len(rd.Entries), last+1, len(rd.CommittedEntries), commitTo, len(rd.Messages), strings.Join(tl, " -> "))
		}
		for _, e := range ev {
			s := e.Kind
			if e.Kind == "send" {
				var ms []string
				for _, m := range e.Msgs {
					ms = append(ms, m.Type.String())
				}
				s += "[" + strings.Join(ms, ",") + "]"
			}
			if e.Published {
				s += "(entries already published)"
			}
			tl = append(tl, s)
		}
		for _, e := range ev {
			switch e.Kind {
			case "wal-save":
				if overlap && e.Published {
					t.Fatalf("the Ready commits entries it still has to write, and they were in the apply queue before the WAL save: an acknowledged write can be lost by a crash here\n  %s", describe())
				}
				saved = true
			case "send":
				if mustSave && !saved && !becomesLeader {
					t.Fatalf("a replica that is not becoming leader handed messages to the network before the Ready's state was saved: the receiver counts a copy (or a vote) that a crash now makes disappear\n  %s", describe())
				}
			}
		}
		if mustSave && !saved {
			t.Fatalf("the Ready had state to save and processReady never saved it\n  %s", describe())
		}
		nt := mustSave && ((len(rd.Messages) > 0 && !becomesLeader) || overlap)
		var labels []string
		if overlap {
			labels = append(labels, "commits_entries_it_still_has_to_write")
		}
		if becomesLeader {
			labels = append(labels, "becomes_leader")
		}
		if len(rd.Messages) > 0 && !becomesLeader {
			labels = append(labels, "non_leader_with_messages")
		}
		recReady.Record(stats.HashString(describe()), nt, labels, func() interface{} { return describe() })
	})
}
