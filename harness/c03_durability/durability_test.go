package c03

// C03 - a committed entry survives any crash/restart of replicas.
// Engine A (lib/raftsim), crash-heavy profiles, all storage kinds, final heal phase.
// committed := present in G (handed out through Ready.CommittedEntries by anyone).
// Oracle:
//   (1) leader completeness: when replica i is first observed as leader of term t, its log
//       (shadow: durable record at restart, then Ready.Snapshot / Ready.Entries) holds every
//       G[k] that was handed out by a replica whose term was < t: above its snapshot position
//       with the same term and payload, at the snapshot position with the same term; and an
//       entry handed out by a replica at term T is present in every live leader of a term > T;
//   (2) differential: after restart (and after every completed step) the storage object
//       answers FirstIndex/LastIndex/Term/Entries exactly like the shadow, which after a
//       restart is what replaying the durable record gives (covers the cached first/last
//       index of RocksStorage and its overwrite-and-delete-tail append);
//   (3) after the heal phase every live member of the final configuration has been handed
//       every G[k] (entries match G at every hand-out; a snapshot may cover a prefix).
//       Not converging is a violation only if the cluster is stuck (voter majority alive,
//       nothing in flight, no state change for 20 election timeouts); running out of the
//       heal budget is counted as inconclusive.
//   (4) a vote leaves a replica only after a hard state with that term and vote is in the
//       synced part of its durable record.
//   A replica that cannot restart from its own durable record (replay error, panic in
//   RestartNode) is a violation as well.

import (
	"bytes"
	"fmt"
	"os"
	"strings"
	"testing"

	"github.com/youzan/ZanRedisDB/raft"
	pb "github.com/youzan/ZanRedisDB/raft/raftpb"
	"pgregory.net/rapid"

	"verifharness/lib/known"
	"verifharness/lib/raftsim"
	"verifharness/lib/stats"
)

func TestMain(m *testing.M) { stats.Main(m) }

const ntRule = "non-trivial = >=1 entry was committed (handed out) before a crash of a replica whose durable record held it, that replica restarted, AND a new leader term was observed after that restart"

var (
	recMem   = stats.New("crash_heavy_memory", "L2 swarm, crash-heavy (a crash point among the 9 stage boundaries incl. torn [entries..,hardstate] tail is drawn for 1-15% of all steps; crash-all and crash-a-quorum macros), raft.MemoryStorage, final heal phase; "+ntRule)
	recRocks = stats.New("crash_heavy_rocksstorage", "same on raft.RocksStorage over a mem / pebble (thorough: rocksdb) engine; at restart the engine either survived intact or is empty; differential storage check after every step; "+ntRule)
	recL3    = stats.New("l3_phases_crash", "L3 election phases with leaders crashed at drawn stages, memory and RocksStorage, final heal phase; "+ntRule)
	recL1    = stats.New("l1_uniform_crash", "L1 uniform schedules with crash points on 3% of the steps, final heal phase; "+ntRule)
)

var profMem = raftsim.Profile{Name: "c03-mem", Layer: 2, MinSteps: 40, MaxSteps: 500, StorageW: [4]int{1, 0, 0, 0},
	CrashPct: []int{1, 3, 8, 15}, MacroPct: 6, MacroW: [7]int{10, 4, 2, 1, 2, 1, 5}, MembershipPct: 45, FinalHeal: true, HealTimeouts: 60}

var profRocksQuick = raftsim.Profile{Name: "c03-rocks", Layer: 2, MinSteps: 40, MaxSteps: 400, StorageW: [4]int{0, 3, 1, 0},
	CrashPct: []int{1, 3, 8, 15}, MacroPct: 6, MacroW: [7]int{10, 4, 2, 1, 2, 1, 6}, MembershipPct: 45, FinalHeal: true, HealTimeouts: 60}

var profRocksThorough = raftsim.Profile{Name: "c03-rocks-thorough", Layer: 2, MinSteps: 40, MaxSteps: 400, StorageW: [4]int{0, 3, 3, 1},
	CrashPct: []int{1, 3, 8, 15}, MacroPct: 6, MacroW: [7]int{10, 4, 2, 1, 2, 1, 6}, MembershipPct: 45, FinalHeal: true, HealTimeouts: 60}

var profL3 = raftsim.Profile{Name: "c03-l3", Layer: 3, StorageW: [4]int{2, 1, 1, 0}, CrashPct: []int{0, 3}, MacroPct: 10,
	MacroW: [7]int{3, 0, 1, 2, 2, 0, 3}, MembershipPct: 20, MinPhases: 2, MaxPhases: 8, FinalHeal: true, HealTimeouts: 60}

var profL1 = raftsim.Profile{Name: "c03-l1", Layer: 1, MinSteps: 40, MaxSteps: 500, StorageW: [4]int{2, 1, 0, 0},
	CrashPct: []int{3}, MacroPct: 3, MacroW: [7]int{8, 1, 0, 1, 1, 0, 1}, MembershipPct: 30, FinalHeal: true, HealTimeouts: 60}

type gent struct {
	sig   raftsim.EntrySig
	data  []byte
	hterm uint64 // term of the replica that handed it out first
	who   string
	ent   pb.Entry
}

type oracle struct {
	raftsim.NopObserver
	G              map[uint64]*gent
	maxG           uint64
	shadow         map[uint64]*raftsim.Shadow
	stable         map[uint64]bool    // shadow == what the storage must hold (no crash inside the step)
	ledTerm        map[[2]uint64]bool // (replica, term) already checked
	leaders        map[uint64]bool    // terms with a leader
	curLead        map[uint64]uint64  // replica -> term it currently leads (0: none), by observation
	handed         map[uint64]uint64  // replica -> highest index handed in this incarnation
	crashedHolding map[uint64]bool    // replica crashed while its durable record held a committed entry
	restartedAt    int                // number of leader terms when such a replica restarted (-1: not yet)
	ntLeaderAfter  bool
	diffChecks     int
	completeChecks int
	restartChecks  int
}

func newOracle() *oracle {
	return &oracle{G: map[uint64]*gent{}, shadow: map[uint64]*raftsim.Shadow{}, stable: map[uint64]bool{}, ledTerm: map[[2]uint64]bool{},
		leaders: map[uint64]bool{}, curLead: map[uint64]uint64{}, handed: map[uint64]uint64{}, crashedHolding: map[uint64]bool{}, restartedAt: -1}
}

func (o *oracle) Incarnation(s *raftsim.Sim, r *raftsim.Replica, restarted bool) {
	if !restarted {
		o.shadow[r.ID] = &raftsim.Shadow{}
	}
	o.curLead[r.ID] = 0
	o.handed[r.ID] = r.App.StartIndex
	if restarted && o.crashedHolding[r.ID] && o.restartedAt < 0 {
		o.restartedAt = len(o.leaders)
	}
}

// (2) at restart: the new storage object against the replayed durable record.
func (o *oracle) StorageRebuilt(s *raftsim.Sim, r *raftsim.Replica, sn pb.Snapshot, hs pb.HardState, ents []pb.Entry) {
	sh := &raftsim.Shadow{}
	sh.Reset(sn, ents)
	o.shadow[r.ID] = sh
	o.restartChecks++
	if err := raftsim.CompareStorage(r.Store, sh, sn.Metadata.Index+1, true); err != nil {
		s.Fail("C03 (2): replica %d restarted from snapshot %d/%d + %d entries (%s), but its %s storage disagrees with the durable record: %v",
			r.ID, sn.Metadata.Index, sn.Metadata.Term, len(ents), rangeOf(ents), s.P.Storage, err)
	}
	ghs, gcs, err := r.Store.InitialState()
	if err != nil || ghs != hs {
		s.Fail("C03 (2): replica %d restarted: storage.InitialState() hard state = %+v (err %v), durable record says %+v", r.ID, ghs, err, hs)
	}
	want := raftsim.NewConfFold(sn.Metadata.ConfState.Nodes...)
	for _, l := range sn.Metadata.ConfState.Learners {
		want.Learners[l] = true
	}
	if !want.Matches(gcs) {
		s.Fail("C03 (2): replica %d restarted: storage.InitialState() conf state = %v/%v, the snapshot in the durable record says %s", r.ID, gcs.Nodes, gcs.Learners, want)
	}
	gsn, err := r.Store.Snapshot()
	if err != nil || gsn.Metadata.Index != sn.Metadata.Index || gsn.Metadata.Term != sn.Metadata.Term {
		s.Fail("C03 (2): replica %d restarted: storage.Snapshot() = %d/%d (err %v), durable record says %d/%d", r.ID, gsn.Metadata.Index, gsn.Metadata.Term, err, sn.Metadata.Index, sn.Metadata.Term)
	}
}

func rangeOf(ents []pb.Entry) string {
	if len(ents) == 0 {
		return "none"
	}
	return fmt.Sprintf("%d..%d", ents[0].Index, ents[len(ents)-1].Index)
}

func (o *oracle) Ready(s *raftsim.Sim, r *raftsim.Replica, rd *raft.Ready, before raft.VerifPeekState) {
	sh := o.shadow[r.ID]
	if !raft.IsEmptySnap(rd.Snapshot) {
		sh.ApplySnapshot(rd.Snapshot)
	}
	if err := sh.Append(rd.Entries); err != nil {
		s.Fail("C03: replica %d emitted Ready.Entries that do not continue its log: %v", r.ID, err)
	}
	o.stable[r.ID] = false
	terms := raftsim.LeaderTermsIn(r, rd)
	if rd.SoftState != nil && rd.SoftState.RaftState != raft.StateLeader {
		o.curLead[r.ID] = 0
	}
	for _, t := range terms {
		if !o.leaders[t] {
			o.leaders[t] = true
			if o.restartedAt >= 0 && len(o.leaders) > o.restartedAt {
				o.ntLeaderAfter = true
			}
		}
		if rd.SoftState != nil && rd.SoftState.RaftState == raft.StateLeader {
			o.curLead[r.ID] = t
		}
		k := [2]uint64{r.ID, t}
		if o.ledTerm[k] {
			continue
		}
		o.ledTerm[k] = true
		o.completeChecks++
		for idx, g := range o.G {
			if g.hterm >= t {
				continue
			}
			o.mustHold(s, r, sh, idx, g, t, "becomes leader")
		}
	}
}

func (o *oracle) mustHold(s *raftsim.Sim, r *raftsim.Replica, sh *raftsim.Shadow, idx uint64, g *gent, t uint64, when string) {
	if idx < sh.SnapIndex {
		return // covered by the snapshot; (index, term) of the snapshot itself is checked below when known
	}
	if idx == sh.SnapIndex {
		if sh.SnapTerm != g.sig.Term {
			s.Fail("C03 (1) leader completeness: replica %d %s of term %d; its snapshot stands at %d/%d but the entry committed at index %d (first handed out by %s at term %d) has term %d",
				r.ID, when, t, sh.SnapIndex, sh.SnapTerm, idx, g.who, g.hterm, g.sig.Term)
		}
		return
	}
	e := sh.Entry(idx)
	if e == nil {
		s.Fail("C03 (1) leader completeness: replica %d %s of term %d; its log ends at %d and lacks the entry committed at index %d {%s} (first handed out by %s at term %d)",
			r.ID, when, t, sh.Last(), idx, g.sig, g.who, g.hterm)
	}
	if raftsim.SigOf(e) != g.sig {
		s.Fail("C03 (1) leader completeness: replica %d %s of term %d; at index %d its log holds {%s} but the committed entry is {%s} (first handed out by %s at term %d)",
			r.ID, when, t, idx, raftsim.SigOf(e), g.sig, g.who, g.hterm)
	}
}

func (o *oracle) HandOut(s *raftsim.Sim, r *raftsim.Replica, sn pb.Snapshot, ents []pb.Entry) {
	if !raft.IsEmptySnap(sn) {
		m := sn.Metadata
		if g, ok := o.G[m.Index]; ok && g.sig.Term != m.Term {
			s.Fail("C03 (3): replica %d is handed a snapshot at %d/%d but the committed entry at that index has term %d", r.ID, m.Index, m.Term, g.sig.Term)
		}
		if m.Index > o.handed[r.ID] {
			o.handed[r.ID] = m.Index
		}
	}
	for i := range ents {
		e := &ents[i]
		sig := raftsim.SigOf(e)
		if g, ok := o.G[e.Index]; ok {
			if g.sig != sig || !bytes.Equal(g.data, e.Data) {
				s.Fail("C03 (3) applied unchanged: index %d was committed as {%s} (first handed out by %s) and replica %d (incarnation %d) is now handed {%s}",
					e.Index, g.sig, g.who, r.ID, r.Incarnation, sig)
			}
		} else {
			g := &gent{sig: sig, data: e.Data, hterm: r.LastHSTerm, who: fmt.Sprintf("replica %d (incarnation %d)", r.ID, r.Incarnation), ent: *e}
			o.G[e.Index] = g
			if e.Index > o.maxG {
				o.maxG = e.Index
			}
			// every live leader of a later term must already hold it
			for id, lt := range o.curLead {
				if lt > g.hterm && id != r.ID {
					if lr := s.Rep(id); lr != nil && lr.Up {
						o.mustHold(s, lr, o.shadow[id], e.Index, g, lt, "is leader")
					}
				}
			}
		}
		if e.Index == o.handed[r.ID]+1 {
			o.handed[r.ID] = e.Index
		}
	}
}

// (4) what must be durable before messages leave: a vote (MsgVote for itself, a granting
// MsgVoteResp) enters the network only after a hard state with that term and vote is in
// the synced part of the durable record (wal.Save syncs when raft.MustSync says so).
func (o *oracle) Sent(s *raftsim.Sim, r *raftsim.Replica, msgs []pb.Message) {
	for i := range msgs {
		m := &msgs[i]
		var who uint64
		switch {
		case m.Type == pb.MsgVote:
			who = r.ID
		case m.Type == pb.MsgVoteResp && !m.Reject:
			who = m.To
		default:
			continue
		}
		var hs pb.HardState
		for k := r.Disk.Synced - 1; k >= 0; k-- {
			if r.Disk.Recs[k].Kind == raftsim.RecState {
				hs = r.Disk.Recs[k].HS
				break
			}
		}
		if hs.Term < m.Term || (hs.Term == m.Term && hs.Vote != who) {
			s.Fail("C03 (4) durable before sent: replica %d sends %s (vote for %d in term %d) while the synced part of its durable record says term %d vote %d: a crash now forgets the vote",
				r.ID, m.Type, who, m.Term, hs.Term, hs.Vote)
		}
	}
}

func (o *oracle) holdsCommitted(r *raftsim.Replica) bool {
	sn, _, ents, err := r.Disk.Replay()
	if err != nil {
		return false
	}
	if sn.Metadata.Index > 0 && o.maxG > 0 {
		return true
	}
	for i := range ents {
		if g, ok := o.G[ents[i].Index]; ok && g.sig.Term == ents[i].Term {
			return true
		}
	}
	return false
}

func (o *oracle) Crashed(s *raftsim.Sim, r *raftsim.Replica, p raftsim.CrashPoint, lost []raftsim.WalRec) {
	o.curLead[r.ID] = 0
	if o.holdsCommitted(r) {
		o.crashedHolding[r.ID] = true
	}
}

func (o *oracle) SnapshotCreated(s *raftsim.Sim, r *raftsim.Replica, sn pb.Snapshot, compactTo uint64) {
	// the shadow keeps everything above its own snapshot position; nothing to forget
	o.checkStore(s, r, "after CreateSnapshot+Compact")
}

func (o *oracle) checkStore(s *raftsim.Sim, r *raftsim.Replica, when string) {
	if !r.Up || r.Store == nil {
		return
	}
	o.diffChecks++
	if err := raftsim.CompareStorage(r.Store, o.shadow[r.ID], 0, false); err != nil {
		s.Fail("C03 (2): replica %d %s: its %s storage disagrees with the log it was given (snapshot position %d, entries up to %d): %v",
			r.ID, when, s.P.Storage, o.shadow[r.ID].SnapIndex, o.shadow[r.ID].Last(), err)
	}
}

// (2) continuously: after a completed step the storage holds exactly the log.
func (o *oracle) StepDone(s *raftsim.Sim, r *raftsim.Replica) {
	// MemoryStorage is the reference implementation the shadow was written after; it is
	// compared at restart and after snapshot/compaction only
	if r.Up && s.P.Storage != raftsim.StoreMem {
		o.checkStore(s, r, "after a completed step")
	}
}

func (o *oracle) RaftPanic(s *raftsim.Sim, r *raftsim.Replica, where string, v interface{}) {
	o.curLead[r.ID] = 0
	switch where {
	case "wal.ReadAll", "replayWAL", "RestartNode":
		s.Fail("C03: replica %d cannot restart from its own durable record: %s: %v", r.ID, where, v)
	}
	// other panics are C02's business; here the replica is dead and may be restarted
}

// final configuration: fold of the conf changes of G
func (o *oracle) finalConf() (*raftsim.ConfFold, bool) {
	c := raftsim.NewConfFold()
	for i := uint64(1); i <= o.maxG; i++ {
		g, ok := o.G[i]
		if !ok {
			return c, false
		}
		if g.sig.Type == pb.EntryConfChange {
			if err := c.ApplyEntry(&g.ent); err != nil {
				return c, false
			}
		}
	}
	return c, true
}

func (o *oracle) missing(c *raftsim.Case) (who []string) {
	fc, _ := o.finalConf()
	ids := append(fc.VoterIDs(), fc.LearnerIDs()...)
	for _, id := range ids {
		r := c.S.Rep(id)
		if r == nil || r.Removed {
			continue
		}
		if !r.Up {
			who = append(who, fmt.Sprintf("replica %d is down", id))
			continue
		}
		if o.handed[id] < o.maxG {
			who = append(who, fmt.Sprintf("replica %d was handed up to %d of %d", id, o.handed[id], o.maxG))
		}
	}
	return who
}

func (o *oracle) converged(c *raftsim.Case) bool {
	if o.maxG == 0 {
		return false
	}
	if _, ok := o.finalConf(); !ok {
		return false
	}
	return len(o.missing(c)) == 0
}

// promotedLearnerDeadlock recognises the signature of C03-promoted-learner-ignores-votes
// in a stuck cluster: a live replica that is a voter of the final configuration still is a
// learner in its own applied configuration (it ignores every vote request) and no live
// replica leads. It returns that replica's id (0: signature absent).
func (o *oracle) promotedLearnerDeadlock(c *raftsim.Case) uint64 {
	fc, _ := o.finalConf()
	for _, r := range c.S.Reps {
		if r.Up && c.S.Peek(r).State == raft.StateLeader {
			return 0
		}
	}
	for _, r := range c.S.Reps {
		if r.Up && fc.Voters[r.ID] && c.S.Peek(r).IsLearner {
			return r.ID
		}
	}
	return 0
}

func labelsOf(c *raftsim.Case, o *oracle) (labels []string, nontrivial bool) {
	st := &c.S.St
	add := func(cond bool, l string) {
		if cond {
			labels = append(labels, l)
		}
	}
	add(st.Crashes > 0, "has_crash")
	add(st.Crashes >= 5, "crashes_ge5")
	add(st.Restarts > 0, "has_restart")
	add(st.TornLoss > 0, "torn_tail_loss")
	for p := raftsim.CrashPoint(1); int(p) < len(st.CrashAt); p++ {
		add(st.CrashAt[p] > 0, "crash_at_"+p.String())
	}
	add(st.CrashAt[raftsim.NoCrash] > 0, "crash_between_steps")
	add(st.EngineWiped > 0, "engine_wiped_at_restart")
	add(st.EngineKept > 0, "engine_survived_restart")
	add(st.Partitions > 0, "has_partition")
	add(st.ConfProposals > 0, "membership_change_proposed")
	add(st.SnapshotsCreated > 0, "snapshot_created")
	add(st.SnapshotsInstalled > 0, "snapshot_install")
	add(len(o.leaders) >= 2, "leader_change")
	add(len(o.crashedHolding) > 0, "crashed_holding_committed_entry")
	add(o.restartedAt >= 0, "restarted_after_holding")
	add(c.G.MacroCounts[3] > 0, "crash_all_macro")
	add(c.G.MacroCounts[4] > 0, "crash_quorum_macro")
	add(st.RaftPanics > 0, "raft_panic_seen")
	labels = append(labels, "heal_"+c.G.Heal.String(), "storage_"+strings.ReplaceAll(c.S.P.Storage.String(), "/", "_"), fmt.Sprintf("n%d", c.S.P.N))
	return labels, o.restartedAt >= 0 && o.ntLeaderAfter
}

func sample(c *raftsim.Case, o *oracle) interface{} {
	st := c.S.St
	return map[string]interface{}{
		"params": c.S.P.String(),
		"checks": fmt.Sprintf("committedMaxIndex=%d leaderTerms=%d completenessChecks=%d restartDifferentials=%d stepDifferentials=%d heal=%s after %d rounds",
			o.maxG, len(o.leaders), o.completeChecks, o.restartChecks, o.diffChecks, c.G.Heal, c.G.HealRounds),
		"counts": fmt.Sprintf("steps=%d readies=%d crashes=%d (by point %v) restarts=%d tornLoss=%d engineWiped=%d engineKept=%d proposals=%d confProposals=%d partitions=%d snapshots=%d/%d replicas=%d",
			st.Steps, st.Readies, st.Crashes, st.CrashAt, st.Restarts, st.TornLoss, st.EngineWiped, st.EngineKept, st.Proposals, st.ConfProposals, st.Partitions, st.SnapshotsCreated, st.SnapshotsInstalled, len(c.S.Reps)),
	}
}

func tier() string { return os.Getenv("VERIF_TIER") }

func knownSet() map[string]bool {
	m := map[string]bool{}
	for _, id := range append([]string{raftsim.KnownPromotedLearnerNoVote}, raftsim.KnownIDs...) {
		if known.Active(id) {
			m[id] = true
		}
	}
	return m
}

func run(t *testing.T, prof raftsim.Profile, rec *stats.Recorder) {
	ks := knownSet()
	rapid.Check(t, func(t *rapid.T) {
		var o *oracle
		raftsim.RunCase(t, prof, raftsim.CaseFuncs{
			Observers: func() []raftsim.Observer { o = newOracle(); return []raftsim.Observer{o} },
			Known:     ks,
			Converged: func(c *raftsim.Case) bool { return o.converged(c) },
			Finish: func(c *raftsim.Case) {
				switch {
				case c.G.Heal == raftsim.HealStuck && c.S.LivenessExcluded:
					rec.Count("inconclusive", 1)
					rec.Count("inconclusive_stuck_by_exclusion_of_known_finding", 1)
				case c.G.Heal == raftsim.HealStuck && ks[raftsim.KnownPromotedLearnerNoVote] && o.promotedLearnerDeadlock(c) != 0:
					rec.Count("inconclusive", 1)
					rec.Count("excluded_by_known_finding", 1)
				case c.G.Heal == raftsim.HealStuck:
					c.S.Fail("C03 (3): after the heal phase (everything restarted, partitions healed, %d rounds) the cluster is stuck: a voter majority is alive, nothing is in flight and no replica's state changed for 20 election timeouts, yet %s",
						c.G.HealRounds, strings.Join(o.missing(c), "; "))
				case c.G.Heal == raftsim.HealOutOfBudget || c.G.Heal == raftsim.HealNoQuorum:
					rec.Count("inconclusive", 1)
					rec.Count("inconclusive_"+c.G.Heal.String(), 1)
				}
				labels, nt := labelsOf(c, o)
				if c.S.St.ExcludedKnown > 0 {
					rec.Count("excluded_by_known_finding", int64(c.S.St.ExcludedKnown))
				}
				rec.Count("sum_steps", int64(c.S.St.Steps))
				rec.Count("sum_readies", int64(c.S.St.Readies))
				rec.Count("sum_crashes", int64(c.S.St.Crashes))
				rec.Count("sum_restarts", int64(c.S.St.Restarts))
				rec.Record(c.S.TraceHash(), nt, labels, func() interface{} { return sample(c, o) })
			},
		})
	})
}

func TestDurabilityMemory(t *testing.T) { run(t, profMem, recMem) }
func TestDurabilityRocks(t *testing.T) {
	if tier() == "thorough" {
		run(t, profRocksThorough, recRocks)
	} else {
		run(t, profRocksQuick, recRocks)
	}
}
func TestDurabilityL3(t *testing.T) { run(t, profL3, recL3) }
func TestDurabilityL1(t *testing.T) { run(t, profL1, recL1) }

// ---- regression probes of the findings recorded for this property ----

func firstLine(s string) string {
	if i := strings.IndexByte(s, '\n'); i >= 0 {
		return s[:i]
	}
	return s
}

func probeResult(t *testing.T, msg string) (bool, string) {
	if strings.HasPrefix(msg, "HARNESS:") {
		t.Fatalf("%s", msg)
	}
	if msg != "" {
		return true, firstLine(msg)
	}
	return false, ""
}

// C03-single-voter-apply-before-wal: a group with one voter. The leader appends a
// proposal and commits it in the same step (quorum 1); processReady publishes the
// committed entry to the apply side BEFORE persistRaftState writes it to the WAL. The
// process dies in between, restarts without the entry, leads again and commits a
// different entry at the same index.
func TestKnownSingleVoterWindow(t *testing.T) {
	known.Probe(t, raftsim.KnownSingleVoterWindow, func() (bool, string) {
		return probeResult(t, raftsim.Scripted(func(ct *raftsim.CollectT) {
			p := raftsim.Params{N: 1, ElectionTick: 3, HeartbeatTick: 1, MaxSizePerMsg: 1 << 20, MaxCommittedSize: 1 << 40, MaxInflight: 8,
				Storage: raftsim.StoreMem, Seed: 1, KeepLastAppResp: true, RealCtor: true}
			s := raftsim.New(ct, p, newOracle())
			defer s.Close()
			r1 := s.Rep(1)
			s.FullStep(r1)
			s.Campaign(r1)
			s.FullStep(r1) // leader of term 2, entries 1..2 durable
			s.Propose(r1, 8)
			s.Step(r1, true, false, raftsim.CrashAfterPublish, nil) // entry 3 handed to the apply side, not in the WAL
			s.Restart(r1, false)
			s.FullStep(r1)
			s.Campaign(r1)
			s.FullStep(r1) // leader of term 3: its empty entry takes index 3
		}))
	})
}

// C03-restarted-learner-refuses-snapshot: voter 1 leads; learner 2 joins, receives entry
// 1 ("add node 1") only, persists it with commit index 1 and dies. The leader goes on,
// snapshots and compacts. Replica 2 restarts: its configuration, rebuilt from its
// committed prefix, is {voters: 1}, isLearner == false; every MsgSnap (which lists 2 as
// learner) is refused by raft.restore ("can't become learner when restores snapshot"),
// the leader has nothing else to offer: 2 never applies the committed entries.
func TestKnownLearnerRefusesSnapshot(t *testing.T) {
	known.Probe(t, raftsim.KnownLearnerSnapshot, func() (bool, string) {
		return probeResult(t, raftsim.Scripted(func(ct *raftsim.CollectT) {
			p := raftsim.Params{N: 1, ElectionTick: 3, HeartbeatTick: 1, MaxSizePerMsg: 0, MaxCommittedSize: 1 << 40, MaxInflight: 8,
				Storage: raftsim.StoreMem, Seed: 1, KeepLastAppResp: true, RealCtor: true}
			o := newOracle()
			s := raftsim.New(ct, p, o)
			defer s.Close()
			r1 := s.Rep(1)
			s.FullStep(r1)
			s.Campaign(r1)
			s.FullStep(r1)
			r2 := s.AddReplica(true)
			s.FullStep(r2)
			s.ProposeConf(r1, pb.ConfChangeAddLearnerNode, 2)
			s.FullStep(r1)
			// feed 2 until it has applied entry 1, no further
			for i := 0; i < 40 && r2.App.Applied < 1; i++ {
				s.Tick(r1)
				s.FullStep(r1)
				s.Settle(50, nil, func() bool { return r2.App.Applied >= 1 })
			}
			if r2.App.Applied != 1 {
				ct.Fatalf("HARNESS: probe could not bring the learner to applied index 1 (is %d)", r2.App.Applied)
			}
			s.Crash(r2, nil)
			s.DropAll(nil)
			for i := 0; i < 3; i++ {
				s.Propose(r1, 8)
				s.FullStep(r1)
			}
			if !s.Snapshot(r1, 0) {
				ct.Fatalf("HARNESS: probe could not snapshot the leader")
			}
			g := raftsim.NewGen(s, &raftsim.TapeChooser{}, raftsim.Profile{CrashPct: []int{0}, HealTimeouts: 40})
			c := &raftsim.Case{S: s, G: g}
			g.HealPhase(func() bool { return o.converged(c) })
			if g.Heal == raftsim.HealStuck {
				s.Fail("C03 (3): stuck after heal: %s", strings.Join(o.missing(c), "; "))
			}
		}))
	})
}

// C03-rocksstorage-stale-tail-after-snapshot, at the storage API: a RocksStorage that
// holds entries above index i is given ApplySnapshot(i) - what processReady does when
// raft restored a snapshot under a longer, conflicting log. MemoryStorage drops the
// log; RocksStorage keeps the entries above i and reports them through LastIndex /
// Term / Entries (raftLog then believes in them: votes, appends and hands them out).
func TestKnownRocksStaleTail(t *testing.T) {
	known.Probe(t, raftsim.KnownRocksStaleTail, func() (bool, string) {
		for _, kind := range []raftsim.StorageKind{raftsim.StoreRocksMem, raftsim.StoreRocksPebble} {
			st, closeFn, err := raftsim.NewProbeStorage(kind)
			if err != nil {
				t.Fatalf("HARNESS: %v", err)
			}
			var ents []pb.Entry
			for i := uint64(1); i <= 8; i++ {
				ents = append(ents, pb.Entry{Index: i, Term: 2, Data: []byte{byte(i)}})
			}
			st.Append(ents)
			sn := pb.Snapshot{Metadata: pb.SnapshotMetadata{Index: 5, Term: 3}}
			st.ApplySnapshot(sn)
			sh := &raftsim.Shadow{}
			sh.ApplySnapshot(sn)
			derr := raftsim.CompareStorage(st, sh, 6, true)
			closeFn()
			if derr != nil {
				return true, fmt.Sprintf("RocksStorage over %s: entries 1..8 (term 2), then ApplySnapshot(index 5, term 3): %v", kind, derr)
			}
		}
		return false, ""
	})
}

// C03-promoted-learner-ignores-votes: voter 1 leads alone, adds learner 2 and promotes it
// (both changes commit with quorum 1 before 2 has received anything). Replica 1
// restarts: its configuration is {1,2}, it needs 2's vote; 2 still is a learner in its own
// configuration and ignores Msg(Pre)Vote ("learner can not vote"), so nobody can ever be
// elected and 2 never gets the log.
func TestKnownPromotedLearnerIgnoresVotes(t *testing.T) {
	known.Probe(t, raftsim.KnownPromotedLearnerNoVote, func() (bool, string) {
		return probeResult(t, raftsim.Scripted(func(ct *raftsim.CollectT) {
			p := raftsim.Params{N: 1, ElectionTick: 3, HeartbeatTick: 1, MaxSizePerMsg: 1 << 20, MaxCommittedSize: 1 << 40, MaxInflight: 8,
				Storage: raftsim.StoreMem, Seed: 1, KeepLastAppResp: true, RealCtor: true, PreVote: true, CheckQuorum: true}
			o := newOracle()
			s := raftsim.New(ct, p, o)
			defer s.Close()
			r1 := s.Rep(1)
			s.FullStep(r1)
			s.Campaign(r1)
			s.FullStep(r1)
			r2 := s.AddReplica(true)
			s.FullStep(r2)
			s.ProposeConf(r1, pb.ConfChangeAddLearnerNode, 2)
			s.FullStep(r1)
			s.ProposeConf(r1, pb.ConfChangeAddNode, 2) // promotion; commits at once: 1 is still the only voter it needs
			s.FullStep(r1)
			s.DropAll(nil) // nothing reached 2
			s.Crash(r1, nil)
			g := raftsim.NewGen(s, &raftsim.TapeChooser{}, raftsim.Profile{CrashPct: []int{0}, HealTimeouts: 40})
			c := &raftsim.Case{S: s, G: g}
			g.HealPhase(func() bool { return o.converged(c) })
			if g.Heal == raftsim.HealStuck {
				s.Fail("C03 (3): stuck after heal: %s; replica %d is a voter of the committed configuration but a learner in its own and ignores vote requests", strings.Join(o.missing(c), "; "), o.promotedLearnerDeadlock(c))
			}
		}))
	})
}
