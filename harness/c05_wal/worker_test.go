package c05

// The WAL worker: the test binary re-executes itself (VERIF_C05_WORKER=<script.json>)
// under strace. The worker performs the scripted sequence of real WAL API calls and
// writes a marker line to stderr (one write(2) system call, hence totally ordered with
// the WAL's own system calls in the same trace) after every API return. It never
// reports offsets or sync points: those are taken from the observed system calls.

import (
	"encoding/json"
	"fmt"
	"os"
	"syscall"

	"github.com/youzan/ZanRedisDB/raft/raftpb"
	"github.com/youzan/ZanRedisDB/wal"
	"github.com/youzan/ZanRedisDB/wal/walpb"
)

type entSpec struct {
	Index     uint64 `json:"i"`
	Term      uint64 `json:"t"`
	Type      int32  `json:"ty,omitempty"`
	ID        uint64 `json:"id,omitempty"`
	DataType  int32  `json:"dt,omitempty"`
	Timestamp int64  `json:"ts,omitempty"`
	Size      int    `json:"n"`
	Kind      int    `json:"k,omitempty"` // payload pattern
	Seed      byte   `json:"s,omitempty"`
}

type hsSpec struct {
	Term   uint64 `json:"term"`
	Vote   uint64 `json:"vote"`
	Commit uint64 `json:"commit"`
}

// op kinds: create, save, snap, sync, release, reopen (Close + production open), close
type opSpec struct {
	K    string    `json:"k"`
	Meta []byte    `json:"meta,omitempty"`
	Opt  bool      `json:"opt,omitempty"`
	Seg  int64     `json:"seg,omitempty"`
	St   *hsSpec   `json:"st,omitempty"`
	Ents []entSpec `json:"ents,omitempty"`
	Idx  uint64    `json:"idx,omitempty"`
	Term uint64    `json:"term,omitempty"`
	// Fill (save with entries only): the worker resizes the payload of the LAST entry so that the
	// Save ends about *Fill bytes before the segment boundary (negative: that far beyond it, which
	// rolls the segment). The size it chose is reported back (workerOut.Sized) and patched into the
	// op before the history is modelled.
	Fill *int `json:"fill,omitempty"`
}

type scriptSpec struct {
	Dir string   `json:"dir"`
	Out string   `json:"out"`
	Ops []opSpec `json:"ops"`
}

type readResult struct {
	Op    int      `json:"op"`
	Err   string   `json:"err,omitempty"`
	Meta  string   `json:"meta"`
	State string   `json:"state"`
	Ents  []string `json:"ents"`
}

type workerOut struct {
	Reads []readResult `json:"reads"`
	Done  bool         `json:"done"`
	Sized map[int]int  `json:"sized,omitempty"` // op index -> payload size chosen for a Fill save
}

// frameBytes is the size of the WAL frame of one entry record (length field, record, padding);
// the crc varint is taken at its longest, so the true frame is up to 4 bytes shorter.
func frameBytes(e raftpb.Entry) int64 {
	d, _ := e.Marshal()
	r := walpb.Record{Type: 2, Crc: 0xffffffff, Data: d}
	n := r.Size()
	return int64(8 + n + (8-n%8)%8)
}

// payload builds the data of an entry deterministically from its spec.
// kind 0: byte pattern without long zero runs; 1: all zero (interacts with the
// zero-sector torn-write heuristic); 2: all 0xff; 3: pseudo-random (LCG);
// 4: pattern with a zero-filled middle third.
func payload(n, kind int, seed byte) []byte {
	if n <= 0 {
		if kind == 1 {
			return nil
		}
		return []byte{}
	}
	b := make([]byte, n)
	switch kind {
	case 1:
	case 2:
		for i := range b {
			b[i] = 0xff
		}
	case 3:
		x := uint32(seed)*2654435761 + 12345
		for i := range b {
			x = x*1664525 + 1013904223
			b[i] = byte(x >> 24)
		}
	case 4:
		for i := range b {
			if i < n/3 || i >= 2*n/3 {
				b[i] = byte(i)*3 + seed | 1
			}
		}
	default:
		for i := range b {
			b[i] = (byte(i)*7 + byte(i>>8) + seed) | 1
		}
	}
	return b
}

func (e entSpec) entry() raftpb.Entry {
	return raftpb.Entry{Type: raftpb.EntryType(e.Type), Term: e.Term, Index: e.Index, ID: e.ID, DataType: e.DataType,
		Timestamp: e.Timestamp, Data: payload(e.Size, e.Kind, e.Seed)}
}

func (h *hsSpec) hardState() raftpb.HardState {
	if h == nil {
		return raftpb.HardState{}
	}
	return raftpb.HardState{Term: h.Term, Vote: h.Vote, Commit: h.Commit}
}

func marker(s string) {
	b := []byte("@@C05 " + s + "\n")
	for len(b) > 0 {
		n, err := syscall.Write(2, b)
		if err != nil {
			if err == syscall.EINTR {
				continue
			}
			os.Exit(97)
		}
		b = b[n:]
	}
}

// openProduction is the sequence node/raft.go openWAL performs for an existing WAL
// directory: Open -> ReadAll; on any error Close, Repair once, and try again.
func openProduction(dir string, snap walpb.Snapshot, opt bool) (w *wal.WAL, meta []byte, st raftpb.HardState, ents []raftpb.Entry, repaired bool, err error) {
	for {
		w, err = wal.Open(dir, snap, opt)
		if err != nil {
			return nil, nil, st, nil, repaired, err
		}
		meta, st, ents, err = w.ReadAll()
		if err != nil {
			w.Close()
			if repaired {
				return nil, nil, st, nil, repaired, err
			}
			if !wal.Repair(dir) {
				return nil, nil, st, nil, repaired, err
			}
			repaired = true
			continue
		}
		return w, meta, st, ents, repaired, nil
	}
}

func workerMain(path string) {
	b, err := os.ReadFile(path)
	if err != nil {
		fmt.Fprintln(os.Stderr, "worker: cannot read script:", err)
		os.Exit(98)
	}
	var sc scriptSpec
	if err := json.Unmarshal(b, &sc); err != nil {
		fmt.Fprintln(os.Stderr, "worker: bad script:", err)
		os.Exit(98)
	}
	wal.VerifQuietLog()
	var out workerOut
	flush := func() {
		ob, _ := json.Marshal(&out)
		os.WriteFile(sc.Out, ob, 0644)
	}
	var w *wal.WAL
	opt := false
	marker("start")
	for i, o := range sc.Ops {
		var err error
		switch o.K {
		case "create":
			wal.SegmentSizeBytes = o.Seg
			opt = o.Opt
			w, err = wal.Create(sc.Dir, o.Meta, o.Opt)
		case "save":
			if o.Fill != nil && len(o.Ents) > 0 {
				if off := w.VerifTailOffset(); off >= 0 {
					// bytes this Save may add before it ends *Fill short of the boundary
					room := wal.SegmentSizeBytes - off - int64(*o.Fill)
					if o.St != nil {
						room -= 24 // the hard-state record that follows the entries
					}
					last := len(o.Ents) - 1
					for k := 0; k < last; k++ {
						room -= frameBytes(o.Ents[k].entry())
					}
					le := o.Ents[last]
					le.Size = 0
					size := room - frameBytes(le.entry())
					for it := 0; it < 3 && size > 0; it++ {
						le.Size = int(size)
						size += room - frameBytes(le.entry())
					}
					if size < 0 {
						size = 0
					}
					if size > 3*wal.SegmentSizeBytes {
						size = 3 * wal.SegmentSizeBytes
					}
					sc.Ops[i].Ents[last].Size = int(size)
					o = sc.Ops[i]
					if out.Sized == nil {
						out.Sized = map[int]int{}
					}
					out.Sized[i] = int(size)
				}
			}
			ents := make([]raftpb.Entry, len(o.Ents))
			for k := range o.Ents {
				ents[k] = o.Ents[k].entry()
			}
			err = w.Save(o.St.hardState(), ents)
		case "snap":
			err = w.SaveSnapshot(walpb.Snapshot{Index: o.Idx, Term: o.Term})
		case "sync":
			err = w.Sync()
		case "release":
			err = w.ReleaseLockTo(o.Idx)
		case "close":
			err = w.Close()
			w = nil
		case "reopen":
			err = w.Close()
			w = nil
			if err != nil {
				break
			}
			marker(fmt.Sprintf("%d.closed", i))
			var meta []byte
			var st raftpb.HardState
			var ents []raftpb.Entry
			w, meta, st, ents, _, err = openProduction(sc.Dir, walpb.Snapshot{Index: o.Idx, Term: o.Term}, opt)
			rr := readResult{Op: i}
			if err != nil {
				rr.Err = err.Error()
			} else {
				rr.Meta, rr.State, rr.Ents = canonMeta(meta), canonState(st), canonEnts(ents)
			}
			out.Reads = append(out.Reads, rr)
		default:
			err = fmt.Errorf("unknown op %q", o.K)
		}
		if err != nil {
			marker(fmt.Sprintf("%d err %s", i, err))
			flush()
			os.Exit(0)
		}
		marker(fmt.Sprintf("%d ok", i))
	}
	// no Close: the process just ends, as in a crash; what reached the files is what
	// the system calls wrote.
	out.Done = true
	flush()
	os.Exit(0)
}
